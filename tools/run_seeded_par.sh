#!/bin/bash
# tools/run_seeded_par.sh [pattern] [jobs] : like run_seeded.sh, several seeded changes at a time (each in its own worktree)
cd /verif
export RESULTS=${RESULTS:-seeded/RESULTS.tsv}
ls -d seeded/${1:-C}*/ | xargs -P ${2:-4} -I{} bash -c '
  d={}; n=$(basename $d); P=${n%%-*}
  [ -f $d/patch.diff ] || exit 0
  t0=$(date +%s)
  full=$(tools/mutant_test.sh $P $d/patch.diff 2>&1)
  out=$(echo "$full" | tail -1)
  why=$(echo "$full" | grep -m1 "^VIOLATION" | sed "s/^[^#]*# *//" | tr "\t" " " | cut -c1-220)
  echo -e "$(date +%H:%M)\t$P\t$n\t$out\t$(( $(date +%s) - t0 ))s\t$why" >> $RESULTS'
