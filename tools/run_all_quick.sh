#!/bin/bash
# refresh every claimed check's evidence on /repo (quick tier); prints one line per check
cd /verif
for p in $(python3 -c "import json;print(' '.join(c['property_id'] for c in json.load(open('MANIFEST.json'))['checks']))"); do
  out=$(./check $p --tier quick --seed ${VERIF_SEED:-1} 2>&1); rc=$?
  echo "rc=$rc $(echo "$out" | grep -E 'tier=quick|INFRA|VIOLATION' | tail -1 | cut -c1-200)"
done
