#!/usr/bin/env python3
"""Regenerates /verif/MANIFEST.json from tools/manifest_data.py and validates it."""
import json, os, sys
sys.path.insert(0, os.path.dirname(os.path.abspath(__file__)))
from manifest_data import CHECKS, NOT_APPLICABLE, HOOK_COMMITS, NOTES
ROOT = os.path.dirname(os.path.dirname(os.path.abspath(__file__)))
props = [json.loads(l)["id"] for l in open(os.path.join(ROOT, "properties.jsonl"))]
checks = []
for pid in props:
    if pid not in CHECKS:
        continue
    c = CHECKS[pid]
    checks.append({
        "property_id": pid,
        "quick_cmd": "./check %s --tier quick" % pid,
        "thorough_cmd": "./check %s --tier thorough" % pid,
        "evidence_file": "/verif/evidence/%s.json" % pid,
        "replay_cmd_template": "./check %s --replay {path}" % pid,
        "engine": c.get("engine", "tlc+go-harness"),
        "level_claimed": {"category": c.get("level", "model_checking"), "text": c["text"], "design_ref": c.get("design_ref", "DESIGN.md §3 " + pid)},
        "level_note": c["note"],
        "technique": c["technique"],
    })
na = [{"property_id": p, "reason": NOT_APPLICABLE.get(p, "check not built yet in this round (planned, see DESIGN.md §3); not claimed")}
      for p in props if p not in CHECKS]
m = {
    "version": 1,
    "setup_cmd": "./setup.sh",
    "hooks": {"guard": "verif", "enable": "go build -tags verif (harness module replaces github.com/paulmach/osm => /repo)",
              "baseline_off_cmd": "cd /repo && GOFLAGS=-mod=mod GOPROXY=off GOSUMDB=off go test -mod=mod -json -vet=off -count=1 -timeout 25m ./...",
              "source_commits": HOOK_COMMITS, "add_only": True},
    "engines": [
        {"name": "tlc+go-harness", "path": "/verif/check", "serves_properties": [c["property_id"] for c in checks],
         "kind_free_text": "TLA+ specs under spec/ (Model, Judge, input space) checked/enumerated by TLC 1.8.0; Go harness under harness/ renders abstract cases for the real API of /repo and records results; TLC judges the recorded lines / validates recorded traces"}],
    "checks": checks,
    "not_applicable": na,
    "notes": NOTES,
}
json.dump(m, open(os.path.join(ROOT, "MANIFEST.json"), "w"), indent=1)
try:
    import jsonschema
    jsonschema.validate(m, json.load(open("/root/.vp/MANIFEST.schema.json")))
    for c in checks:
        p = c["evidence_file"]
        if os.path.exists(p):
            jsonschema.validate(json.load(open(p)), json.load(open("/root/.vp/EVIDENCE.schema.json")))
    print("MANIFEST.json valid: %d checks, %d not claimed" % (len(checks), len(na)))
except ImportError:
    print("jsonschema not available; wrote MANIFEST.json unvalidated")
