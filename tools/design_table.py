#!/usr/bin/env python3
"""tools/design_table.py [thorough.log] : the table of DESIGN.md section 8 from the committed quick evidence files and, if given,
the summary lines ("Cxx tier=thorough ... wall=") of a thorough sweep."""
import json, re, sys, glob
th = {}
if len(sys.argv) > 1:
    for l in open(sys.argv[1]):
        m = re.match(r"(C\d\d) tier=thorough seed=\d+: states=(\d+) evaluations=(\d+) judged=(\d+) traces=(\d+) .* wall=([\d.]+)s", l)
        if m:
            th[m.group(1)] = m.groups()[1:]
f = lambda n: "{:,}".format(int(n)) if int(n) else "–"
print("| Prop | quick: states | real runs | judged by TLC | traces | wall | thorough: states / real runs / traces / wall |")
print("|------|--------------|-----------|---------------|--------|------|------------------------------------------------|")
for p in sorted(glob.glob("/verif/evidence/C*.json")):
    e = json.load(open(p)); c = e["coverage"]; pid = e["property_id"]
    t = th.get(pid)
    tcol = "%s / %s / %s / %.0f s" % (f(t[0]), f(t[1]), f(t[3]), float(t[4])) if t else "see notes"
    print("| %s | %s | %s | %s | %s | %.0f s | %s |" % (pid, f(c["states"]), f(c["evaluations"]), f(c["judged_by_tlc"]),
          f(c["traces_validated_against_impl"]), e["wall_s"], tcol))
