HOOK_COMMITS = ["656d28a"]
NOTES = ("Every check: TLC enumerates / model-checks the TLA+ spec, a neutral Go harness runs the real code of /repo's working tree "
         "on the generated cases (or records traces), and a TLA+ Judge evaluated by TLC is the only oracle. exit 2 = infrastructure problem.")
NOT_APPLICABLE = {}
PBF_NOTE = ("Trusts: the hook placement (one Model action between two yield points; local work only in between), the "
            "deterministic scheduler's enabledness rules (Go channel semantics), the independent mini PBF writer, TLC. "
            "Exhaustive only within the stated constants; larger decoder counts and files are sampled.")
CHECKS = {
 "C02": dict(
    technique="TLC model checking of PbfPipeline.tla (all interleavings) + forced replay of TLC behaviours and trace validation of scheduler-recorded runs of the real goroutines (PbfTrace.tla) + RunOK history judge; race detector under jitter",
    text="Design level: TLC explores every interleaving of reader, N workers, serializer and consumer for N<=3 (4 thorough), queue capacities 0..2(3), 3-5 blocks incl. empty/damaged ones, and checks OrderInv/CompleteInv. Code level: behaviours sampled from the Model are forced step by step through the real goroutines by a token-passing scheduler built on the verif hooks, random-walk schedules (N up to 11/32) are recorded and validated event by event against the Model, and every run's API history is judged by the TLA+ operator RunOK. The data-race clause is decided by the Go race detector on jitter-perturbed runs of the same files.",
    note=PBF_NOTE),
 "C06": dict(
    level="fault_enumeration",
    technique="fault enumeration driven by PbfPipeline.tla: every byte offset cut + 42 damage classes x block positions x decoder counts, each scan in a child process, judged by TLC (RunOK); error ordering model-checked for all interleavings",
    text="Every byte offset of generated files is cut and classified structurally (k complete blocks, boundary or not, header intact or not); every damage class the property names is applied at every block position; each case runs the real scanner in a child process so a panic in a library goroutine is observed as outcome 'crash'. TLC judges delivered prefix, nil/non-nil Err and outcome. The Model shows that error pairs cannot overtake data for any interleaving.",
    note=PBF_NOTE + " Damage the format does not let a reader detect is outside the property."),
 "C07": dict(
    technique="TLC model checking of PbfPipeline.tla with Close/cancel at every point incl. liveness (CloseReturns, AllExit) + PbfRace.tla access-level model + trace validation of scheduler runs with scripted/random stops + RunOK history judge; race detector with cancel from a second goroutine",
    text="Design level: Close and external cancel are enabled at every state of the pipeline Model; TLC checks ReadAheadInv, ErrPrecedenceInv, LaterScansFalse and, under fairness, that Close returns and all goroutines exit; the three deviations of the pinned code are each shown to violate a Judge (non-vacuity). Code level: call histories Header? Scan^k (Close|cancel) (Scan|Err|Close)^<=3 from the spec are run under the deterministic scheduler with an external cancel injected at random steps, validated against PbfTrace and judged by RunOK (later scans false, Err precedence, read-ahead, termination, no leaked goroutine); real-concurrency runs with a cancelling goroutine run under the race detector.",
    note=PBF_NOTE + " The XML scanner half is covered by the XmlScan trace validation of C03's machinery when present."),
 "C09": dict(
    technique="TLC model checking of OffsetInv on PbfPipeline.tla + resume scans at every reported offset of every configuration, judged by TLC (RunOK clauses offsets/resume); offsets bound to the Model in validated traces",
    text="Design level: OffsetInv (current/previous offset as a function of the block of the last returned object, empty blocks included) for every interleaving, and CompleteInv for header-less configurations (the resume theorem). Code level: for every configuration and decoder count the real scanner is scanned fully, the offsets after every Scan are recorded, and a second scanner is opened at every distinct reported offset; TLC judges that it yields exactly the remaining objects.",
    note=PBF_NOTE),
 "C18": dict(
    technique="TLC enumerates PolygonRules.tla's tag space exhaustively; real Way.Polygon/Relation.Polygon results judged by TLC against the TLA+ rule table",
    text="Exhaustive over the finite input space defined in PolygonRules.tla (every rule key x every listed/unlisted/empty/'no' value x area classes x closed/length preconditions, all key pairs in the thorough tier): every case is executed on the real code and compared by TLC with the TLA+ transcription of the published table. Right level because the property is a finite table lookup whose failure modes (unsorted list, edited entry, swapped branch) are value-specific.",
    note="Trusts the hand transcription of the published polygon-features table in PolygonRules.tla; empty value == absent tag; unique tag keys."),
}
