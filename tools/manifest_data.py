HOOK_COMMITS = []
NOTES = ("Every check: TLC enumerates / model-checks the TLA+ spec, a neutral Go harness runs the real code of /repo's working tree "
         "on the generated cases (or records traces), and a TLA+ Judge evaluated by TLC is the only oracle. exit 2 = infrastructure problem.")
NOT_APPLICABLE = {}
CHECKS = {
 "C18": dict(
    technique="TLC enumerates PolygonRules.tla's tag space exhaustively; real Way.Polygon/Relation.Polygon results judged by TLC against the TLA+ rule table",
    text="Exhaustive over the finite input space defined in PolygonRules.tla (every rule key x every listed/unlisted/empty/'no' value x area classes x closed/length preconditions, all key pairs in the thorough tier): every case is executed on the real code and compared by TLC with the TLA+ transcription of the published table. Right level because the property is a finite table lookup whose failure modes (unsorted list, edited entry, swapped branch) are value-specific.",
    note="Trusts the hand transcription of the published polygon-features table in PolygonRules.tla; empty value == absent tag; unique tag keys."),
}
