#!/bin/bash
# verify second-round seeds in /tmp/seed2-<Cxx>: same as seed_verify.py but from the seed2 worktree, stored as seeded/<Cxx>-r2-<name>
P=$1
sed "s|/tmp/seed-%s|/tmp/seed2-%s|; s|/verif/seeded/%s-%s|/verif/seeded/%s-r2-%s|" /verif/tools/seed_verify.py > /tmp/seed_verify2.py
python3 /tmp/seed_verify2.py $P
