#!/usr/bin/env python3
"""tools/update_design.py : paste the generated seeded matrix (seeded/MATRIX_compact.md) between the MATRIX markers of DESIGN.md."""
import re
p = "/verif/DESIGN.md"; s = open(p).read()
m = open("/verif/seeded/MATRIX_compact.md").read()
s = re.sub(r"<!-- MATRIX-BEGIN -->.*?<!-- MATRIX-END -->", lambda _: "<!-- MATRIX-BEGIN -->\n" + m + "<!-- MATRIX-END -->", s, flags=re.S)
import subprocess, sys
t = subprocess.run([sys.executable, "/verif/tools/design_table.py", "/verif/notes/thorough_sweep_seed4.log"], capture_output=True, text=True).stdout
s = re.sub(r"<!-- TABLE8-BEGIN -->.*?<!-- TABLE8-END -->", lambda _: "<!-- TABLE8-BEGIN -->\n" + t + "<!-- TABLE8-END -->", s, flags=re.S)
open(p, "w").write(s)
