#!/usr/bin/env python3
"""tools/update_design.py : paste the generated seeded matrix (seeded/MATRIX_compact.md) between the MATRIX markers of DESIGN.md."""
import re
p = "/verif/DESIGN.md"; s = open(p).read()
m = open("/verif/seeded/MATRIX_compact.md").read()
s = re.sub(r"<!-- MATRIX-BEGIN -->.*?<!-- MATRIX-END -->", lambda _: "<!-- MATRIX-BEGIN -->\n" + m + "<!-- MATRIX-END -->", s, flags=re.S)
open(p, "w").write(s)
