#!/bin/bash
# tools/with_patch.sh <patch.diff> <command...> : apply a patch to /repo, run the command, always undo.
set -u
P=$(readlink -f "$1"); shift
git -C /repo apply "$P" || { echo "patch does not apply"; exit 3; }
"$@"; rc=$?
git -C /repo apply -R "$P" || git -C /repo checkout -- .
exit $rc
