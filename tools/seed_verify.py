#!/usr/bin/env python3
"""tools/seed_verify.py <Cxx> : verify the seeded changes a sub-agent left in /tmp/seed-<Cxx>/seeded_out/<name>/
(demo passes on HEAD, fails with the patch, existing tests still pass), then keep them as /verif/seeded/<Cxx>-<name>/."""
import json, os, shutil, subprocess, sys
pid = sys.argv[1]
wt = "/tmp/seed-%s" % pid
env = dict(os.environ, GOFLAGS="-mod=mod", GOPROXY="off", GOSUMDB="off")
def sh(cmd, timeout=900):
    r = subprocess.run(cmd, shell=True, cwd=wt, env=env, capture_output=True, text=True, timeout=timeout)
    return r.returncode, (r.stdout + r.stderr)[-1500:]
def clean():
    sh("git checkout -- . && git clean -fdq -e seeded_out")
out = os.path.join(wt, "seeded_out")
for name in sorted(os.listdir(out)):
    d = os.path.join(out, name)
    if not os.path.isdir(d) or not os.path.exists(os.path.join(d, "meta.json")):
        continue
    meta = json.load(open(os.path.join(d, "meta.json")))
    clean()
    demo = meta["demo_cmd"].split("   (")[0]
    res = {}
    rc, o = sh(demo)
    res["demo_on_head"] = "pass" if rc == 0 else "FAIL: " + o[-300:]
    clean()
    rc, o = sh("git apply seeded_out/%s/patch.diff" % name)
    if rc != 0:
        res["apply"] = "FAIL " + o
    rc, o = sh("go build ./... && go vet ./osmpbf/ >/dev/null 2>&1; go build ./...")
    res["build"] = "ok" if rc == 0 else "FAIL " + o[-300:]
    fails = 0
    for k in range(3 if "probab" in json.dumps(meta).lower() or "-race" in demo else 1):
        rc, o = sh(demo)
        fails += (rc != 0)
    res["demo_with_patch"] = "fails %d run(s)" % fails if fails else "PASSES (not a valid seed)"
    sh("git clean -fdq -e seeded_out")     # remove the demonstration, keep the patch
    rc, o = sh("go test -vet=off -count=1 $(go list ./... | grep -v /osmpbf | grep -v seeded_out)")
    res["existing_tests_with_patch"] = "pass" if rc == 0 else "FAIL: " + o[-400:]
    clean()
    ok = res["demo_on_head"] == "pass" and fails and res["existing_tests_with_patch"] == "pass" and res["build"] == "ok"
    print(pid, name, "VALID" if ok else "INVALID", json.dumps(res))
    if ok:
        dst = "/verif/seeded/%s-%s" % (pid, name)
        shutil.rmtree(dst, ignore_errors=True)
        shutil.copytree(d, dst)
        meta["verified_by_coordinator"] = res
        json.dump(meta, open(os.path.join(dst, "meta.json"), "w"), indent=1)
