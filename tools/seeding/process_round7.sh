#!/bin/bash
cd /verif
sed "s|/tmp/seed-%s|/tmp/seed7-%s|; s|/verif/seeded/%s-%s|/verif/seeded/%s-r7-%s|" tools/seed_verify.py > /tmp/seed_verify7.py
for d in /tmp/seed7-C*; do
  [ -d "$d/seeded_out" ] || continue
  n=$(ls $d/seeded_out/*/meta.json 2>/dev/null | wc -l)
  [ "$n" -ge 2 ] || continue
  p=$(basename $d | sed 's/seed7-//')
  python3 /tmp/seed_verify7.py $p 2>&1 | cut -c1-200
  git -C /repo worktree remove --force $d 2>/dev/null
done
RESULTS=seeded/RESULTS_r7.tsv tools/run_seeded_par.sh 'C[0-9][0-9]-r7' 4
