import json,sys,subprocess
pid=sys.argv[1]
p=json.load(open('/tmp/prop-%s.json'%pid))
wt='/tmp/seed-%s'%pid
subprocess.run(['git','-C','/repo','worktree','add','-q','--detach',wt,'HEAD'],check=True)
txt=f'''You are given one behavioural property of the Go library paulmach/osm and your own scratch git worktree of the repository at {wt} (a checkout of the current HEAD; work ONLY inside this directory; do not touch /repo, /verif or any other directory; no network is available; use `export GOFLAGS=-mod=mod GOPROXY=off GOSUMDB=off` before go commands).

PROPERTY {pid}: {p['title']}
Statement: {p['statement']}
Quantifier: {p['quantifier']['text']}
Code anchors (where the behaviour lives): {json.dumps(p['anchors'].get('mechanism', []))}

TASK: produce TWO different, realistic changes to the library source (each the kind of edit a developer might plausibly make: a refactoring slip, an optimisation, a "simplification", an off-by-one, a reordered statement, a dropped reset, a changed condition, two cooperating edits that each look fine alone) such that each change
  (1) BREAKS the property above,
  (2) still compiles (`go build ./...` and `go vet` of the touched package are clean),
  (3) still passes the repository's existing test suite (`go test -vet=off -count=1 ./...` for the packages that pass at HEAD. NOTE: the tests of the `osmpbf` package cannot run in this sandbox even at HEAD — their fixture files are emptied and several of them hang until the timeout — so never run `go test ./osmpbf/` without `-run <YourTestName>` and a `-timeout 120s`; for osmpbf "passes the existing tests" means every OTHER package's tests pass and osmpbf builds and vets),
  (4) needs something SPECIFIC to manifest — a particular interleaving, a crash/cut/fault at a particular point, a multi-step sequence of operations, an unusual input or option combination, or two cooperating sites — NOT something ordinary use or the first simple example would expose at once. Avoid changes that make everything fail.
Do not modify or delete existing tests, do not touch files ending in _test.go except to ADD your demonstration, and do not edit files named verif_on.go / verif_off.go or remove calls to vhook(...) (instrumentation that must stay).

For EACH of the two changes deliver, inside {wt}/seeded_out/<name>/ (name = short kebab-case):
  - patch.diff   : `git diff` of the library change only (apply-able with `git apply` on a clean HEAD checkout), NOT including the demonstration;
  - a demonstration: a new Go test file (say where it must be placed, e.g. osmpbf/seed_demo_test.go; it may live inside the package to use internals; for PBF input it must build its own data in memory, e.g. with the generated protobuf types under osmpbf/internal/osmpbf plus compress/zlib, because no fixture file exists) OR a small main program, which FAILS with the change applied and PASSES on the unchanged HEAD, deterministically or with high probability (say which) — give the exact command to run it;
  - meta.json    : {{"property": "{pid}", "name": ..., "files_touched": [...], "what_it_breaks": one paragraph, "needs_to_manifest": what specific input/schedule/sequence is required, "demo_cmd": exact command, "demo_placement": path of the demo file, "existing_tests_cmd": what you ran and its result}}.
Verify all four conditions yourself for each change: run the demo on clean HEAD (passes), apply the patch, run the demo (fails), run the existing tests with the patch (pass), then `git checkout -- . && git clean -fd -e seeded_out` so the worktree is clean between the two changes and at the end (keep only seeded_out/).
Final answer: for each change, its name, one-paragraph description, what it needs to manifest, and the verification results.'''
open('/tmp/seed-prompt-%s.txt'%pid,'w').write(txt)
print(len(txt))
