#!/usr/bin/env python3
"""tools/seed_matrix.py [final.tsv] : seeded/MATRIX.md from the logs of all runs against the seeded changes.
first = verdict of the earliest logged run of that change, now = verdict in the final log (or the latest logged run)."""
import glob, json, os, re, sys
ROOT = "/verif/seeded"
final = sys.argv[1] if len(sys.argv) > 1 else None
rows = {}
order = ["RESULTS.tsv", "RESULTS_final.tsv", "RESULTS_r2.tsv", "RESULTS_r3.tsv", "RESULTS_r3b.tsv", "RESULTS_r4.tsv"]
files = [os.path.join(ROOT, f) for f in order if os.path.exists(os.path.join(ROOT, f))]
files += sorted(f for f in glob.glob(ROOT + "/RESULTS*.tsv") if f not in files and f != final)
if final:
    files.append(final)
for f in files:
    for l in open(f):
        p = l.rstrip("\n").split("\t")
        if len(p) < 4:
            continue
        name, verdict = p[2], p[3].split()[0]
        why = p[5] if len(p) > 5 else ""
        r = rows.setdefault(name, {"first": verdict, "hist": []})
        r["hist"].append((os.path.basename(f), verdict, why))
out = ["| Seeded change | Needs to manifest | First run | Now | Caught by (first reason of the VIOLATION line) |", "|---|---|---|---|---|"]
miss = []
for d in sorted(glob.glob(ROOT + "/C*/")):
    name = os.path.basename(d.rstrip("/"))
    try:
        meta = json.load(open(d + "meta.json"))
    except Exception:
        meta = {}
    needs = re.sub(r"\s+", " ", str(meta.get("needs_to_manifest", meta.get("needs", ""))))[:170]
    r = rows.get(name)
    if not r:
        out.append("| %s | %s | (not run) | | |" % (name, needs))
        continue
    now = r["hist"][-1]
    why = ""
    for h in reversed(r["hist"]):
        if h[1].startswith("DETECTED") and h[2]:
            why = h[2]
            break
    why = re.sub(r"\|", "/", why)[:150]
    out.append("| %s | %s | %s | %s | %s |" % (name, needs.replace("|", "/"), r["first"], now[1], why))
    if not (now[1].startswith("DETECTED") or now[1].startswith("DIVERGENCE")):
        miss.append(name)
open(ROOT + "/MATRIX.md", "w").write("\n".join(out) + "\n")
# compact form for DESIGN.md: change | first | now | clause
comp = ["| Seeded change | First run | Now | Caught by |", "|---|---|---|---|"]
for l in out[2:]:
    c = [x.strip() for x in l.strip("|").split("|")]
    comp.append("| %s | %s | %s | %s |" % (c[0], c[2], c[3], c[4][:110]))
open(ROOT + "/MATRIX_compact.md", "w").write("\n".join(comp) + "\n")
n = len(out) - 2
print("%d seeded changes, %d not detected now: %s" % (n, len(miss), miss))
