#!/bin/bash
# tools/run_mutants.sh <Cxx> [more ids...] : run every mutants/<Cxx>-*.diff through mutant_test.sh (quick tier), log to mutants/RESULTS.tsv
cd /verif
for P in "$@"; do
  for m in mutants/$P-*.diff; do
    [ -f "$m" ] || continue
    t0=$(date +%s)
    out=$(tools/mutant_test.sh $P $m 2>&1 | tail -1)
    echo -e "$(date +%H:%M)\t$P\t$(basename $m .diff)\t$out\t$(( $(date +%s) - t0 ))s" >> ${RESULTS:-mutants/RESULTS.tsv}
  done
done
