#!/bin/bash
# tools/run_seeded.sh [pattern] : run the quick check of each seeded change's property against a worktree with the change; log to seeded/RESULTS.tsv
cd /verif
for d in seeded/${1:-C}*/; do
  n=$(basename $d); P=${n%%-*}
  [ -f $d/patch.diff ] || continue
  t0=$(date +%s)
  out=$(tools/mutant_test.sh $P $d/patch.diff 2>&1 | tail -1)
  echo -e "$(date +%H:%M)\t$P\t$n\t$out\t$(( $(date +%s) - t0 ))s" >> ${RESULTS:-seeded/RESULTS.tsv}
done
