#!/bin/bash
# tools/run_seeded.sh [pattern] : run the quick check of each seeded change's property against a worktree with the change;
# log to seeded/RESULTS.tsv (or $RESULTS): time, property, change, verdict, wall, first VIOLATION reason
cd /verif
for d in seeded/${1:-C}*/; do
  n=$(basename $d); P=${n%%-*}
  [ -f $d/patch.diff ] || continue
  t0=$(date +%s)
  full=$(tools/mutant_test.sh $P $d/patch.diff 2>&1)
  out=$(echo "$full" | tail -1)
  why=$(echo "$full" | grep -m1 '^VIOLATION' | sed 's/^[^#]*# *//' | tr '\t' ' ' | cut -c1-220)
  echo -e "$(date +%H:%M)\t$P\t$n\t$out\t$(( $(date +%s) - t0 ))s\t$why" >> ${RESULTS:-seeded/RESULTS.tsv}
done
