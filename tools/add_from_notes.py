#!/usr/bin/env python3
"""tools/add_from_notes.py C20 [C12 ...]: take the ready-to-paste manifest_data entry from notes/<ID>.md."""
import re, sys, os
root = os.path.dirname(os.path.dirname(os.path.abspath(__file__)))
mp = os.path.join(root, "tools", "manifest_data.py")
src = open(mp).read()
for pid in sys.argv[1:]:
    notes = None
    for cand in (pid, ):
        p = os.path.join(root, "notes", cand + ".md")
        if os.path.exists(p):
            notes = open(p).read()
    for alt in os.listdir(os.path.join(root, "notes")):
        if notes is None or ('"%s": dict(' % pid) not in notes:
            t = open(os.path.join(root, "notes", alt)).read()
            if ('"%s": dict(' % pid) in t:
                notes = t
    m = re.search(r'^[ \t]*"%s": dict\((.*?)^\s*\),?[ \t]*$' % pid, notes, re.S | re.M)
    if not m:
        # entry may end with "),\n```"
        m = re.search(r'"%s": dict\((.*?)\),?\s*\n```' % pid, notes, re.S)
    if not m:
        print("no entry for", pid); continue
    body = m.group(1).rstrip()
    if body.endswith(")"):
        pass
    entry = ' "%s": dict(%s),\n' % (pid, body if not body.endswith(",") else body)
    if ('"%s": dict(' % pid) in src:
        print(pid, "already present"); continue
    i = src.rindex("}")
    src = src[:i] + entry + src[i:]
    print("added", pid)
open(mp, "w").write(src)
