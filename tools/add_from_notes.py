#!/usr/bin/env python3
"""tools/add_from_notes.py C20 [C12 ...]: take the ready-to-paste manifest_data entry from notes/<ID>.md."""
import re, sys, os
root = os.path.dirname(os.path.dirname(os.path.abspath(__file__)))
mp = os.path.join(root, "tools", "manifest_data.py")
src = open(mp).read()
for pid in sys.argv[1:]:
    notes = None
    for cand in (pid, ):
        p = os.path.join(root, "notes", cand + ".md")
        if os.path.exists(p):
            notes = open(p).read()
    for alt in os.listdir(os.path.join(root, "notes")):
        if notes is None or ('"%s": dict(' % pid) not in notes:
            t = open(os.path.join(root, "notes", alt)).read()
            if ('"%s": dict(' % pid) in t:
                notes = t
    start = notes.find('"%s": dict(' % pid)
    if start < 0:
        print("no entry for", pid); continue
    i = start + len('"%s": dict(' % pid)
    depth, instr, j = 1, None, i
    while j < len(notes) and depth > 0:
        ch = notes[j]
        if instr:
            if ch == "\\":
                j += 1
            elif ch == instr:
                instr = None
        elif ch in "\"'":
            instr = ch
        elif ch == "(":
            depth += 1
        elif ch == ")":
            depth -= 1
        j += 1
    body = notes[i:j - 1].strip()
    entry = ' "%s": dict(%s),\n' % (pid, body if not body.endswith(",") else body)
    if ('"%s": dict(' % pid) in src:
        print(pid, "already present"); continue
    i = src.rindex("}")
    src = src[:i] + entry + src[i:]
    print("added", pid)
open(mp, "w").write(src)
