#!/bin/bash
# tools/mutant_test.sh <Cxx> <patch.diff> [check args...]
# Applies the patch to a throw-away worktree of /repo (never to /repo itself), runs the check against it
# through VERIF_REPO, removes the worktree.  Prints DETECTED / MISSED / INFRA.
set -u
PROP=$1; PATCH=$(readlink -f "$2"); shift 2
WT=$(mktemp -d /tmp/wt-mut-XXXXXX)
rmdir "$WT"
git -C /repo worktree add -q --detach "$WT" HEAD || exit 3
cleanup() { git -C /repo worktree remove --force "$WT" 2>/dev/null; rm -rf "$WT"; }
trap cleanup EXIT
# carry over uncommitted changes of /repo too (fixes being tried)
(cd /repo && git diff HEAD) | (cd "$WT" && git apply --allow-empty 2>/dev/null)
(cd "$WT" && git apply "$PATCH") || { echo "INFRA: patch does not apply"; exit 3; }
(cd "$WT" && GOFLAGS=-mod=mod GOPROXY=off GOSUMDB=off go build ./... ) || { echo "INFRA: mutant does not compile"; exit 3; }
OUT=$(cd /verif && VERIF_REPO="$WT" ./check "$PROP" "$@" 2>&1); rc=$?
echo "$OUT" | grep -m1 "^VIOLATION"
echo "$OUT" | tail -6
case $rc in
 1) echo "DETECTED $PROP $(basename $PATCH)";;
 0) echo "MISSED $PROP $(basename $PATCH)";;
 *) echo "INFRA($rc) $PROP $(basename $PATCH)";;
esac
exit $rc
