"""C09 - resuming a PBF scan at the reported byte offset loses no element.
 MC   : PbfPipeline |= OffsetInv (cOff = offset of the block of the last returned object, pOff = value during the
        preceding block, empty blocks included) for every interleaving; CompleteInv for the suffix-closed configurations
        (header-less first block) is the resume theorem at design level
 C->S : recorded scheduler runs, offsets observed after every Scan and bound to the Model by PbfTrace
 S->C : for every configuration and decoder count: full scan, then a second scanner at every distinct reported offset
 Judge: PbfPipeline!RunOK clauses "offsets", "resume"."""
import random
import vlib
from props import pbfcommon as P

PREF = {"offsets", "resume", "outcome"}


def run(ctx):
    q = ctx.quick()
    P.model_check(ctx, ["Pbf_nostop.cfg"] if q else ["Pbf_nostop.cfg", "Pbf_nostop_big.cfg"])
    configs, stop, plain = P.gen_walk_space(ctx)
    rng = random.Random(ctx.seed)
    # every configuration: resume at every reported offset (plain scans, real parallelism)
    cases = [{"kind": "resume", "cfg": c, "variant": rng.randrange(1000)} for c in configs if c["hdr"] in ("ok", "none")]
    if not q:
        cases = cases + [{"kind": "resume", "cfg": c, "variant": rng.randrange(1000)} for c in configs if c["hdr"] in ("ok", "none") for _ in range(4)]
    # scheduler walks: offsets at every stop position under arbitrary interleavings (stop scripts stop after k objects)
    nw = 150 if q else 2500
    walks = [{"kind": "walk", "cfg": rng.choice(configs), "script": rng.choice(plain + stop[:60]), "seed": rng.randrange(1 << 30),
              "cancelStep": -1, "variant": rng.randrange(1000)} for _ in range(nw)]
    cases += walks
    ctx.tick("model_check+gen")
    recs = P.run_pipe(ctx, cases)
    ctx.tick("runs")
    nres = 0
    for c, r in zip(cases, recs):
        nres += len(r["run"].get("resume", []))
        ctx.note_case([c["cfg"], c["kind"], r["sched"]], nontrivial=len(c["cfg"]["blocks"]) > 1)
    ctx.extra["resumed_scans"] = nres
    ctx.samples = [{"case": recs[0]["case"], "run": recs[0]["run"]}]
    P.validate_traces(ctx, recs)
    ctx.tick("trace_validation")
    bad = P.judge_runs(ctx, recs, PREF)
    P.confirm(ctx, cases, recs, bad, PREF, lambda cs: P.run_pipe(ctx, cs, shards=1))
    ctx.tick("judge")
    ctx.rule = ("evaluations = scans of the real scanner (one full scan + one resumed scan per distinct reported offset, per configuration; "
                "plus scheduler walks); distinct = distinct (configuration, kind, schedule); non-trivial = more than one block")
    ctx.assumptions = ["empty blocks are rendered as data blocks without primitive groups (what skip flags produce is covered by C08's files)"]


def replay(ctx, rp):
    return P.replay_one(ctx, rp, PREF)
