"""C09 - resuming a PBF scan at the reported byte offset loses no element.
 MC   : PbfPipeline |= OffsetInv (cOff = offset of the block of the last returned object, pOff = value during the
        preceding block, empty blocks included) for every interleaving; CompleteInv for the suffix-closed configurations
        (header-less first block) is the resume theorem at design level
 C->S : recorded scheduler runs, offsets observed after every Scan and bound to the Model by PbfTrace
 S->C : for every configuration and decoder count: full scan, then a second scanner at every distinct reported offset
 Judge: PbfPipeline!RunOK clauses "offsets", "resume"."""
import random
import vlib
from props import pbfcommon as P

PREF = {"offsets", "resume", "outcome"}


def run(ctx):
    q = ctx.quick()
    P.model_check(ctx, ["Pbf_nostop.cfg"] if q else ["Pbf_nostop.cfg", "Pbf_nostop_big.cfg"])
    configs, stop, plain = P.gen_walk_space(ctx)
    rng = random.Random(ctx.seed)
    # every configuration: resume at every reported offset (plain scans, real parallelism)
    cases = [{"kind": "resume", "cfg": c, "variant": rng.randrange(1000)} for c in configs if c["hdr"] in ("ok", "none")]
    if not q:
        cases = cases + [{"kind": "resume", "cfg": c, "variant": rng.randrange(1000)} for c in configs if c["hdr"] in ("ok", "none") for _ in range(4)]
    # scheduler walks: offsets at every stop position under arbitrary interleavings (stop scripts stop after k objects)
    nw = 150 if q else 8000
    walks = [{"kind": "walk", "cfg": rng.choice(configs), "script": rng.choice(plain + stop[:60]), "seed": rng.randrange(1 << 30),
              "cancelStep": -1, "variant": rng.randrange(1000), "weights": rng.choice(P.WEIGHTS)} for _ in range(nw)]
    cases += walks
    ctx.tick("model_check+gen")
    recs = P.run_pipe(ctx, cases)
    # real skip flags: files whose blocks hold one element type each; every one of the 8 flag combinations empties whole blocks
    sk = []
    for n in ([1, 3] if q else [1, 2, 3, 16]):
        for skip in range(8):
            for nb in ([5] if q else [4, 7]):
                for variant in range(3):
                    for header in (True, False):
                        sk.append({"kind": "skipresume", "nb": nb, "n": n, "skip": [bool(skip & 1), bool(skip & 2), bool(skip & 4)],
                                   "variant": variant, "header": header, "cfg": {"n": n, "blocks": [], "endkind": "eof", "hdr": "ok"}})
    srecs = P.run_pipe(ctx, sk, binname="pbfdmg")
    for r in srecs:
        r.setdefault("trace", []), r.setdefault("sched", []), r.setdefault("diverged", "")
    cases, recs = cases + sk, recs + srecs
    ctx.extra["skip_flag_runs"] = len(sk)
    ctx.tick("runs")
    nres = 0
    for c, r in zip(cases, recs):
        nres += len(r["run"].get("resume", []))
        ctx.note_case([c["cfg"], c["kind"], r["sched"], c.get("skip"), c.get("variant"), c.get("nb"), c.get("header")],
                      nontrivial=len(r["run"]["cfg"]["blocks"]) > 1)
    ctx.extra["resumed_scans"] = nres
    ctx.samples = [{"case": recs[0]["case"], "run": recs[0]["run"]}]
    P.validate_traces(ctx, recs)
    ctx.tick("trace_validation")
    bad = P.judge_runs(ctx, recs, PREF)
    P.confirm(ctx, cases, recs, bad, PREF, lambda cs: [x for c in cs for x in P.run_pipe(ctx, [c], shards=1, binname=("pbfdmg" if c["kind"] == "skipresume" else "pbfpipe"))])
    ctx.tick("judge")
    ctx.rule = ("evaluations = scans of the real scanner (one full scan + one resumed scan per distinct reported offset, per configuration; "
                "plus scheduler walks); distinct = distinct (configuration, kind, schedule); non-trivial = more than one block")
    ctx.assumptions = ["empty blocks: data blocks without primitive groups (pipeline runs) and blocks emptied by each of the 8 skip-flag combinations (skipresume runs)"]


def replay(ctx, rp):
    return P.replay_one(ctx, rp, PREF)
