"""Shared driver code for the osmpbf pipeline checks C02 C06 C07 C09 (spec: PbfPipeline / PbfTrace / PbfGen / PbfRunJudge)."""
import json
import os, random, re, subprocess, concurrent.futures as cf
import vlib

MC = "MC_Pbf"
# schedule bias profiles of the random walks (weight per goroutine class); {} = uniform
WEIGHTS = [{}, {}, {"r": 12, "w": 1, "s": 1, "c": 1}, {"r": 6, "w": 6, "s": 1, "c": 1}, {"r": 1, "w": 1, "s": 1, "c": 8},
           {"r": 8, "w": 1, "s": 4, "c": 4}, {"r": 4, "w": 1, "s": 1, "c": 1}]


SCHED_STUCK = "outcome: hang: goroutines did not reach their next hook"


def slow_choice(rng):
    """jitter runs: nobody slow, or the reader / one decoder / the serializer made slow (class byte, worker, microseconds)"""
    return rng.choice([[], [ord("w"), 0, 1500], [ord("w"), 1, 800], [ord("r"), 0, 500], [ord("s"), 0, 500], [ord("w"), 2, 2500],
                       [ord("w"), 0, 4000], [ord("w"), 1, 3000]])


def gen_walk_space(ctx):
    """configs x scripts from PbfGenWalk.tla (the input space lives in TLA+)."""
    cfg = "PbfGenWalk_quick.cfg" if ctx.quick() else "PbfGenWalk_thorough.cfg"
    d = vlib.tlc_gen(ctx, "PbfGenWalk", cfg, count_states=False)[0]
    ctx.jitter_configs = d["jitter"]
    return d["configs"], d["stop"], d["plain"]


def gen_forced(ctx, num, depth=400):
    """Behaviours of the Model (no stops) sampled by `tlc -simulate`, as forced-schedule cases."""
    cfg = "PbfGen_quick.cfg" if ctx.quick() else "PbfGen_thorough.cfg"
    cases = vlib.tlc_gen(ctx, "PbfGen", cfg, args=["-simulate", "num=%d" % num, "-depth", str(depth), "-seed", str(ctx.seed)],
                         count_states=False, timeout=900)
    # distinct schedules only
    seen, out = set(), []
    for c in cases:
        k = json.dumps([c["cfg"], c["sched"]], sort_keys=True)
        if k not in seen:
            seen.add(k)
            out.append(c)
    return out


def run_pipe(ctx, cases, shards=None, race=False, binname="pbfpipe", env=None):
    """Run cases through the scheduler harness, sharded over processes; a process that reports a hang
    exits (its goroutines are stuck) and is restarted for the remaining cases."""
    b = vlib.go_build(binname, race=race)
    shards = shards or min(vlib.NCPU, max(1, len(cases) // 20))
    parts = [cases[i::shards] for i in range(shards)]

    def synth(c, outcome):
        return {"case": c, "trace": [], "sched": [], "diverged": "",
                "run": {"cfg": {k: c["cfg"][k] for k in ("n", "blocks", "endkind", "hdr")}, "H": [], "reads": 0, "rem": 0, "outcome": outcome}}

    def one(part):
        recs, rest = [], list(part)
        while rest:
            inp = "".join(json.dumps(c, separators=(",", ":")) + "\n" for c in rest)
            e = vlib.goenv()
            if any(not x["run"]["outcome"].startswith("ok") for x in recs):
                e["VERIF_SETTLE_S"] = "45"   # a hang has been recorded in this shard already: later ones need not wait minutes
            if race:
                e["GORACE"] = "halt_on_error=1 exitcode=66"
            if env:
                e.update(env)
            try:
                r = subprocess.run([b], input=inp, capture_output=True, text=True, timeout=1800, env=e)
            except subprocess.TimeoutExpired:
                raise vlib.Infra("pbfpipe timed out")
            got = [json.loads(l) for l in r.stdout.splitlines() if l.startswith("{")]
            recs += got
            if r.returncode == 0:
                if len(got) != len(rest):
                    raise vlib.Infra("pbfpipe: %d cases, %d records\n%s" % (len(rest), len(got), r.stderr[-2000:]))
                break
            if r.returncode == 7:            # a hang was recorded (its record is printed); restart for the rest
                rest = rest[len(got):]
                hangs = sum(1 for x in recs if not x["run"]["outcome"].startswith("ok"))
                if hangs >= 2 and rest:      # every further hang costs minutes: two verdict-bearing records per shard are enough
                    recs += [synth(c, "ok") for c in rest]
                    rest = []
                continue
            if len(got) >= len(rest):
                raise vlib.Infra("pbfpipe exit %d after all cases:\n%s" % (r.returncode, r.stderr[-2000:]))
            c = rest[len(got)]               # the process died while running this case
            if r.returncode == 66:
                lines = [l.strip() for l in r.stderr.splitlines() if "osmpbf" in l or "DATA RACE" in l]
                recs.append(synth(c, "race: " + " | ".join(lines)[:700]))
            elif r.returncode == 3:
                raise vlib.Infra("pbfpipe harness error:\n" + r.stderr[-2000:])
            else:
                # whose panic is it?  the first non-runtime frame of the panicking goroutine decides
                frames = [l.strip() for l in r.stderr.splitlines() if l and not l.startswith(("\t", " ")) and "(" in l
                          and not l.startswith(("panic", "runtime.", "goroutine", "[signal", "created by"))]
                if not frames or not frames[0].startswith("github.com/paulmach/osm"):
                    raise vlib.Infra("pbfpipe crashed outside the library under test (harness bug?):\n" + r.stderr[-3000:])
                first = [l for l in r.stderr.splitlines() if l.startswith("panic:") or "fatal error" in l]
                first = [first[0] + " at " + frames[0]] if first else [frames[0]]
                recs.append(synth(c, "crash: rc=%d %s" % (r.returncode, (first or [""])[0][:300])))
            rest = rest[len(got) + 1:]
        return recs

    with cf.ThreadPoolExecutor(max_workers=shards) as ex:
        res = list(ex.map(one, parts))
    # restore input order
    out = [None] * len(cases)
    for s, recs in enumerate(res):
        for j, r in enumerate(recs):
            out[s + j * shards] = r
    if any(r is None for r in out):
        raise vlib.Infra("pbfpipe: missing records")
    return out


def validate_traces(ctx, recs, max_div=5):
    """Concatenate the recorded traces and validate them against PbfTrace.tla.  Returns indices of diverging runs."""
    diverging = []
    live = [i for i, r in enumerate(recs) if r["trace"] and r["run"]["outcome"] == "ok"]
    while live:
        path = os.path.join(ctx.scratch, "trace-%d.ndjson" % len(diverging))
        starts = []
        n = 0
        with open(path, "w") as f:
            for i in live:
                starts.append(n + 1)
                for e in recs[i]["trace"]:
                    f.write(json.dumps(e, separators=(",", ":")) + "\n")
                    n += 1
        r = vlib.tlc("PbfTrace", "PbfTrace.cfg", ctx.scratch, env={"TRACE": path}, workers=1, timeout=1800)
        m = re.search(r'<<"HIGHWATER", (\d+), (\d+)>>', r.out)
        if r.rc == 0 and m and int(m.group(1)) == n + 1:
            ctx.traces += len(live)
            ctx.extra["trace_events"] = ctx.extra.get("trace_events", 0) + n
            return diverging
        if not m and r.rc == 0:
            raise vlib.Infra("trace validation: no HIGHWATER line:\n" + r.out[-3000:])
        # find the run in which validation stopped
        if m:
            hw = int(m.group(1))
        else:
            mm = re.findall(r"^/\\ l = (\d+)", r.out, re.M)   # invariant violation: last state's l
            if not mm:
                raise vlib.Infra("trace validation failed without position:\n" + r.out[-3000:])
            hw = int(mm[-1])
        k = max(j for j, s in enumerate(starts) if s <= max(1, min(hw, n)))
        bad = live[k]
        line = recs[bad]["trace"][min(hw - starts[k], len(recs[bad]["trace"]) - 1)]
        vlib.log("DIVERGENCE property=%s run %d rejected by PbfTrace at event %d %s (%s)" % (
            ctx.prop, bad, hw - starts[k] + 1, json.dumps(line)[:160], r.violation or "no matching action"))
        diverging.append(bad)
        ctx.divergences += 1
        ctx.traces += k
        live = live[k + 1:]
        if len(diverging) >= max_div:
            break
    return diverging


def _accepts(ctx, events, tag):
    path = os.path.join(ctx.scratch, "selftest-%s.ndjson" % tag)
    with open(path, "w") as f:
        for e in events:
            f.write(json.dumps(e, separators=(",", ":")) + "\n")
    r = vlib.tlc("PbfTrace", "PbfTrace.cfg", ctx.scratch, env={"TRACE": path}, workers=1, timeout=600)
    m = re.search(r'<<"HIGHWATER", (\d+), (\d+)>>', r.out)
    return r.rc == 0 and bool(m) and int(m.group(1)) == len(events) + 1


def binding_selftest(ctx, recs, diverging=()):
    """The binding is demonstrated on every run, not assumed: one accepted recorded trace of the real code is damaged in four
    ways -- the decoder index of one serializer receive changed (a corrupted field), one decoder send removed (a removed hook),
    two consecutive receives of the serializer swapped (an order slip), the block of one returned object changed (a corrupted
    API observation) -- and PbfTrace must reject every damaged copy while accepting the original.  A damaged copy that is
    accepted means the trace spec constrains nothing there: an infrastructure failure (exit 2), never a verdict."""
    import copy
    cand = [i for i, r in enumerate(recs) if i not in set(diverging) and r["trace"] and r["run"]["outcome"] == "ok"
            and r["trace"][0].get("n", 0) >= 2
            and sum(1 for e in r["trace"] if e["e"] == "s.got" and e.get("nobj", 0) > 0) >= 2
            and any(e["e"] == "c.ret" and e.get("ok") for e in r["trace"])]
    if not cand:
        raise vlib.Infra("binding self-test: no recorded run with two decoders and two non-empty blocks")
    import concurrent.futures as cf
    tr = None
    for ci in cand[:8]:     # with divergences around, not every recorded run is a behaviour of the Model: take the first accepted one
        if _accepts(ctx, recs[ci]["trace"], "orig-%d" % ci):
            tr = recs[ci]["trace"]
            break
    if tr is None:
        if diverging:
            vlib.log("binding self-test skipped: none of the first candidate traces is accepted (divergences were reported above)")
            ctx.extra["binding_selftest"] = {"skipped": "recorded runs diverge from the Model"}
            return
        raise vlib.Infra("binding self-test: the undamaged trace is not accepted on its own")
    n = tr[0]["n"]
    gots = [k for k, e in enumerate(tr) if e["e"] == "s.got" and e.get("nobj", 0) > 0]
    sents = [k for k, e in enumerate(tr) if e["e"] == "w.sent"]
    rets = [k for k, e in enumerate(tr) if e["e"] == "c.ret" and e.get("ok")]
    damaged = {}
    d = copy.deepcopy(tr); d[gots[0]]["who"] = (d[gots[0]]["who"] + 1) % n; damaged["field-s.got.who"] = d
    d = copy.deepcopy(tr); del d[sents[0]]; damaged["hook-w.sent-removed"] = d
    d = copy.deepcopy(tr); d[gots[0]], d[gots[1]] = d[gots[1]], d[gots[0]]; damaged["order-s.got-swapped"] = d
    d = copy.deepcopy(tr); d[rets[-1]]["blk"] = d[rets[-1]]["blk"] + 1; damaged["field-c.ret.blk"] = d
    with cf.ThreadPoolExecutor(max_workers=5) as ex:
        fs = {k: ex.submit(_accepts, ctx, v, k) for k, v in damaged.items()}
        acc = [k for k, f in fs.items() if f.result()]
    if acc:
        raise vlib.Infra("binding self-test: damaged trace(s) accepted by PbfTrace: %s" % acc)
    ctx.extra["binding_selftest"] = {"damaged_traces_rejected": sorted(damaged), "events": len(tr)}


def judge_runs(ctx, recs, prefixes):
    """PbfRunJudge on the API-level histories; keep only the clauses (reason prefixes) of this property."""
    slim = [{"case": {"kind": r["case"].get("kind", ""), "expect": r["case"].get("expect", {"delivered": [], "err": ""})}, "run": r["run"]} for r in recs]
    bad = vlib.tlc_judge(ctx, "PbfRunJudge", "PbfRunJudge.cfg", slim)
    out = []
    for i, why, kf in bad:
        mine = [w for w in why if w.split(":")[0] in prefixes]
        div = [w for w in why if w.startswith("diverge")]
        if div:
            ctx.divergences += 1
            vlib.log("DIVERGENCE property=%s run %d: %s" % (ctx.prop, i, div[0]))
        if mine:
            out.append((i, mine, kf))
    return out


def confirm(ctx, cases, recs, bad, prefixes, rerun):
    """Re-run failing cases; report those that fail again (same clause family).  A report of the Go race detector is
    conclusive by itself (it has no false positives) and is not re-run; runs under real concurrency (jitter) are
    re-tried a few times because their schedule is not reproducible."""
    if not bad:
        return
    sel = bad[:8]
    confirmed = 0

    def report(i, why, kf):
        k = ctx.known_match(kf)
        if k:
            ctx.known_hits[k["kf"]] = ctx.known_hits.get(k["kf"], 0) + 1
            return 0
        ctx.report_bad(cases[i], why, kf, {"property": ctx.prop, "case": cases[i], "run": recs[i]["run"], "why": why, "seed": ctx.seed})
        return 1
    pending = []
    for i, why, kf in sel:
        if any(w.startswith("outcome: race") for w in why):
            confirmed += report(i, why, kf)
        elif cases[i].get("kind") != "jitter" and any(w.startswith(SCHED_STUCK) for w in why):
            # The deterministic scheduler could not drive the run: a goroutine it expects never reached its next hook.  That is
            # what a real hang looks like, but also what a tree looks like whose goroutine structure differs from the Model
            # (a goroutine less, an extra hand-off between two hooks) while the property holds.  The verdict is therefore taken
            # from the same case under real concurrency, without the scheduler: only if that fails the Judge too is it reported.
            rng = random.Random(ctx.seed * 1000 + i)
            plain = [dict(cases[i], kind="jitter", script=cases[i].get("script") or ["scanall", "err"], seed=rng.randrange(1 << 30),
                          cancelStep=cases[i].get("cancelStep", -1), slow=slow_choice(rng)) for _ in range(6)]
            for c in plain:
                c.pop("sched", None), c.pop("wit", None), c.pop("weights", None)
            again = rerun(plain)
            bad2 = judge_runs(ctx, again, prefixes)
            if bad2:
                j, why2, kf2 = bad2[0]
                k = ctx.known_match(kf2)
                if k:
                    ctx.known_hits[k["kf"]] = ctx.known_hits.get(k["kf"], 0) + 1
                else:
                    ctx.report_bad(plain[j], why2, kf2, {"property": ctx.prop, "case": plain[j], "run": again[j]["run"], "why": why2, "seed": ctx.seed})
                    confirmed += 1
            else:
                ctx.divergences += 1
                vlib.log("DIVERGENCE property=%s case %d: the scheduler could not drive this tree (%s); the same case passes in 6 runs "
                         "under real concurrency: goroutine structure differs from the Model, not a verdict" % (ctx.prop, i, [w for w in why if w.startswith(SCHED_STUCK)][0][:160]))
        else:
            pending.append((i, why, kf))
    for attempt in range(5):
        if not pending:
            break
        again = rerun([cases[i] for i, _, _ in pending])
        bad2 = {j for j, _, _ in judge_runs(ctx, again, prefixes)}
        still = []
        for j, (i, why, kf) in enumerate(pending):
            if j in bad2:
                confirmed += report(i, why, kf)
            elif cases[i].get("kind") == "jitter":
                still.append((i, why, kf))
            else:
                vlib.log("UNREPRODUCED %s case %d (%s): not a verdict" % (ctx.prop, i, why))
        pending = still
    for i, why, kf in pending:
        vlib.log("UNREPRODUCED %s case %d (%s) in 5 re-runs: not a verdict" % (ctx.prop, i, why))
    ctx.extra["failing_cases_total"] = ctx.extra.get("failing_cases_total", 0) + len(bad)
    ctx.extra["unreproduced"] = ctx.extra.get("unreproduced", 0) + (len(sel) - confirmed)
    # A failure that does not reproduce (timing under real concurrency, a starved process) is no verdict: it is logged
    # above and counted in the evidence, and the check goes on.


def apalache_order(ctx, n, cap, init, inv, length, expect, timeout=3000):
    """One Apalache run over spec/PbfOrderInd.tla (EXTENDS PbfOrderCore) with N = n, Cap = cap (constants from a generated .cfg).
    expect = "NoError" (obligation discharged) or "Error" (a canary that must be refuted).  Anything else is exit 2."""
    import shutil, time
    wd = os.path.join(ctx.scratch, "apa-%d-%d-%s-%s-%d" % (n, cap, init, inv, length))
    os.makedirs(os.path.join(wd, "tmp"), exist_ok=True)
    for f in ("PbfOrderCore.tla", "PbfOrderInd.tla"):
        shutil.copy(os.path.join(vlib.SPEC, f), wd)
    open(os.path.join(wd, "run.cfg"), "w").write("CONSTANTS\n  N = %d\n  Cap = %d\nINIT %s\nNEXT Next\nINVARIANT %s\n" % (n, cap, init, inv))
    env = dict(os.environ)
    env.pop("JAVA_TOOL_OPTIONS", None)
    env.update(JVM_ARGS="-Xmx3g", TMPDIR=os.path.join(wd, "tmp"))
    cmd = ["apalache-mc", "check", "--config=run.cfg", "--length=%d" % length, "--out-dir=" + os.path.join(wd, "out"), "PbfOrderInd.tla"]
    t0 = time.time()
    import signal
    pr = subprocess.Popen(cmd, cwd=wd, env=env, stdout=subprocess.PIPE, stderr=subprocess.STDOUT, text=True, start_new_session=True)
    try:
        out, _ = pr.communicate(timeout=timeout)
    except subprocess.TimeoutExpired:
        os.killpg(pr.pid, signal.SIGKILL)   # the launcher script and its JVM
        pr.communicate()
        raise vlib.Infra("apalache PbfOrderInd N=%d Cap=%d %s/%s timed out after %ss" % (n, cap, init, inv, timeout))
    m = re.search(r"The outcome is: (\w+)", out)
    got = m.group(1) if m else "none(rc=%d)" % pr.returncode
    shutil.rmtree(wd, ignore_errors=True)
    if got != expect:
        raise vlib.Infra("apalache PbfOrderInd N=%d Cap=%d --init=%s --inv=%s --length=%d: outcome %s, expected %s\n%s" % (
            n, cap, init, inv, length, got, expect, out[-2500:]))
    return {"N": n, "Cap": cap, "init": init, "inv": inv, "length": length, "outcome": got, "wall_s": round(time.time() - t0, 1)}


def order_induction(ctx, pairs):
    """C02 design level, unbounded file length: for each (decoders, capacity) the base and step obligations of the inductive
    invariant of PbfOrderInd.tla, plus two canaries (the weakened invariant is not inductive; an emission is reachable)."""
    jobs = []
    for n, cap in pairs:
        jobs.append((n, cap, "Init", "IndInv", 0, "NoError"))
        jobs.append((n, cap, "IndInit", "IndInv", 1, "NoError"))
    n0, c0 = pairs[0]
    jobs.append((n0, c0, "WeakInit", "WeakInv", 1, "Error"))
    jobs.append((n0, c0, "Init", "NothingEmitted", 6, "Error"))
    with cf.ThreadPoolExecutor(max_workers=8) as ex:
        res = list(ex.map(lambda j: apalache_order(ctx, *j), jobs))
    ctx.extra["order_induction"] = {"module": "PbfOrderInd.tla", "tool": "Apalache 0.58.0", "runs": res,
                                    "meaning": "Init => IndInv and IndInv /\\ Next => IndInv' for the listed (N, Cap): OrderInv for files of any length"}


def order_refinement(ctx, pairs):
    """PbfPipeline refines PbfOrderCore (spec/PbfOrderRefine.tla) for the listed (N, Cap): TLC, exhaustive per configuration;
    the mapped IndInv is an invariant of the Model; a deliberately wrong mapping must be refuted."""
    def one(c):
        return c, vlib.tlc("PbfOrderRefine", c, ctx.scratch, workers=2, timeout=2400)
    cfgs = ["PbfOrderRefine_%d_%d.cfg" % p for p in pairs] + ["PbfOrderRefine_canary.cfg"]
    with cf.ThreadPoolExecutor(max_workers=6) as ex:
        res = list(ex.map(one, cfgs))
    runs, tlc_runs, tot = [], [], [0, 0]
    for c, r in res:
        if c.endswith("canary.cfg"):
            if r.rc != 13:
                raise vlib.Infra("PbfOrderRefine canary: the wrong mapping was not refuted (rc=%s)\n%s" % (r.rc, r.out[-2000:]))
            continue
        if r.rc != 0 or r.distinct < 100:
            raise vlib.Infra("PbfPipeline does not refine PbfOrderCore under %s (rc=%s, %s):\n%s" % (c, r.rc, r.violation, r.out[-3000:]))
        tot[0] += r.distinct
        tot[1] += r.generated
        tlc_runs.append({"module": "PbfOrderRefine", "cfg": c, "distinct": r.distinct, "generated": r.generated, "wall_s": round(r.wall, 1), "rc": r.rc})
        runs.append(c)
    # runs on a background thread: hand the numbers back instead of updating the shared counters from here
    return {"states": tot[0], "transitions": tot[1], "tlc_runs": tlc_runs,
            "extra": {"module": "PbfOrderRefine.tla", "configs": runs, "canary_refuted": True,
                      "meaning": "every step of PbfPipeline (unstopped scans) is a step of PbfOrderCore or a stutter; mapped IndInv invariant"}}


def model_check(ctx, cfgs):
    for c in cfgs:
        vlib.tlc_model_check(ctx, MC, c, timeout=3000)


def model_must_fail(ctx, cfg, inv):
    """Non-vacuity: the pinned deviation must violate the Judge in the Model."""
    r = vlib.tlc(MC, cfg, ctx.scratch, workers=4, timeout=600)
    if r.rc != 12 or r.violation != inv:
        raise vlib.Infra("expected %s to be violated under %s, got rc=%s %s" % (inv, cfg, r.rc, r.violation))
    ctx.extra.setdefault("deviations_shown_to_violate", []).append({"cfg": cfg, "invariant": inv, "states": r.distinct})


def replay_one(ctx, rp, prefixes):
    recs = run_pipe(ctx, [rp["case"]], shards=1)
    bad = judge_runs(ctx, recs, prefixes)
    print(json.dumps(recs[0]["run"])[:2000])
    if bad:
        print("VIOLATION property=%s replay=(given)  # %s" % (ctx.prop, bad[0][1]))
        return 1
    print("replay: case passes")
    return 0
