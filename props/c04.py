"""C04 - XML marshal / unmarshal round trip of every object and container.

TLC enumerates OsmDocCases!Values (standalone Node / Way / Relation / Changeset / Note / User / Bounds under a pairwise
covering family of field subsets incl. the annotations, OSM / Change / Diff containers with top-level bounds in every
block) and checks on each that the schema's canonical tree decodes back to the value and uses schema names only (design
level).  The harness builds each value by reflection, calls xml.Marshal, parses the text generically, feeds it to
xml.Unmarshal and to osmxml.Scanner; OsmDocJudge.tla decides: unmarshalled = value, scanned objects = the value's objects
per kind, every element / attribute name is the schema's name for its position."""
import concurrent.futures as cf
import json, os, time
import vlib
from props import c03 as common


def execute(ctx, binp, cases):
    return vlib.run_go(binp, ["-mode", "c04", "-seed", str(ctx.seed)], stdin_lines=cases)


def run(ctx):
    common.prepare(ctx)
    common.use_local_known(ctx)
    binp = common.build()
    q = ctx.quick()
    with cf.ThreadPoolExecutor(max_workers=2) as ex:
        f_mc = ex.submit(common.model_check, ctx, "OsmDocCases", "OsmDocCases_vals_quick.cfg" if q else "OsmDocCases_vals_thorough.cfg")
        cases = common.gen(ctx, "vals")
        # the symbol tables depend on the seed: the thorough tier runs every value under nine seeds (each of the three
        # magnitude profiles three times, nine string pools)
        seeds = [ctx.seed] if q else [ctx.seed + k for k in range(9)]
        allc, allr = [], []
        for sd in seeds:
            recs = vlib.run_go(binp, ["-mode", "c04", "-seed", str(sd)], stdin_lines=cases)
            allc += [dict(c, _seed=sd) for c in cases]
            allr += recs
        for c in allc:
            ctx.note_case(c, nontrivial=c["v"] != [] and c["v"] != {})
        ctx.samples = [allr[0]["case"], allr[len(allr) // 2]["case"]]

        def reexec(cs):
            out = []
            for c in cs:
                cc = {k: v for k, v in c.items() if k != "_seed"}
                out += vlib.run_go(binp, ["-mode", "c04", "-seed", str(c["_seed"])], stdin_lines=[cc])
            return out
        vlib.judge_and_confirm(ctx, allc, allr, reexec, lambda rs: common.judge(ctx, "c04", rs), replay_extra={"mode": "vals"})
        f_mc.result()
    ctx.exhaustive = True
    ctx.extra["values"] = len(cases)
    ctx.extra["seeds"] = seeds
    ctx.rule = ("values = OsmDocCases!Values enumerated completely by TLC (%d values: 7 object kinds x pairwise covering family of "
                "present/absent fields incl. nested types and annotations, all-zero-but-present, 0/1/2-element lists; OSM / Change / "
                "Diff containers incl. bounds in OSM and in every osmChange block, every subset of create/modify/delete, empty "
                "blocks, all diff action types), run under %d seed(s) of the symbol tables; distinct = distinct (value, seed); "
                "non-trivial = value with at least one field set" % (len(cases), len(seeds)))
    ctx.assumptions = [
        "the schema tables in OsmDoc.tla are the OSM XML formats; nil and empty slices are the same value; a discussion without comments is omitted (documented)",
        "note dates are whole seconds; an augmented-diff action's inlined OSM holds exactly one element; Changeset.Change is not part of the XML form",
        "strings are XML-representable (no control characters other than tab / newline), coordinates finite, times UTC"]


def replay(ctx, rp):
    common.prepare(ctx)
    common.use_local_known(ctx)
    binp = common.build()
    c = {k: v for k, v in rp["case"].items() if k != "_seed"}
    recs = vlib.run_go(binp, ["-mode", "c04", "-seed", str(rp["case"].get("_seed", rp.get("seed", 1)))], stdin_lines=[c])
    bad = [b for b in common.judge(ctx, "c04", recs, shards=1) if not ctx.known_match(b[2])]
    if bad:
        print("VIOLATION property=C04 replay=(given)  #", bad)
        return 1
    print("replay: case passes")
    return 0
