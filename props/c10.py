"""C10 - packed object / element / feature ids are lossless, ordered and parseable.

Design level (spec only):
  * Apalache discharges the obligations of PackedIdsApa.tla at the REAL widths (16 version bits, 40 reference
    bits): RoundTrip, Injective, OrderIso, Fits, Feature, KindOrder over Int, and LimbPack / LimbDecode / LimbOrder
    (the 16-bit-limb formulation used by the Judge refines the Int layout).  Two canaries must be refuted.
  * TLC: PackedIdsImpl (Go's mask-and-shift code transcribed with bit operations, scaled widths, every triple and
    every ordered pair) |= the arithmetic Judges; PackedIdsTextMC (Go's three parsers transcribed at token level)
    |= Verdict/Conforms on every token string up to a bound; PackedIdsLimbsMC (true widths, boundary cases x pool).
Conformance (real code):
  * TLC enumerates value cases (every bit-field boundary), all ordered pairs of a pool, token strings and templates
    (PackedIdsGen); the driver adds seeded random values, random / adjacent pairs and shuffled lists for the sorts;
    harness/cmd/c10 runs the real constructors, decoders, String, Parse*, sorts; PackedIdsJudge.tla decides.
"""
import concurrent.futures as cf
import json, os, random, re, shutil, subprocess, time

import vlib

JUDGE, JCFG = "PackedIdsJudge", "PackedIdsJudge.cfg"
OBLIGATIONS = ["RoundTrip", "Injective", "OrderIso", "Fits", "Feature", "KindOrder", "LimbPack", "LimbDecode", "LimbOrder"]
CANARIES = ["CanaryMaxUser", "CanaryNoBit39"]
ELEM = ["node", "way", "relation"]
PLAIN = ["changeset", "note", "user"]
B16 = [0, 1, 2, 0x7FFF, 0x8000, 0xFFFE, 0xFFFF]
B8 = [0, 1, 0x7F, 0x80, 0xFE, 0xFF]


# ------------------------------------------------------------------------------------------------
# Apalache
# ------------------------------------------------------------------------------------------------
def apalache(ctx, name, invs, timeout=600):
    """One apalache-mc run over PackedIdsApa.tla (in a scratch copy).  Returns (outcome, n_holds, wall, output)."""
    wd = os.path.join(ctx.scratch, "apa-" + name)
    os.makedirs(os.path.join(wd, "tmp"), exist_ok=True)
    for f in ("PackedIds.tla", "PackedIdsLimbs.tla", "PackedIdsApa.tla"):
        shutil.copy(os.path.join(vlib.SPEC, f), wd)
    env = dict(os.environ)
    env.pop("JAVA_TOOL_OPTIONS", None)
    env.update(JVM_ARGS="-Xmx2g", TMPDIR=os.path.join(wd, "tmp"))
    cmd = ["apalache-mc", "check", "--init=Init", "--next=Next", "--length=0", "--inv=" + ",".join(invs),
           "--out-dir=" + os.path.join(wd, "out"), "PackedIdsApa.tla"]
    t0 = time.time()
    try:
        r = subprocess.run(cmd, cwd=wd, env=env, capture_output=True, text=True, timeout=timeout)
    except subprocess.TimeoutExpired:
        raise vlib.Infra("apalache %s timed out after %ss" % (name, timeout))
    out = r.stdout + r.stderr
    m = re.search(r"The outcome is: (\w+)", out)
    holds = len(re.findall(r"state invariant \d+ holds", out))
    return (m.group(1) if m else "none(rc=%d)" % r.returncode), holds, time.time() - t0, out


def design_level(ctx):
    """All spec-only runs, concurrently.  Any failure here is a spec problem => Infra."""
    q = ctx.quick()
    # workers per model-checking run; vlib's machine-wide slot limiter makes larger requests wait, and the quick
    # configurations are small (<= 111k states)
    w = 2 if q else 4
    mcs = [("PackedIdsImpl", "PackedIdsImpl_quick.cfg" if q else "PackedIdsImpl_thorough.cfg"),
           ("PackedIdsTextMC", "PackedIdsTextMC_quick.cfg" if q else "PackedIdsTextMC_thorough.cfg"),
           ("PackedIdsLimbsMC", "PackedIdsLimbsMC_quick.cfg" if q else "PackedIdsLimbsMC_thorough.cfg")]

    if not q:
        mcs.append(("PackedIdsTextMC", "PackedIdsTextMC_wide.cfg"))

    def mc(i):
        mod, cfg = mcs[i]
        return vlib.tlc(mod, cfg, os.path.join(ctx.scratch, "mc-%d" % i), workers=w, timeout=1500)

    with cf.ThreadPoolExecutor(max_workers=8) as ex:
        fa = ex.submit(apalache, ctx, "obligations", OBLIGATIONS)
        canaries = CANARIES[1:] if q else CANARIES
        fc = [ex.submit(apalache, ctx, c, [c]) for c in canaries]
        fm = [ex.submit(mc, i) for i in range(len(mcs))]
        outcome, holds, wall, out = fa.result()
        can = [f.result() for f in fc]
        res = [f.result() for f in fm]

    for (mod, cfg), r in zip(mcs, res):
        ctx.states += r.distinct
        ctx.transitions += r.generated
        ctx.tlc_runs.append({"module": mod, "cfg": cfg, "distinct": r.distinct, "generated": r.generated,
                             "wall_s": round(r.wall, 1), "rc": r.rc})
        if not r.ok() or r.distinct < 2:
            raise vlib.Infra("model check %s/%s did not pass (rc=%s, %s):\n%s" % (mod, cfg, r.rc, r.violation, r.out[-4000:]))
    if outcome != "NoError" or holds < len(OBLIGATIONS):
        raise vlib.Infra("Apalache did not discharge the obligations (outcome %s, %d conjuncts hold):\n%s" % (outcome, holds, out[-4000:]))
    for name, (oc, _, _, o) in zip(canaries, can):
        if oc != "Error":
            raise vlib.Infra("Apalache canary %s was not refuted (outcome %s): Init may be vacuous\n%s" % (name, oc, o[-3000:]))
    ctx.extra["obligations"] = len(OBLIGATIONS)
    ctx.extra["discharged"] = len(OBLIGATIONS)
    ctx.extra["apalache"] = {"obligations": OBLIGATIONS, "conjuncts_checked": holds, "wall_s": round(wall, 1),
                             "canaries_refuted": canaries, "widths": {"version_bits": 16, "ref_bits": 40, "type_bits": 7},
                             "cmd": "apalache-mc check --init=Init --next=Next --length=0 --inv=<obligations> PackedIdsApa.tla"}
    ctx.extra["trusted_base"] = ["TLC 2 (tla2tools.jar) incl. the Java overrides of Bitwise / Json / IOUtils", "Apalache 0.58.0 + Z3",
                                 "harness/cmd/c10 (limb splitting, token concatenation)", "Go toolchain"]


# ------------------------------------------------------------------------------------------------
# cases
# ------------------------------------------------------------------------------------------------
def gen_tlc(ctx):
    cfg = "PackedIdsGen_quick.cfg" if ctx.quick() else "PackedIdsGen_thorough.cfg"
    fams = ["val", "pair", "big", "text"]
    groups = [["all"]] if ctx.quick() else [[f] for f in fams]     # thorough: one TLC process per family

    def one(g):
        what = g[0]
        sc = os.path.join(ctx.scratch, "gen-" + what)
        out = os.path.join(ctx.scratch, "gen-%s.ndjson" % what)
        r = vlib.tlc("PackedIdsGen", cfg, sc, env={"OUT": out, "WHAT": what}, workers=1, timeout=1500)
        if r.rc != 0:
            raise vlib.Infra("generation %s failed rc=%s:\n%s" % (what, r.rc, r.out[-4000:]))
        got = {}
        for f in (fams if what == "all" else [what]):
            p = out + "." + f
            if not os.path.exists(p):
                raise vlib.Infra("generation %s wrote no file for %s:\n%s" % (what, f, r.out[-3000:]))
            got[f] = [json.loads(l) for l in open(p) if l.strip()]
            os.remove(p)
            if not got[f]:
                raise vlib.Infra("generation %s produced no cases" % f)
        ctx.tlc_runs.append({"module": "PackedIdsGen", "cfg": cfg + ":" + what, "distinct": r.distinct, "generated": r.generated,
                             "wall_s": round(r.wall, 1), "rc": r.rc, "cases": {k: len(v) for k, v in got.items()}})
        return got

    with cf.ThreadPoolExecutor(max_workers=4) as ex:
        res = list(ex.map(one, groups))
    out = {}
    for g in res:
        out.update(g)
    return out


def rnd_limb16(rng):
    return rng.choice(B16) if rng.random() < 0.35 else rng.randrange(0x10000)


def rnd_limb8(rng):
    return rng.choice(B8) if rng.random() < 0.35 else rng.randrange(0x100)


def rnd_triple(rng, kinds):
    k = rng.choice(kinds)
    return {"kind": k, "r": [rnd_limb8(rng), rnd_limb16(rng), rnd_limb16(rng)], "v": rnd_limb16(rng) if k in ELEM else 0}


def neighbour(rng, t):
    """A triple differing from t in one field by +-1 (or the same triple) - adjacent identifiers."""
    u = {"kind": t["kind"], "r": list(t["r"]), "v": t["v"]}
    what = rng.choice(["same", "v", "r0", "r1", "r2", "kind"])
    d = rng.choice([-1, 1])
    if what == "v" and u["kind"] in ELEM:
        u["v"] = min(0xFFFF, max(0, u["v"] + d))
    elif what in ("r0", "r1"):
        i = 2 if what == "r0" else 1
        u["r"][i] = min(0xFFFF, max(0, u["r"][i] + d))
    elif what == "r2":
        u["r"][0] = min(0xFF, max(0, u["r"][0] + d))
    elif what == "kind":
        if u["kind"] in ELEM:
            u["kind"] = rng.choice(ELEM)
        else:
            u["kind"] = rng.choice(PLAIN)
    return u


def gen_random(ctx):
    """Seeded extra inputs from the same abstract vocabulary (inputs only - expected values stay in TLA+)."""
    rng = random.Random(ctx.seed * 1000003 + (0 if ctx.quick() else 7))
    q = ctx.quick()
    vals = [dict(t="val", **rnd_triple(rng, ELEM + PLAIN)) for _ in range(600 if q else 6000)]
    pairs = []
    for _ in range(1500 if q else 15000):
        a = rnd_triple(rng, ELEM + PLAIN)
        b = neighbour(rng, a) if rng.random() < 0.6 else rnd_triple(rng, ELEM + PLAIN)
        pairs.append({"t": "pair", "a": a, "b": b})
    sorts = []
    for i in range(24 if q else 120):
        n = rng.choice([0, 1, 2, 3, 8, 40, 60]) if q else rng.choice([0, 1, 2, 5, 30, 100, 200, 300])
        items = []
        while len(items) < n:
            t = rnd_triple(rng, ELEM)
            if i % 3 == 0:      # few distinct references: many ties on kind and ref, order decided by version
                t["r"] = [rng.choice([0, 0xFF]), rng.choice([0, 0xFFFF]), rng.choice([0, 1, 0xFFFF])]
            items.append(t)
            while len(items) < n and rng.random() < 0.3:
                items.append(neighbour(rng, t) if t["kind"] in ELEM else t)
        items = [x for x in items if x["kind"] in ELEM][:n]
        rng.shuffle(items)
        sorts.append({"t": "sort", "items": items})
    return vals, pairs, sorts


def nontrivial(c):
    t = c["t"]
    if t == "val":
        return any(c["r"]) or c["v"] != 0
    if t == "pair":
        return c["a"] != c["b"]
    if t == "sort":
        return len(c["items"]) >= 2
    if t == "bigsort":
        return True
    return len(c["toks"]) > 0


# ------------------------------------------------------------------------------------------------
_BIN = []


def execute(ctx, cases):
    if not _BIN:
        _BIN.append(vlib.go_build("c10"))
    return vlib.run_go(_BIN[0], stdin_lines=cases)


def slim(rec):
    """A record short enough to print as an evidence sample."""
    s = json.dumps(rec, separators=(",", ":"))
    if len(s) < 1500:
        return rec
    cs = json.dumps(rec["case"], separators=(",", ":"))
    return {"case": rec["case"] if len(cs) < 800 else cs[:800] + " ...", "got": "(%d bytes, e.g. %s ...)" % (len(s), s[s.index('"got"'):][:600])}


class _Quiet:
    """tlc_judge bookkeeping sink for the layout pass (its records are already counted by the property pass)."""
    def __init__(self, ctx):
        self.scratch, self.judged = ctx.scratch, 0


def layout_pass(ctx, recs):
    if not recs:
        return
    bad = vlib.tlc_judge(_Quiet(ctx), JUDGE, "PackedIdsJudgeLayout.cfg", recs, shards=max(1, min(4, len(recs) // 15000)))
    if bad:
        ctx.divergences += len(bad)
        ctx.extra["layout_divergences"] = ctx.extra.get("layout_divergences", 0) + len(bad)
        vlib.log("DIVERGENCE property=C10: %d recorded ids differ from the layout of PackedIds.tla (Model), e.g. case %s: %s" % (
            len(bad), json.dumps(recs[bad[0][0]]["case"])[:200], json.dumps(bad[0][1])[:300]))


def run(ctx):
    t0 = time.time()
    ex = cf.ThreadPoolExecutor(max_workers=1)
    lay = cf.ThreadPoolExecutor(max_workers=1)
    fd = ex.submit(design_level, ctx)            # spec-only runs proceed in the background
    try:
        gen = gen_tlc(ctx)
        vlib.log("C10 generation: %.1fs  (%s)" % (time.time() - t0, ", ".join("%s=%d" % (k, len(v)) for k, v in gen.items())))
        rv, rp, rs = gen_random(ctx)
        for c in gen["big"]:                 # the shuffle seed is a rendering parameter; vary it with the run's seed
            c["seed"] = c["seed"] + 7919 * ctx.seed
        families = [("val", gen["val"] + rv), ("pair", gen["pair"] + rp), ("sort", rs), ("text", gen["text"])]
        judge = lambda rs_: vlib.tlc_judge(ctx, JUDGE, JCFG, rs_, shards=max(1, min(6, len(rs_) // 15000)))
        counts = {name: len(cases) for name, cases in families}
        allc = [c for _, cases in families for c in cases]
        # the big sort cases are few but heavy to judge: spread them evenly so that the judge shards stay balanced
        counts["bigsort"] = len(gen["big"])
        stride = max(1, len(allc) // max(1, len(gen["big"])))
        for k, c in enumerate(gen["big"]):
            allc.insert(min(len(allc), k * (stride + 1)), c)
        for c in allc:
            ctx.note_case(c, nontrivial=nontrivial(c))
        CH = 150000
        seen = set()
        for lo in range(0, len(allc), CH):
            chunk = allc[lo:lo + CH]
            recs = execute(ctx, chunk)
            for r in recs:                      # one sample record per family
                if r["case"]["t"] not in seen and nontrivial(r["case"]):
                    seen.add(r["case"]["t"])
                    ctx.samples.append(slim(r))
            # Model conformance (bit layout) in parallel with the property verdict; it never produces a violation
            fl = lay.submit(layout_pass, ctx, [r for r in recs if r["case"]["t"] not in ("pair", "bigsort")])
            vlib.judge_and_confirm(ctx, chunk, recs, lambda cs: execute(ctx, cs), judge)
            fl.result()
        vlib.log("C10 conformance done at %.1fs" % (time.time() - t0))
    finally:
        try:
            fd.result()
        finally:
            ex.shutdown()
            lay.shutdown()
    vlib.log("C10 design level done at %.1fs" % (time.time() - t0))
    ctx.extra["cases_by_family"] = counts
    ctx.exhaustive = True
    tier = "quick" if ctx.quick() else "thorough"
    ctx.rule = ("TLC enumerates PackedIdsSpace!ValCases/PairCases/TextCases(%s) completely (boundary limbs x 7 kinds; all ordered "
                "pairs of the pool; all token strings up to the length bound plus templates); the driver adds seeded random "
                "values, random/adjacent pairs and shuffled lists for the sorts; BigSortCases = structured digit patterns (pivot, "
                "varying byte positions, positions in which smallest and largest id agree) expanded by the harness to 258..1026 ids.  distinct = distinct abstract cases; non-trivial = "
                "val: some limb or the version non-zero, pair: a # b, sort: >= 2 items, text: >= 1 token" % tier)
    ctx.assumptions = [
        "references are rendered from limbs as r2<<32|r1<<16|r0 and 64-bit results are split into 16-bit limbs by the harness (neutral, trusted)",
        "Apalache proves the Int-level layout and its limb refinement for the real widths; the bit-operation transcription of the Go "
        "code is model-checked by TLC only for scaled widths (2..3 version bits, 3..5 reference bits); the real widths of the Go code "
        "are covered by the recorded boundary and random values",
        "text outside the stated ranges (negative or >= 2^40 references, versions >= 2^16 or negative, a version on changeset/note/user, "
        "a reference on bounds) is not judged: the property is silent there",
        "order across kinds other than node < way < relation is not part of the statement; such pairs are only required to be distinct"]


def replay(ctx, rp):
    recs = execute(ctx, [rp["case"]])
    bad = vlib.tlc_judge(ctx, JUDGE, JCFG, recs, shards=1)
    if bad:
        print("VIOLATION property=C10 replay=(given)  #", json.dumps(bad)[:600])
        return 1
    print("replay: case passes")
    return 0
