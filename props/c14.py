"""C14 - child-first relation ordering emits children before parents, once, always ends.

  MC   : ChildFirst.tla (producer goroutine as explicit-stack DFS, unbuffered channel rendezvous, Next/Err/Close,
         external cancel) is model-checked against the Judges for every graph of the configured families, every
         request list, Close/cancel at every point; liveness under fairness; one deviation config that MUST fail.
  S->C : TLC-generated (graph, request, failing ids, call plan) cases run on the real NewChildFirstOrdering,
         judged by ChildFirstJudge.tla (property) and compared with the Model's walk function (divergence only).
  C->S : recorded call/return histories of real concurrent runs (consumer + canceller goroutine) validated against
         ChildFirstTrace.tla (Model actions, unlogged internal steps chosen by TLC, Judge invariants in every state).
  plus seeded random larger graphs (4..8 ids) judged by the same TLA+ Judge, and deep chains / deep DAGs (up to 300
  relations on one DFS path) whose shape TLC chooses and expands (ChildFirstGenDeep.tla).
"""
import concurrent.futures as cf
import json, os, random, re, time
import vlib

MOD = "ChildFirstMC"
JUDGE, JUDGE_CFG = "ChildFirstJudge", "ChildFirstJudge.cfg"
TRACE, TRACE_CFG = "ChildFirstTrace", "ChildFirstTrace.cfg"

# (cfg, expect_violation)
MC_QUICK = ["ChildFirst_mc_q_stops3.cfg", "ChildFirst_mc_q_all2.cfg", "ChildFirst_mc_q_plain3.cfg",
            "ChildFirst_mc_q_mixed2.cfg", "ChildFirst_live_q.cfg", "ChildFirst_live_q_going.cfg"]
MC_THOROUGH = ["ChildFirst_mc_t_stops3.cfg", "ChildFirst_mc_t_stops4.cfg", "ChildFirst_mc_t_mixed2.cfg",
               "ChildFirst_mc_t_all2.cfg", "ChildFirst_mc_t_mixed3.cfg", "ChildFirst_live_t.cfg",
               "ChildFirst_live_t_going.cfg", "ChildFirst_live_t_unreduced.cfg"] + MC_QUICK[:1]
MC_DEVIATION = "ChildFirst_live_nodone.cfg"
# ChildFirstLemmas: the cheap Judge forms (AcyclicK, J_ChildrenFirstD) equal the literal ones on every small graph x sequence
LEMMAS_QUICK = ["ChildFirstLemmas_q.cfg"]
LEMMAS_THOROUGH = ["ChildFirstLemmas_q.cfg", "ChildFirstLemmas_t4.cfg", "ChildFirstLemmas_tm.cfg"]

# (gen cfg, slices)
GEN_QUICK = [("ChildFirstGen_q_flat3.cfg", 1), ("ChildFirstGen_q_mixed2.cfg", 1), ("ChildFirstGen_q_sample3.cfg", 1),
             ("ChildFirstGenDeep_q.cfg", 1)]
GEN_THOROUGH = [("ChildFirstGen_t_flat3.cfg", 4), ("ChildFirstGen_t_bad3.cfg", 1), ("ChildFirstGen_t_mixed2.cfg", 2),
                ("ChildFirstGen_t_sample3.cfg", 1), ("ChildFirstGen_t_flat4.cfg", 1), ("ChildFirstGenDeep_t.cfg", 1)]


def _shards(items, n):
    n = max(1, min(n, len(items)))
    per = (len(items) + n - 1) // n
    return [items[i * per:(i + 1) * per] for i in range(n) if items[i * per:(i + 1) * per]]


# ----------------------------------------------------------------------------- real code
def execute(ctx, cases, procs=None):
    """Run the plans of every case on the real code; several harness processes, each strictly sequential
    (the goroutine-exit observation counts goroutines)."""
    b = vlib.go_build("c14")
    procs = procs or (6 if ctx.quick() else 8)
    parts = _shards(cases, procs if len(cases) > 200 else 1)
    env = {"GOMAXPROCS": "2"}
    with cf.ThreadPoolExecutor(max_workers=len(parts)) as ex:
        outs = list(ex.map(lambda p: vlib.run_go(b, args=["-seed", str(ctx.seed)], stdin_lines=p, env=env), parts))
    recs = [r for o in outs for r in o]
    return recs


def execute_random(ctx, n, procs=4):
    b = vlib.go_build("c14")
    env = {"GOMAXPROCS": "2"}
    with cf.ThreadPoolExecutor(max_workers=procs) as ex:
        outs = list(ex.map(lambda k: vlib.run_go(b, args=["-seed", str(ctx.seed * 1000 + k), "-random", str(n // procs)],
                                                 env=env), range(procs)))
    return [r for o in outs for r in o]


def record_traces(ctx, cases, procs=4):
    """One recorded run per case: list of runs, each a list of events (first event = cfg)."""
    b = vlib.go_build("c14")
    parts = _shards(cases, procs)
    env = {"GOMAXPROCS": "4"}
    with cf.ThreadPoolExecutor(max_workers=len(parts)) as ex:
        outs = list(ex.map(lambda kp: vlib.run_go(b, args=["-trace", "-seed", str(ctx.seed * 100 + kp[0])],
                                                  stdin_lines=kp[1], env=env), enumerate(parts)))
    runs = []
    for k, o in enumerate(outs):
        idx = -1
        for ev in o:
            if ev["e"] == "cfg":
                idx += 1
                runs.append({"shard": k, "idx": idx, "seed": ctx.seed * 100 + k, "events": []})
            runs[-1]["events"].append(ev)
    return runs


# ----------------------------------------------------------------------------- TLC steps
def model_check(ctx, cfgs, workers, concurrent):
    def one(cfg):
        t0 = time.time() - ctx.t0
        lemma = cfg.startswith("ChildFirstLemmas")
        r = vlib.tlc("ChildFirstLemmas" if lemma else MOD, cfg, os.path.join(ctx.scratch, "mc-" + cfg),
                     workers=1 if lemma else workers, timeout=1500, heap="4g")
        r.span = (round(t0, 1), round(time.time() - ctx.t0, 1))
        return cfg, r
    with cf.ThreadPoolExecutor(max_workers=concurrent) as ex:
        res = list(ex.map(one, cfgs))
    return res


def account_mc(ctx, res):
    for cfg, r in res:
        ctx.states += r.distinct
        ctx.transitions += r.generated
        if cfg.startswith("ChildFirstLemmas"):
            if r.rc != 0 or '<<"LEMMAS"' not in r.out:
                raise vlib.Infra("lemma check %s failed (rc=%s):\n%s" % (cfg, r.rc, r.out[-4000:]))
            ctx.tlc_runs.append({"module": "ChildFirstLemmas", "cfg": cfg, "wall_s": round(r.wall, 1), "rc": r.rc})
            continue
        ctx.tlc_runs.append({"module": MOD, "cfg": cfg, "distinct": r.distinct, "generated": r.generated,
                             "wall_s": round(r.wall, 1), "span_s": list(getattr(r, "span", ())), "rc": r.rc})
        if cfg == MC_DEVIATION:
            if r.rc not in (12, 13) or "Temporal property CancelEndsGoroutine was violated" not in r.out:
                raise vlib.Infra("deviation config %s (send without ctx.Done) was NOT rejected by TLC - liveness check is vacuous" % cfg)
        elif not r.ok():
            raise vlib.Infra("model check %s did not pass (rc=%s, %s):\n%s" % (cfg, r.rc, r.violation, r.out[-5000:]))


def generate(ctx, gens):
    """Run the Gen configs (sliced over parallel TLC processes)."""
    jobs = []
    for cfg, slices in gens:
        text = open(os.path.join(vlib.SPEC, cfg)).read()
        for s in range(slices):
            name = cfg.replace(".cfg", "_s%d.cfg" % s)
            jobs.append((cfg, name, text.replace("Slice = 0", "Slice = %d" % s).replace("Slices = 1", "Slices = %d" % slices)))

    def one(job):
        cfg, name, text = job
        out = os.path.join(ctx.scratch, "gen-" + name + ".ndjson")
        r = vlib.tlc(cfg.split("_")[0], name, os.path.join(ctx.scratch, "g-" + name), env={"OUT": out}, workers=1,
                     timeout=1200, args=["-seed", str(ctx.seed)], files={name: text})
        if r.rc != 0:
            raise vlib.Infra("generation %s failed rc=%s:\n%s" % (name, r.rc, r.out[-4000:]))
        cases = [json.loads(l) for l in open(out) if l.strip()]
        os.remove(out)
        return cfg, r, cases

    with cf.ThreadPoolExecutor(max_workers=8) as ex:
        res = list(ex.map(one, jobs))
    cases, per = [], {}
    for cfg, r, cs in res:
        ctx.tlc_runs.append({"module": cfg.split("_")[0], "cfg": cfg, "cases": len(cs), "wall_s": round(r.wall, 1), "rc": r.rc})
        per[cfg] = per.get(cfg, 0) + len(cs)
        cases += cs
    if not cases:
        raise vlib.Infra("generation produced no cases")
    random.Random(ctx.seed).shuffle(cases)      # spread the expensive (deep) cases over the harness / judge shards
    return cases, per


class Judge:
    """ChildFirstJudge on records; divergences from the Model (why[0] == "DIV") are reported but are no verdict."""

    def __init__(self, ctx):
        self.ctx, self.first, self.divs = ctx, True, []

    def __call__(self, recs, shards=None):
        bad = vlib.tlc_judge(self.ctx, JUDGE, JUDGE_CFG, recs, shards=shards)
        out = []
        for i, why, kf in bad:
            if why and why[0] == "DIV":
                if self.first:
                    self.divs.append((i, why))
            else:
                out.append((i, why, kf))
        if self.first:
            for i, why in self.divs[:10]:
                vlib.log("DIVERGENCE property=C14 record=%d %s  case=%s" % (i, json.dumps(why), json.dumps(recs[i]["case"])[:300]))
            self.ctx.divergences += len(self.divs)
        self.first = False
        return out


# ----------------------------------------------------------------------------- traces
def project(run):
    """Observable projection of a recorded run as a Judge record (stop = "trace"): pure re-formatting."""
    evs = run["events"]
    cfg = evs[0]
    ids = [e["id"] for e in evs if e["e"] == "n.ret" and e["ok"] == "true"]
    obs = [e for e in evs if e["e"] == "obs"]
    end = [e for e in evs if e["e"] == "end"]
    hang = [e for e in evs if e["e"] == "hang"]
    plan = {"k": len(ids), "stop": "trace"}
    got = {"k": len(ids), "stop": "trace", "out": "hang" if hang else "ok", "ids": ids, "endf": False, "after": "skip",
           "err": "?", "gone": obs[0]["gone"] if obs else True, "cret": not hang, "gend": end[0]["gone"] if end else True, "comp": 0}
    return {"case": {"hist": cfg["hist"], "req": cfg["req"], "bad": cfg["bad"], "plans": [plan]}, "got": [got]}


def validate_traces(ctx, runs, group=400):
    """Returns (accepted runs, rejected, unvalidated runs); rejected = [(run, kind, detail)], kind in {"judge", "diverge"}.
    After a rejection the rest of the group is validated again (at most 4 TLC runs per group)."""
    groups = [runs[i:i + group] for i in range(0, len(runs), group)]

    def one(k_g):
        k, g = k_g
        rejected, rest, accepted, states = [], list(g), [], 0
        for attempt in range(4):
            if not rest:
                break
            sc = os.path.join(ctx.scratch, "trace-%d-%d" % (k, attempt))
            os.makedirs(sc, exist_ok=True)
            p = os.path.join(sc, "trace.ndjson")
            starts, n = [], 0
            with open(p, "w") as f:
                for r in rest:
                    starts.append(n + 1)
                    for e in r["events"]:
                        f.write(json.dumps(e, separators=(",", ":")) + "\n")
                        n += 1
            res = vlib.tlc(TRACE, TRACE_CFG, sc, env={"TRACE": p}, workers=1, timeout=1200)
            states += res.distinct
            if res.rc == 0:
                accepted += rest
                rest = []
                break
            hw = re.findall(r'<<"HIGHWATER", (\d+), (\d+)>>', res.out)
            if not hw:
                raise vlib.Infra("trace validation: no high-water mark:\n%s" % res.out[-4000:])
            line = int(hw[-1][0])          # first line no behaviour of the Model could consume
            inv = re.search(r"Invariant (\S+) is violated", res.out)
            if inv:
                # the violating state is the last one of the printed behaviour; it was reached by consuming line l - 1
                ls = re.findall(r"^/\\ l = (\d+)", res.out, re.M)
                if not ls:
                    raise vlib.Infra("trace validation: invariant violated but no state printed:\n%s" % res.out[-4000:])
                line = max(1, int(ls[-1]) - 1)
            j = max(i for i, s in enumerate(starts) if s <= min(line, n))
            if inv:
                rejected.append((rest[j], "judge", inv.group(1)))
            else:
                ev = rest[j]["events"][min(line, n) - starts[j]]
                rejected.append((rest[j], "diverge", "line %d of the run not explained by the Model: %s" % (line - starts[j] + 1, json.dumps(ev))))
            accepted += rest[:j]
            rest = rest[j + 1:]
        return accepted, rejected, states, rest

    with cf.ThreadPoolExecutor(max_workers=6) as ex:
        parts = list(ex.map(one, enumerate(groups)))
    acc = [x for p in parts for x in p[0]]
    rej = [x for p in parts for x in p[1]]
    ctx.states += sum(p[2] for p in parts)
    unvalidated = [x for p in parts for x in p[3]]
    return acc, rej, unvalidated


def trace_stage(ctx, cases, nruns, judge):
    rnd = random.Random(ctx.seed)
    rich = [c for c in cases if len(c["plans"]) >= 9] or cases       # undisturbed iteration emits >= 2 relations
    pick = [dict(c, plans=[]) for c in (rnd.sample(rich, nruns) if len(rich) > nruns else rich)]
    runs = record_traces(ctx, pick)
    t0 = time.time()
    acc, rej, unval = validate_traces(ctx, runs)
    ctx.traces += len(acc)
    ctx.extra["trace_runs"] = len(runs)
    ctx.extra["trace_events"] = sum(len(r["events"]) for r in runs)
    ctx.extra["trace_runs_with_concurrent_cancel"] = sum(1 for r in runs if any(e["e"] == "x.call" for e in r["events"]))
    ctx.tlc_runs.append({"module": TRACE, "cfg": TRACE_CFG, "runs": len(runs), "accepted": len(acc), "wall_s": round(time.time() - t0, 1)})
    if runs:
        ctx.samples.append({"trace": runs[len(runs) // 2]["events"][:12]})
    # every run's observable projection is judged as well (cheap; this is what decides a divergent run)
    pos = {id(r): i for i, r in enumerate(runs)}
    jbad = {i: why for i, why, _ in judge([project(r) for r in runs], shards=1)}
    for r in acc:
        if pos[id(r)] in jbad:
            # accepted by the Model but the projection fails a Judge: Model and Judge disagree - a spec problem
            raise vlib.Infra("trace run accepted by the Model but its projection fails the Judge: %s" % json.dumps(jbad[pos[id(r)]]))
    cands = [(r, kind, detail) for r, kind, detail in rej]
    cands += [(r, "unvalidated", "") for r in unval if pos[id(r)] in jbad]
    confirmed, shown = 0, 0
    for r, kind, detail in cands:
        i = pos[id(r)]
        if kind == "judge" or i in jbad:
            if confirmed >= 3:
                continue
            # confirm: record the same case again (a few times); a violation must show again
            again_bad = False
            for rep in range(4):
                again = record_traces(ctx, [dict(r["events"][0], plans=[])], procs=1)
                _, rej2, _ = validate_traces(ctx, again)
                if any(k == "judge" for _, k, _ in rej2) or judge([project(x) for x in again], shards=1):
                    again_bad = True
                    break
            if again_bad:
                rp = {"property": "C14", "mode": "trace", "case": dict(r["events"][0]), "events": r["events"],
                      "why": [kind, detail, jbad.get(i)], "seed": ctx.seed}
                ctx.report_bad(r["events"][0], ["trace", kind, detail, jbad.get(i)], [], rp)
                confirmed += 1
            else:
                ctx.divergences += 1
                vlib.log("UNREPRODUCED C14 trace failure (%s): %s" % (kind, detail))
        else:
            ctx.divergences += 1
            shown += 1
            if shown <= 5:
                vlib.log("DIVERGENCE property=C14 trace run (seed %s, #%d): %s cfg=%s" % (r["seed"], r["idx"], detail, json.dumps(r["events"][0])[:300]))
    if unval:
        vlib.log("note: %d recorded runs not validated after repeated rejections in their group" % len(unval))
    return confirmed


# ----------------------------------------------------------------------------- driver
class _Timer:
    def __init__(self):
        self.t = time.time()

    def __call__(self, what):
        now = time.time()
        vlib.log("  [c14] %-40s %6.1fs" % (what, now - self.t))
        self.t = now


def _finish_mc(ctx, mc_future, pool, T):
    account_mc(ctx, mc_future.result())
    pool.shutdown()
    T("wait for model checking")


def run(ctx):
    q = ctx.quick()
    ctx.exhaustive = True
    ctx.rule = ("evaluations = runs of the real NewChildFirstOrdering (one per call plan; a case = histories x request list x "
                "failing ids has 2(n+2)+1 plans, n = length of the Model's emission) + random larger cases + recorded trace runs are "
                "counted under traces; distinct = distinct (hist, req, bad); non-trivial = the undisturbed iteration emits at least one "
                "relation; exhaustive = every case of the TLC-enumerated families in ChildFirstGen_*.cfg was executed")
    ctx.assumptions = [
        "relation ids are non-zero (Next treats the zero value received from the closed channel as the end)",
        "the datasource is deterministic and returns a relation's versions in a fixed order",
        "Next/Err/Close are called from one goroutine; only context cancellation happens concurrently",
        "goroutine exit is observed by goroutine count (confirmed by a stack scan for annotate frames) within a deadline",
        "ReducedSpec (producer-local steps explored alone) is used for the large instances; Spec and ReducedSpec are both checked on the small ones",
    ]
    vlib.go_build("c14")
    mc_cfgs = [MC_DEVIATION] + (LEMMAS_QUICK + MC_QUICK if q else LEMMAS_THOROUGH + MC_THOROUGH)
    pool = cf.ThreadPoolExecutor(max_workers=1)
    mc_future = pool.submit(model_check, ctx, mc_cfgs, 2 if q else 4, 4 if q else 3)

    # ---- S -> C
    T = _Timer()
    cases, per = generate(ctx, GEN_QUICK if q else GEN_THOROUGH)
    T("generate (%d cases)" % len(cases))
    recs = execute(ctx, cases)
    T("execute")
    for c in cases:
        key = {"hist": c["hist"], "req": c["req"], "bad": c["bad"]}
        ctx.note_case(key, nontrivial=len(c["plans"]) >= 7 or "shape" in c)
    nruns = sum(len(r["got"]) for r in recs)
    ctx.evaluations += nruns - len(cases)
    ctx.samples = [recs[len(recs) // 3], recs[2 * len(recs) // 3]]
    judge = Judge(ctx)
    vlib.judge_and_confirm(ctx, cases, recs, lambda cs: execute(ctx, cs, procs=1), judge)
    T("judge")
    if ctx.violations:
        return _finish_mc(ctx, mc_future, pool, T)

    # ---- seeded random larger graphs (4..8 ids), same Judge
    nrand = 2000 if q else 15000
    rrecs = execute_random(ctx, nrand)
    rcases = [r["case"] for r in rrecs]
    for c in rcases:
        ctx.note_case({"hist": c["hist"], "req": c["req"], "bad": c["bad"]}, nontrivial=True)
    ctx.evaluations += sum(len(r["got"]) for r in rrecs) - len(rrecs)
    judge.first = True
    judge.divs = []
    vlib.judge_and_confirm(ctx, rcases, rrecs, lambda cs: execute(ctx, cs, procs=1), judge)
    ctx.samples.append(rrecs[0])
    T("random (%d cases)" % len(rrecs))
    if ctx.violations:
        return _finish_mc(ctx, mc_future, pool, T)

    # ---- C -> S
    judge.first = True
    judge.divs = []
    trace_stage(ctx, cases, 600 if q else 5000, judge)

    # ---- design level
    T("traces (%d validated)" % ctx.traces)
    _finish_mc(ctx, mc_future, pool, T)

    skipped = sum(1 for r in recs + rrecs for g in r["got"] if g["out"] == "skipped")
    ctx.extra["sc_cases_per_family"] = per
    ctx.extra["sc_runs"] = nruns
    ctx.extra["random_cases"] = len(rrecs)
    ctx.extra["runs_skipped_after_hangs"] = skipped


def replay(ctx, rp):
    judge = Judge(ctx)
    if rp.get("mode") == "trace":
        runs = []
        for rep in range(5):
            runs += record_traces(ctx, [dict(rp["case"], plans=[])], procs=1)
        acc, rej, _ = validate_traces(ctx, runs)
        pj = judge([project(x) for x in runs], shards=1)
        if any(k == "judge" for _, k, _ in rej) or pj:
            print("VIOLATION property=C14 replay=(given)  #", [d for _, _, d in rej], pj)
            return 1
        print("replay: %d recorded runs accepted, %d diverged, no Judge failure" % (len(acc), len(rej)))
        return 0
    recs = execute(ctx, [rp["case"]], procs=1)
    bad = judge(recs, shards=1)
    if bad:
        print("VIOLATION property=C14 replay=(given)  #", bad)
        return 1
    print("replay: case passes")
    return 0
