"""C02 - parallel PBF decoding preserves file order under every schedule.
 MC   : PbfPipeline |= OrderInv, CompleteInv (all interleavings, N<=3(4), caps 0..2(3), damaged blocks) -- TLC exhaustive
 IND  : PbfOrderInd: inductive invariant of the round-robin dispatch/collect core, discharged by Apalache (base + step) for
        (N, Cap) in {(1,1),(2,0),(2,1)} quick / + {(2,2),(3,0),(4,0)} thorough ((3,1), (3,2) discharged once by hand: 5-17 min each): OrderInv for files of ANY length;
        PbfOrderRefine: PbfPipeline refines that core under a state mapping (TLC, per (N, Cap); wrong mapping refuted)
 S->C : Model behaviours sampled by TLC -simulate are forced through the real goroutines by the scheduler
 C->S : random-walk schedules of the real scanner (N up to 11/32, real channel capacities) validated against PbfTrace
 race : the same files under real concurrency with jitter hooks and the Go race detector, objects retained
 Judge: PbfPipeline!RunOK clauses "order", "complete" (+ outcome: hang / crash / race)."""
import random
import vlib
from props import pbfcommon as P

PREF = {"order", "complete", "outcome"}


def walk_cases(ctx, n):
    configs, stop, plain = P.gen_walk_space(ctx)
    rng = random.Random(ctx.seed)
    cases = []
    for i in range(n):
        cases.append({"kind": "walk", "cfg": rng.choice(configs), "script": rng.choice(plain), "seed": rng.randrange(1 << 30),
                      "cancelStep": -1, "variant": rng.randrange(1000), "weights": rng.choice(P.WEIGHTS)})
    return cases


def run(ctx):
    q = ctx.quick()
    import concurrent.futures as cf
    # unbounded file length (Apalache, inductive invariant of the round-robin core), in the background while the rest runs
    bg = cf.ThreadPoolExecutor(max_workers=2)
    induction = bg.submit(P.order_induction, ctx, [(2, 1), (1, 1), (2, 0)] if q else [(2, 1), (1, 1), (2, 0), (2, 2), (3, 0), (4, 0)])
    # ... and the hook-level Model refines that core (TLC), so the unbounded argument is about the same design
    refinement = bg.submit(P.order_refinement, ctx, [(1, 1), (2, 0), (2, 1)] if q else [(1, 1), (2, 0), (2, 1), (2, 2), (3, 0), (3, 1), (3, 2), (4, 0), (4, 1), (4, 3), (11, 0)])
    P.model_check(ctx, ["Pbf_nostop.cfg"] if q else ["Pbf_nostop.cfg", "Pbf_nostop_big.cfg"])
    # S -> C : forced schedules
    forced = P.gen_forced(ctx, 150 if q else 8000)
    rng = random.Random(ctx.seed)
    for c in forced:
        c["variant"] = rng.randrange(1000)
        c["script"] = ["scanall", "err"]
    walks = walk_cases(ctx, 200 if q else 10000)
    cases = forced + walks
    ctx.tick("model_check+gen")
    recs = P.run_pipe(ctx, cases)
    ctx.tick("scheduler_runs")
    for c, r in zip(cases, recs):
        ctx.note_case([c["cfg"], r["sched"]], nontrivial=len(set(r["sched"])) > 2)
    ctx.samples = [{"case": {k: v for k, v in recs[0]["case"].items() if k != "sched"}, "sched": recs[0]["sched"][:40], "run": recs[0]["run"]}]
    ctx.extra["forced_behaviours"] = len(forced)
    ctx.extra["forced_followed_to_the_end"] = sum(1 for r in recs[:len(forced)] if not r["diverged"])
    for r in recs[:len(forced)]:
        if r["diverged"]:
            ctx.divergences += 1
            vlib.log("DIVERGENCE property=C02 forced replay: " + r["diverged"])
    div = P.validate_traces(ctx, recs)
    P.binding_selftest(ctx, recs, div)
    ctx.tick("trace_validation")
    bad = P.judge_runs(ctx, recs, PREF)
    P.confirm(ctx, cases, recs, bad, PREF, lambda cs: P.run_pipe(ctx, cs, shards=1))
    ctx.tick("judge")
    # race clause: real concurrency + jitter under the race detector
    jit = jitter_cases(ctx, 40 if q else 1000)
    jrecs = P.run_pipe(ctx, jit, race=True, shards=8)
    jbad = P.judge_runs(ctx, jrecs, PREF)
    P.confirm(ctx, jit, jrecs, jbad, PREF, lambda cs: P.run_pipe(ctx, cs, race=True, shards=1))
    ctx.extra["race_detector_runs"] = len(jit)
    ctx.tick("race_runs")
    big_blocks(ctx)
    induction.result()
    rf = refinement.result()
    ctx.states += rf["states"]
    ctx.transitions += rf["transitions"]
    ctx.tlc_runs += rf["tlc_runs"]
    ctx.extra["order_refinement"] = rf["extra"]
    bg.shutdown()
    ctx.tick("order_induction")
    ctx.rule = ("evaluations = runs of the real scanner (forced TLC behaviours + random-walk schedules + jitter/-race runs); "
                "distinct = distinct (configuration, realised schedule) pairs; non-trivial = at least three goroutines took steps")
    ctx.assumptions = ["hook granularity: between two yield points a goroutine only does local work (race-free code)",
                       "races on memory the hooks do not mention are only seen by the Go race detector on the executed runs"]


def big_blocks(ctx):
    """Real-size blocks (the decoder's 8000-entry object slice and the 10-slot channel budget are exceeded): every decoder
    count against the single-decoder scan, judged by PbfBigJudge.tla."""
    q = ctx.quick()
    D = lambda n: {"k": "data", "n": n}
    G = lambda n, g: {"k": "data", "n": n, "g": g}                 # block with its own granularity field
    PAD = lambda n: {"k": "data", "n": n, "pad": 4600000}          # > 4 MiB uncompressed although it holds few elements
    shapes = [[D(8000), D(8001), D(1), D(9000)], [D(16001), D(0), D(7999), D(12000), D(3)],
              # blocks that do / do not carry the optional block parameters, so that which decoder saw which block matters
              [G(3, 1000), D(3), G(2, 10), D(4), D(1), G(5, 100), D(2), D(2), G(1, 7), D(3)],
              [PAD(40), PAD(41), PAD(42), PAD(43), PAD(44), PAD(45)]]
    if not q:
        shapes += [[D(8000)] * 12, [D(25000), D(1), D(1), D(8192), D(8193), D(0), D(8000), D(2)], [D(4099)] * 23]
    cases = [{"kind": "big", "cfg": {"n": 1, "blocks": b, "endkind": "eof", "hdr": h}, "procs": ([1, 2, 3, 11] if q else [1, 2, 3, 4, 5, 7, 11, 16, 32]),
              "variant": v} for b in shapes for h in ("ok", "none") for v in ((0, 1) if q else (0, 1, 2, 3))]
    # large blocks again with one or two OS threads and a filter that holds one decoder up inside a block
    pad = [b for b in shapes if any("pad" in x for x in b)]
    cases += [{"kind": "big", "cfg": {"n": 1, "blocks": b, "endkind": "eof", "hdr": "ok"}, "procs": [1, 2, 4] if q else [1, 2, 3, 4, 8],
               "variant": v, "gomaxprocs": g, "slowms": 25, "slowevery": 61} for b in pad for g in (1, 2) for v in ((1,) if q else (1, 3, 5))]
    recs = P.run_pipe(ctx, cases, shards=min(8, len(cases)))
    slim = [{"big": r["big"]} for r in recs]
    bad = vlib.tlc_judge(ctx, "PbfBigJudge", "PbfBigJudge.cfg", slim, shards=1)
    for c in cases:
        ctx.note_case(["big", c["cfg"], c["variant"], c.get("gomaxprocs", 0)], nontrivial=True)
    for i, why, kf in bad[:3]:
        again = P.run_pipe(ctx, [cases[i]], shards=1)
        if vlib.tlc_judge(ctx, "PbfBigJudge", "PbfBigJudge.cfg", [{"big": again[0]["big"]}], shards=1):
            ctx.report_bad(cases[i], why, kf, {"property": "C02", "case": cases[i], "big": recs[i]["big"], "why": why})
    ctx.extra["big_block_scans"] = sum(len(c["procs"]) for c in cases)
    ctx.tick("big_blocks")


def jitter_cases(ctx, n):
    configs, stop, plain = P.gen_walk_space(ctx)
    rng = random.Random(ctx.seed + 7)
    return [{"kind": "jitter", "cfg": rng.choice(ctx.jitter_configs if i % 2 else configs), "script": ["scanall", "err"], "seed": rng.randrange(1 << 30),
             "cancelStep": -1, "variant": rng.randrange(1000), "slow": P.slow_choice(rng)} for i in range(n)]


def replay(ctx, rp):
    return P.replay_one(ctx, rp, PREF)
