"""C03 - OSM XML decoding is faithful; the streaming scan equals the whole-document decode.

OsmDocCases.tla enumerates abstract documents (osm, osmChange with every block sequence, augmented diffs; every element
kind under a pairwise covering family of present/absent fields) and TLC checks on each of them that the schema-directed
decoding of the document's tree is the expected whole-document value, that unknown names change nothing and that the
stream equals the whole document (design level).  OsmDocGen.tla writes the documents with their generic XML trees, the
Go harness prints every tree under seeded layouts, runs xml.Unmarshal and osmxml.Scanner, and OsmDocJudge.tla decides.
XmlScan.tla is the scanner's call-level state machine: model-checked, then event logs of the real scanner under
TLC-generated call histories are validated against its actions (XmlScanTrace) and its Judges are evaluated on the
recorded histories (XmlScanJudge).

This file also holds the helpers shared by props/c04.py and props/c05.py (same spec, same harness command)."""
import concurrent.futures as cf
import json, os, subprocess, time, hashlib, shutil
import vlib

CMD = "osmdoc"
JUDGE, JUDGE_CFG = "OsmDocJudge", "OsmDocJudge.cfg"

# Known findings of the pinned tree for C04 / C05 (DESIGN.md section 4, #5 #6 #7).  known_findings.json is maintained by
# the coordinator; until it lists these predicates the entries below are used, and an entry there (status known / fixed)
# always wins.
LOCAL_KNOWN = [
    {"property": "C04", "kf": "KF_BoundsElementName", "status": "known", "commit": "",
     "what": "osm.go:245 e.Encode(o.Bounds) writes the element <Bounds>; xml.Unmarshal drops it (also in osmChange blocks, old/new)"},
    {"property": "C05", "kf": "KF_VersionNilText", "status": "known", "commit": "",
     "what": "osm.go:306 OSM.UnmarshalJSON turns an absent version into the text <nil>"},
    {"property": "C05", "kf": "KF_BoundsInElements", "status": "known", "commit": "",
     "what": "osm.go:190-200 OSM.MarshalJSON puts the bounds into elements without a type; OSM.UnmarshalJSON rejects that output"},
]


def use_local_known(ctx):
    listed = {(k["property"], k["kf"]) for k in vlib.load_known()}
    for k in LOCAL_KNOWN:
        if k["property"] == ctx.prop and (k["property"], k["kf"]) not in listed:
            ctx.known.append(k)


def build():
    """go build ./cmd/osmdoc with a private modfile: harness/go.mod does not pin modern-go/reflect2, and the version
    json-iterator v1.1.11 asks for is not in the offline module cache (v1.0.1 is)."""
    tag = hashlib.sha1(vlib.REPO.encode()).hexdigest()[:8]
    d = os.path.join(vlib.BIN, "osmdoc-mod-" + tag)
    os.makedirs(d, exist_ok=True)
    mod = open(os.path.join(vlib.HARNESS, "go.mod")).read().replace("=> /repo", "=> " + vlib.REPO)
    mod += ("\nrequire (\n\tgithub.com/modern-go/concurrent v0.0.0-20180228061459-e0a39a4cb421\n"
            "\tgithub.com/modern-go/reflect2 v1.0.1\n)\n")
    sums = set()
    for p in (os.path.join(vlib.HARNESS, "go.sum"), os.path.join(vlib.REPO, "go.sum"), os.path.join(d, "go.sum")):
        if os.path.exists(p):
            sums.update(l for l in open(p).read().splitlines() if l.strip())
    tmp = os.path.join(d, "go.mod.%d" % os.getpid())
    with open(tmp, "w") as f:
        f.write(mod)
    os.replace(tmp, os.path.join(d, "go.mod"))
    tmp = os.path.join(d, "go.sum.%d" % os.getpid())
    with open(tmp, "w") as f:
        f.write("\n".join(sorted(sums)) + "\n")
    os.replace(tmp, os.path.join(d, "go.sum"))
    out = os.path.join(d, CMD)
    r = subprocess.run(["go", "build", "-modfile=" + os.path.join(d, "go.mod"), "-o", out, "./cmd/" + CMD],
                       cwd=vlib.HARNESS, env=vlib.goenv(), capture_output=True, text=True)
    if r.returncode != 0:
        raise vlib.Infra("go build %s failed:\n%s%s" % (CMD, r.stdout, r.stderr))
    return out


def prepare(ctx):
    """one scratch copy of spec/ before anything runs in parallel (vlib.tlc creates it lazily, which races)"""
    wd = os.path.join(ctx.scratch, "spec")
    if not os.path.isdir(wd):
        shutil.copytree(vlib.SPEC, wd, ignore=shutil.ignore_patterns("states", ".tlacache"))


def gen(ctx, what, big=None):
    cfg = "OsmDocGen_thorough.cfg" if (not ctx.quick() if big is None else big) else "OsmDocGen_quick.cfg"
    return vlib.tlc_gen(ctx, "OsmDocGen", cfg, env={"WHAT": what}, count_states=False)


def judge(ctx, what, recs, shards=None):
    return vlib.tlc_judge(ctx, JUDGE, JUDGE_CFG, recs, env={"WHAT": what}, shards=shards or max(1, min(8, len(recs) // 400)))


def model_check(ctx, module, cfg, workers=1):
    return vlib.tlc_model_check(ctx, module, cfg, workers=workers)


# ---------------------------------------------------------------------------------------------------------------
def exec_docs(ctx, binp, cases, layouts):
    return vlib.run_go(binp, ["-mode", "c03", "-seed", str(ctx.seed), "-layouts", str(layouts)], stdin_lines=cases)


def exec_scan(ctx, binp, cases):
    return vlib.run_go(binp, ["-mode", "scan", "-seed", str(ctx.seed)], stdin_lines=cases)


def trace_validate(ctx, runs, shards=6):
    """Replays the recorded event logs against XmlScan's actions.  Returns (indices of runs the Model rejects, indices
    of runs that were not replayed because their shard already had three rejections)."""
    per = (len(runs) + shards - 1) // shards

    def one(k):
        lo, hi = k * per, min(len(runs), (k + 1) * per)
        rejected, skipped = [], []
        restarts = 0
        while lo < hi:
            sc = os.path.join(ctx.scratch, "trace-%d-%d" % (k, time.time_ns() % 10**9))
            os.makedirs(sc)
            p = os.path.join(sc, "trace.ndjson")
            starts = []
            n = 0
            with open(p, "w") as f:
                for i in range(lo, hi):
                    starts.append(n + 1)
                    f.write(json.dumps({"e": "run", "toks": runs[i]["case"]["toks"]}) + "\n")
                    n += 1
                    for e in runs[i]["ev"]:
                        f.write(json.dumps(e) + "\n")
                        n += 1
            r = vlib.tlc("XmlScanTrace", "XmlScanTrace.cfg", sc, env={"REC": p}, workers=1, timeout=900)
            ctx.states += r.distinct
            ctx.transitions += r.generated
            shutil.rmtree(sc, ignore_errors=True)
            if r.rc == 0:
                break
            import re
            m = re.search(r'<<"STUCK", (\d+)>>', r.out)
            if not m or r.violation:
                raise vlib.Infra("XmlScanTrace failed (rc=%s, %s):\n%s" % (r.rc, r.violation, r.out[-3000:]))
            stuck = int(m.group(1))
            j = max(i for i, s in enumerate(starts) if s <= stuck)
            rejected.append(lo + j)
            lo = lo + j + 1          # continue behind the rejected run
            restarts += 1
            if restarts >= 3:        # enough to report; the rest of this shard counts as not validated
                skipped.extend(range(lo, hi))
                break
        return rejected, skipped

    with cf.ThreadPoolExecutor(max_workers=shards) as ex:
        parts = list(ex.map(one, range(shards)))
    return [i for p in parts for i in p[0]], [i for p in parts for i in p[1]]


C03_SCAN_CLAUSES = {"stream-order", "stream-complete"}


def run(ctx):
    t0 = time.time()
    lap = lambda what: vlib.log("  [%5.1fs] %s" % (time.time() - t0, what)) if os.environ.get("VERIF_TIMING") else None
    prepare(ctx)
    binp = build()
    lap("build")
    q = ctx.quick()
    layouts = 2 if q else 24
    info = {}

    def branch_docs():
        # ---- documents x layouts: whole-document decode, stream, stream = whole
        docs = gen(ctx, "docs")
        recs = exec_docs(ctx, binp, docs, layouts)
        for r in recs:
            d = r["case"]["doc"]
            ctx.note_case({"doc": d, "lay": r["case"]["lay"]}, nontrivial=len(json.dumps(d)) > 120)
        info["docs"] = len(docs)
        info["doc_samples"] = [recs[0]["case"], recs[len(recs) // 2]["case"]]
        # layouts are seeded by the document's position, so a confirmation re-run repeats the whole batch
        keyed = [dict(doc=recs[i]["case"]["doc"], lay=recs[i]["case"]["lay"], _i=i) for i in range(len(recs))]
        again = {}

        def reexec(cs):
            if "r" not in again:
                again["r"] = exec_docs(ctx, binp, docs, layouts)
            return [again["r"][c["_i"]] for c in cs]
        vlib.judge_and_confirm(ctx, keyed, recs, reexec, lambda rs: judge(ctx, "c03", rs),
                               replay_extra={"mode": "docs", "layouts": layouts})
        lap("documents judged")

    def branch_scan(ex):
        # ---- scanner call histories: Judges on the recorded histories, and trace validation against the Model
        scans = vlib.tlc_gen(ctx, "XmlScanGen", "XmlScanGen_quick.cfg" if q else "XmlScanGen_thorough.cfg", count_states=False)
        srecs = exec_scan(ctx, binp, scans)
        for r in srecs:
            ctx.note_case({"toks": r["case"]["toks"], "ops": r["case"]["ops"]},
                          nontrivial=len(r["case"]["ops"]) > 0 and len(r["case"]["toks"]) > 0)
        k = len(srecs) // 3
        info["scan_sample"] = {"toks": srecs[k]["case"]["toks"], "ops": srecs[k]["case"]["ops"], "ev": srecs[k]["ev"]}
        info["scans"] = len(srecs)
        f_tr = ex.submit(trace_validate, ctx, srecs, 4 if q else 8)
        other = []

        def scan_judge(rs):
            bad = vlib.tlc_judge(ctx, "XmlScanJudge", "XmlScanJudge.cfg", rs, shards=max(1, min(6, len(rs) // 600)))
            other.extend((i, why) for i, why, kf in bad if not set(why) & C03_SCAN_CLAUSES)
            return [(i, why, kf) for i, why, kf in bad if set(why) & C03_SCAN_CLAUSES]
        skeyed = [dict(toks=s["toks"], pieces=s["pieces"], ops=s["ops"], idfield=s["idfield"]) for s in scans]
        vlib.judge_and_confirm(ctx, skeyed, srecs, lambda cs: exec_scan(ctx, binp, cs), scan_judge, replay_extra={"mode": "scan"})
        lap("histories judged")
        for i, why in other[:5]:
            # the remaining clauses (later Scans false, Err precedence) belong to C07; here they are only reported
            ctx.divergences += 1
            vlib.log("DIVERGENCE property=C03 scanner history %d fails %s (a C07 clause of XmlScan, not judged by C03)" % (i, why))
        rejected, skipped = f_tr.result()
        ctx.traces = len(srecs) - len(rejected) - len(skipped)
        if skipped:
            vlib.log("C03: %d recorded scanner runs were not replayed (their shard already had 3 rejected runs)" % len(skipped))
        for i in rejected[:5]:
            ctx.divergences += 1
            vlib.log("DIVERGENCE property=C03 XmlScan rejects the recorded scanner run %d: ops=%s" % (i, json.dumps(srecs[i]["case"]["ops"])))
        lap("traces validated")

    with cf.ThreadPoolExecutor(max_workers=6) as ex:
        fs = [ex.submit(branch_docs), ex.submit(branch_scan, ex),
              ex.submit(model_check, ctx, "OsmDocCases", "OsmDocCases_docs_quick.cfg" if q else "OsmDocCases_docs_thorough.cfg"),
              ex.submit(model_check, ctx, "XmlScanMC", "XmlScanMC_quick.cfg" if q else "XmlScanMC_thorough.cfg")]
        for f in fs:
            f.result()
    lap("all done")
    ctx.samples = info["doc_samples"] + [info["scan_sample"]]
    ctx.exhaustive = True
    ctx.extra["layouts_per_document"] = layouts
    ctx.extra["documents"] = info["docs"]
    ctx.extra["scanner_histories"] = info["scans"]
    ctx.rule = ("documents = OsmDocCases!Docs enumerated completely by TLC (every element kind x pairwise covering family of "
                "present/absent fields incl. nested types; osmChange block sequences over {create,modify,delete}^<=%d; augmented "
                "diff action sequences), each printed under %d seeded layouts (attribute order, quotes, white space, comments, "
                "self-closing, entities / character references / CDATA, unknown attributes and empty elements); scanner histories = "
                "XmlScanGen!ScanCases.  distinct = distinct (document, layout) pairs and distinct (tokens, ops) histories; "
                "non-trivial = document larger than a bare root / history with at least one call on a non-empty input"
                % (3 if q else 4, layouts))
    ctx.assumptions = [
        "the schema tables in OsmDoc.tla are the OSM XML formats (API v0.6, osmChange, Overpass augmented diff, notes, user details, planet changeset dump: num_changes)",
        "at most one <bounds> per <osm> / per osmChange block kind; an augmented-diff create action holds exactly one element",
        "unknown elements are empty (an unknown element that contains OSM elements is outside the property)",
        "note dates are whole seconds (the notes date layout has no fraction)",
        "values come from the seeded symbol tables of harness/internal/osmdoc (strings needing every kind of escape, ids around 1e3 / 2^31 / 2^60, 7-digit coordinates, second and sub-second UTC times)"]


def replay(ctx, rp):
    prepare(ctx)
    binp = build()
    ctx.seed = rp.get("seed", ctx.seed)
    if rp.get("mode") == "scan":
        recs = exec_scan(ctx, binp, [rp["case"]])
        bad = [b for b in vlib.tlc_judge(ctx, "XmlScanJudge", "XmlScanJudge.cfg", recs, shards=1) if set(b[1]) & C03_SCAN_CLAUSES]
    else:
        docs = gen(ctx, "docs", big=rp.get("layouts", 2) > 2)
        recs = exec_docs(ctx, binp, docs, rp.get("layouts", 2))
        recs = [recs[rp["case"]["_i"]]]
        if recs[0]["case"]["doc"] != rp["case"]["doc"]:
            raise vlib.Infra("replay: the document at that position changed (spec edited since the replay file was written)")
        bad = judge(ctx, "c03", recs, shards=1)
    if bad:
        print("VIOLATION property=C03 replay=(given)  #", bad)
        return 1
    print("replay: case passes")
    return 0
