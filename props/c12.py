"""C12 - annotation is deterministic and orders updates by index, time, version.

  spec/Annotate.tla      the `range` over the child-location map is a nondeterministic choice of the next unprocessed
                         child: TLC explores every visiting order and checks `Deterministic` (every order ends in the one
                         result that is a function of the input) and `SortedInv`; Annotate_mc_pinned.cfg shows that the
                         comparison of the pinned tree (PinnedSort = TRUE) violates them at design level
  spec/OsmHistoryFamily.tla  families with several versions of a child sharing a timestamp and > 12 updates per parent
  harness/cmd/c11        annotates every history R times on fresh copies inside one process (Go randomises map iteration
                         per range statement) and records every run
  spec/AnnotateJudge.tla MODE=c12: DeterministicRuns over the R runs, Sorted on each; KF_SameSecondOrder characterises
                         the known defect DESIGN 4 #8 exactly
"""
import json

import vlib
from props import c11

MC_QUICK = ["Annotate_mc_order_q.cfg"]
MC_THOROUGH = ["Annotate_mc_order_t.cfg", "Annotate_mc_order_m_t.cfg", "Annotate_mc_order_q.cfg"]
GEN_QUICK = [("OsmHistory_gen_triple_q.cfg", 2), ("OsmHistory_gen_mixed_q.cfg", 1)]
GEN_THOROUGH = [("OsmHistory_gen_triple_t.cfg", 1), ("OsmHistory_gen_stamp2_t.cfg", 1), ("OsmHistory_gen_mixed_t.cfg", 2)]


def run(ctx):
    c11.prepare(ctx)
    quick = ctx.quick()
    R = 5 if quick else 30
    binpath = vlib.go_build("c11")

    def mc():
        c11.model_check(ctx, MC_QUICK if quick else MC_THOROUGH, max(2, vlib.NCPU // 2))
        # design level: the pinned comparison (index, time) + unstable sort violates the Judges
        r = vlib.tlc_model_check(ctx, "AnnotateMC", "Annotate_mc_pinned.cfg", expect_ok=False, workers=2)
        if r.violation not in ("SortedInv", "Deterministic"):
            raise vlib.Infra("Annotate_mc_pinned.cfg: expected SortedInv/Deterministic to be violated with PinnedSort, got rc=%s %s"
                             % (r.rc, r.violation))
        ctx.extra["pinned_sort_model_violates"] = r.violation

    join = c11.in_background(mc)
    total = 0
    pool, rough = [], []
    prng = c11.random.Random(ctx.seed * 31337)
    try:
        # the dedicated family: equal timestamps, more than a dozen updates per parent
        fam = vlib.tlc_gen(ctx, "OsmHistoryFamily", "OsmHistoryFamily_q.cfg" if quick else "OsmHistoryFamily_t.cfg")
        cases = c11.make_cases(ctx, fam, c11.FAM_OPTS, runs=R, per_history=2, salt=99, reann=True)
        vlib.log("  family: %d histories -> %d cases x %d runs" % (len(fam), len(cases), R))
        total += len(cases)
        c11.run_and_judge(ctx, binpath, cases, "c12", chunk=20000)
        # C11's histories (three children: every rotation of the map order; two children)
        for n, (cfg, per) in enumerate(GEN_QUICK if quick else GEN_THOROUGH):
            hs, opts = c11.gen_histories(ctx, cfg, workers=4)
            Rm = R if quick else 10      # machine histories: fewer repetitions than the family / random ones
            cases = c11.make_cases(ctx, hs, opts, runs=Rm, per_history=per, salt=200 + n, reann=True)
            vlib.log("  %s: %d histories -> %d cases x %d runs" % (cfg, len(hs), len(cases), Rm))
            total += len(cases)
            pool += prng.sample(cases, min(len(cases), 600))
            c11.run_and_judge(ctx, binpath, cases, "c12", chunk=20000)
        # call sequences: equal calls in one process must agree whatever was called in between (some calls fail part
        # way: unrestricted histories without the ignore options)
        hs, opts = c11.gen_histories(ctx, "OsmHistory_gen_any_q.cfg", workers=4)
        rough = prng.sample(c11.make_cases(ctx, hs, opts, runs=1, per_history=1, salt=300), 600)
        seqs = c11.make_sequences(ctx, pool + rough, rough, 600 if quick else 5000)
        vlib.log("  sequences: %d call histories x %d calls" % (len(seqs), len(seqs[0]["steps"])))
        c11.run_sequences(ctx, binpath, seqs, "seq12")
        ctx.extra["call_sequences"] = len(seqs)
        hc = c11.huge_cases(ctx, runs=R)
        vlib.log("  huge parents: %d cases x %d runs" % (len(hc), R))
        c11.run_and_judge(ctx, binpath, hc, "c12", chunk=20000)
        rc = c11.random_cases(ctx, binpath, 400 if quick else 3000, runs=R, kids=10, vers=6, pars=4, reann=True)
        c11.run_and_judge(ctx, binpath, rc, "c12", chunk=20000)
    finally:
        join()

    c11.settle_unreproduced(ctx)
    if ctx.divergences:
        vlib.log("DIVERGENCE property=%s total=%d (every Judge holds on these cases, the result differs from the Model; not a violation)" % (ctx.prop, ctx.divergences))
    ctx.exhaustive = True
    ctx.extra["enumerated_cases"] = total
    ctx.extra["random_cases"] = len(rc)
    ctx.extra["runs_per_case"] = R
    ctx.rule = ("evaluations = annotate runs (R per case on fresh copies, one process); cases = OsmHistoryFamily (equal timestamps, "
                "n*(m-1)*r updates per parent) + histories of the OsmHistory machine (3 and 2 children) x options + seeded random "
                "larger histories; distinct = distinct (history, options, kind, member types); non-trivial = at least one update or an error")
    ctx.assumptions = [
        "hash-map iteration orders are sampled on the Go side (R runs per case; Go randomises every range over a map); the Model enumerates them",
        "version order = order of the child's version numbers (Update.Version)",
    ]


def replay(ctx, rp):
    return c11.replay_mode(ctx, rp, "c12")
