"""C17 - GeoJSON conversion maps elements to features exactly; options only subtract.

  GeoJsonGen (TLC)   enumerates the structured families of GeoJsonSpace.tla and draws a seeded random sample of the
                     full product space; every case carries the 16 option sets
  GeoJsonMC (TLC)    design level: Convert as a step machine over exactly those cases, Model |= Judges
  GeoJsonArea (TLC)  the area rules repeated in GeoJson.tla are those of PolygonRules.tla (C18)
  harness c17        renders each case, runs the real osmgeojson.Convert under every option set (3 conversions each:
                     same input twice, an equal fresh input once), records abstract features + digests
  GeoJsonJudge (TLC) evaluates the J_* operators on the recorded features (the only oracle); a difference between
                     the real features and the Model's Conv(ds, O) is reported as DIVERGENCE, which is not a verdict
"""
import json, os, threading, time
import vlib

MOD, JUDGE = "GeoJson", "GeoJsonJudge"
CONVERSIONS_PER_OPTION_SET = 3

_BIN = {}


def binary():
    """build once per check run (always from the current working tree of /repo or $VERIF_REPO)"""
    if "c17" not in _BIN:
        _BIN["c17"] = vlib.go_build("c17")
    return _BIN["c17"]


def execute(ctx, cases, seed=None):
    b = binary()
    return vlib.run_go(b, args=["-seed", str(ctx.seed if seed is None else seed)], stdin_lines=cases)


def make_judge(ctx, count=True):
    def judge(rs):
        shards = max(1, min(6, max(2, vlib.NCPU // 2), len(rs) // 800))   # every shard is a TLC start + a slot
        bad = vlib.tlc_judge(ctx, JUDGE, "GeoJsonJudge.cfg", rs, shards=shards, timeout=1500)
        out = []
        for i, why, kf in bad:
            if why.get("diverges") and count:
                ctx.divergences += 1
                vlib.log("DIVERGENCE property=C17 record=%d option-sets=%s: real features differ from the Model's Conv(ds, O); "
                         "not a verdict" % (i, json.dumps(why["diverges"])[:200]))
                if len(ctx.extra.setdefault("divergence_samples", [])) < 3:
                    ctx.extra["divergence_samples"].append({"case": rs[i]["case"], "option_sets": why["diverges"]})
            if why.get("fails"):
                out.append((i, why["fails"], kf))
        return out
    return judge


class Bg(threading.Thread):
    """run f() in the background, keep result or exception"""
    def __init__(self, f):
        super().__init__(daemon=True)
        self.f, self.res, self.exc = f, None, None
        self.start()

    def run(self):
        self.t_start = time.time()
        try:
            self.res = self.f()
        except BaseException as e:   # noqa
            self.exc = e
        self.t_end = time.time()

    def get(self):
        self.join()
        if self.exc:
            raise self.exc
        return self.res


def account(ctx, module, cfg, r):
    ctx.states += r.distinct
    ctx.transitions += r.generated
    ctx.tlc_runs.append({"module": module, "cfg": cfg, "distinct": r.distinct, "generated": r.generated,
                         "wall_s": round(r.wall, 1), "rc": r.rc})


def run(ctx):
    tier = "quick" if ctx.quick() else "thorough"
    build = Bg(binary)
    # the copy of the polygon-features table in GeoJson.tla == PolygonRules.tla (own scratch: runs next to the generation)
    area_scratch = os.path.join(ctx.scratch, "area")
    os.makedirs(area_scratch)
    area = Bg(lambda: vlib.tlc("GeoJsonArea", "GeoJsonArea.cfg", area_scratch, timeout=600))

    cases = vlib.tlc_gen(ctx, "GeoJsonGen", "GeoJsonGen_%s.cfg" % tier, args=("-seed", str(ctx.seed)), timeout=1500)
    cases.sort(key=lambda c: json.dumps(c, sort_keys=True))
    stage = {"gen_s": round(time.time() - ctx.t0, 1)}

    # design level on exactly these cases: Model |= Judges (own scratch: runs next to harness + judge).
    # Bound of the design-level run: all family cases + the first mc_sample cases of the random sample.
    mc_sample = 100000 if ctx.quick() else 12000
    # The step machine carries the whole data set in every state: the real-size routes of family F7 are model-checked
    # up to 13 sections (26 ways); the larger ones are only replayed into the real code and compared with the
    # functional form of the Model by the Judge module.
    mc_cases, ns = [], 0
    for c in cases:
        if len(c["ways"]) > 26:
            continue
        if c["fam"] == "S":
            ns += 1
            if ns > mc_sample:
                continue
        mc_cases.append(c)
    mc_cfg = "GeoJsonMC_%s.cfg" % tier
    # vlib admits TLC runs through a machine-wide slot budget (one slot per worker, all or nothing), so a run with
    # several workers can wait minutes when other checks run side by side (measured: 150 s for two slots): the cases
    # are dealt over independent single-worker TLC runs instead, each admitted as soon as any slot is free.
    mc_parts = 3 if ctx.quick() else 6
    ctx.extra["model_checked_cases"] = len(mc_cases)

    def start_mc(k):
        sc = os.path.join(ctx.scratch, "mc%d" % k)
        os.makedirs(sc)
        cf = os.path.join(sc, "cases.ndjson")
        with open(cf, "w") as f:
            for c in mc_cases[k::mc_parts]:
                f.write(json.dumps(c, separators=(",", ":")) + "\n")
        return Bg(lambda: vlib.tlc("GeoJsonMC", mc_cfg, sc, env={"CASES": cf}, workers=1, timeout=2400, heap="2g"))
    mcs = [start_mc(k) for k in range(mc_parts)]

    build.get()
    for c in cases:
        ctx.note_case({k: c[k] for k in ("ids", "nodes", "ways", "rels")},
                      nontrivial=len(c["nodes"]) + len(c["ways"]) + len(c["rels"]) >= 2)
    nopts = len(cases[0]["opts"])
    ctx.evaluations = len(cases) * nopts * CONVERSIONS_PER_OPTION_SET
    fams = {}
    for c in cases:
        fams[c["fam"]] = fams.get(c["fam"], 0) + 1
    ctx.extra["cases_per_family"] = fams
    ctx.extra["option_sets_per_case"] = nopts

    def sample(r):
        run0 = r["got"]["runs"][0]
        return {"case": {k: r["case"][k] for k in ("ids", "nodes", "ways", "rels")}, "options": run0["o"],
                "features": [{k: f[k] for k in ("fid", "g", "c", "tags")} for f in run0["feats"]]}

    # real code + Judge, in batches (a record holds 16 feature collections: keep memory bounded)
    stage["harness_s"] = stage["judge_s"] = 0.0
    BATCH = 4000
    for lo in range(0, len(cases), BATCH):
        cb = cases[lo:lo + BATCH]
        t1 = time.time()
        recs = execute(ctx, cb)
        stage["harness_s"] = round(stage["harness_s"] + time.time() - t1, 1)
        if lo == 0:
            big = sorted(range(len(recs)), key=lambda i: -len(recs[i]["got"]["runs"][0]["feats"]))
            ctx.samples = [sample(recs[i]) for i in (big[0], big[len(big) // 3], big[len(big) // 2])]
        t1 = time.time()
        vlib.judge_and_confirm(ctx, cb, recs, lambda cs: execute(ctx, cs), make_judge(ctx), replay_extra={"tier": tier})
        stage["judge_s"] = round(stage["judge_s"] + time.time() - t1, 1)
        del recs

    t1 = time.time()
    stage["mc_s"] = []
    for k, mc in enumerate(mcs):
        r = mc.get()
        account(ctx, "GeoJsonMC", "%s part %d/%d" % (mc_cfg, k + 1, mc_parts), r)
        stage["mc_s"].append([round(mc.t_start - ctx.t0, 1), round(mc.t_end - ctx.t0, 1), round(r.wall, 1)])
        if not r.ok():
            raise vlib.Infra("model check GeoJsonMC/%s did not pass (rc=%s, %s):\n%s" % (mc_cfg, r.rc, r.violation, r.out[-5000:]))
    stage["mc_wait_s"] = round(time.time() - t1, 1)
    ctx.extra["stage_wall"] = stage
    vlib.log("C17 stages:", stage)
    a = area.get()
    account(ctx, "GeoJsonArea", "GeoJsonArea.cfg", a)
    if not a.ok() or "AREA-RULES-IDENTICAL" not in a.out:
        raise vlib.Infra("GeoJsonArea: area rules of GeoJson.tla differ from PolygonRules.tla:\n%s" % a.out[-3000:])

    ctx.exhaustive = False
    ctx.rule = ("cases = families F1..F7 of GeoJsonSpace.tla (F7: real-size routes, up to 30 sections) enumerated completely by TLC + a seeded "
                "RandomSubset sample of the full product space (<= 3 nodes, <= 2 ways, <= 2 relations), %s; each case is converted under all 16 option sets, "
                "3 conversions per option set (evaluations = cases x 16 x 3); distinct = distinct abstract data sets; "
                "non-trivial = at least two elements; states = GeoJsonMC (the step machine over the same cases; F7 up to 13 sections) + GeoJsonArea"
                % ("GeoJsonGen_%s.cfg" % tier))
    ctx.assumptions = [
        "tag keys are unique within an element (tag values may be empty)",
        "relation members carry no orientation and no way-node lists (un-annotated relations)",
        "multipolygon/boundary relations have at most two inner/outer way members (ring assembly is C16)",
        "an annotated way node carries the same coordinates as the node of that id when both exist and the node is located",
        "NodeRule is read as an exact mapping (a node feature only for a node satisfying the condition); silent for nodes without location",
        "the Judge is silent on geometry of multipolygon/boundary features, on ways that are members of such relations, "
        "and on the presence of route member ways that have no interesting tag of their own",
        "the area rules are those of PolygonRules.tla (checked identical by GeoJsonArea.tla at every run)",
    ]


def replay(ctx, rp):
    seed = rp.get("seed", ctx.seed)
    recs = execute(ctx, [rp["case"]], seed=seed)
    bad = make_judge(ctx)(recs)
    known = [b for b in bad if ctx.known_match(b[2])]
    bad = [b for b in bad if not ctx.known_match(b[2])]
    for b in known:
        print("KNOWN-FINDING: property=C17 %s" % b[2])
    if bad:
        print("VIOLATION property=C17 replay=(given)  #", json.dumps(bad)[:600])
        return 1
    print("replay: case passes")
    return 0
