"""C01 - PBF scan yields exactly the encoded header and elements, field for field.

  design level : PbfFormatCache.tla (the cached-iterator mechanism of dataDecoder, transcribed) |= NoInherit over every
                 file of the input space handed to one worker; the same run with one clearing removed (Bug constants)
                 must be rejected by TLC (non-vacuity).
  conformance  : TLC enumerates the abstract files (PbfFormatSpace.tla, one TLC process per family), the independent
                 writer harness/internal/pbfw renders them under seeded magnitude profiles, the real
                 osmpbf.New(...).Scan/Object/Err/Header() is recorded field by field (harness/cmd/c01), and
                 PbfFormatJudge.tla evaluates  Recorded = DecodeFile(file) /\\ RecordedHeader = DecodeHeader(file.header).
"""
import concurrent.futures as cf
import json
import os
import shutil
import time

import vlib

FAMS = ["densepair", "densegroups", "spaced", "waypair", "relpair", "bodies", "params", "shapes", "header", "unsorted"]
MC_FAMS = ["densepair", "densegroups", "spaced", "waypair", "relpair", "bodies", "params", "shapes", "unsorted"]
BUGS_QUICK = ["visible", "info", "memid"]
BUGS_ALL = ["version", "timestamp", "changeset", "uid", "user_sid", "visible", "info", "keyvals", "params", "memid", "waytags", "members"]


def tla_set(xs):
    return "{" + ", ".join('"%s"' % x for x in xs) + "}"


def prepare_spec(ctx):
    wd = os.path.join(ctx.scratch, "spec")
    if not os.path.isdir(wd):
        shutil.copytree(vlib.SPEC, wd, ignore=shutil.ignore_patterns("states", ".tlacache"))


def gen_family(ctx, fam, full, seed, module="PbfFormatGen", extra=""):
    """One TLC process writes the cases of one family as ndjson."""
    name = "gen_%s.cfg" % fam
    text = ('CONSTANT Full = %s\nCONSTANT Seed = %d\n%sINIT GInit\nNEXT GNext\nCHECK_DEADLOCK FALSE\n'
            % ("TRUE" if full else "FALSE", seed, extra))
    out = os.path.join(ctx.scratch, "cases-%s.ndjson" % fam)
    r = vlib.tlc(module, name, ctx.scratch, env={"OUT": out}, files={name: text}, workers=1, timeout=1500, heap="3g")
    if r.rc != 0 or not os.path.exists(out):
        raise vlib.Infra("generation of family %s failed rc=%s:\n%s" % (fam, r.rc, r.out[-3000:]))
    cases = [json.loads(l) for l in open(out) if l.strip()]
    os.remove(out)
    if not cases:
        raise vlib.Infra("family %s is empty" % fam)
    return fam, cases, r


def cache_mc(ctx, bug, full, seed, fams, workers):
    name = "cache_%s_%s.cfg" % (bug, "_".join(fams))
    text = ('CONSTANT Bug = "%s"\nCONSTANT Full = %s\nCONSTANT Seed = %d\nCONSTANT Fams = %s\n'
            'SPECIFICATION Spec\nINVARIANT NoInherit\nCHECK_DEADLOCK FALSE\n'
            % (bug, "TRUE" if full else "FALSE", seed, tla_set(fams)))
    r = vlib.tlc("PbfFormatCache", name, ctx.scratch, files={name: text}, workers=workers, timeout=2400, heap="4g")
    return bug, r


def add_run(ctx, module, cfg, r, count=True):
    if count:
        ctx.states += r.distinct
        ctx.transitions += r.generated
    ctx.tlc_runs.append({"module": module, "cfg": cfg, "distinct": r.distinct, "generated": r.generated,
                         "wall_s": round(r.wall, 1), "rc": r.rc})


# families whose point is the presence lattice (large): one magnitude profile per file (rotating with the case);
# in the thorough tier params / spaced run under all four profiles, shapes / header (and C08's cases) under two
BIG_FAMS = {"densepair", "densegroups", "waypair", "relpair", "waybody", "relbody"}


def profiles_for(ctx, case):
    if ctx.quick():
        return "rot1"
    if case.get("fam") in BIG_FAMS:
        return "rot1"
    return "0,1,2,3" if case.get("fam") in ("params", "spaced2", "spaced3") else "rot2"


def execute(ctx, cases, binname="c01"):
    """Runs the harness; cases are grouped by the profile argument they get (a function of tier and family only)."""
    b = vlib.go_build(binname)
    recs = [None] * len(cases)
    groups = {}
    for i, c in enumerate(cases):
        groups.setdefault(profiles_for(ctx, c), []).append(i)
    for prof, idx in groups.items():
        out = vlib.run_go(b, args=["-seed", str(ctx.seed), "-profiles", prof], stdin_lines=[cases[i] for i in idx], timeout=3000)
        if len(out) != len(idx):
            raise vlib.Infra("%s: %d cases in, %d records out" % (binname, len(idx), len(out)))
        for i, r in zip(idx, out):
            recs[i] = r
    return recs


def big_stage(ctx, for_filter, binname, nontriv):
    """Real-size blocks (> 8000 elements, several groups per block), described and judged compactly (PbfFormatBig.tla):
    TLC generates the cases, the harness records the returned elements run-length encoded, PbfFormatBigJudge compares
    with PbfFormatBig!RunsOf.  Returns the number of scans."""
    name, cases, r = gen_family(ctx, "big", not ctx.quick(), ctx.seed, module="PbfFormatBigGen",
                                extra="CONSTANT ForFilter = %s\n" % ("TRUE" if for_filter else "FALSE"))
    add_run(ctx, "PbfFormatBigGen", "Full=%s ForFilter=%s" % (not ctx.quick(), for_filter), r, count=False)
    recs = execute(ctx, cases, binname)
    n = 0
    for c, rcd in zip(cases, recs):
        ctx.note_case(c, nontrivial=nontriv(c))
        n += len(rcd.get("runs", []))
    judge = lambda rs: vlib.tlc_judge(ctx, "PbfFormatBigJudge", "PbfFormatBigJudge.cfg", rs, shards=1, timeout=2400)
    vlib.judge_and_confirm(ctx, cases, recs, lambda cs: execute(ctx, cs, binname), judge)
    ctx.extra["big_block_cases"] = len(cases)
    return n


def big_mc(ctx):
    """design level for the compact formulation: RunsOf = Compress(Filtered(ExpandFile ...)) on small instances"""
    r = vlib.tlc("PbfFormatBigMC", "PbfFormatBigMC.cfg", ctx.scratch, workers=1, timeout=1200)
    return r


def nontrivial(c):
    """the file has at least one element (so something is decoded at all)"""
    for b in c["file"]["blocks"]:
        for g in b["groups"]:
            if g.get("nodes") or g.get("ways") or g.get("rels"):
                return True
    return False


def run(ctx):
    quick = ctx.quick()
    full = not quick
    vlib.go_build("c01")
    prepare_spec(ctx)
    bugs = BUGS_QUICK if quick else BUGS_ALL
    # vlib.tlc holds machine-wide CPU slots per TLC worker: keep the number of concurrent TLC processes small
    with cf.ThreadPoolExecutor(max_workers=4) as genpool, cf.ThreadPoolExecutor(max_workers=2) as mcpool:
        # design level, in the background: the mechanism model against NoInherit over every file of the 8 data families,
        # then the non-vacuity probes one after the other
        mc_main = mcpool.submit(cache_mc, ctx, "none", full, ctx.seed, MC_FAMS, 2 if quick else 4)
        mc_bugs = mcpool.submit(lambda: [cache_mc(ctx, b, False, ctx.seed, ["probe"], 1) for b in bugs])
        mc_big = mcpool.submit(big_mc, ctx)
        # case generation, one TLC per family
        # case generation: one TLC per group of families (quick: 2 processes; thorough: one per family, 4 at a time)
        groups = [["densepair"], [f for f in FAMS if f != "densepair"]] if quick else [[f] for f in FAMS]
        gens = [genpool.submit(gen_family, ctx, "-".join(g), full, ctx.seed, "PbfFormatGen", "CONSTANT Fams = %s\n" % tla_set(g)) for g in groups]
        cases, per_fam = [], {}
        for g in gens:
            name, cs, r = g.result()
            add_run(ctx, "PbfFormatGen", "Fams=%s Full=%s Seed=%d" % (name, full, ctx.seed), r, count=False)
            for c in cs:
                fam = {"spaced2": "spaced", "spaced3": "spaced", "waybody": "bodies", "relbody": "bodies"}.get(c["fam"], c["fam"])
                per_fam[fam] = per_fam.get(fam, 0) + 1
            cases += cs
        vlib.log("C01: %d abstract files generated by TLC %s  [t=%.0fs]" % (len(cases), per_fam, time.time() - ctx.t0))

        recs = execute(ctx, cases)
        nscans = 0
        for c, rcd in zip(cases, recs):
            ctx.note_case(c, nontrivial=nontrivial(c))
            nscans += len(rcd.get("runs", []))
        ctx.evaluations = nscans          # executions of the real scanner (one per file x profile x decoder count)
        vlib.log("C01: %d scans of the real scanner recorded  [t=%.0fs]" % (nscans, time.time() - ctx.t0))
        ctx.samples = sorted(recs, key=lambda r: len(json.dumps(r)))[:2]     # the two smallest records, verbatim

        judge = lambda rs: vlib.tlc_judge(ctx, "PbfFormatJudge", "PbfFormatJudge.cfg", rs, shards=min(6, max(1, len(rs) // 1500)), timeout=2400)
        vlib.judge_and_confirm(ctx, cases, recs, lambda cs: execute(ctx, cs), judge)
        nscans += big_stage(ctx, False, "c01", lambda c: True)
        ctx.evaluations = nscans
        vlib.log("C01: judged by TLC (incl. %d large multi-group blocks)  [t=%.0fs]" % (ctx.extra["big_block_cases"], time.time() - ctx.t0))

        bug, r = mc_main.result()
        add_run(ctx, "PbfFormatCache", "Bug=none Full=%s Fams=%s" % (full, ",".join(MC_FAMS)), r)
        if not r.ok():
            raise vlib.Infra("PbfFormatCache does not satisfy NoInherit (rc=%s, %s):\n%s" % (r.rc, r.violation, r.out[-4000:]))
        for bug, r in mc_bugs.result():
            add_run(ctx, "PbfFormatCache", "Bug=%s Fams=probe (violation expected)" % bug, r)
            if r.violation != "NoInherit":
                raise vlib.Infra("PbfFormatCache with Bug=%s: expected a NoInherit violation, got rc=%s %s (vacuous invariant?)\n%s"
                                 % (bug, r.rc, r.violation, r.out[-3000:]))
        r = mc_big.result()
        add_run(ctx, "PbfFormatBigMC", "PbfFormatBigMC.cfg", r)
        if not r.ok():
            raise vlib.Infra("PbfFormatBigMC: RunsAreTheSpec does not hold (rc=%s, %s):\n%s" % (r.rc, r.violation, r.out[-3000:]))
        vlib.log("C01: mechanism model checked  [t=%.0fs]" % (time.time() - ctx.t0))
    ctx.extra["cases_per_family"] = per_fam
    ctx.extra["nonvacuity_probes"] = {b: "NoInherit violated as required" for b in bugs}
    ctx.exhaustive = True
    ctx.rule = ("cases = all abstract files of PbfFormatSpace!Family(f, Full=%s, Seed=%d) for the 9 families, enumerated completely by TLC; "
                "plus the large multi-group blocks of PbfFormatBig!BigC01Cases (run-length described and judged); the bytes are delivered through bytes.Reader / one byte per Read / seeded small chunks; "
                "evaluations = scans of the real scanner (file x magnitude profile x decoder count); distinct = distinct abstract files; "
                "non-trivial = the file holds at least one element" % ("TRUE" if full else "FALSE", ctx.seed))
    ctx.assumptions = [
        "varint / zigzag / zlib / packed-field encoding below the abstraction is exercised only through the independent writer pbfw (TLC never sees bytes)",
        "magnitudes are limited to the four seeded profiles (ids up to 2^62, versions/uids up to 2^31, coordinates to +-180 deg, timestamps to year 2100)",
        "valid PBF = dense node, way and relation groups (plain Node groups make the pinned code panic and are outside the property's quantifier)",
        "packed repeated fields are written as one packed chunk (what every PBF writer does)",
        "Header() asked after the end of the scan returns io.EOF as its error next to the correct header; that error value is not judged",
    ]


def replay(ctx, rp):
    prepare_spec(ctx)
    recs = execute(ctx, [rp["case"]])
    mod = "PbfFormatBigJudge" if rp["case"].get("rle") else "PbfFormatJudge"
    bad = vlib.tlc_judge(ctx, mod, mod + ".cfg", recs, shards=1)
    if bad:
        print("VIOLATION property=C01 replay=(given)  #", json.dumps(bad)[:1500])
        return 1
    print("replay: case passes")
    return 0
