"""C11 - annotation reconstructs, for any time, the child versions that were current.

  spec/OsmHistory.tla   edit-history generating machine (input space)
  spec/Annotate.tla     Model (Compute / FindVisible / nextVersionIndex / ApplyUpdatesUpTo, action by action)
                        + Judges (RefsOK, UpdatesOK, TimeTravel, DeletedParentsUntouched, TypedErrors; C12: Deterministic, Sorted)
  1. TLC: Model |= Judges on every reachable history within the Annotate_mc_*.cfg constants
  2. TLC (OsmHistoryGen) enumerates histories -> harness/cmd/c11 renders them for the real annotate.Ways /
     annotate.Relations (both time regimes, options), records annotated refs, Updates, error type and the state
     after ApplyUpdatesUpTo(t) for every t -> TLC (AnnotateJudge) evaluates the Judges on the recorded lines
  3. larger random histories from the harness' seeded generator go through the same Judges

This module also holds the plumbing shared with props/c12.py.
"""
import concurrent.futures as cf
import json
import os
import random
import threading

import vlib

JUDGE, JUDGE_CFG = "AnnotateJudge", "AnnotateJudge.cfg"
# KF_SameSecondOrder (AnnotateJudge.tla) is recorded as `fixed` (76b44d7) in known_findings.json: a match is a VIOLATION again

# ------------------------------------------------------------------------------------------
# tier tables: (module cfg, workers share)
# ------------------------------------------------------------------------------------------
MC_QUICK = ["Annotate_mc_commit_q.cfg", "Annotate_mc_stamp_q.cfg", "Annotate_mc_mixed_q.cfg"]
MC_THOROUGH = ["Annotate_mc_commit_t.cfg", "Annotate_mc_commit22_t.cfg", "Annotate_mc_commit3_t.cfg", "Annotate_mc_stamp_t.cfg",
               "Annotate_mc_stamp2_t.cfg", "Annotate_mc_filter_t.cfg", "Annotate_mc_mixed_t.cfg", "Annotate_mc_mixed2_t.cfg",
               "Annotate_mc_commit_q.cfg", "Annotate_mc_live_t.cfg"]
# (generation cfg, option records per history: None = all)
GEN_QUICK = [("OsmHistory_gen_commit_q.cfg", 1), ("OsmHistory_gen_stamp_q.cfg", 2), ("OsmHistory_gen_stamp2_q.cfg", 1), ("OsmHistory_gen_filter_q.cfg", 3),
             ("OsmHistory_gen_any_q.cfg", 1), ("OsmHistory_gen_mixed_q.cfg", 1)]
GEN_THOROUGH = [("OsmHistory_gen_commit_t.cfg", 1), ("OsmHistory_gen_commit3_t.cfg", 1), ("OsmHistory_gen_stamp_t.cfg", 3),
                ("OsmHistory_gen_stamp2_t.cfg", 2), ("OsmHistory_gen_filter_t.cfg", 6), ("OsmHistory_gen_any_t.cfg", 2),
                ("OsmHistory_gen_mixed_t.cfg", 4)]
# option records for OsmHistoryFamily (busy early parent versions, equal timestamps)
FAM_OPTS = [{"regime": "commit", "cut": 0, "eps": 0, "igI": False, "igM": False, "filt": 0},
            {"regime": "stamp", "cut": 0, "eps": 0, "igI": False, "igM": False, "filt": 0},
            {"regime": "stamp", "cut": 0, "eps": 1, "igI": True, "igM": True, "filt": 0},
            {"regime": "mixed", "cut": 3, "eps": 1, "igI": False, "igM": False, "filt": 0}]


# ------------------------------------------------------------------------------------------
# generation
# ------------------------------------------------------------------------------------------
def gen_histories(ctx, cfg, workers=4, timeout=1500):
    """BFS over the history machine; returns (histories, option records)."""
    r = vlib.tlc("OsmHistoryGen", cfg, ctx.scratch, workers=workers, timeout=timeout, args=("-seed", str(ctx.seed)))
    if r.rc != 0:
        raise vlib.Infra("generation %s failed rc=%s (%s):\n%s" % (cfg, r.rc, r.violation, r.out[-4000:]))
    ctx.states += r.distinct
    ctx.transitions += r.generated
    ctx.tlc_runs.append({"module": "OsmHistoryGen", "cfg": cfg, "distinct": r.distinct, "generated": r.generated,
                         "wall_s": round(r.wall, 1), "rc": r.rc})
    hs = vlib.parse_print_json(r.out, "CASE")
    opts = vlib.parse_print_json(r.out, "OPTS")
    if not hs or not opts:
        raise vlib.Infra("generation %s produced no cases:\n%s" % (cfg, r.out[-3000:]))
    return hs, opts[0]


def layout(rng, h, o, runs, kind=None, reann=False):
    """Rendering parameters of one case (seeded): element kind, member types, magnitudes of ids / changesets /
    version numbers, the clock (unit, distance from CommitInfoStart, timestamp skew), list order."""
    nk = len(h["kids"])
    kind = kind or rng.choice(["way", "rel"])
    kt = ["n"] * nk if kind == "way" else [rng.choice("nwr") for _ in range(nk)]
    base = rng.choice([0, 0, 7, 86400])
    unit = rng.choice([1, 1, 60, 1800])
    optall = rng.random() < 0.5
    nothr = False
    if rng.random() < 0.3:
        # a call that relies on the defaults: only non-default options are passed, and the threshold is the
        # documented 30 minutes (timestamps: eps ticks = 1800 s; commit times: thresholds do not apply, option left out)
        optall = False
        if o["regime"] == "commit":
            nothr = True
        elif o["eps"] > 0:
            unit = 1800 // o["eps"]
    lay = dict(kind=kind, unit=unit, base=base, skew=rng.choice([0, min(base, 5)]),
               vstep=rng.choice([1, 2, 5]), voff=rng.choice([0, 3]),
               idbase=str(rng.choice([0, 1000, 2 ** 31, 2 ** 39])), csbase=str(rng.choice([0, 5000, 2 ** 33])),
               shuffle=rng.randrange(1 << 30), runs=runs, optall=optall, nothr=nothr,
               sameid=(kind == "rel" and len(set(kt)) == nk and rng.random() < 0.5),
               late=(o["regime"] == "stamp" and rng.random() < 0.5),
               # half of the cases hold their time.Time values in varying locations (same instants)
               zones=(rng.randrange(1, 1 << 30) if rng.random() < 0.5 else 0))
    if o["regime"] in ("commit", "mixed") and rng.random() < 0.4:
        # one abstract time whose versions carry Timestamp == CommitInfoStart exactly while their commit time is later
        # (the boundary of "timestamp before CommitInfoStart": the commit time still stamps the update)
        lay["pin"] = rng.randrange(1, 7)
    if reann and rng.random() < 0.4:
        # incremental re-annotation (C12): the annotated parents (Updates set) are annotated a second time, without a
        # ChildFilter (-2), with one that rejects every child (-1) or accepts only child k
        lay["reann"] = rng.choice([-2, -1] + list(range(1, nk + 1)) * 2)
    # per child: the version whose location is exactly (0, 0) (0 = none); moving to and away from the origin
    zv = [rng.choice([0, 0, 1, 2, 3]) for _ in range(nk)]
    return kt, zv, lay


def make_cases(ctx, hs, opts, runs, per_history=None, salt=0, reann=False):
    """histories x options (all, or `per_history` of them chosen by the seed), each with a seeded layout."""
    rng = random.Random(ctx.seed * 1000003 + salt)
    cases = []
    for h in hs:
        os_ = opts if per_history is None or per_history >= len(opts) else rng.sample(opts, per_history)
        for o in os_:
            kt, zv, lay = layout(rng, h, o, runs, reann=reann)
            cases.append({"h": h, "o": o, "kt": kt, "zv": zv, "lay": lay})
    return cases


def huge_cases(ctx, runs):
    """parents with more than 2^16 references (OsmHistoryHuge.tla): the projected history is the case, lay.huge says
    how the harness expands it"""
    rng = random.Random(ctx.seed * 4099 + 5)
    cases = []
    for hc in vlib.tlc_gen(ctx, "OsmHistoryHuge", "OsmHistoryHuge.cfg"):
        for o in FAM_OPTS[:2]:
            kt, zv, lay = layout(rng, hc["h"], o, runs)
            lay["huge"] = {"n": hc["n"], "pos": hc["pos"], "fill": hc["fill"]}
            lay["sameid"] = False
            cases.append({"h": hc["h"], "o": o, "kt": kt, "zv": zv, "lay": lay})
    return cases


def random_cases(ctx, binpath, n, runs, kids=10, vers=6, pars=4, reann=False):
    recs = vlib.run_go(binpath, args=["-random", str(n), "-seed", str(ctx.seed), "-kids", str(kids), "-vers", str(vers),
                                      "-pars", str(pars)])
    rng = random.Random(ctx.seed * 7919 + 17)
    cases = []
    for r in recs:
        kt, zv, lay = layout(rng, r["h"], r["o"], runs, reann=reann)
        cases.append({"h": r["h"], "o": r["o"], "kt": kt, "zv": zv, "lay": lay})
    return cases


# ------------------------------------------------------------------------------------------
# call sequences (history independence)
# ------------------------------------------------------------------------------------------
def make_sequences(ctx, pool, rough, n, salt=0):
    """Call histories for one process: a base call A repeated with other calls in between -
    A, X1, A, X2, B, A.  X are drawn mostly from `rough` (unrestricted histories / filters / ignore options: many of
    them fail part way or carry non-default options), B and A from the whole pool (ways and relations mixed)."""
    rng = random.Random(ctx.seed * 69061 + salt)
    seqs = []
    for _ in range(n):
        a = dict(rng.choice(pool))
        x1 = rng.choice(rough if rng.random() < 0.7 else pool)
        x2 = rng.choice(rough if rng.random() < 0.7 else pool)
        b = rng.choice(pool)
        steps = [a, x1, a, x2, b, a]
        steps = [dict(s_, lay=dict(s_["lay"], runs=1)) for s_ in steps]
        seqs.append({"steps": steps})
    return seqs


def execute_seq(binpath, seqs):
    recs = vlib.run_go(binpath, args=["-seq"], stdin_lines=seqs)
    if len(recs) != len(seqs):
        raise vlib.Infra("harness returned %d records for %d sequences" % (len(recs), len(seqs)))
    return recs


def run_sequences(ctx, binpath, seqs, mode, attempts=3, max_confirm=12):
    """Execute the call sequences (one child process each), judge, confirm.  A failing sequence is replayed as a
    whole in a fresh process; which call of it fails can move with Go's map iteration order, so a failure with the
    same reason anywhere in the re-run batch counts as reproduced."""
    recs = execute_seq(binpath, seqs)
    ctx.evaluations += sum(len(s_["steps"]) for s_ in seqs)
    for s_ in seqs[:2000]:
        ctx.distinct.add(vlib.hashlib.sha1(json.dumps(s_, sort_keys=True).encode()).hexdigest()[:16])
    bad = judge_seq(ctx, recs, mode)
    if not bad:
        return 0
    sel = bad[:max_confirm]
    confirmed = {}
    for _ in range(attempts):
        again = execute_seq(binpath, [seqs[i] for i, _, _ in sel])
        bad2 = judge_seq(ctx, again, mode)
        whys2 = {tuple(w) for _, w, _ in bad2}
        idx2 = {j for j, _, _ in bad2}
        for j, (i, why, kf) in enumerate(sel):
            if j in idx2 or tuple(why) in whys2:
                confirmed[i] = (why, kf)
        if confirmed:
            break
    if not confirmed:
        # decided at the end of the run (settle_unreproduced): INFRA unless a reproduced violation exists
        msg = "%s: %d sequence failures, none reproduced in %d re-runs" % (ctx.prop, len(bad), attempts)
        ctx.extra.setdefault("unreproduced_bulk", []).append(msg)
        vlib.log("  " + msg + " (deferred)")
        return 0
    for i, (why, kf) in confirmed.items():
        rp = {"property": ctx.prop, "case": seqs[i], "record": recs[i], "why": why, "kf": kf, "seed": ctx.seed, "mode": mode}
        ctx.report_bad(seqs[i], why, kf, rp)
    ctx.extra["failing_sequences_total"] = len(bad)
    return len(confirmed)


def judge_seq(ctx, recs, mode):
    return judge(ctx, recs, mode, shards=max(1, min(vlib.NCPU // 2, len(recs) // 150)), seq=True)


# ------------------------------------------------------------------------------------------
# execution and judging
# ------------------------------------------------------------------------------------------
def execute(binpath, cases):
    recs = vlib.run_go(binpath, stdin_lines=cases)
    if len(recs) != len(cases):
        raise vlib.Infra("harness returned %d records for %d cases" % (len(recs), len(cases)))
    return recs


def judge(ctx, recs, mode, shards=None, seq=False):
    """TLC evaluates the Judges on the recorded lines.  DIVERGENCE lines (every Judge holds, but the result is
    not the Model's) are counted and printed, never returned as failures."""
    n = len(recs)
    shards = shards or max(1, min(max(2, vlib.NCPU // 2), n // 2500))
    bad = vlib.tlc_judge(ctx, JUDGE, JUDGE_CFG, recs, env={"MODE": mode}, shards=shards, timeout=2400)
    real = []
    for i, why, kf in bad:
        if why == ["DIVERGENCE"]:
            ctx.divergences += 1
            if ctx.divergences <= 5:
                vlib.log("DIVERGENCE property=%s case=%s got=%s" % (
                    ctx.prop, json.dumps(recs[i]["case"], separators=(",", ":"))[:600],
                    json.dumps(recs[i]["got"], separators=(",", ":"))[:400]))
        else:
            real.append((i, sorted(why), sorted(kf)))
    return real


def nontrivial(rec):
    """evidence rule: the run produced at least one update, or ended in an error"""
    r0 = rec["got"]["runs"][0]
    return r0["err"] != "nil" or any(p["upd"] for p in r0["par"])


def note(ctx, cases, recs):
    for c, r in zip(cases, recs):
        key = {"h": c["h"], "o": c["o"], "kind": c["lay"]["kind"], "kt": c["kt"]}
        ctx.note_case(key, nontrivial=nontrivial(r))
    ctx.evaluations += sum(c["lay"]["runs"] - 1 for c in cases)   # every run is an execution of the real code


def model_check(ctx, cfgs, workers):
    for cfg in cfgs:
        vlib.tlc_model_check(ctx, "AnnotateMC", cfg, workers=workers, timeout=2400)


def sample_records(recs, k=4):
    picks = [r for r in recs if nontrivial(r) and r["got"]["runs"][0]["err"] == "nil"][:k // 2]
    picks += [r for r in recs if r["got"]["runs"][0]["err"] != "nil"][:k - len(picks)]
    out = []
    for r in picks:
        out.append({"case": r["case"], "got": {"runs": r["got"]["runs"][:1]}})
    return out


def prepare(ctx):
    """one scratch copy of spec/ made before any thread calls vlib.tlc"""
    import shutil
    wd = os.path.join(ctx.scratch, "spec")
    if not os.path.isdir(wd):
        shutil.copytree(vlib.SPEC, wd, ignore=shutil.ignore_patterns("states", ".tlacache"))


def run_and_judge(ctx, binpath, cases, mode, chunk=60000):
    """execute + judge + confirm in chunks (records are dropped after judging)"""
    n_bad = 0
    for lo in range(0, len(cases), chunk):
        cs = cases[lo:lo + chunk]
        recs = execute(binpath, cs)
        note(ctx, cs, recs)
        if len(ctx.samples) < 4:
            ctx.samples += sample_records(recs, 4 - len(ctx.samples))
        try:
            n_bad += len(vlib.judge_and_confirm(ctx, cs, recs, lambda xs: execute(binpath, xs),
                                                lambda rs: judge(ctx, rs, mode)))
        except vlib.Infra as e:
            # All cases of a chunk share one process.  If a failure there does not come back when the case is run on
            # its own, it may be caused by the calls that preceded it in the process: the call sequences (one fresh
            # process each, replayed as a whole) decide that reproducibly.  Without a reproduced violation this
            # stays an infrastructure error (settle_unreproduced).
            if "none reproduced" not in str(e):
                raise
            ctx.extra.setdefault("unreproduced_bulk", []).append(str(e))
            vlib.log("  " + str(e) + " (deferred to the call sequences)")
    return n_bad


def settle_unreproduced(ctx):
    if ctx.extra.get("unreproduced_bulk") and not ctx.violations:
        raise vlib.Infra("; ".join(ctx.extra["unreproduced_bulk"]))


def in_background(fn):
    """run fn() in a thread; returns join() that re-raises its exception"""
    box = []

    def wrap():
        try:
            fn()
        except BaseException as e:
            box.append(e)
    th = threading.Thread(target=wrap)
    th.start()

    def join():
        th.join()
        if box:
            raise box[0]
    return join


# ------------------------------------------------------------------------------------------
# C11
# ------------------------------------------------------------------------------------------
def run(ctx):
    prepare(ctx)
    quick = ctx.quick()
    binpath = vlib.go_build("c11")
    mc_cfgs = MC_QUICK if quick else MC_THOROUGH
    gen_cfgs = GEN_QUICK if quick else GEN_THOROUGH
    join = in_background(lambda: model_check(ctx, mc_cfgs, max(2, vlib.NCPU // 2)))
    total = 0
    pool, rough = [], []
    prng = random.Random(ctx.seed * 31337)
    try:
        for n, (cfg, per) in enumerate(gen_cfgs):
            hs, opts = gen_histories(ctx, cfg, workers=4)
            cases = make_cases(ctx, hs, opts, runs=1, per_history=per, salt=n)
            vlib.log("  %s: %d histories, %d option records -> %d cases" % (cfg, len(hs), len(opts), len(cases)))
            total += len(cases)
            smp = prng.sample(cases, min(len(cases), 600))
            pool += smp
            if "_any_" in cfg or "_filter_" in cfg:
                rough += smp
            run_and_judge(ctx, binpath, cases, "c11")
        # call sequences in one process each: what a call returns must not depend on the calls before it
        seqs = make_sequences(ctx, pool, rough, 600 if quick else 5000)
        vlib.log("  sequences: %d call histories x %d calls" % (len(seqs), len(seqs[0]["steps"])))
        run_sequences(ctx, binpath, seqs, "seq11")
        ctx.extra["call_sequences"] = len(seqs)
        fam = vlib.tlc_gen(ctx, "OsmHistoryFamily", "OsmHistoryFamily_q.cfg" if quick else "OsmHistoryFamily_t.cfg")
        # C11's input assumption: child times never decrease in version order (the family's reversed-time
        # members are for C12's Sorted only; CurrentAt is not defined on them)
        fam = [h for h in fam if all(a["t"] <= b["t"] for k in h["kids"] for a, b in zip(k, k[1:]))]
        cases = make_cases(ctx, fam, FAM_OPTS, runs=1, per_history=2, salt=77)
        vlib.log("  family: %d histories -> %d cases" % (len(fam), len(cases)))
        total += len(cases)
        run_and_judge(ctx, binpath, cases, "c11")
        hc = huge_cases(ctx, runs=1)
        vlib.log("  huge parents: %d cases" % len(hc))
        run_and_judge(ctx, binpath, hc, "c11")
        rc = random_cases(ctx, binpath, 400 if quick else 4000, runs=1)
        run_and_judge(ctx, binpath, rc, "c11")
    finally:
        join()

    settle_unreproduced(ctx)
    if ctx.divergences:
        vlib.log("DIVERGENCE property=%s total=%d (every Judge holds on these cases, the result differs from the Model; not a violation)" % (ctx.prop, ctx.divergences))
    ctx.exhaustive = True
    ctx.extra["enumerated_cases"] = total
    ctx.extra["random_cases"] = len(rc)
    ctx.rule = ("evaluations = annotate.Ways/Relations runs on rendered histories; cases = every history reachable in the "
                "OsmHistory machine under the generation configs x option records (all, or a seeded subset per history) "
                "+ seeded random larger histories; distinct = distinct (history, options, element kind, member types); "
                "non-trivial = the run produced at least one update or a typed error")
    ctx.assumptions = [
        "time is abstract (ticks); regimes: every element has a commit time on/after CommitInfoStart | none has (timestamps before it, or - layout `late` - after it) | mixed: versions from abstract time `cut` (= CommitInfoStart) on carry commit times, earlier ones do not",
        "CurrentAt(child, t) = last version with time <= t (a child version committed in the same second as the parent counts as current)",
        "without commit times the Judges bind RefsOK/TimeTravel only outside the +-threshold window; inside, the result is compared with the transcription only (DIVERGENCE, never VIOLATION)",
        "child versions of the datasource have non-decreasing times in version order; way members carry no nodes (no orientation logic)",
    ]


def replay(ctx, rp):
    return replay_mode(ctx, rp, "c11")


def replay_mode(ctx, rp, mode):
    binpath = vlib.go_build("c11")
    if "steps" in rp["case"]:          # a call sequence: replayed as a whole in one fresh process
        recs = execute_seq(binpath, [rp["case"]])
        bad = judge(ctx, recs, rp.get("mode", "seq11" if mode == "c11" else "seq12"), shards=1)
    else:
        recs = execute(binpath, [rp["case"]])
        bad = judge(ctx, recs, mode, shards=1)
    fresh = [b for b in bad if not ctx.known_match(b[2])]
    if fresh:
        print("VIOLATION property=%s replay=(given)  # %s" % (ctx.prop, fresh))
        return 1
    if bad:
        print("KNOWN-FINDING: property=%s %s" % (ctx.prop, bad))
    print("replay: case passes")
    return 0
