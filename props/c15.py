"""C15 - applying updates is exact, composable and agrees with geometry-at-time.

  1. TLC model-checks spec/Updates.tla: the loops of ApplyUpdatesUpTo / LineStringAt transcribed as a step
     machine (one action per stored update: apply / keep pending / index error) satisfy the Judges
     (Exact, Pending, IndexErr, Compose, GeomAt) for every element, every stored update list and every
     t1 <= t2 within small constants; with the pinned loop exit (BreakAtLate) GeomAt fails at the design level.
  2. TLC (UpdatesGen) enumerates / samples abstract cases; harness/cmd/c15 runs the real
     Way/Relation.ApplyUpdatesUpTo, Way.LineString/LineStringAt, Updates.UpTo and the sorts on them.
  3. TLC (UpdatesJudge) evaluates the Judges on the recorded values (VIOLATION / KNOWN-FINDING) and compares
     everything recorded with the Model (DIVERGENCE, never a verdict).
"""
import concurrent.futures as cf
import json, os, re, time
import vlib

GEN, JUDGE = "UpdatesGen", "UpdatesJudge"
DIV = "__DIVERGENCE__"
NPROFILES = 5

def execute(ctx, cases):
    b = vlib.go_build("c15")
    recs = vlib.run_go(b, stdin_lines=cases)
    if len(recs) != len(cases):
        raise vlib.Infra("c15 harness: %d cases, %d records" % (len(cases), len(recs)))
    return recs


def _gen_part(ctx, cfg, mod, rem):
    """One TLC process writing the plan entries i with i % mod == rem to <out>.<i>.  Returns (files, TLCResult)."""
    out = os.path.join(ctx.scratch, "gen-c15-%d-of-%d" % (rem, mod))
    sc = os.path.join(ctx.scratch, "genpart-%d" % rem)
    os.makedirs(sc, exist_ok=True)
    r = vlib.tlc(GEN, cfg, sc, env={"OUT": out, "MOD": str(mod), "REM": str(rem)}, args=["-seed", str(ctx.seed)],
                 timeout=1500)
    if r.rc != 0:
        raise vlib.Infra("generation %s part %d/%d failed rc=%s:\n%s" % (cfg, rem, mod, r.rc, r.out[-4000:]))
    m = re.search(r'<<"ENTRIES", (\d+), (\d+)>>', r.out)
    files = sorted((f for f in os.listdir(ctx.scratch) if f.startswith(os.path.basename(out) + ".")),
                   key=lambda f: int(f.rsplit(".", 1)[1]))
    if not m or int(m.group(1)) != len(files):
        raise vlib.Infra("generation %s part %d/%d: %s entries announced, %d files" % (cfg, rem, mod, m and m.group(1), len(files)))
    return [os.path.join(ctx.scratch, f) for f in files], r


def generate(ctx):
    """Runs UpdatesGen (several TLC processes sharing the plan in the thorough tier).  Returns the ndjson files."""
    cfg = "UpdatesGen_quick.cfg" if ctx.quick() else "UpdatesGen_thorough.cfg"
    mod = 1 if ctx.quick() else 6
    with cf.ThreadPoolExecutor(max_workers=mod) as ex:
        parts = list(ex.map(lambda rem: _gen_part(ctx, cfg, mod, rem), range(mod)))
    files = []
    for fs, r in parts:
        ctx.tlc_runs.append({"module": GEN, "cfg": cfg, "distinct": r.distinct, "generated": r.generated,
                             "wall_s": round(r.wall, 1), "rc": r.rc})
        files += fs
    files.sort(key=lambda f: int(f.rsplit(".", 1)[1]))
    return files, cfg


def chunks(ctx, files, size):
    """Abstract cases from the generated files in chunks, de-duplicated, with the rendering parameter added."""
    seen, buf, n = set(), [], 0
    for fn in files:
        with open(fn) as f:
            for l in f:
                l = l.strip()
                if not l or l in seen:
                    continue
                seen.add(l)
                c = json.loads(l)
                # rendering parameter (not part of the abstract case; the Judge ignores it): which of the harness's
                # time profiles renders the symbolic times of this case.  Kept in the case so that replays are exact.
                c["profile"] = (ctx.seed + n) % NPROFILES
                n += 1
                buf.append(c)
                if len(buf) >= size:
                    yield buf
                    buf = []
    if buf:
        yield buf


def model_check(ctx):
    w = 4
    cfgs = ["Updates_mc_quick.cfg", "Updates_mc_origin_q.cfg"] if ctx.quick() else \
        ["Updates_mc_quick.cfg", "Updates_mc_origin_q.cfg", "Updates_mc_origin.cfg", "Updates_mc_zero.cfg", "Updates_mc_thorough_way.cfg", "Updates_mc_thorough_way3.cfg", "Updates_mc_thorough_unann.cfg",
         "Updates_mc_thorough_rel.cfg", "Updates_mc_pinned.cfg"]
    extra = ["-coverage", "1"] if not ctx.quick() else []
    for c in cfgs:
        r = vlib.tlc_model_check(ctx, "Updates", c, workers=w, timeout=1500,
                                 args=extra if c == "Updates_mc_quick.cfg" else [])
        if extra and c == "Updates_mc_quick.cfg":
            # an action that never fires makes the design-level result vacuous
            for a in ("AddUpdate", "Choose", "KeepPending", "ApplyOne", "IndexError", "Return", "LsIter", "LsReturn"):
                m = re.search(r"<%s line[^>]*>: (\d+):(\d+)" % a, r.out)
                if not m or int(m.group(2)) == 0:
                    raise vlib.Infra("Updates_mc_quick: action %s never taken (vacuous model check)" % a)
        vlib.log("model check %s: %d distinct states, %.1fs" % (c, r.distinct, r.wall))
    # the consumer: the Model of mputil.Group satisfies GroupJ, a line shared between occurrences does not
    r = vlib.tlc_model_check(ctx, "UpdatesGroupMC", "UpdatesGroupMC.cfg", workers=1, timeout=900)
    if "GROUPMC" not in r.out:
        raise vlib.Infra("UpdatesGroupMC did not evaluate its assumptions:\n" + r.out[-2000:])
    vlib.log("model check UpdatesGroupMC: assumptions hold, %.1fs" % r.wall)
    # the pinned loop exit must violate the geometry law at the design level (guards against a vacuous GeomJ)
    r = vlib.tlc_model_check(ctx, "Updates", "Updates_mc_pinned_geom.cfg", expect_ok=False, workers=w, timeout=600)
    if not (r.violation or "").startswith("GeomAt"):
        raise vlib.Infra("Updates_mc_pinned_geom: expected GeomAt to be violated with BreakAtLate = TRUE, got rc=%s %s"
                         % (r.rc, r.violation))
    vlib.log("model check Updates_mc_pinned_geom.cfg: %s violated as expected (BreakAtLate = TRUE)" % r.violation)


def _nontrivial(c):
    """exercises the mechanism: some update is applicable at t2 (something is applied or rejected); for kind
    "group": the way is listed as a member at least once"""
    if c["kind"] == "group":
        return any(m["tgt"] == "way" for m in c["members"])
    return any(u["time"] <= c["t2"] for u in c["updates"])


def make_judge(ctx, divs):
    calls = []

    def judge(recs):
        bad = vlib.tlc_judge(ctx, JUDGE, "UpdatesJudge.cfg", recs,
                             shards=max(1, min(8, len(recs) // 2000)), timeout=1500)
        calls.append(1)
        real = []
        for i, why, kf in bad:
            if DIV in (kf or []):
                if len(calls) == 1:      # the confirmation re-run (second call) has its own indices
                    divs.append((i, why))
            else:
                real.append((i, why, kf))
        return real
    return judge


def run(ctx):
    model_check(ctx)
    t0 = time.time()
    files, cfg = generate(ctx)
    vlib.log("generated cases in %.1fs" % (time.time() - t0))
    divs, total, texec, tjudge = [], 0, 0.0, 0.0
    for cases in chunks(ctx, files, 60000):
        t0 = time.time()
        recs = execute(ctx, cases)
        texec += time.time() - t0
        for c in cases:
            ctx.note_case(c, nontrivial=_nontrivial(c))
        if total == 0:
            step = max(1, len(recs) // 4)
            ctx.samples = [recs[i] for i in range(0, len(recs), step)][:4]
        cd = []
        t0 = time.time()
        vlib.judge_and_confirm(ctx, cases, recs, lambda cs: execute(ctx, cs), make_judge(ctx, cd))
        tjudge += time.time() - t0
        divs += [(cases[i], why) for i, why in cd]
        total += len(cases)
        if ctx.violations:
            break       # a confirmed violation: no need to look further
    if total == 0:
        raise vlib.Infra("UpdatesGen produced no cases")
    vlib.log("executed %d cases on the real code in %.1fs, judged by TLC in %.1fs" % (total, texec, tjudge))
    for c, why in divs[:10]:
        vlib.log("DIVERGENCE property=C15 case=%s model-mismatch=%s" % (json.dumps(c, sort_keys=True)[:400], why))
    ctx.divergences += len(divs)
    ctx.exhaustive = False
    ctx.extra["exhaustive_entries"] = ("plan entries with smp = 0 in UpdatesGen.tla (%s) are enumerated completely; "
                                       "entries with smp > 0 are TLC samples" % cfg)
    ctx.rule = ("cases = abstract (element, stored update list, t1 <= t2) of UpdatesGen plan %s, de-duplicated; "
                "non-trivial = at least one update stamped at or before t2 (something is applied or rejected); "
                "each way/relation case runs ApplyUpdatesUpTo three times on copies of one element (own child list, shared "
                "update list), LineStringAt on the element before and after (ways), LineString, UpTo twice, both sorts; "
                "each group case runs a sequence of mputil.Group / LineStringAt queries (times going up, down or repeating) on one "
                "way object with a member list naming the way 0..m times; group cases are non-trivial when the way is a member" % cfg)
    ctx.assumptions = [
        "symbolic values: times 0..tmax, coordinates/changesets/versions small integers mapped injectively by the harness "
        "(five time profiles rotated over the cases, offset by the seed: 1 s / 1 ns / 1 h / 1 day steps, epoch, 2038, a "
        "second boundary, different time zones for stamps and query times)",
        "the element's own Timestamp (unset / before / at / between / after the update stamps) and Committed (nil / "
        "earlier / equal / later) are rendered from the case (every combination in the smp = -1 plan entries, drawn by "
        "TLC per case elsewhere); no Judge mentions them: the property does not, so no answer may depend on them",
        "'a copy' of an element = struct copy with its own child list and the same update list value (what Go code "
        "does; the pinned ApplyUpdatesUpTo never writes to the list it was given)",
        "relation members carry a role and (way members 1 and 4) an optional node path; the Judge's frame condition is "
        "generic: every field of a named child other than version, changeset, lat, lon, orientation is as before",
        "a geometry-at-time query is read-only: every answer of a query sequence is judged against copies taken before "
        "the sequence, and the way must be unchanged after it (QueryPureJ)",
        "mputil.Group is internal to the module and is bound with go:linkname (harness/internal/c15mp); the real code runs",
        "location symbols: ordinary (distinct, non-zero), the origin (exactly 0,0), only lat 0, only lon 0 - on "
        "annotated children and on updates (every combination in the smp = -2 plan entries, drawn by TLC elsewhere); "
        "a node that is not annotated (version 0, location 0/0) is a separate dimension",
        "update indices are 0..n (n = first index beyond the child list); negative indices are outside the property",
        "'fully annotated' = every way node has a version or a location (all generated annotated nodes have a version)",
        "where a child's applicable updates are stored out of time order (or with equal stamps) the Judge accepts the "
        "last stored and any latest-stamped update's values (the property does not say which wins)",
        "after an index error the Judge only requires: error reported with an offending index, no crash, children not "
        "named by an applicable update untouched (the property is silent about the rest)"]


def replay(ctx, rp):
    recs = execute(ctx, [rp["case"]])
    bad = vlib.tlc_judge(ctx, JUDGE, "UpdatesJudge.cfg", recs, shards=1)
    real = [b for b in bad if DIV not in (b[2] or [])]
    print(json.dumps(recs[0]["got"], sort_keys=True))
    if real:
        if ctx.known_match(real[0][2]):
            print("replay: KNOWN-FINDING property=C15", real)
            return 0
        print("VIOLATION property=C15 replay=(given)  #", real)
        return 1
    print("replay: case passes", "(model divergence: %s)" % bad if bad else "")
    return 0
