"""C18 - area classification follows the published polygon-features rules.
TLC enumerates the tag space of PolygonRules.tla (and checks OrderFree on it), the real
Way.Polygon / Relation.Polygon run on every case, PolygonRulesJudge.tla decides."""
import vlib

MOD, JUDGE = "PolygonRules", "PolygonRulesJudge"


def execute(ctx, cases):
    b = vlib.go_build("c18")
    return vlib.run_go(b, stdin_lines=cases)


def run(ctx):
    cfg = "PolygonRules_quick.cfg" if ctx.quick() else "PolygonRules_thorough.cfg"
    cases = vlib.tlc_gen(ctx, "PolygonRulesGen", cfg)
    recs = execute(ctx, cases)
    for c in cases:
        ctx.note_case(c, nontrivial=len(c["tags"]) > 0)
    ctx.samples = recs[:2] + recs[len(recs) // 2:len(recs) // 2 + 2]
    judge = lambda rs: vlib.tlc_judge(ctx, JUDGE, "PolygonRulesJudge.cfg", rs)
    vlib.judge_and_confirm(ctx, cases, recs, lambda cs: execute(ctx, cs), judge)
    ctx.exhaustive = True
    ctx.rule = ("cases = PolygonRules!Cases enumerated completely by TLC (%s); distinct = distinct abstract cases; "
                "non-trivial = at least one tag" % cfg)
    ctx.assumptions = ["the rule table in PolygonRules.tla is the published polygon-features list (transcribed by hand)",
                       "an empty tag value is the same as an absent tag (Tags.Find)", "tag keys are unique within an element"]


def replay(ctx, rp):
    recs = execute(ctx, [rp["case"]])
    bad = vlib.tlc_judge(ctx, JUDGE, "PolygonRulesJudge.cfg", recs, shards=1)
    if bad:
        print("VIOLATION property=C18 replay=(given)  #", bad)
        return 1
    print("replay: case passes")
    return 0
