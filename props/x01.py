"""X01 (extra, beyond the listed properties) - the in-memory containers of package osm as a state machine.

  MC   : spec/OsmCore.tla - heap of objects, osm.OSM, osm.Change, osm.HistoryDatasource, osm.Tags, Members/WayNodes; one action per
         mutating call, queries as derived operators.  TLC checks Model |= Judge (the documented promises, J_*) and the Model-level
         invariants (order of Objects(), stable sorts, snapshot semantics of a datasource, first/last duplicate key, frame
         conditions) exhaustively for small constants, one cfg per family of calls.
  S->C : OsmCoreGen.tla writes call sequences only (exhaustive for tiny constants + tlc -simulate walks under several call mixes);
         harness/cmd/x01 replays each on fresh real containers and records the projected state and every query after every call;
         OsmCoreJudge.tla evaluates the documented promises on the recorded values (a failure that reproduces = VIOLATION).
  C->S : the recorded steps are replayed against the Model's actions (OsmCoreTrace.tla: Do(call) /\\ Proj' = recorded state; recorded
         query results = derived operators as invariants; high-water-mark POSTCONDITION).  A rejected step = DIVERGENCE (no verdict).
  Every run also checks that the binding is not vacuous: deliberately damaged records must be rejected by Trace spec and Judge.
"""
import concurrent.futures as cf
import copy, json, os, re, time
import vlib

MOD, GEN, JUDGE, TRACE = "OsmCore", "OsmCoreGen", "OsmCoreJudge", "OsmCoreTrace"
JUDGE_CFG, TRACE_CFG = "OsmCoreJudge.cfg", "OsmCoreTrace.cfg"

MC_QUICK = [("OsmCore_mc_q_containers.cfg", 3), ("OsmCore_mc_q_change.cfg", 3), ("OsmCore_mc_q_tags.cfg", 1), ("OsmCore_mc_q_refs.cfg", 1)]
MC_THOROUGH = [("OsmCore_mc_t_containers.cfg", 4), ("OsmCore_mc_t_change.cfg", 4), ("OsmCore_mc_t_tags.cfg", 3), ("OsmCore_mc_t_refs.cfg", 4)]

WALKS = {"quick": 800, "thorough": 5000}      # behaviours of tlc -simulate (call mixes and lengths: OsmCoreGen!Plans)
ALL_LEN = {"quick": 2, "thorough": 3}
GROUP = {"quick": 110, "thorough": 160}     # sequences per trace-validation run (few, larger TLC runs: start-up and slot waits dominate)

MUTATING = {"append", "sort", "docds", "chgds", "tagsort"}


def prepare(ctx):
    """one scratch copy of spec/ before anything runs in parallel"""
    import shutil
    wd = os.path.join(ctx.scratch, "spec")
    if not os.path.isdir(wd):
        shutil.copytree(vlib.SPEC, wd, ignore=shutil.ignore_patterns("states", ".tlacache"))


# ----------------------------------------------------------------------------- generation
def _gen_cfg(name, **subst):
    text = open(os.path.join(vlib.SPEC, name)).read()
    for k, v in subst.items():
        text, n = re.subn(r"(?m)^(\s*%s\s*=\s*).*$" % k, lambda m: m.group(1) + v, text)
        if n != 1:
            raise vlib.Infra("cfg %s: constant %s not found" % (name, k))
    return text


def _gen_run(ctx, tag, cfgtext, args):
    name = "OsmCoreGen_%s.cfg" % tag
    out = os.path.join(ctx.scratch, "gen-%s.ndjson" % tag)
    r = vlib.tlc(GEN, name, ctx.scratch, env={"OUT": out}, workers=1, timeout=1500, args=args, files={name: cfgtext})
    if r.rc != 0:
        raise vlib.Infra("generation %s failed rc=%s (%s):\n%s" % (tag, r.rc, r.violation, r.out[-4000:]))
    cases = []
    if os.path.exists(out):
        for l in open(out):
            l = l.strip()
            if l:
                c = json.loads(l)
                cases.append(json.loads(c) if isinstance(c, str) else c)
        os.remove(out)
    if not cases:
        raise vlib.Infra("generation %s produced no cases:\n%s" % (tag, r.out[-3000:]))
    m = re.search(r"The number of states generated: (\d+)", r.out)
    ctx.tlc_runs.append({"module": GEN, "cfg": tag, "cases": len(cases), "distinct": r.distinct,
                         "generated": int(m.group(1)) if m else r.generated, "wall_s": round(r.wall, 1), "rc": r.rc})
    return tag, cases


def generate(ctx):
    jobs = [("all%d" % ALL_LEN[ctx.tier], _gen_cfg("OsmCoreGen_all.cfg", SeqLen=str(ALL_LEN[ctx.tier]), MaxOps=str(ALL_LEN[ctx.tier])), []),
            ("walk", _gen_cfg("OsmCoreGen_walk.cfg"), ["-simulate", "num=%d" % WALKS[ctx.tier], "-depth", "16", "-seed", str(ctx.seed)])]
    with cf.ThreadPoolExecutor(max_workers=4) as ex:
        res = list(ex.map(lambda j: _gen_run(ctx, *j), jobs))
    cases, fam = [], {}
    for tag, cs in res:
        # the same sequence may be walked twice: keep one copy per family, in a deterministic order
        uniq = [json.loads(u) for u in sorted({json.dumps(c, sort_keys=True) for c in cs})]
        for c in uniq:
            key = c["fam"] if tag == "walk" else tag
            fam[key] = fam.get(key, 0) + 1
        cases += uniq
    return cases, fam


# ----------------------------------------------------------------------------- real code
def execute(ctx, cases):
    b = vlib.go_build("x01")
    recs = vlib.run_go(b, stdin_lines=cases)
    return recs


def judge(ctx, recs, shards=None):
    shards = shards or max(1, min(8, len(recs) // 150))
    return vlib.tlc_judge(ctx, JUDGE, JUDGE_CFG, recs, shards=shards)


# ----------------------------------------------------------------------------- trace validation
def _trace_run(ctx, tag, lines):
    """One TLC run over the given log lines.  Returns (ok, first line not explained (1-based) or None, kind, states)."""
    p = os.path.join(ctx.scratch, "trace-%s-%d.ndjson" % (tag, time.time_ns() % 10**9))
    with open(p, "w") as f:
        for e in lines:
            f.write(json.dumps(e, separators=(",", ":")) + "\n")
    r = vlib.tlc(TRACE, TRACE_CFG, ctx.scratch, env={"REC": p}, workers=1, timeout=1500)
    os.remove(p)
    if r.rc == 0:
        return True, None, "", r.distinct
    if r.violation:
        # an invariant / action property failed in the state reached by consuming line l - 1 (the last state printed)
        ls = re.findall(r"^/\\ l = (\d+)", r.out, re.M)
        if not ls:
            raise vlib.Infra("trace validation: %s violated but no state printed:\n%s" % (r.violation, r.out[-3000:]))
        return False, max(1, int(ls[-1]) - 1), r.violation, r.distinct
    m = re.search(r'<<"STUCK", (\d+)>>', r.out)
    if not m:
        raise vlib.Infra("trace validation failed without a high-water mark (rc=%s):\n%s" % (r.rc, r.out[-4000:]))
    return False, int(m.group(1)), "stuck", r.distinct


def validate_traces(ctx, recs, idxs):
    """recs[i]["got"] = steps of sequence i.  Returns (accepted indices, [(index, step, kind)], unvalidated indices)."""
    gs = GROUP[ctx.tier]
    groups = [idxs[i:i + gs] for i in range(0, len(idxs), gs)]

    def one(kg):
        k, g = kg
        acc, rej, rest, states = [], [], list(g), 0
        for attempt in range(4):
            if not rest:
                break
            lines, starts = [], []
            for i in rest:
                starts.append(len(lines) + 1)
                lines += recs[i]["got"]
            ok, line, kind, st = _trace_run(ctx, "%d-%d" % (k, attempt), lines)
            states += st
            if ok:
                acc += rest
                rest = []
                break
            line = min(line, len(lines))
            j = max(x for x, s in enumerate(starts) if s <= line)
            rej.append((rest[j], line - starts[j], kind))
            acc += rest[:j]
            rest = rest[j + 1:]
        return acc, rej, rest, states

    with cf.ThreadPoolExecutor(max_workers=6) as ex:
        parts = list(ex.map(one, enumerate(groups)))
    ctx.states += sum(p[3] for p in parts)
    ctx.transitions += sum(p[3] for p in parts)
    return [i for p in parts for i in p[0]], [r for p in parts for r in p[1]], [i for p in parts for i in p[2]]


# ----------------------------------------------------------------------------- binding self-test
def selftest(ctx, recs):
    """Damaged copies of real records must be rejected: (a) a state field -> the Trace spec gets stuck exactly there, (b) a query
    result -> a Q_ invariant of the Trace spec fails there, (c) a query result the comments promise -> the Judge says BAD."""
    pick = None
    for i, r in enumerate(recs):
        g = r["got"]
        for s in range(1, len(g)):
            if g[s].get("e") == "op" and len(g[s]["q"]["eids"]) >= 2 and g[s]["q"]["eids"][0] != g[s]["q"]["eids"][1] \
                    and g[s]["st"]["heap"] and g[s]["st"]["heap"][0]["k"] in ("node", "way", "relation"):
                pick = (i, s)
                break
        if pick:
            break
    if not pick:
        raise vlib.Infra("self-test: no recorded step with two different element ids")
    i, s = pick
    before = sum(len(r["got"]) for r in recs[max(0, i - 2):i])
    ctxrecs = recs[max(0, i - 2):i + 1]

    def lines(mut):
        out = []
        for r in ctxrecs[:-1]:
            out += r["got"]
        g = copy.deepcopy(ctxrecs[-1]["got"])
        mut(g[s])
        return out + g

    def m_state(step):
        step["st"]["heap"][0]["vis"] = not step["st"]["heap"][0]["vis"]

    def m_query(step):
        step["q"]["eids"][0], step["q"]["eids"][1] = step["q"]["eids"][1], step["q"]["eids"][0]

    def m_judge(step):
        step["q"]["eids"][0] = [step["q"]["eids"][0][0], step["q"]["eids"][0][1], 0]

    want = before + s + 1
    ok, line, kind, _ = _trace_run(ctx, "self-a", lines(m_state))
    if ok or kind != "stuck" or line != want:
        raise vlib.Infra("binding self-test (a): damaged state field not rejected where expected (ok=%s line=%s kind=%s want=%d)" % (ok, line, kind, want))
    ok, line, kind, _ = _trace_run(ctx, "self-b", lines(m_query))
    if ok or kind != "Q_Containers" or line != want:
        raise vlib.Infra("binding self-test (b): damaged query result not rejected where expected (ok=%s line=%s kind=%s want=%d)" % (ok, line, kind, want))
    bad = copy.deepcopy(recs[i])
    m_judge(bad["got"][s])
    res = vlib.tlc_judge(ctx, JUDGE, JUDGE_CFG, [recs[i], bad], shards=1)
    ctx.judged -= 2
    if [b[0] for b in res] != [1] or "J_QDoc" not in res[0][1][2]:
        raise vlib.Infra("binding self-test (c): damaged element id not rejected by the Judge: %s" % (res,))
    ctx.extra["binding_selftest"] = ("damaged copies of sequence %d step %d: flipped Visible in the recorded state -> Trace spec stuck at that "
                                     "line; two ids swapped in the recorded ElementIDs() -> invariant Q_Containers violated at that line "
                                     "(the Judge, which promises no order, accepts it); version dropped from one id -> Judge clause J_QDoc" % (i, s))


# ----------------------------------------------------------------------------- design level
def model_check(ctx, cfgs):
    def one(cw):
        cfg, w = cw
        t0 = time.time() - ctx.t0
        r = vlib.tlc(MOD, cfg, ctx.scratch, workers=w, timeout=2400, heap="4g")
        r.span = (round(t0, 1), round(time.time() - ctx.t0, 1))
        return cfg, r
    with cf.ThreadPoolExecutor(max_workers=len(cfgs)) as ex:
        return list(ex.map(one, cfgs))


def account_mc(ctx, res):
    for cfg, r in res:
        ctx.states += r.distinct
        ctx.transitions += r.generated
        ctx.tlc_runs.append({"module": MOD, "cfg": cfg, "distinct": r.distinct, "generated": r.generated,
                             "wall_s": round(r.wall, 1), "span_s": list(r.span), "rc": r.rc})
        if not r.ok():
            raise vlib.Infra("model check %s did not pass (rc=%s, %s):\n%s" % (cfg, r.rc, r.violation, r.out[-5000:]))


def mechanism_counts(recs):
    """How often the recorded steps exercise the mechanisms (plain counting over the records, for the evidence)."""
    n = {"sorts": 0, "sorts_of_2plus": 0, "sorts_of_unsorted_slice": 0, "sorts_same_id_versions_out_of_order": 0,
         "datasources": 0, "datasources_with_multi_version_history": 0, "change_datasources_flipping_visible": 0,
         "appends_of_existing_pointer": 0, "steps_with_duplicate_tag_keys": 0}
    for r in recs:
        g = r["got"]
        for i in range(1, len(g)):
            if g[i].get("e") != "op":
                continue
            op, prev, cur = g[i]["op"], g[i - 1]["st"], g[i]["st"]
            if op["op"] == "sort":
                h, sl = prev["heap"], prev[op["to"]][op["k"]]
                keys = [(h[s - 1]["id"], h[s - 1]["v"]) for s in sl if 1 <= s <= len(h)]
                n["sorts"] += 1
                n["sorts_of_2plus"] += len(sl) >= 2
                n["sorts_of_unsorted_slice"] += keys != sorted(keys)
                n["sorts_same_id_versions_out_of_order"] += any(keys[a][0] == keys[b][0] and keys[a][1] > keys[b][1]
                                                                for a in range(len(keys)) for b in range(a + 1, len(keys)))
            elif op["op"] in ("docds", "chgds"):
                n["datasources"] += 1
                n["datasources_with_multi_version_history"] += any(len(e[1]) >= 2 for k in ("node", "way", "relation") for e in cur["ds"][k])
                n["change_datasources_flipping_visible"] += op["op"] == "chgds" and prev["heap"] != cur["heap"]
            elif op["op"] == "append":
                n["appends_of_existing_pointer"] += op["s"] <= len(prev["heap"])
            ks = [t[0] for t in cur["tags"]]
            n["steps_with_duplicate_tag_keys"] += len(ks) != len(set(ks))
    return n


class _Timer:
    def __init__(self):
        self.t = time.time()

    def __call__(self, what):
        now = time.time()
        vlib.log("  [x01] %-44s %6.1fs" % (what, now - self.t))
        self.t = now


def describe(case):
    return " ".join("%s%s" % (o["op"], ("(" + ",".join(str(o[k]) for k in ("to", "s", "k", "id", "v", "vis", "key", "val", "lat", "lon") if k in o) + ")"))
                    for o in case["ops"])


def run(ctx):
    q = ctx.quick()
    T = _Timer()
    ctx.rule = ("a case = one call sequence (OsmCoreGen: every sequence of length %d over tiny constants + tlc -simulate walks under five call "
                "mixes); evaluations = calls executed on the real containers (after each one the projected state and all queries are "
                "recorded); distinct = distinct call sequences; non-trivial = the sequence contains a mutating library call (Append*, "
                "SortBy*, HistoryDatasource); traces = sequences whose every step the Model's actions explain" % ALL_LEN[ctx.tier])
    ctx.assumptions = [
        "ids, versions and coordinates are small abstract values mapped monotonically to concrete ones (id i -> 1000003 i + 17, version v -> 5 v, "
        "coordinate a -> 12.5 a); packing limits of the ids are C10's subject",
        "slices stay below 13 elements, where sort.Sort is an insertion sort (the Model's sorts are stable; the Judge does not ask for stability)",
        "the byte order of the tag keys and values used is tabulated in OsmCore.tla (AllTagKeys, AllTagVals)",
        "object identity = pointer identity; objects are only written through the library (Change.HistoryDatasource sets Visible)",
        "the Judge states only what the doc comments promise; order of Objects()/FeatureIDs()/ElementIDs(), which duplicate key Find/Map take, "
        "order inside a history built from an OSM, and the forced Visible are Model-level (a deviation there is a DIVERGENCE, not a VIOLATION)",
    ]
    prepare(ctx)
    vlib.go_build("x01")
    T("build")
    pool = cf.ThreadPoolExecutor(max_workers=1)
    mc_future = pool.submit(model_check, ctx, MC_QUICK if q else MC_THOROUGH)

    def finish_mc():
        account_mc(ctx, mc_future.result())
        pool.shutdown()
        T("wait for model checking")

    # ---- S -> C
    cases, fam = generate(ctx)
    T("generate (%d sequences)" % len(cases))
    recs = execute(ctx, cases)
    steps = sum(len(r["got"]) - 1 for r in recs)
    T("execute (%d calls)" % steps)
    for c in cases:
        ctx.note_case(c["ops"], nontrivial=any(o["op"] in MUTATING for o in c["ops"]))
    ctx.evaluations += steps - len(cases)
    mid = recs[len(recs) // 2]
    ctx.samples = [{"calls": describe(mid["case"]), "last_step_state": mid["got"][-1].get("st"),
                    "last_step_queries": {k: mid["got"][-1].get("q", {}).get(k) for k in ("objs", "eids", "s_elems", "hist")}}]
    ctx.extra["sequences_per_family"] = fam
    ctx.extra["calls_executed"] = steps
    ctx.extra["calls_by_kind"] = {}
    for c in cases:
        for o in c["ops"]:
            ctx.extra["calls_by_kind"][o["op"]] = ctx.extra["calls_by_kind"].get(o["op"], 0) + 1

    ctx.extra["mechanism_counts"] = mechanism_counts(recs)
    confirmed = vlib.judge_and_confirm(ctx, cases, recs, lambda cs: execute(ctx, cs), lambda rs: judge(ctx, rs))
    T("judge")
    if ctx.violations:
        for why, path in ctx.violations[:3]:
            rp = json.load(open(path))
            vlib.log("  failing sequence: %s" % describe(rp["case"]))
        return finish_mc()

    # ---- binding self-test (runs next to the trace validation) and C -> S
    st_pool = cf.ThreadPoolExecutor(max_workers=1)
    st_future = st_pool.submit(selftest, ctx, recs)
    acc, rej, unval = validate_traces(ctx, recs, list(range(len(recs))))
    st_future.result()
    st_pool.shutdown()
    ctx.traces = len(acc)
    ctx.tlc_runs.append({"module": TRACE, "cfg": TRACE_CFG, "sequences": len(recs), "accepted": len(acc), "rejected": len(rej),
                         "lines": steps + len(recs)})
    for i, step, kind in rej:
        ctx.divergences += 1
        g = recs[i]["got"]
        op = g[step].get("op") if step < len(g) else None
        vlib.log("DIVERGENCE property=X01 sequence=%d step=%d kind=%s call=%s calls=%s" % (
            i, step, kind, json.dumps(op), describe(recs[i]["case"])[:400]))
    if unval:
        vlib.log("note: %d recorded sequences not validated after repeated rejections in their group" % len(unval))
        ctx.extra["sequences_unvalidated"] = len(unval)
    T("trace validation (%d accepted, %d rejected)" % (len(acc), len(rej)))
    finish_mc()


def replay(ctx, rp):
    prepare(ctx)
    recs = execute(ctx, [rp["case"]])
    bad = judge(ctx, recs, shards=1)
    acc, rej, _ = validate_traces(ctx, recs, [0])
    for i, step, kind in rej:
        print("DIVERGENCE property=X01 step=%d kind=%s" % (step, kind))
    if bad:
        print("VIOLATION property=X01 replay=(given)  #", bad)
        return 1
    print("replay: sequence passes the Judge%s" % ("" if rej else " and is accepted by the Model"))
    return 0
