"""C20 - osmapi calls hit the documented endpoint and map statuses to typed errors.

spec/OsmApi.tla holds the documented endpoint table, the protocol Model of one call
(Begin -> [Wait] -> Get -> Respond -> Return, limiter and server as environment) and the Judges
(OneGet, WaitBeforeGet, PathOK, StatusMap, ExactlyOne, ReturnsAll).

  1. TLC model-checks Model |= Judges over the call space x every limiter outcome x status x document.
  2. TLC (OsmApiGen) writes N cases = call configuration + environment script.
  3. harness/cmd/c20 makes every call through the real osmapi package against an in-process HTTP server
     and a recording limiter and writes the events that happened.
  4. TLC (OsmApiJudge) evaluates the Judges on every recorded call            -> verdict.
  5. TLC (OsmApiTrace) validates the concatenated event sequences against the Model's actions
     (high-water-mark acceptance)                                             -> divergences.
"""
import concurrent.futures as cf
import copy, json, os, re, threading
import vlib

JUDGE, JCFG = "OsmApiJudge", "OsmApiJudge.cfg"


# ------------------------------------------------------------------ real code
def execute(ctx, cases, procs=1):
    b = vlib.go_build("c20")
    if procs <= 1 or len(cases) < 2000:
        return vlib.run_go(b, stdin_lines=cases, timeout=1200)
    per = (len(cases) + procs - 1) // procs
    chunks = [cases[i:i + per] for i in range(0, len(cases), per)]
    with cf.ThreadPoolExecutor(max_workers=procs) as ex:
        parts = list(ex.map(lambda ch: vlib.run_go(b, stdin_lines=ch, timeout=1200), chunks))
    return [r for p in parts for r in p]


# ------------------------------------------------------------------ trace validation
def _trace_lines(recs):
    """-> (lines, start) : ndjson lines of the concatenated traces, start[k] = 1-based line of call k's cfg line."""
    lines, start = [], []
    for r in recs:
        c = dict(r["case"])
        c["e"] = "cfg"
        start.append(len(lines) + 1)
        lines.append(json.dumps(c, separators=(",", ":")))
        for e in r["ev"]:
            lines.append(json.dumps(e, separators=(",", ":")))
    lines.append('{"e":"end"}')
    return lines, start


def validate_chunk(ctx, recs, tag, max_div=3):
    """Validate one chunk of recorded calls against OsmApiTrace.  Returns (accepted, diverging, states) where
    diverging = list of (record, rejected line text).  After max_div rejected calls the rest of the chunk is left
    unvalidated (divergences do not decide the verdict)."""
    recs = list(recs)
    div, states = [], 0
    while recs:
        lines, start = _trace_lines(recs)
        sc = os.path.join(ctx.scratch, "trace-%s-%d" % (tag, len(div)))
        os.makedirs(sc, exist_ok=True)
        p = os.path.join(sc, "trace.ndjson")
        with open(p, "w") as f:
            f.write("\n".join(lines) + "\n")
        r = vlib.tlc("OsmApiTrace", "OsmApiTrace.cfg", sc, env={"TRACE": p}, workers=1, timeout=1500)
        states += r.distinct
        m = re.search(r'<<"HIGHWATER", (\d+), (\d+)>>', r.out)
        if not m or int(m.group(2)) != len(lines):
            raise vlib.Infra("trace validation: no HIGHWATER line (rc=%s):\n%s" % (r.rc, r.out[-3000:]))
        hw = int(m.group(1))
        if r.rc == 0 and hw == len(lines) + 1:
            return len(recs), div, states
        if r.rc == 0:
            raise vlib.Infra("trace validation: rc 0 but high-water %d of %d" % (hw, len(lines)))
        # line hw could not be consumed; a rejected cfg / end line means the call before it never completed
        k = max(i for i, s in enumerate(start) if s <= hw)
        if (start[k] == hw or hw == len(lines)) and hw > 1:
            k = k - 1 if start[k] == hw else k
        div.append((recs[k], lines[hw - 1] if hw <= len(lines) else "(end)"))
        del recs[k]
        if len(div) >= max_div:
            return 0, div, states
    return 0, div, states


def validate_traces(ctx, recs, shards):
    per = (len(recs) + shards - 1) // shards
    chunks = [recs[i:i + per] for i in range(0, len(recs), per)]
    with cf.ThreadPoolExecutor(max_workers=shards) as ex:
        res = list(ex.map(lambda a: validate_chunk(ctx, a[1], a[0]), enumerate(chunks)))
    acc = sum(a for a, _, _ in res)
    divs = [d for _, ds, _ in res for d in ds]
    states = sum(s for _, _, s in res)
    return acc, divs, states


# ------------------------------------------------------------------ binding self-test
def selftest(ctx, recs):
    """Guards against a vacuous Judge / Trace spec: up to three recorded observations are damaged (request path,
    type of a typed error, limiter consulted after the request); the Judge must reject each damaged line with the
    matching clause and the Trace spec must stop at the first damaged trace."""
    pool = copy.deepcopy(recs[:400])
    want = {}
    typed = ("*osmapi.GoneError", "*osmapi.ForbiddenError", "*osmapi.RequestURITooLongError")
    for i, r in enumerate(pool):
        ev = r["ev"]
        kinds = [e["e"] for e in ev]
        if any(o["k"] == "limit" and not 1 <= o["n"] <= 10000 for o in r["case"]["opts"]):
            continue
        if "path" not in want.values() and "get" in kinds:
            ev[kinds.index("get")]["path"] += "x"
            want[i] = "path"
        elif "type" not in want.values() and ev[-1].get("errtype") in typed:
            ev[-1]["errtype"] = "*osmapi.NotFoundError"
            ev[-1]["notfound"] = True
            want[i] = "type"
        elif "order" not in want.values() and kinds == ["wait", "get", "resp", "ret"]:
            r["ev"] = [ev[1], ev[2], ev[0], ev[3]]
            want[i] = "order"
    if not want:
        return 0
    clause = {"path": "PathOK", "type": "StatusMap", "order": "WaitBeforeGet"}
    sel = [pool[i] for i in sorted(want)]
    bad = vlib.tlc_judge(ctx, JUDGE, JCFG, sel, shards=1)
    ctx.judged -= len(sel)
    got = {i: why for i, why, _ in bad}
    for j, i in enumerate(sorted(want)):
        if clause[want[i]] not in (got.get(j) or []):
            raise vlib.Infra("C20 self-test: damaged record (%s) not rejected by the Judge: %s" % (want[i], got))
    acc, div, _ = validate_chunk(ctx, sel, "selftest", max_div=1)
    if not div or div[0][0] is not sel[0]:
        raise vlib.Infra("C20 self-test: Trace spec did not stop at the first damaged trace")
    return len(sel)


# ------------------------------------------------------------------ main
def run(ctx):
    quick = ctx.quick()
    n = 5000 if quick else 60000
    mc_cfg = "OsmApi_mc_quick.cfg" if quick else "OsmApi_mc_thorough.cfg"
    gen_cfg = "OsmApiGen_quick.cfg" if quick else "OsmApiGen_thorough.cfg"

    # 1. design level, in the background (own scratch copy of spec/)
    mc = {}

    def model_check():
        try:
            sc = os.path.join(ctx.scratch, "mc")
            os.makedirs(sc, exist_ok=True)
            mc["r"] = vlib.tlc("OsmApi", mc_cfg, sc, workers=(4 if quick else 8), timeout=1500)
        except Exception as e:  # noqa
            mc["err"] = e

    th = threading.Thread(target=model_check)
    th.start()

    # 2. cases
    cases = vlib.tlc_gen(ctx, "OsmApiGen", gen_cfg, env={"N": n, "SEED": ctx.seed}, count_states=False)
    if len(cases) != n:
        raise vlib.Infra("C20: %d cases generated, %d wanted" % (len(cases), n))

    # 3. real code
    ex = lambda cs: execute(ctx, cs, procs=2 if quick else 4)
    recs = ex(cases)
    if len(recs) != len(cases):
        raise vlib.Infra("C20: %d cases but %d records" % (len(cases), len(recs)))
    for c, r in zip(cases, recs):
        if r["case"] != c:
            raise vlib.Infra("C20: harness returned a different case")
        kinds = [e["e"] for e in r["ev"]]
        ctx.note_case(c, nontrivial=("wait" in kinds or "get" in kinds))

    def brief(r):
        return {"call": {k: r["case"][k] for k in ("ep", "id", "ver", "ids", "bbox", "q", "ctx", "opts", "base", "lim", "via")},
                "ev": [{k: v for k, v in e.items() if k not in ("body", "errmsg")} for e in r["ev"]]}
    ctx.samples = [brief(recs[i]) for i in (0, len(recs) // 3, 2 * len(recs) // 3, len(recs) - 1)]

    # 4.+5. verdict (Judge) and conformance (Trace), side by side
    jshards = 2 if quick else 8
    tshards = 2 if quick else 6
    judge = lambda rs: vlib.tlc_judge(ctx, JUDGE, JCFG, rs, shards=(jshards if len(rs) > 500 else 1))
    with cf.ThreadPoolExecutor(max_workers=2) as pool:
        ftrace = pool.submit(validate_traces, ctx, recs, tshards)
        fself = pool.submit(selftest, ctx, recs)
        vlib.judge_and_confirm(ctx, cases, recs, ex, judge)
        acc, divs, tstates = ftrace.result()
        st_ok = fself.result()
    ctx.traces = acc
    ctx.extra["trace_states"] = tstates
    ctx.extra["binding_selftest"] = "Judge and Trace spec rejected %d of %d deliberately damaged observations" % (st_ok, st_ok)
    for r, line in divs[:10]:
        ctx.divergences += 1
        vlib.log("DIVERGENCE property=C20 call=%s rejected_line=%s" % (
            json.dumps({k: r["case"][k] for k in ("ep", "id", "ver", "ids", "bbox", "q", "ctx", "opts", "base", "lim", "via")}), line[:400]))
    if len(divs) > 10:
        ctx.divergences += len(divs) - 10

    th.join()
    if "err" in mc:
        raise mc["err"]
    r = mc["r"]
    ctx.states += r.distinct
    ctx.transitions += r.generated
    ctx.tlc_runs.append({"module": "OsmApi", "cfg": mc_cfg, "distinct": r.distinct, "generated": r.generated,
                         "wall_s": round(r.wall, 1), "rc": r.rc})
    if not r.ok():
        raise vlib.Infra("model check OsmApi/%s did not pass (rc=%s, %s):\n%s" % (mc_cfg, r.rc, r.violation, r.out[-5000:]))
    if not quick:
        # liveness on the narrow space: every call terminates (FairSpec); the same run collects coverage as a
        # vacuity guard - every action of the Model must have been taken (coverage on the wide run costs 4x)
        lv = vlib.tlc_model_check(ctx, "OsmApi", "OsmApi_mc_live.cfg", workers=4, timeout=900, args=["-coverage", "1"])
        for act in ("Wait", "Get", "Respond", "Return"):
            counts = [int(x) for x in re.findall(r"<%s line[^>]*>: (\d+):\d+" % act, lv.out)]
            if not counts or max(counts) == 0:
                raise vlib.Infra("model check: action %s never taken (vacuous run)" % act)

    ctx.exhaustive = False
    ctx.rule = ("design level: OsmApi!MCCalls (%s) x every limiter outcome x status x response document, all states; "
                "conformance: %d cases from OsmApiGen (call configuration x environment script, index arithmetic seeded by --seed) "
                "executed on the real osmapi package; distinct = distinct abstract cases; non-trivial = the call reached the "
                "limiter or the network (calls with out-of-range options are generated but the Judge is silent on them)" % (mc_cfg, n))
    ctx.assumptions = [
        "the endpoint table in OsmApi.tla is the OSM API v0.6 documentation (transcribed by hand); `at=` is the osm.fyi extension documented by the package",
        "URLs are compared as host + escaped path + multiset of decoded query parameters; bbox components numerically (unit 1e-7 degree)",
        "bbox bounds that are not whole micro-degrees: only the presence of the bbox parameter is compared (documentation fixes no number of decimals)",
        "base URLs have no trailing slash; the HTTP client follows no redirects in the explored space (3xx answers carry no Location)",
        "context.Background() or a far-away caller deadline; transport failures and cancellation are outside the explored space",
        "calls run one at a time (the property is about single calls)",
        "response size / streaming: documents are delivered plainly, padded to 256 KB with XML comments, and/or in two flushes 15 ms apart",
    ]


def replay(ctx, rp):
    recs = execute(ctx, [rp["case"]])
    bad = vlib.tlc_judge(ctx, JUDGE, JCFG, recs, shards=1)
    print(json.dumps(recs[0]["ev"]))
    if bad:
        print("VIOLATION property=C20 replay=(given)  #", bad)
        return 1
    print("replay: case passes")
    return 0
