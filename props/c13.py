"""C13 - annotating a change yields the exact old/new diff for every element.

AnnotateChange.tla holds the Model (the loops of annotate/change.go as a step machine), the Judge
(JudgeOK: the property as listed) and the input space.  This driver
  1. lets TLC check the Model against the Judge and against the declarative diff (design level),
  2. lets TLC write the abstract cases (static families + seeded random draws of the product space),
  3. runs the real annotate.Change on every case (harness/cmd/c13, neutral renderer/recorder),
  4. lets TLC judge every recorded line (AnnotateChangeJudge.tla)."""
import concurrent.futures as cf
import json, os, shutil
import vlib

MOD, GEN, GENR, JUDGE, JCFG = "AnnotateChange", "AnnotateChangeGen", "AnnotateChangeGenR", "AnnotateChangeJudge", "AnnotateChangeJudge.cfg"
# abstract id i is rendered as base + i: small ids, ids beyond 32 bits, ids at the top of the 40-bit id space
ID_BASES = [0, 4_000_000_000, (1 << 40) - 1002]


def id_base(ctx):
    return ID_BASES[ctx.seed % len(ID_BASES)]


def execute(ctx, cases, base=None):
    b = vlib.go_build("c13")
    return vlib.run_go(b, stdin_lines=cases, env={"VERIF_IDBASE": str(id_base(ctx) if base is None else base)})


def judge(ctx, recs):
    """BAD lines whose reason starts with DIVERGENCE: the property holds but the real code differs from the Model."""
    shards = max(1, min(4 if ctx.quick() else 8, len(recs) // 1500))
    bad = vlib.tlc_judge(ctx, JUDGE, JCFG, recs, shards=shards)
    out = []
    for i, why, kf in bad:
        if isinstance(why, list) and why and why[0] == "DIVERGENCE":
            ctx.divergences += 1
            if ctx.divergences <= 10:
                vlib.log("DIVERGENCE property=C13 case=%d %s" % (i, why[1:]))
        else:
            out.append((i, why, kf))
    return out


def nontrivial(c):
    """exercises the mechanism: at least one modified/deleted element (a predecessor has to be searched)"""
    return any(len(c["ch"][s][k]) > 0 for s in ("modify", "delete") for k in ("node", "way", "relation"))


def sanity(cases):
    """generator sanity (infrastructure, not a verdict): marks are unique per case, versions distinct per history"""
    for c in cases:
        ms = [e["m"] for s in c["ch"].values() for l in s.values() for e in l] + [e["m"] for h in c["hist"] for e in h["vs"]]
        if len(ms) != len(set(ms)):
            raise vlib.Infra("C13 generator: duplicate marks in %r" % (c,))
        for h in c["hist"]:
            vs = [e["v"] for e in h["vs"]]
            if len(vs) != len(set(vs)):
                raise vlib.Infra("C13 generator: repeated version in a history %r" % (c,))


def run(ctx):
    tier = "quick" if ctx.quick() else "thorough"
    seedargs = ("-seed", str(ctx.seed))
    # vlib.tlc copies spec/ into the scratch directory on first use; do it once before the concurrent runs start
    wd = os.path.join(ctx.scratch, "spec")
    if not os.path.isdir(wd):
        shutil.copytree(vlib.SPEC, wd, ignore=shutil.ignore_patterns("states", ".tlacache"))
    with cf.ThreadPoolExecutor(max_workers=10) as ex:
        # 1. design level, two TLC processes running concurrently with the rest: the step machine = Expected and satisfies
        #    JudgeOK (a) from every static case and from random draws, (b) on every change the generating machine builds
        mcs = [ex.submit(vlib.tlc_model_check, ctx, MOD, "AnnotateChange_%s.cfg" % tier, workers=2 if ctx.quick() else 4,
                         args=seedargs, timeout=840),
               ex.submit(vlib.tlc_model_check, ctx, MOD, "AnnotateChange_%s_build.cfg" % tier, workers=4 if ctx.quick() else 8,
                         args=seedargs, timeout=840)]
        # 2. cases
        if ctx.quick():
            gens = [ex.submit(vlib.tlc_gen, ctx, GEN, "AnnotateChangeGen_quick.cfg", args=seedargs)]
        else:
            gens = [ex.submit(vlib.tlc_gen, ctx, GEN, "AnnotateChangeGen_thorough_%s.cfg" % k, args=seedargs)
                    for k in ("node", "way", "relation")]
            for k in range(4):
                gens.append(ex.submit(vlib.tlc_gen, ctx, GENR, "AnnotateChangeGenR.cfg", args=("-seed", str(ctx.seed * 100 + k))))
        cases, seen = [], set()
        for g in gens:
            for c in g.result():
                key = json.dumps(c, sort_keys=True)
                if key not in seen:       # Houses / Failing are written by each of the three static processes
                    seen.add(key)
                    cases.append(c)
        sanity(cases)
        # 3. real code
        recs = execute(ctx, cases)
        for c in cases:
            ctx.note_case(c, nontrivial=nontrivial(c))
        n = len(recs)
        ctx.samples = [recs[0], recs[n // 3], recs[n // 2], recs[-1]]
        # 4. verdict
        vlib.judge_and_confirm(ctx, cases, recs, lambda cs: execute(ctx, cs), lambda rs: judge(ctx, rs),
                               replay_extra={"id_base": id_base(ctx)})
        for m in mcs:
            m.result()
    ctx.exhaustive = True
    ctx.extra["id_base"] = id_base(ctx)
    ctx.rule = ("cases = static families of AnnotateChange.tla (Singles: one modified/deleted element of each kind, versions 1..4, "
                "against every stored order of every subset of 1..HMax and against no history, both ignore-missing settings, option sets "
                "and id tables rotated; Pairs: two elements in every pair of cells x every shape; Houses; Failing and Faulty (fault-injecting datasource: non-not-found and own not-found errors for chosen (kind, id)); Timestamps: 7 orderings of timestamps vs versions (all static cases are stamped with a rotated time mode); Optioned: all 36 "
                "settings of the other options x missing/present predecessor; IdTables: concrete ids 0 / 2^40-1 / negative as first and "
                "later element of every pair of update cells) enumerated completely by TLC (%s) + seeded random draws of the full product "
                "space; distinct = distinct abstract cases; non-trivial = at least one modified or deleted element"
                % ("AnnotateChangeGen_%s*.cfg" % tier))
    ctx.assumptions = [
        "version numbers are distinct within one stored history (the property speaks of 'the' greatest version below)",
        "for an element without any history both NoVisibleChildError (what Change returns) and NoHistoryError are accepted as "
        "'the documented typed error'; with several missing elements any of them may be named",
        "the order among the elements of one (action, kind) cell is not fixed by the property; a different order there is "
        "reported as DIVERGENCE, not as a violation",
        "when a lookup fails with an error the datasource does not classify as not-found, any error returned by Change is "
        "accepted (which one: Model only, divergence); a diff returned nevertheless must be the exact diff w.r.t. the existing histories",
        "only IgnoreMissingChildren(true) may change the outcome: Judge and Model never read the other option settings "
        "(IgnoreInconsistency, Threshold, ChildFilter, explicit IgnoreMissingChildren(false)), all of which are enumerated",
        "ids are rendered through the id table named by the case: base = id_base + i with id_base chosen by the seed (0, 4e9, "
        "2^40-1002), or tables containing 0, 2^40-1, 2^39 and negative ids; negative ids (not representable by osm.FeatureID) "
        "are only combined with ignore-missing on, where no typed error is due",
    ]


def replay(ctx, rp):
    recs = execute(ctx, [rp["case"]], base=rp.get("id_base"))
    bad = judge(ctx, recs)
    if bad:
        print("VIOLATION property=C13 replay=(given)  #", bad)
        return 1
    print("replay: case passes")
    return 0
