"""C19 - replication state lookup by time terminates with the first state at or after t.

  spec/ReplicationSearch.tla        Model (searchTimestamp/findBound/findInRange, one action per HTTP request),
                                    Judges (Want/ResultOK, RequestBound, planet URL + state file layout), KF_ signatures
  spec/MC_ReplicationSearch.tla     model-checking instance: Model |= Judges for every directory of the families
  spec/ReplicationSearchGen.tla     directories rendered in the planet layout (paths, bodies, query times)
  harness/cmd/c19                   one child process per call history: serves the rendered directory over HTTP,
                                    runs the XxxStateAt / CurrentXxxState calls in order
  spec/ReplicationSearchJudge.tla   the property on every recorded run (only oracle)
  spec/ReplicationSearchTrace.tla   recorded request traces replayed against the Model's actions (binding evidence)
"""
import concurrent.futures as cf
import json, os, re, shutil, time
import vlib

MOD, MC, GEN, JUDGE, TRACE = "ReplicationSearch", "MC_ReplicationSearch", "ReplicationSearchGen", \
    "ReplicationSearchJudge", "ReplicationSearchTrace"
KINDS = ["minute", "hour", "day", "changesets"]
CASE_FIELDS = ("kind", "skew", "style", "prefix", "unit", "pauses", "pauselen", "lay", "lists", "seam", "ds", "gz", "present", "first", "cur")

# --------------------------------------------------------------------------
class Cases:
    """Flat view (history, call) of the generated records.  One generated record is one client history: a
    directory plus the sequence of calls made against it in one process.  Item i is the WHOLE history with
    "focus" = the index of call i in it: re-running a case re-runs the history (in a fresh child process), so
    what call i saw before it is the same again, and the replay file reproduces deterministically."""

    def __init__(self, dirs):
        self.dirs = dirs
        self.idx = [(di, qi) for di, d in enumerate(dirs) for qi in range(len(d["queries"]))]

    def __len__(self):
        return len(self.idx)

    def __getitem__(self, i):
        di, qi = self.idx[i]
        d = dict(self.dirs[di])
        d["focus"] = qi
        return d


def execute_dirs(ctx, dirs):
    """Run the harness on history records (each in its own child process); returns the flat list of judge
    records, one per call - for a record with "focus" only that call's record."""
    b = vlib.go_build("c19")
    outs = vlib.run_go(b, stdin_lines=[{k: v for k, v in d.items() if k != "focus"} for d in dirs], timeout=3000)
    if len(outs) != len(dirs):
        raise vlib.Infra("C19: %d histories but %d harness records" % (len(dirs), len(outs)))
    recs = []
    for sid, (d, o) in enumerate(zip(dirs, outs)):
        if len(o["runs"]) != len(d["queries"]):
            raise vlib.Infra("C19: harness returned %d runs for %d calls" % (len(o["runs"]), len(d["queries"])))
        base = {k: d[k] for k in CASE_FIELDS}
        base["sid"] = sid
        for k, (q, r) in enumerate(zip(d["queries"], o["runs"])):
            if "focus" in d and k != d["focus"]:
                continue
            c = dict(base)
            c["q"], c["op"], c["k"] = r["q"], q["op"], k + 1
            recs.append({"case": c, "got": r["got"]})
    return recs


def judge(ctx, recs):
    # a panic inside the library call is the abstract outcome "crash" and goes to the Judge (it fails the result
    # clause); a child process that died or timed out as a whole is not an observation of C19
    crashed = [r for r in recs if r["got"]["outcome"] == "crash" and r["got"]["err"] == "child"]
    if crashed:   # no abstract outcome of C19: the child process running a history died or timed out
        raise vlib.Infra("C19: %d calls lost with their child process: %s" % (len(crashed), crashed[0]["got"]["detail"][-800:]))
    shards = max(1, min(vlib.NCPU // 2, len(recs) // 400))
    return vlib.tlc_judge(ctx, JUDGE, JUDGE + ".cfg", recs, shards=shards)


# --------------------------------------------------------------------------
def generate(ctx, tier):
    cfg = "%s_%s.cfg" % (GEN, tier)
    text = open(os.path.join(vlib.SPEC, cfg)).read()
    text = re.sub(r"Seed = \d+", "Seed = %d" % ctx.seed, text)
    if tier == "quick":
        return vlib.tlc_gen(ctx, GEN, cfg, files={cfg: text}, count_states=False)
    # thorough: one TLC process per kind
    def one(kind):
        name = "%s_%s_%s.cfg" % (GEN, tier, kind)
        t = re.sub(r"OnlyKinds = \{[^}]*\}", 'OnlyKinds = {"%s"}' % kind, text)
        return vlib.tlc_gen(ctx, GEN, name, files={name: t}, count_states=False, timeout=2400)
    with cf.ThreadPoolExecutor(max_workers=4) as ex:
        parts = list(ex.map(one, KINDS))
    return [d for p in parts for d in p]


def model_checks(ctx, tier):
    """Design level: Model |= Judges (exit 2 if the spec itself is broken)."""
    w = 4 if tier == "quick" else 8
    out = {}
    r = vlib.tlc_model_check(ctx, MC, "%s_mc_%s.cfg" % (MOD, tier), workers=w, timeout=2400)
    out["fixed"] = r.distinct
    r = vlib.tlc_model_check(ctx, MC, "%s_mc_devs_%s.cfg" % (MOD, tier), workers=w, timeout=2400)
    out["devs"] = r.distinct
    # vacuity guard + design-level reproduction of finding #10: with the pinned deviations TLC must refute Terminates
    r = vlib.tlc_model_check(ctx, MC, MOD + "_mc_pinned.cfg", expect_ok=False, workers=2, timeout=600)
    if not (r.rc == 13 and re.search(r"Temporal propert(y Terminates was|ies were) violated", r.out)):
        raise vlib.Infra("C19: the model with the pinned deviations no longer violates Terminates (%s, rc=%s)\n%s"
                         % (r.violation, r.rc, r.out[-2000:]))
    out["pinned_refuted"] = True
    return out


# --------------------------------------------------------------------------
def trace_events(recs):
    for n, r in enumerate(recs):
        c = dict(r["case"])
        c["e"] = "case"
        c["n"] = n
        yield n, c
        g = r["got"]
        for q in g["reqs"]:
            yield n, {"e": "req", "path": q["path"], "status": q["status"]}
        if g["outcome"] == "ok":
            yield n, {"e": "ret", "seq": g["seq"]}
        elif g["outcome"] == "hang":
            yield n, {"e": "hang"}
        else:
            yield n, {"e": "err", "class": g["err"]}


def validate_traces(ctx, recs, per_shard=800):
    """Code -> spec: the recorded request sequences are replayed against the Model's actions.  A rejected trace
    is a DIVERGENCE of the binding (probe order is not part of C19), never a violation."""
    # identical runs (same directory, rendering and abstract query, same requests, same outcome - the repeated
    # calls of a history and the sub-second renderings of one query) give identical event sequences: each distinct
    # one is validated once
    seen, uniq = set(), []
    for r in recs:
        c = {k: v for k, v in r["case"].items() if k not in ("sid", "k", "op")}
        g = r["got"]
        key = json.dumps([c, [(q["path"], q["status"]) for q in g["reqs"]], g["outcome"], g["seq"]], sort_keys=True)
        if key not in seen:
            seen.add(key)
            uniq.append(r)
    ctx.extra["trace_runs_covered"] = len(recs)
    recs = uniq
    shards = [recs[i:i + per_shard] for i in range(0, len(recs), per_shard)]

    def one(k):
        sc = os.path.join(ctx.scratch, "trace-%d" % k)
        os.makedirs(sc)
        p = os.path.join(sc, "trace.ndjson")
        owner = []
        with open(p, "w") as f:
            for n, e in trace_events(shards[k]):
                f.write(json.dumps(e, separators=(",", ":")) + "\n")
                owner.append(n)
        r = vlib.tlc(TRACE, TRACE + ".cfg", sc, env={"REC": p}, workers=1, timeout=2400)
        acc = [set(a["dev"]) for a in vlib.parse_print_json(r.out, "ACCEPTED")]
        rej = vlib.parse_print_json(r.out, "REJECTED")
        shutil.rmtree(sc, ignore_errors=True)
        if not acc and not rej:
            raise vlib.Infra("C19 trace validation: no verdict from TLC (rc=%s)\n%s" % (r.rc, r.out[-3000:]))
        where = None
        if not acc:
            line = int(rej[0]["line"])
            where = k * per_shard + owner[min(line, len(owner)) - 1]
        return r, acc, where, len(owner)

    with cf.ThreadPoolExecutor(max_workers=max(1, min(6, vlib.NCPU // 3))) as ex:
        res = list(ex.map(one, range(len(shards))))
    common = None
    events = 0
    for k, (r, acc, where, nev) in enumerate(res):
        ctx.tlc_runs.append({"module": TRACE, "cfg": TRACE + ".cfg", "distinct": r.distinct, "generated": r.generated,
                             "wall_s": round(r.wall, 1), "rc": r.rc})
        events += nev
        if where is not None:
            ctx.divergences += 1
            c = recs[where]["case"]
            vlib.log("DIVERGENCE property=C19 trace of run %d rejected by the Model: kind=%s present=%s q=%s got=%s reqs=%s"
                     % (where, c["kind"], c["present"][:12], c["q"], recs[where]["got"]["outcome"],
                        [q["path"] for q in recs[where]["got"]["reqs"]][:12]))
            continue
        ctx.traces += len(shards[k])
        s = {frozenset(a) for a in acc}
        common = s if common is None else (common & s)
    if common is not None and not common:
        ctx.divergences += 1
        vlib.log("DIVERGENCE property=C19 no single set of deviations explains all recorded traces")
    ctx.extra["trace_events"] = events
    ctx.extra["trace_deviation_sets"] = sorted(sorted(s) for s in (common or []))


# --------------------------------------------------------------------------
def run(ctx):
    tier = "quick" if ctx.quick() else "thorough"
    os.makedirs(os.path.join(ctx.scratch), exist_ok=True)
    shutil.copytree(vlib.SPEC, os.path.join(ctx.scratch, "spec"), ignore=shutil.ignore_patterns("states", ".tlacache"))
    with cf.ThreadPoolExecutor(max_workers=2) as ex:
        fmc = ex.submit(model_checks, ctx, tier)       # design level, in the background
        try:
            t0 = time.time()
            dirs = generate(ctx, tier)
            t1 = time.time()
            cases = Cases(dirs)
            vlib.log("C19: %d directory records, %d lookups generated in %.0fs" % (len(dirs), len(cases), t1 - t0))
            recs = execute_dirs(ctx, dirs)
            t2 = time.time()
            vlib.log("C19: %d lookups executed on the real code in %.0fs" % (len(recs), t2 - t1))
            if len(recs) != len(cases):
                raise vlib.Infra("C19: %d cases but %d records" % (len(cases), len(recs)))
            for r in recs:
                c = r["case"]
                ctx.note_case([c["kind"], c["present"], c["q"]], nontrivial=c["q"] <= 2 * c["cur"])
            n = len(recs)
            ctx.samples = [{"case": r["case"], "got": {k: v for k, v in r["got"].items() if k != "detail"}}
                           for r in (recs[3], recs[n // 3], recs[n // 2], recs[(2 * n) // 3]) if len(r["got"]["reqs"]) <= 12][:4]
            deadline = [r for r in recs if r["got"].get("deadline")]
            if deadline:
                raise vlib.Infra("C19: %d runs hit the wall-clock deadline (machine overloaded?)" % len(deadline))
            calls = [0]

            def judge_fn(rs):
                bad = judge(ctx, rs)
                calls[0] += 1
                if calls[0] > 1:
                    # confirmation run: a failure that is a known finding does not confirm a different first failure
                    bad = [b for b in bad if not ctx.known_match(b[2])]
                return bad
            vlib.judge_and_confirm(ctx, cases, recs, lambda cs: execute_dirs(ctx, list(cs)), judge_fn)
            t3 = time.time()
            vlib.log("C19: judged in %.0fs" % (t3 - t2))
            validate_traces(ctx, recs)
            t4 = time.time()
            vlib.log("C19: %d distinct traces (of %d runs) validated in %.0fs" % (ctx.traces, len(recs), t4 - t3))
            ctx.extra["phases_s"] = {"gen": round(t1 - t0, 1), "run": round(t2 - t1, 1), "judge": round(t3 - t2, 1),
                                     "trace": round(t4 - t3, 1)}
            ctx.extra["directories"] = len(dirs)
            ctx.extra["requests"] = sum(r["got"]["count"] for r in recs)
            ctx.extra["outcomes"] = {o: sum(1 for r in recs if r["got"]["outcome"] == o) for o in ("ok", "error", "hang", "crash")}
        finally:
            mc = fmc.result()
    ctx.extra["model_checks"] = mc
    ctx.exhaustive = True
    ctx.rule = ("cases = every (directory, kind, query time) generated by ReplicationSearchGen_%s.cfg: all non-empty subsets of "
                "1..MaxSeq, all non-empty subsets of b+1..b+OffN behind a missing prefix b, long directories with one run of "
                "missing files, each with every query time (selected query times for long directories), executed on the real "
                "XxxStateAt; distinct = distinct (kind, present, q); non-trivial = the query time is not after the newest state "
                "(the search has to look beyond the current state file)" % tier)
    ctx.assumptions = [
        "the directory does not change during a lookup; only 404s are injected (no other HTTP errors, no slow responses)",
        "timestamps are strictly increasing with the sequence number; the search only compares times, so the abstract "
        "assignment TS(n)=2n (rendered with two spacings per kind) stands for all strictly increasing assignments",
        "the planet layout (paths, state.txt / state.yaml bodies) is the one transcribed in ReplicationSearch.tla section 2c",
        "RequestBound's constants are the ones TLC verified for the model on these families; the Judge applies the same formula",
        "sequence numbers and times stay within TLC's 32-bit integers (per kind limits in ReplicationSearchGen.tla)",
    ]


def replay(ctx, rp):
    recs = execute_dirs(ctx, [rp["case"]])     # the whole history in a fresh process, judged at the focus call
    bad = judge(ctx, recs)
    if not bad:
        print("replay: case passes")
        return 0
    for i, why, kf in bad:
        k = ctx.known_match(kf)
        if k:
            print("KNOWN-FINDING: property=C19 %s  # %s" % (k["kf"], json.dumps(why)))
        else:
            print("VIOLATION property=C19 replay=(given)  #", json.dumps(why), "got=", json.dumps(
                {k2: v for k2, v in recs[i]["got"].items() if k2 != "reqs"}))
            return 1
    return 0
