"""C16 - multipolygon assembly recovers the original rings for any split and order.

 1. design level: TLC checks Model |= Judges (Multipolygon.tla: Join / Ring / hole assignment / annotateOrientation
    transcribed as a step machine) over every cut / reversal / member order of small shapes, plus termination;
 2. S->C: TLC enumerates (BFS of the generating machine) or samples (-simulate, larger shapes) abstract cases, the Go
    harness renders them onto coordinates and runs the real osmgeojson.Convert (2 coordinate sources x orientation masks
    none / all, a partial mask, + the relation as annotated by the real annotate.Relations) and annotate.Relations;
 3. MultipolygonJudge.tla decides every record (RingsRecovered, SameForBothCoordinateSources,
    SameWithOrWithoutOrientation, OrientationAnnotated) and compares it with the exact prediction of the Model
    (mismatch with all Judges holding = DIVERGENCE, not a violation)."""
import concurrent.futures as cf
import json, os, re
import vlib

MOD, GEN, JUDGE, JCFG = "MultipolygonMC", "MultipolygonGen", "MultipolygonJudge", "MultipolygonJudge.cfg"

# (name, shape family in MultipolygonMC.tla, MaxPieces, interleaving patterns, keep one case in `every`)
FAM_QUICK = [
    ("one",      "S_One",      3, '{"all"}',              1),
    ("hole33",   "S_Hole33",   2, '{"of", "alt"}',        2),
    ("two33h1",  "S_Two33H1",  1, '{"all"}',              2),
    ("two33",    "S_Two33",    2, '{"all"}',              6),
    ("hole44",   "S_Hole44",   2, '{"of", "alt"}',        8),
    ("notch",    "S_Notch",    1, '{"all"}',              8),
]
FAM_THOROUGH = [
    ("one",      "S_One",      4, '{"all"}',              1),
    ("hole33",   "S_Hole33",   3, '{"of", "if", "alt"}',  1),
    ("hole43",   "S_Hole43",   3, '{"alt"}',              3),
    ("hole34",   "S_Hole34",   2, '{"of", "if", "alt"}',  1),
    ("hole54",   "S_Hole54",   2, '{"of", "alt"}',        2),
    ("two33",    "S_Two33",    3, '{"all"}',              3),
    ("two34",    "S_Two34",    2, '{"all"}',              1),
    ("two45",    "S_Two45",    1, '{"all"}',              1),
    ("two33h1",  "S_Two33H1",  2, '{"of", "alt"}',        30),
    ("one4hh",   "S_One4HH",   2, '{"alt"}',              36),
    ("two33h2",  "S_Two33H2",  1, '{"all"}',              6),
    ("two43h2",  "S_Two43H2",  1, '{"of", "if", "alt"}',  6),
    ("hole44",   "S_Hole44",   2, '{"of", "alt"}',        2),
    ("notch",    "S_Notch",    2, '{"alt"}',              120),
]
# documents of 2-3 relations sharing ways (MultipolygonDocs.tla): keep one case in `every` per family
DOC_EVERY_QUICK = {"adj33": 1, "adj44": 4, "isl33": 2, "both333": 6}
DOC_EVERY_THOROUGH = {"adj33": 2, "adj44": 1, "adj54": 4, "adj43h": 1, "isl33": 1, "isl44": 1, "both333": 2, "both434": 2}

MC_QUICK = ["Multipolygon_mc_q1.cfg", "Multipolygon_mc_q2.cfg", "Multipolygon_same_q.cfg", "Multipolygon_live_q.cfg"]
MC_THOROUGH = ["Multipolygon_mc_t1.cfg", "Multipolygon_mc_t2.cfg", "Multipolygon_mc_t2b.cfg", "Multipolygon_mc_t3.cfg", "Multipolygon_mc_t4.cfg",
               "Multipolygon_same_t.cfg", "Multipolygon_space_b.cfg", "Multipolygon_live_t.cfg"]

GEN_CFG = """CONSTANT Shapes <- %s
CONSTANT MaxPieces = %d
CONSTANT MaskMode = "basic"
CONSTANT Tasks = {}
CONSTANT Patterns = %s
INIT Init
NEXT NextGen
INVARIANT %s
CHECK_DEADLOCK FALSE
"""


def _parse(cases):
    # CSVWrite("%1$s", <<ToJson(c)>>) writes the JSON text as a quoted TLA+ string: tlc_gen hands back str
    return [json.loads(c) if isinstance(c, str) else c for c in cases]


def gen_family(ctx, fam):
    name, shapes, maxp, pats, every = fam
    cfgname = "Multipolygon_gen_%s.cfg" % name
    cases = vlib.tlc_gen(ctx, GEN, cfgname, files={cfgname: GEN_CFG % (shapes, maxp, pats, "EmitFile")}, workers=4,
                         count_states=False)
    # the same member list can be reached under two interleaving patterns: keep one copy; sorted = deterministic order
    uniq = sorted({json.dumps(c, sort_keys=True) for c in _parse(cases)})
    cases = [json.loads(u) for u in uniq]
    total = len(cases)
    if every > 1:
        off = ctx.seed % every
        cases = [c for i, c in enumerate(cases) if i % every == off]
    return name, total, cases


def gen_sim(ctx, n):
    cfgname = "Multipolygon_gen_sim.cfg"
    cases = vlib.tlc_gen(ctx, GEN, cfgname, files={cfgname: GEN_CFG % ("S_Big", 4, '{"all"}', "EmitSim")}, workers=1,
                         count_states=False, args=("-simulate", "num=%d" % n, "-depth", "200", "-seed", str(ctx.seed)))
    return "sim", len(cases), _parse(cases)


def gen_docs(ctx):
    cfg = "MultipolygonDocs_quick.cfg" if ctx.quick() else "MultipolygonDocs_thorough.cfg"
    every = DOC_EVERY_QUICK if ctx.quick() else DOC_EVERY_THOROUGH
    allc = [json.loads(u) for u in sorted({json.dumps(c, sort_keys=True) for c in _parse(
        vlib.tlc_gen(ctx, "MultipolygonDocs", cfg, workers=1, count_states=False))})]
    out, count = [], {}
    for c in allc:
        sp = c["doc"]["spec"]
        i = count.get(sp, 0)
        count[sp] = i + 1
        if i % every.get(sp, 1) == ctx.seed % every.get(sp, 1):
            out.append(c)
    return [("doc-" + sp, n, [c for c in out if c["doc"]["spec"] == sp]) for sp, n in sorted(count.items())]


def execute(ctx, cases):
    b = vlib.go_build("c16")
    return vlib.run_go(b, stdin_lines=cases, env={"VERIF_SEED": str(ctx.seed)})


def judge_all(ctx, recs):
    shards = max(1, min(vlib.NCPU, len(recs) // 700))
    return vlib.tlc_judge(ctx, JUDGE, JCFG, recs, shards=shards)


def nontrivial(c):
    """the joining mechanism has work to do: some ring is cut into several ways or some way runs against its ring"""
    rings = {}
    for m in c["members"]:
        rings[m["nodes"][0] // 100] = rings.get(m["nodes"][0] // 100, 0) + 1
    return any(v > 1 for v in rings.values()) or any(m["dir"] == -1 for m in c["members"])


MC_SIM = "Multipolygon_mc_sim.cfg"


def model_check(ctx, cfgs):
    if not cfgs:
        return
    def one(cfg):
        if cfg == MC_SIM:    # larger shapes: random behaviours of generating machine + algorithms, same invariants
            return cfg, vlib.tlc(MOD, cfg, ctx.scratch, workers=2, timeout=2400,
                                 args=("-simulate", "num=%d" % (40 if ctx.quick() else 400), "-depth", "200", "-seed", str(ctx.seed)))
        live = "_live_" in cfg
        return cfg, vlib.tlc(MOD, cfg, ctx.scratch, workers=3 if live else 4, timeout=2400)
    cfgs = list(cfgs) + [MC_SIM]
    with cf.ThreadPoolExecutor(max_workers=len(cfgs)) as ex:
        res = list(ex.map(one, cfgs))
    for cfg, r in res:
        m = re.search(r"number of states generated: (\d+)", r.out) if cfg == MC_SIM else None
        if m:
            r.generated = int(m.group(1))     # simulation: states visited on random behaviours (not distinct states)
        ctx.states += r.distinct
        ctx.transitions += r.generated
        ctx.tlc_runs.append({"module": MOD, "cfg": cfg, "distinct": r.distinct, "generated": r.generated,
                             "wall_s": round(r.wall, 1), "rc": r.rc})
        if not r.ok():
            raise vlib.Infra("model check %s/%s did not pass (rc=%s, %s):\n%s" % (MOD, cfg, r.rc, r.violation, r.out[-5000:]))


def run(ctx):
    quick = ctx.quick()
    fams = FAM_QUICK if quick else FAM_THOROUGH
    # first TLC call creates the scratch copy of spec/ (the later ones run concurrently)
    vlib.tlc_model_check(ctx, MOD, "Multipolygon_space_a.cfg", workers=2, timeout=900)
    pool = cf.ThreadPoolExecutor(max_workers=2)
    skip_mc = bool(os.environ.get("C16_SKIP_MC"))      # development aid only (mutant runs): conformance part alone
    mc = pool.submit(model_check, ctx, [] if skip_mc else (MC_QUICK if quick else MC_THOROUGH))

    # ---- cases
    with cf.ThreadPoolExecutor(max_workers=6) as ex:
        docs = ex.submit(gen_docs, ctx)
        parts = list(ex.map(lambda f: gen_family(ctx, f), fams))
        parts += docs.result()
    parts.append(gen_sim(ctx, 300 if quick else 3000))
    cases, famstat = [], {}
    for name, total, cs in parts:
        famstat[name] = {"enumerated": total, "executed": len(cs)}
        cases += cs
    for r in ctx.tlc_runs:
        if r["module"] in (GEN, "MultipolygonDocs"):
            ctx.states += r["distinct"]
            ctx.transitions += r["generated"]
    vlib.log("C16: %d cases (%s)" % (len(cases), ", ".join("%s=%d" % (k, v["executed"]) for k, v in famstat.items())))

    # ---- real code
    recs = execute(ctx, cases)
    for c in cases:
        ctx.note_case(c, nontrivial=nontrivial(c))
    ctx.extra["convert_calls"] = sum(len(r["got"]["runs"]) + 1 for r in recs)
    ctx.extra["annotate_calls"] = len(recs)
    ctx.samples = [recs[0], recs[len(recs) // 2], recs[-1]]

    # ---- TLA+ judge: property clauses decide, mismatch with the Model's exact prediction alone is a divergence
    div_first = []

    def judge(rs, first=[True]):
        bad = judge_all(ctx, rs)
        if first[0]:
            first[0] = False
            div_first.extend([b for b in bad if not b[1]["clauses"]])
        return [b for b in bad if b[1]["clauses"]]

    vlib.judge_and_confirm(ctx, cases, recs, lambda cs: execute(ctx, cs), judge)
    if div_first:
        ctx.divergences += len(div_first)
        for i, why, _ in div_first[:5]:
            vlib.log("DIVERGENCE property=C16 case=%d: real result differs from the Model's prediction while every Judge clause holds: %s"
                     % (i, json.dumps(why["div"])))
            vlib.log("   case: " + json.dumps(cases[i], separators=(",", ":"))[:600])

    mc.result()
    pool.shutdown()
    # every record is one real execution whose observable outcome was compared with the Model's run by TLC
    ctx.traces = len(recs) - len(div_first)
    ctx.extra["families"] = famstat
    ctx.exhaustive = all(v["enumerated"] == v["executed"] for k, v in famstat.items() if k != "sim")
    ctx.rule = ("cases = completed member lists of the generating machine of Multipolygon.tla (every cut into 1..MaxPieces ways, "
                "every reversal subset, every member order / the stated interleavings) for the families in coverage.families, "
                "plus `sim` sampled by TLC -simulate from larger shapes, plus `doc-*`: documents of 2-3 relations sharing ways "
                "(MultipolygonDocs.tla: adjacent areas with a common border way, an island whose outer ring is the other relation's "
                "hole; every way direction, member order and relation order), one case per observed relation; each case is executed with both coordinate sources x orientation masks none / all, a partial mask (separate nodes), "
                "annotate.Relations and the conversion of the relation it annotated; distinct = distinct abstract "
                "cases; non-trivial = some ring cut into several ways or some way reversed")
    ctx.assumptions = [
        "geometry enters the specification through three facts the renderer guarantees: rings are convex and listed "
        "counter-clockwise, holes lie strictly inside their outer, outers are disjoint (polygons on circles, 6 magnitude "
        "profiles incl. one straddling lon=0/lat=0 and two with a vertex at exactly lon=0 / lat=0; plus the placements chosen by the case field place: tiny (rings 1-5 coordinate steps "
        "across at far anchors in all four lon/lat sign quadrants), concave (chevron outers and holes, second outer in the notch), "
        "near (sibling rings one 1e-7 step apart), grid: integer grid, hole vertices exactly level with non-extremal vertices of other outers to their "
        "east / west, shared longitudes in column arrangements - every multi-outer shape with holes runs under both); numeric robustness near degeneracy is not explored",
        "member ways are untagged, the relation carries type=multipolygon|boundary (+ name)",
        "'the result is the same' is read as: same polygons with the same rings as cyclic sequences with direction "
        "(start vertex of a ring and order of polygons / holes are representation)",
    ]


def replay(ctx, rp):
    ctx.seed = rp.get("seed", ctx.seed)
    recs = execute(ctx, [rp["case"]])
    bad = [b for b in vlib.tlc_judge(ctx, JUDGE, JCFG, recs, shards=1) if b[1]["clauses"]]
    if bad:
        print("VIOLATION property=C16 replay=(given)  #", bad)
        return 1
    print("replay: case passes")
    return 0
