"""C06 - truncated or damaged PBF input ends in an error after a correct prefix.
 MC   : PbfPipeline |= CompleteInv for damaged ("bad"), unexpected-type and truncated files, all interleavings (errors travel
        through the same queues as data), all header outcomes
 S->C : fault enumeration driven by the model: every byte offset of generated files is cut (the renderer reports the abstract
        class of each cut: k complete blocks, on a boundary or not, header intact or not) x decoder counts; every damage class at
        every block position; each scan in a child process (a panic in a library goroutine kills the process = outcome "crash")
 Judge: PbfPipeline!RunOK clauses "order", "complete", "err", "outcome"."""
import random
import vlib
from props import pbfcommon as P

LEVEL = "fault_enumeration"
PREF = {"order", "complete", "err", "outcome"}
D = lambda n: {"k": "data", "n": n}
BAD, TYP = {"k": "bad", "n": 0}, {"k": "type", "n": 0}


def run(ctx):
    q = ctx.quick()
    P.model_check(ctx, ["Pbf_nostop.cfg"] if q else ["Pbf_nostop.cfg", "Pbf_nostop_big.cfg"])
    ctx.tick("model_check")
    rng = random.Random(ctx.seed)
    bases = [{"blocks": [D(2), D(1), D(0), D(2)], "endkind": "eof", "hdr": "ok"},
             {"blocks": [D(1), D(2), D(1)], "endkind": "eof", "hdr": "none"}]
    if not q:
        bases += [{"blocks": [D(1), D(1), D(1), D(1), D(1), D(1)], "endkind": "eof", "hdr": "ok"},
                  {"blocks": [D(3), D(0), D(0), D(2)], "endkind": "eof", "hdr": "none"},
                  {"blocks": [D(2), D(2)], "endkind": "eof", "hdr": "ok"}]
    procs = [1, 3] if q else [1, 2, 3, 16]
    b = vlib.go_build("pbfpipe")
    cases = []
    for base in bases:
        for variant in ([0] if q else [0, 1]):
            ln = vlib.run_go(b, stdin_lines=[{"kind": "len", "cfg": dict(base, n=1), "variant": variant}])[0]["len"]
            for n in procs:
                for cut in range(ln + 1):
                    cases.append({"kind": "cut", "cfg": dict(base, n=n), "cut": cut, "variant": variant})
    ncut = len(cases)
    # damage classes at every block position (classes the mini writer knows: undecodable blob, unexpected block type,
    # unsupported required feature, damaged header); more classes in dmg cases below when the full writer is available
    for n in procs:
        for pos in range(4):
            for kind in (BAD, TYP):
                blocks = [D(1 + (i % 2)) for i in range(4)]
                blocks[pos] = kind
                for e in ("eof", "trunc"):
                    for h in ("ok", "none"):
                        cases.append({"kind": "cut", "cfg": {"n": n, "blocks": blocks, "endkind": e, "hdr": h}, "cut": 1 << 30, "variant": rng.randrange(100)})
        for h in ("feature", "trunc", "empty"):
            cases.append({"kind": "cut", "cfg": {"n": n, "blocks": [D(1), D(1)], "endkind": "eof", "hdr": h}, "cut": 1 << 30, "variant": rng.randrange(100)})
    ctx.tick("gen")
    recs = P.run_pipe(ctx, cases)
    # damage classes of the full writer (sizes, raw_size, zlib, encoding, block type, required feature, missing dense
    # columns, out-of-range string / column references, short columns), at every block position
    db = vlib.go_build("pbfdmg")
    cl = vlib.run_go(db, stdin_lines=[{"kind": "classes"}])[0]
    dmg = []
    nb = 3
    for n in procs:
        for cls in cl["classes"]:
            for pos in range(1, nb + 1):
                for variant in ([0, 1] if q and pos == 2 else [0] if q else [0, 1, 2, 3]):
                    blocks = [({"k": "bad", "n": 0} if b == pos else {"k": "data", "n": 4}) for b in range(1, nb + 1)]
                    dmg.append({"kind": "dmg", "class": cls, "pos": pos, "nb": nb, "n": n, "variant": variant,
                                "cfg": {"n": n, "blocks": blocks, "endkind": "eof", "hdr": "ok"}})
        for cls in cl["header"]:
            for variant in (0, 1):
                dmg.append({"kind": "dmg", "class": cls, "pos": 0, "nb": 2, "n": n, "variant": variant,
                            "cfg": {"n": n, "blocks": [{"k": "data", "n": 4}] * 2, "endkind": "eof", "hdr": "feature"}})
    drecs = P.run_pipe(ctx, dmg, binname="pbfdmg")
    for r in drecs:
        r.setdefault("trace", []), r.setdefault("sched", []), r.setdefault("diverged", "")
    ctx.extra["damage_classes"] = len(cl["classes"]) + len(cl["header"])
    ctx.extra["damage_cases"] = len(dmg)
    cases, recs = cases + dmg, recs + drecs
    ctx.tick("runs")
    classes = set()
    for c, r in zip(cases, recs):
        rc = r["run"]["cfg"]
        cls = (len(rc["blocks"]), rc["endkind"], rc["hdr"], c["cfg"]["n"], tuple(bk["k"] for bk in rc["blocks"]))
        classes.add(cls)
        ctx.note_case([c["cfg"], c.get("cut"), c.get("class"), c.get("pos"), c["variant"]], nontrivial=(rc["endkind"] != "eof" or rc["hdr"] not in ("ok", "none") or any(bk["k"] != "data" for bk in rc["blocks"])))
    ctx.extra["cut_cases"] = ncut
    ctx.extra["abstract_fault_classes"] = len(classes)
    ctx.samples = [{"case": recs[ncut // 3]["case"], "run": recs[ncut // 3]["run"]}]
    bad = P.judge_runs(ctx, recs, PREF)
    P.confirm(ctx, cases, recs, bad, PREF, lambda cs: [x for c in cs for x in P.run_pipe(ctx, [c], shards=1, binname=("pbfdmg" if c["kind"] == "dmg" else "pbfpipe"))])
    ctx.tick("judge")
    ctx.exhaustive = False
    ctx.rule = ("evaluations = scans of cut / damaged files in child processes; every byte offset of each generated file is cut; "
                "distinct = distinct (file, cut offset, layout variant, decoder count); non-trivial = the input is truncated or damaged")
    ctx.assumptions = ["damage the format does not let a reader detect (a flipped bit inside a varint that still parses) is outside the property",
                       "only nil / non-nil of Err() is judged for truncated and damaged input, as the property states"]


def replay(ctx, rp):
    return P.replay_one(ctx, rp, PREF)
