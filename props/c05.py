"""C05 - osmjson shape and round trip up to tag order, under the default and a user-installed codec.

OsmDocCases!JsonCases = round-trip values (every element kind under the pairwise covering family of field subsets, OSM and
Change containers incl. bounds, unique tag keys) and independently written osmjson documents (JsonDoc: version absent /
number / string, header keys, elements of every kind in any order), enumerated by TLC.  The harness builds values by
reflection -> json.Marshal -> generic JSON parse -> json.Unmarshal, and prints the independent documents with a generic
JSON printer (member order, white space, escapes, unknown keys).  Every case runs in three child processes:
  std   nothing installed;  cust  osm.CustomJSONMarshaler/Unmarshaler installed, top-level call by encoding/json;
  ctop  the same with the top-level call made by the installed codec.
OsmDocJudge.tla decides: shape (elements array of typed objects, tags object, way nodes id array, members never null,
and it is the shape of the value), round trip up to tag order minus way-node annotations, absent top-level fields stay
empty, and the three configurations agree (parsed trees, never bytes)."""
import concurrent.futures as cf
import json, os
import vlib
from props import c03 as common

CONFIGS = [("std", ["-codec", "std"]), ("cust", ["-codec", "custom"]), ("ctop", ["-codec", "custom", "-top", "codec"])]


def execute(ctx, binp, cases, seed=None):
    sd = str(seed if seed is not None else ctx.seed)
    with cf.ThreadPoolExecutor(max_workers=3) as ex:
        outs = list(ex.map(lambda a: vlib.run_go(binp, ["-mode", "c05", "-seed", sd] + a[1], stdin_lines=cases), CONFIGS))
    recs = []
    for i, c in enumerate(cases):
        cs = {k: v for k, v in c.items() if k not in ("jtree", "pre", "_seed")}
        recs.append({"case": cs, "got": {CONFIGS[k][0]: outs[k][i]["got"] for k in range(len(CONFIGS))}})
    return recs


def run(ctx):
    common.prepare(ctx)
    common.use_local_known(ctx)
    binp = common.build()
    q = ctx.quick()
    ex0 = cf.ThreadPoolExecutor(max_workers=1)
    f_mc = ex0.submit(common.model_check, ctx, "OsmDocCases", "OsmDocCases_json_quick.cfg" if q else "OsmDocCases_json_thorough.cfg")
    cases = common.gen(ctx, "json")
    seeds = [ctx.seed] if q else [ctx.seed + k for k in range(9)]
    allc, allr = [], []
    for sd in seeds:
        allr += execute(ctx, binp, cases, sd)
        allc += [dict(c, _seed=sd) for c in cases]
    for c in allc:
        key = {k: v for k, v in c.items() if k != "jtree"}   # (pre stays in the key: it distinguishes the cases)
        ctx.note_case(key, nontrivial=(c["kind"] == "doc" and len(c["items"]) > 0) or (c["kind"] == "rt" and c["v"] not in ([], {})))
    ctx.evaluations = len(allc) * len(CONFIGS)
    ctx.samples = [allr[0]["case"], allr[-1]["case"]]

    def reexec(cs):
        out = []
        for c in cs:
            out += execute(ctx, binp, [{k: v for k, v in c.items() if k != "_seed"}], c["_seed"])
        return out
    vlib.judge_and_confirm(ctx, allc, allr, reexec, lambda rs: common.judge(ctx, "c05", rs), replay_extra={"mode": "json"})
    f_mc.result()
    ex0.shutdown()
    ctx.exhaustive = True
    ctx.extra["cases"] = len(cases)
    ctx.extra["configurations"] = [c[0] for c in CONFIGS]
    ctx.extra["seeds"] = seeds
    ctx.rule = ("cases = OsmDocCases!JsonCases enumerated completely by TLC (%d: round-trip values of 9 root types under the pairwise "
                "covering family + independently written osmjson documents x version absent/number/string x header subsets), each "
                "executed under %d codec configurations and %d seed(s); evaluations = cases x seeds x configurations; distinct = "
                "distinct (case, seed); non-trivial = non-empty value / document with at least one element"
                % (len(cases), len(CONFIGS), len(seeds)))
    ctx.assumptions = [
        "tag keys are unique within an element (tags are a JSON object)",
        "the installed codec is json-iterator v1.1.11 (standard-library compatible configuration) as unmarshaler and an indenting, "
        "non-HTML-escaping encoding/json encoder as marshaler: json-iterator cannot marshal maps in this sandbox (reflect2 v1.0.1 "
        "faults under go1.23), see notes/C05.md",
        "changeset / note / user elements and the annotation keys (committed, updates, bounds, ...) follow the library's documented "
        "JSON names - osmjson proper only defines node / way / relation; key names other than those the property lists are not judged",
        "Changeset.Change is left empty; Diff has no JSON form"]


def replay(ctx, rp):
    common.prepare(ctx)
    common.use_local_known(ctx)
    binp = common.build()
    c = {k: v for k, v in rp["case"].items() if k != "_seed"}
    recs = execute(ctx, binp, [c], rp["case"].get("_seed", rp.get("seed", 1)))
    bad = [b for b in common.judge(ctx, "c05", recs, shards=1) if not ctx.known_match(b[2])]
    if bad:
        print("VIOLATION property=C05 replay=(given)  #", bad)
        return 1
    print("replay: case passes")
    return 0
