"""C07 - Close and cancellation stop PBF (and XML) scans promptly, cleanly and race-free.
 MC   : PbfPipeline with Close / external cancel at every point (Pbf_stop*.cfg): ReadAheadInv, ErrPrecedenceInv,
        LaterScansFalse, liveness CloseReturns / AllExit / ScanEnds under FairSpec; the three pinned deviations
        (reader loop, terminal error in cData, clean end under cancellation) are each shown to violate a Judge (non-vacuity);
        Model |= RunOK on its own histories (simulation)
 C->S : call histories Header? Scan^k (Close|cancel) (Scan|Err|Close)^<=3 from PbfGen!StopScripts, run under the deterministic
        scheduler with random interleavings and an external cancel injected at a random step; traces validated by PbfTrace
 race : the same histories under real concurrency + jitter with the cancel issued by a second goroutine, under the race
        detector; goroutine leak check after Close
 Judge: PbfPipeline!RunOK clauses "stop", "err", "readahead", "outcome"."""
import json
import random
import vlib
from props import pbfcommon as P

PREF = {"stop", "err", "readahead", "outcome"}


def run(ctx):
    q = ctx.quick()
    import concurrent.futures as cf
    ctx.extra["deviations_shown_to_violate"] = []

    def design_level():
        # runs concurrently with the real-code stages below; a failure here is a spec problem (exit 2)
        def race_models():
            # access-granularity model of dec.cData / the terminal error: no state with two conflicting plain accesses enabled
            r = vlib.tlc("PbfRace", "PbfRace_fixed.cfg", ctx.scratch, workers=1, timeout=300)
            if r.rc != 0:
                raise vlib.Infra("PbfRace (fixed design) fails:\n" + r.out[-3000:])
            ctx.states += r.distinct
            ctx.transitions += r.generated
            r = vlib.tlc("PbfRace", "PbfRace_pinned.cfg", ctx.scratch, workers=1, timeout=300)
            if r.rc != 12:
                raise vlib.Infra("PbfRace (pinned design) was expected to violate NoConcurrentConflict")
            ctx.extra["deviations_shown_to_violate"].append({"cfg": "PbfRace_pinned.cfg", "invariant": "NoConcurrentConflict"})

        def hist_judge():
            # the history Judge accepts every behaviour of the Model (guards against an over-strict Judge)
            r = vlib.tlc(P.MC, "Pbf_hist_big.cfg", ctx.scratch, workers=4, timeout=1800,
                         args=["-simulate", "num=%d" % (12 if q else 120), "-depth", "100", "-seed", str(ctx.seed)])
            if r.rc != 0:
                raise vlib.Infra("Model does not satisfy its own history Judge:\n" + r.out[-4000:])
            ctx.extra["model_histories_judged"] = 4 * (12 if q else 120)
        with cf.ThreadPoolExecutor(max_workers=8) as ex:
            fs = [ex.submit(P.model_check, ctx, [c]) for c in (["Pbf_stop_q.cfg"] if q else ["Pbf_stop.cfg", "Pbf_stop_both.cfg", "Pbf_stop_big.cfg"])]
            fs += [ex.submit(P.model_must_fail, ctx, "Pbf_pinned_loop.cfg", "ReadAheadInv"),
                   ex.submit(P.model_must_fail, ctx, "Pbf_pinned_err.cfg", "ErrPrecedenceInv"),
                   ex.submit(P.model_must_fail, ctx, "Pbf_pinned_eof.cfg", "ErrPrecedenceInv"),
                   ex.submit(race_models), ex.submit(hist_judge)]
            for f in fs:
                f.result()
    from props import c03 as X
    X.prepare(ctx)          # one scratch copy of spec/ before threads start
    bg = cf.ThreadPoolExecutor(max_workers=1)
    design = bg.submit(design_level)
    configs, stop, plain = P.gen_walk_space(ctx)
    rng = random.Random(ctx.seed)
    nw = 300 if q else 15000
    cases = []
    for i in range(nw):
        ext = rng.random() < 0.5
        cases.append({"kind": "walk", "cfg": rng.choice(configs), "script": rng.choice(plain if ext and rng.random() < 0.5 else stop),
                      "seed": rng.randrange(1 << 30), "cancelStep": (rng.randrange(0, 90) if ext else -1), "variant": rng.randrange(1000),
                      "weights": rng.choice(P.WEIGHTS)})
    recs = P.run_pipe(ctx, cases)
    ctx.tick("scheduler_runs")
    for c, r in zip(cases, recs):
        ctx.note_case([c["cfg"], c["script"], r["sched"]], nontrivial=any(h["op"] in ("close", "cancel") for h in r["run"]["H"]))
    ctx.samples = [{"case": recs[0]["case"], "run": recs[0]["run"]}]
    div = P.validate_traces(ctx, recs)
    P.binding_selftest(ctx, recs, div)
    ctx.tick("trace_validation")
    bad = P.judge_runs(ctx, recs, PREF)
    P.confirm(ctx, cases, recs, bad, PREF, lambda cs: P.run_pipe(ctx, cs, shards=1))
    ctx.tick("judge")
    # race clause + leak check: real concurrency, cancel from a second goroutine
    nj = 60 if q else 1500
    jit = []
    for i in range(nj):
        ext = rng.random() < 0.6
        jit.append({"kind": "jitter", "cfg": rng.choice(configs), "script": rng.choice(plain) if ext else rng.choice(stop),
                    "seed": rng.randrange(1 << 30), "cancelStep": (rng.randrange(0, 60) if ext else -1), "variant": rng.randrange(1000), "slow": P.slow_choice(rng)})
    # systematic family: a stop before / right after the pipeline starts, on files much longer than the pipeline buffers, so that
    # goroutines started for a closed scanner, or a stop that did not reach them, cannot drain the input and exit unnoticed
    longs = sorted(ctx.jitter_configs, key=lambda c: (len(c["blocks"]), c["n"]))
    for k, cfgl in enumerate([c for c in longs if c["n"] in (2, 11)] if q else longs):
        for pre in ([], ["scan"], ["scan", "scan"]):
            for stopop in ("close", "cancel"):
                for h in ([], ["header"]):
                    for tail in (["scan", "err"], ["err", "scan", "close"]) if not q else (["scan", "err"],):
                        jit.append({"kind": "jitter", "cfg": cfgl, "script": h + pre + [stopop] + tail, "seed": rng.randrange(1 << 30),
                                    "cancelStep": -1, "variant": rng.randrange(1000), "slow": P.slow_choice(rng)})
    for i, c in enumerate(jit[:nj]):
        if i % 2 and c["cancelStep"] < 0:
            c["cfg"] = rng.choice(ctx.jitter_configs)   # stop scripts on long files as well
    jrecs = P.run_pipe(ctx, jit, race=True, shards=8)
    for c in jit:
        ctx.note_case([c["cfg"], c["script"], c["seed"]], nontrivial=True)
    jbad = P.judge_runs(ctx, jrecs, PREF)
    P.confirm(ctx, jit, jrecs, jbad, PREF, lambda cs: P.run_pipe(ctx, cs, race=True, shards=1))
    ctx.extra["race_detector_runs"] = len(jit)
    ctx.tick("race_runs")
    witnesses(ctx)
    xml_half(ctx)
    design.result()
    bg.shutdown()
    ctx.tick("design_level_done")
    ctx.rule = ("evaluations = runs of the real scanner with a stop (Close / cancel by the scanning goroutine / cancel by another goroutine) "
                "at a scripted or random point; distinct = distinct (configuration, script, realised schedule); non-trivial = the history contains a stop")
    ctx.assumptions = ["in-flight Scan during a concurrent cancel may return true or false (the property constrains later Scans)",
                       "'without consuming the rest of the input' is judged as: fewer blocks read after the stop than were left (when >= 3 were left); "
                       "the Model's stronger bound (<= 1 read) is checked on the Model and through trace validation",
                       "jitter-mode race runs are judged by RunOK as well; a race report by the Go race detector is outcome 'race'"]


def witnesses(ctx):
    """Deviation witnesses (spec/PbfWitness.tla): violating behaviours of the Model *with* a deviation, driven through the real
    goroutines.  On a tree that follows the intended design the same schedule ends with Err() = canceled (RunOK holds)."""
    q = ctx.quick()
    wit = vlib.tlc_gen(ctx, "PbfWitness", "PbfWitness.cfg", workers=4, count_states=True)
    wit.sort(key=lambda c: (len(c["wit"]), json.dumps(c, sort_keys=True)))
    if q:
        wit = wit[:40] + wit[40::max(1, len(wit) // 40)][:40]
    for c in wit:
        c["script"], c["attempts"] = ["scanall", "err"], 60
    recs = P.run_pipe(ctx, wit, shards=8)
    for c in wit:
        ctx.note_case(["witness", c["cfg"], c["wit"]], nontrivial=True)
    ctx.extra["witnesses"] = len(wit)
    ctx.extra["witnesses_followed_to_the_end"] = sum(1 for r in recs if r.get("followed"))
    bad = P.judge_runs(ctx, recs, PREF)
    P.confirm(ctx, wit, recs, bad, PREF, lambda cs: P.run_pipe(ctx, cs, shards=1))
    ctx.tick("witnesses")


XML_CLAUSES = {"later-scans-false", "err-precedence", "false-without-reason", "read-ahead"}


def xml_half(ctx):
    """The osmxml scanner (sequential, no goroutines): XmlScan.tla model-checked over all call histories with Close / cancel
    at every loop point; TLC-generated histories [CancelAt j] Scan^k (Close|Cancel)? (Scan|Err|Close)^<=n run on the real
    osmxml.Scanner; the recorded histories judged by XmlScanJudge (C07 clauses) and replayed against the Model's actions."""
    from props import c03 as X
    q = ctx.quick()
    X.prepare(ctx)
    binp = X.build()
    X.model_check(ctx, "XmlScanMC", "XmlScanMC_quick.cfg" if q else "XmlScanMC_thorough.cfg", workers=2)
    scans = vlib.tlc_gen(ctx, "XmlScanGen", "XmlScanGen_quick.cfg" if q else "XmlScanGen_thorough.cfg", count_states=False)
    srecs = X.exec_scan(ctx, binp, scans)
    for r in srecs:
        ctx.note_case({"xml": True, "toks": r["case"]["toks"], "ops": r["case"]["ops"]},
                      nontrivial=any(o in ("Close", "Cancel") or str(o).startswith("CancelAt") for o in r["case"]["ops"]))

    def scan_judge(rs):
        bad = vlib.tlc_judge(ctx, "XmlScanJudge", "XmlScanJudge.cfg", rs, shards=max(1, min(6, len(rs) // 600)))
        return [(i, sorted(set(why) & XML_CLAUSES), kf) for i, why, kf in bad if set(why) & XML_CLAUSES]
    skeyed = [dict(toks=s["toks"], pieces=s["pieces"], ops=s["ops"], idfield=s["idfield"]) for s in scans]
    vlib.judge_and_confirm(ctx, skeyed, srecs, lambda cs: X.exec_scan(ctx, binp, cs), scan_judge, replay_extra={"mode": "xmlscan"})
    rejected, skipped = X.trace_validate(ctx, srecs, 4 if q else 8)
    ctx.traces += len(srecs) - len(rejected) - len(skipped)
    for i in rejected[:5]:
        ctx.divergences += 1
        vlib.log("DIVERGENCE property=C07 XmlScan rejects the recorded osmxml scanner run %d: ops=%s" % (i, srecs[i]["case"]["ops"]))
    ctx.extra["xml_scanner_histories"] = len(srecs)
    ctx.tick("xml_scanner")


def replay(ctx, rp):
    if rp.get("mode") == "xmlscan":
        from props import c03 as X
        X.prepare(ctx)
        recs = X.exec_scan(ctx, X.build(), [rp["case"]])
        bad = [b for b in vlib.tlc_judge(ctx, "XmlScanJudge", "XmlScanJudge.cfg", recs, shards=1) if set(b[1]) & XML_CLAUSES]
        print("VIOLATION property=C07 replay=(given)  # %s" % bad[0][1] if bad else "replay: case passes")
        return 1 if bad else 0
    return P.replay_one(ctx, rp, PREF)
