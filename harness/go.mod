module verifharness

go 1.21

require (
	github.com/json-iterator/go v1.1.11
	github.com/paulmach/orb v0.1.3
	github.com/paulmach/osm v0.0.0
	golang.org/x/time v0.0.0-20190921001708-c4c64cad1fd0
	google.golang.org/protobuf v1.27.1
)

replace github.com/paulmach/osm => /repo
