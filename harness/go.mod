module verifharness

go 1.21

require (
	github.com/json-iterator/go v1.1.11
	github.com/modern-go/concurrent v0.0.0-20180228061459-e0a39a4cb421
	github.com/modern-go/reflect2 v1.0.1
	github.com/paulmach/orb v0.1.3
	github.com/paulmach/osm v0.0.0
	golang.org/x/time v0.0.0-20190921001708-c4c64cad1fd0
	google.golang.org/protobuf v1.27.1
)

require (
	github.com/datadog/czlib v0.0.0-20160811164712-4bc9a24e37f2 // indirect
	github.com/paulmach/protoscan v0.2.1 // indirect
)

replace github.com/paulmach/osm => /repo
