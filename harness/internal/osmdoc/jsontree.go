package osmdoc

import (
	"bytes"
	"encoding/json"
	"fmt"
	"io"
	"math/rand"
	"strconv"
	"strings"
	"time"
)

// JNode is a generic JSON tree:
//
//	{"j":"obj","kv":[[keyleaf, node],...]}  {"j":"arr","e":[node,...]}
//	{"j":"str"|"num"|"bool","v":leaf}       {"j":"null"}
//
// Keys are leaves too ("=name" literal, "sN" pool string).
type JNode struct {
	J  string   `json:"j"`
	KV []JPair  `json:"kv,omitempty"`
	E  []*JNode `json:"e,omitempty"`
	V  string   `json:"v,omitempty"`
}

type JPair struct {
	K string
	V *JNode
}

func (p *JPair) UnmarshalJSON(b []byte) error {
	var raw []json.RawMessage
	if err := json.Unmarshal(b, &raw); err != nil || len(raw) != 2 {
		return fmt.Errorf("pair: %v %s", err, b)
	}
	if err := json.Unmarshal(raw[0], &p.K); err != nil {
		return err
	}
	p.V = &JNode{}
	return json.Unmarshal(raw[1], p.V)
}

func (p JPair) MarshalJSON() ([]byte, error) {
	return json.Marshal([]interface{}{p.K, p.V})
}

// MarshalJSON keeps kv / e present (as []) for objects / arrays so that TLC sees uniform records.
func (n *JNode) MarshalJSON() ([]byte, error) {
	switch n.J {
	case "obj":
		kv := n.KV
		if kv == nil {
			kv = []JPair{}
		}
		return json.Marshal(map[string]interface{}{"j": "obj", "kv": kv})
	case "arr":
		e := n.E
		if e == nil {
			e = []*JNode{}
		}
		return json.Marshal(map[string]interface{}{"j": "arr", "e": e})
	case "null":
		return []byte(`{"j":"null"}`), nil
	}
	return json.Marshal(map[string]interface{}{"j": n.J, "v": n.V})
}

// JLayout: equivalent spellings of a JSON text.
type JLayout struct {
	R      *rand.Rand
	UnkKey string // a key no schema knows ("" = never insert)
}

func (l *JLayout) ws(b *bytes.Buffer) {
	switch l.R.Intn(6) {
	case 0:
		b.WriteString(" ")
	case 1:
		b.WriteString("\n  ")
	case 2:
		b.WriteString("\t")
	}
}

func (l *JLayout) str(b *bytes.Buffer, s string) {
	b.WriteByte('"')
	for _, r := range s {
		switch {
		case r == '"':
			b.WriteString(`\"`)
		case r == '\\':
			b.WriteString(`\\`)
		case r == '\n':
			b.WriteString(`\n`)
		case r == '\t':
			b.WriteString(`\t`)
		case r == '\r':
			b.WriteString(`\r`)
		case r < 0x20:
			fmt.Fprintf(b, `\u%04x`, r)
		case r == '/' && l.R.Intn(3) == 0:
			b.WriteString(`\/`)
		case (r > 127 || r == '<' || r == '&') && l.R.Intn(2) == 0:
			if r > 0xFFFF { // surrogate pair
				r2 := r - 0x10000
				fmt.Fprintf(b, `\u%04x\u%04x`, 0xD800+(r2>>10), 0xDC00+(r2&0x3FF))
			} else {
				fmt.Fprintf(b, `\u%04x`, r)
			}
		default:
			b.WriteRune(r)
		}
	}
	b.WriteByte('"')
}

func (l *JLayout) junk(b *bytes.Buffer) {
	switch l.R.Intn(5) {
	case 0:
		b.WriteString(`{"a":[1,2,{"b":null}],"c":"d"}`)
	case 1:
		b.WriteString(`[1,"x",[],{}]`)
	case 2:
		b.WriteString(`null`)
	case 3:
		b.WriteString(`"text"`)
	case 4:
		b.WriteString(`-1.5e3`)
	}
}

// Print renders the tree; object members in a seeded order, unknown members inserted.
func (l *JLayout) Print(b *bytes.Buffer, syms *Symbols, n *JNode) error {
	switch n.J {
	case "obj", "map": // "map": every member is data, no unknown members may be added
		idx := l.R.Perm(len(n.KV))
		b.WriteByte('{')
		first := true
		sep := func() {
			if !first {
				b.WriteByte(',')
			}
			first = false
			l.ws(b)
		}
		unk := false
		for _, i := range idx {
			if n.J == "obj" && l.UnkKey != "" && !unk && l.R.Float64() < 0.1 {
				unk = true
				sep()
				l.str(b, l.UnkKey)
				b.WriteByte(':')
				l.junk(b)
			}
			sep()
			k, err := syms.Str(n.KV[i].K)
			if err != nil {
				return err
			}
			l.str(b, k)
			l.ws(b)
			b.WriteByte(':')
			l.ws(b)
			if err := l.Print(b, syms, n.KV[i].V); err != nil {
				return fmt.Errorf("%s: %v", k, err)
			}
		}
		l.ws(b)
		b.WriteByte('}')
	case "arr":
		b.WriteByte('[')
		for i, e := range n.E {
			if i > 0 {
				b.WriteByte(',')
			}
			l.ws(b)
			if err := l.Print(b, syms, e); err != nil {
				return err
			}
		}
		l.ws(b)
		b.WriteByte(']')
	case "str":
		var s string
		if strings.HasPrefix(n.V, "t") {
			t, err := syms.Time(n.V)
			if err != nil {
				return err
			}
			s = timeText(t, l.R.Intn(12))
		} else {
			var err error
			if s, err = syms.Lexical(n.V, 0); err != nil {
				return err
			}
		}
		l.str(b, s)
	case "num":
		if strings.HasPrefix(n.V, "=") { // a number given by its spelling
			b.WriteString(n.V[1:])
			return nil
		}
		s, err := syms.Lexical(n.V, l.R.Intn(4))
		if err != nil {
			return err
		}
		b.WriteString(s)
	case "bool":
		v, err := Bool(n.V)
		if err != nil {
			return err
		}
		b.WriteString(strconv.FormatBool(v))
	case "null":
		b.WriteString("null")
	default:
		return fmt.Errorf("unknown json node kind %q", n.J)
	}
	return nil
}

// ParseJSON reads any JSON text into a generic tree.  Strings become pool symbols, pool times or
// literals; integers become integer leaves; other numbers float leaves ("?" if not in the pool).
func ParseJSON(syms *Symbols, data []byte) (*JNode, error) {
	d := json.NewDecoder(bytes.NewReader(data))
	d.UseNumber()
	n, err := parseJ(syms, d)
	if err != nil {
		return nil, err
	}
	if _, err := d.Token(); err != io.EOF {
		return nil, fmt.Errorf("trailing data after JSON value")
	}
	return n, nil
}

func (s *Symbols) jsonStrLeaf(v string) string {
	if _, ok := s.strIdx[v]; ok {
		return s.StrLeaf(v)
	}
	if t, err := time.Parse(time.RFC3339Nano, v); err == nil {
		if l := s.TimeLeaf(t); l != "?" {
			return l
		}
	}
	return "=" + v
}

func parseJ(syms *Symbols, d *json.Decoder) (*JNode, error) {
	tok, err := d.Token()
	if err != nil {
		return nil, err
	}
	switch t := tok.(type) {
	case json.Delim:
		switch t {
		case '{':
			n := &JNode{J: "obj"}
			for d.More() {
				kt, err := d.Token()
				if err != nil {
					return nil, err
				}
				v, err := parseJ(syms, d)
				if err != nil {
					return nil, err
				}
				n.KV = append(n.KV, JPair{K: syms.StrLeaf(kt.(string)), V: v})
			}
			_, err := d.Token()
			return n, err
		case '[':
			n := &JNode{J: "arr"}
			for d.More() {
				v, err := parseJ(syms, d)
				if err != nil {
					return nil, err
				}
				n.E = append(n.E, v)
			}
			_, err := d.Token()
			return n, err
		}
		return nil, fmt.Errorf("unexpected delimiter %v", t)
	case string:
		return &JNode{J: "str", V: syms.jsonStrLeaf(t)}, nil
	case json.Number:
		if i, err := strconv.ParseInt(string(t), 10, 64); err == nil {
			return &JNode{J: "num", V: syms.IntLeaf(i)}, nil
		}
		f, err := t.Float64()
		if err != nil {
			return &JNode{J: "num", V: "?"}, nil
		}
		return &JNode{J: "num", V: syms.FloatLeaf(f)}, nil
	case bool:
		return &JNode{J: "bool", V: BoolLeaf(t)}, nil
	case nil:
		return &JNode{J: "null"}, nil
	}
	return nil, fmt.Errorf("unexpected token %v", tok)
}
