package osmdoc

import (
	"fmt"
	"reflect"
	"strconv"
	"time"
)

var timeType = reflect.TypeOf(time.Time{})

// timeLike: time.Time itself, or a struct whose only field is an embedded time.Time.
func timeLike(t reflect.Type) bool {
	if t == timeType {
		return true
	}
	return t.Kind() == reflect.Struct && t.NumField() == 1 && t.Field(0).Anonymous && t.Field(0).Type == timeType
}

// skipField: fields that carry an XML element name rather than data.
func skipField(f reflect.StructField) bool {
	return f.Name == "XMLName" || f.PkgPath != ""
}

// Build sets dst (addressable) from the abstract value a:
// leaf string -> scalar, []interface{} -> slice or pointer (0/1 elements), map -> struct by Go field name.
// Fields that are not mentioned keep their zero value.
func (s *Symbols) Build(dst reflect.Value, a interface{}) error {
	t := dst.Type()
	switch {
	case timeLike(t):
		leaf, ok := a.(string)
		if !ok {
			return fmt.Errorf("time field wants a leaf, got %T", a)
		}
		tm, err := s.Time(leaf)
		if err != nil {
			return err
		}
		if t == timeType {
			dst.Set(reflect.ValueOf(tm))
		} else {
			dst.Field(0).Set(reflect.ValueOf(tm))
		}
		return nil
	}
	switch t.Kind() {
	case reflect.Ptr:
		l, ok := a.([]interface{})
		if !ok || len(l) > 1 {
			return fmt.Errorf("pointer field wants a 0/1 list, got %v", a)
		}
		if len(l) == 0 {
			dst.Set(reflect.Zero(t))
			return nil
		}
		p := reflect.New(t.Elem())
		if err := s.Build(p.Elem(), l[0]); err != nil {
			return err
		}
		dst.Set(p)
		return nil
	case reflect.Slice:
		l, ok := a.([]interface{})
		if !ok {
			return fmt.Errorf("slice field wants a list, got %T", a)
		}
		if len(l) == 0 {
			dst.Set(reflect.Zero(t))
			return nil
		}
		sl := reflect.MakeSlice(t, len(l), len(l))
		for i := range l {
			e := sl.Index(i)
			if e.Kind() == reflect.Ptr { // a list of pointers is a list of the values
				e.Set(reflect.New(t.Elem().Elem()))
				e = e.Elem()
			}
			if err := s.Build(e, l[i]); err != nil {
				return err
			}
		}
		dst.Set(sl)
		return nil
	case reflect.Struct:
		if l, ok := a.([]interface{}); ok && len(l) == 0 { // the record without fields
			return nil
		}
		m, ok := a.(map[string]interface{})
		if !ok {
			return fmt.Errorf("struct %s wants a record, got %T", t, a)
		}
		for k, v := range m {
			f, ok := t.FieldByName(k)
			if !ok || skipField(f) {
				return fmt.Errorf("struct %s has no field %q", t, k)
			}
			if err := s.Build(dst.FieldByIndex(f.Index), v); err != nil {
				return fmt.Errorf("%s.%s: %v", t.Name(), k, err)
			}
		}
		return nil
	}
	leaf, ok := a.(string)
	if !ok {
		return fmt.Errorf("scalar %s wants a leaf, got %T", t, a)
	}
	switch t.Kind() {
	case reflect.String:
		v, err := s.Str(leaf)
		if err != nil {
			return err
		}
		dst.SetString(v)
	case reflect.Int, reflect.Int8, reflect.Int16, reflect.Int32, reflect.Int64:
		v, err := s.Int(leaf)
		if err != nil {
			return err
		}
		if dst.OverflowInt(v) {
			return fmt.Errorf("%d overflows %s", v, t)
		}
		dst.SetInt(v)
	case reflect.Float32, reflect.Float64:
		v, err := s.Float(leaf)
		if err != nil {
			return err
		}
		dst.SetFloat(v)
	case reflect.Bool:
		v, err := Bool(leaf)
		if err != nil {
			return err
		}
		dst.SetBool(v)
	default:
		return fmt.Errorf("unsupported kind %s", t.Kind())
	}
	return nil
}

// Read turns a Go value into the abstract generic value (every field, nil == empty).
func (s *Symbols) Read(v reflect.Value) interface{} {
	t := v.Type()
	if timeLike(t) {
		if t == timeType {
			return s.TimeLeaf(v.Interface().(time.Time))
		}
		return s.TimeLeaf(v.Field(0).Interface().(time.Time))
	}
	switch t.Kind() {
	case reflect.Ptr:
		if v.IsNil() {
			return []interface{}{}
		}
		return []interface{}{s.Read(v.Elem())}
	case reflect.Interface:
		if v.IsNil() {
			return []interface{}{}
		}
		return s.Read(v.Elem())
	case reflect.Slice:
		out := make([]interface{}, 0, v.Len())
		for i := 0; i < v.Len(); i++ {
			e := v.Index(i)
			if e.Kind() == reflect.Ptr && !e.IsNil() { // a list of pointers is a list of the values
				e = e.Elem()
			}
			out = append(out, s.Read(e))
		}
		return out
	case reflect.Struct:
		m := map[string]interface{}{}
		for i := 0; i < t.NumField(); i++ {
			if skipField(t.Field(i)) {
				continue
			}
			m[t.Field(i).Name] = s.Read(v.Field(i))
		}
		return m
	case reflect.String:
		return s.StrLeaf(v.String())
	case reflect.Int8, reflect.Int16:
		// small integer kinds only ever hold literals (the symbol table's magnitudes do not fit)
		if v.Int() == 0 {
			return "i0"
		}
		return "#" + strconv.FormatInt(v.Int(), 10)
	case reflect.Int, reflect.Int32, reflect.Int64:
		return s.IntLeaf(v.Int())
	case reflect.Float32, reflect.Float64:
		return s.FloatLeaf(v.Float())
	case reflect.Bool:
		return BoolLeaf(v.Bool())
	}
	return "?"
}
