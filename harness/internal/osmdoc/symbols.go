// Package osmdoc: generic plumbing for the OsmDoc / XmlScan checks (C03, C04, C05).
//
// It knows nothing about the OSM formats: no element, attribute or JSON key name
// occurs here.  It provides
//   - the symbol tables (abstract leaf <-> concrete Go value / lexical form),
//   - Build / Read: abstract generic values <-> Go values, by reflection over Go
//     field names only,
//   - a generic XML tree printer (with seeded layout variants) and parser,
//   - a generic JSON tree printer (with seeded layout variants) and parser.
//
// Abstract leaves (all strings):
//
//	"s0" empty string, "sN" N-th pool string (s1..s6 XML-representable, s7..s11 JSON-only), "=text" the literal text
//	"i0" 0, "iN" N-th integer of the seed's magnitude profile, "#n" the literal integer n
//	"f0" 0.0, "fN" N-th pool float        "b0" / "b1" false / true
//	"t0" zero time, "tN" N-th pool time   ("D:tN" in XML trees: the same instant in the notes date layout)
//	"?" a concrete value that is not in the image of the tables
package osmdoc

import (
	"fmt"
	"math/rand"
	"strconv"
	"strings"
	"time"
)

// Symbols is the seed-dependent symbol table.
type Symbols struct {
	strs   []string
	ints   []int64
	floats []float64
	times  []time.Time
	strIdx map[string]int
	intIdx map[int64]int
}

var basePool = []string{
	"alice",
	"a<b>&\"c'd",
	"Zoë 東京 \U0001F5FA",
	"  two  spaces ",
	"line1\nline2\ttab",
	"x&amp;y ]]> <!-- c --> &#65;",
	"éß中",
	"<tag k='v'/>",
}

const nStr, nInt, nFloat = 6, 9, 8

// jsonOnlyPool: strings that JSON can carry (as \uXXXX escapes or raw) but XML 1.0 cannot: ASCII control characters
// other than \b \f \n \r \t, DEL, and an unprintable code point above U+FFFF.  They are the symbols s7.. and are
// used by the C05 value space only; the XML value spaces (C03, C04) never mention them.
var jsonOnlyPool = []string{
	"a\u0001b",
	"bell\u0007!",
	"vt\u000b\u001f.",
	"del\u007f",
	"lang\U000E0001tag",
}

// NewSymbols derives the tables from the seed: the string pool is permuted, the
// integer magnitudes follow one of three profiles (small / around 2^31 / around 2^60).
func NewSymbols(seed int64) *Symbols {
	r := rand.New(rand.NewSource(seed*7919 + 17))
	s := &Symbols{strIdx: map[string]int{}, intIdx: map[int64]int{}}
	perm := r.Perm(len(basePool))
	s.strs = []string{""}
	for i := 0; i < nStr; i++ {
		s.strs = append(s.strs, basePool[perm[i]])
	}
	jp := r.Perm(len(jsonOnlyPool))
	for _, k := range jp {
		s.strs = append(s.strs, jsonOnlyPool[k])
	}
	for i, v := range s.strs {
		s.strIdx[v] = i
	}
	var base, step int64
	switch seed % 3 {
	case 0:
		base, step = 1000, 7
	case 1:
		base, step = 1<<31-4, 3 // straddles 2^31
	default:
		base, step = 1<<60+5, 1<<20
	}
	s.ints = []int64{0}
	for i := 1; i <= nInt; i++ {
		s.ints = append(s.ints, base+int64(i)*step)
	}
	// i10..i14 (C05 value space only): ids outside the range the library's packed object ids can hold -
	// negative (editor placeholder ids) and >= 2^40
	s.ints = append(s.ints, -1, -5000000000, 1<<40, 1<<40+7, 1<<62-3)
	for i, v := range s.ints {
		s.intIdx[v] = i
	}
	// f1..f8 ordinary coordinates; f9..f14 around zero and one: strictly between -1 and 0 / 0 and 1 with seven decimals,
	// the smallest negative step, exactly -1 and +1
	s.floats = []float64{0, 1.5, -33.8688197, 151.2092955, 89.9999999, -179.9999999, 0.0000001, 52.5170365, 13.3888599,
		-0.1246254, 0.9999999, -0.0000001, -1, 1, -0.9999999}
	s.times = []time.Time{
		{},
		time.Date(2012, 9, 12, 9, 30, 3, 0, time.UTC),
		time.Date(1970, 1, 1, 0, 0, 1, 0, time.UTC),
		time.Date(2038, 1, 19, 3, 14, 8, 0, time.UTC),
		time.Date(2021, 3, 4, 5, 6, 7, 123000000, time.UTC),
		time.Date(2016, 2, 29, 23, 59, 59, 123456789, time.UTC),
	}
	return s
}

func idx(leaf string) (int, bool) {
	n, err := strconv.Atoi(leaf[1:])
	return n, err == nil && n >= 0
}

// Str: leaf -> concrete string.
func (s *Symbols) Str(leaf string) (string, error) {
	if strings.HasPrefix(leaf, "=") {
		return leaf[1:], nil
	}
	if strings.HasPrefix(leaf, "s") {
		if n, ok := idx(leaf); ok && n < len(s.strs) {
			return s.strs[n], nil
		}
	}
	return "", fmt.Errorf("not a string leaf: %q", leaf)
}

// StrLeaf: concrete string -> leaf (pool symbol if in the pool, literal otherwise).
func (s *Symbols) StrLeaf(v string) string {
	if i, ok := s.strIdx[v]; ok {
		return "s" + strconv.Itoa(i)
	}
	return "=" + v
}

func (s *Symbols) Int(leaf string) (int64, error) {
	if strings.HasPrefix(leaf, "#") {
		return strconv.ParseInt(leaf[1:], 10, 64)
	}
	if strings.HasPrefix(leaf, "i") {
		if n, ok := idx(leaf); ok && n < len(s.ints) {
			return s.ints[n], nil
		}
	}
	return 0, fmt.Errorf("not an integer leaf: %q", leaf)
}

func (s *Symbols) IntLeaf(v int64) string {
	if i, ok := s.intIdx[v]; ok {
		return "i" + strconv.Itoa(i)
	}
	return "#" + strconv.FormatInt(v, 10)
}

func (s *Symbols) Float(leaf string) (float64, error) {
	if strings.HasPrefix(leaf, "f") {
		if n, ok := idx(leaf); ok && n < len(s.floats) {
			return s.floats[n], nil
		}
	}
	return 0, fmt.Errorf("not a float leaf: %q", leaf)
}

func (s *Symbols) FloatLeaf(v float64) string {
	for i, f := range s.floats {
		if f == v {
			return "f" + strconv.Itoa(i)
		}
	}
	return "?"
}

func (s *Symbols) Time(leaf string) (time.Time, error) {
	if strings.HasPrefix(leaf, "t") {
		if n, ok := idx(leaf); ok && n < len(s.times) {
			return s.times[n], nil
		}
	}
	return time.Time{}, fmt.Errorf("not a time leaf: %q", leaf)
}

func (s *Symbols) TimeLeaf(v time.Time) string {
	for i, t := range s.times {
		if t.Equal(v) {
			return "t" + strconv.Itoa(i)
		}
	}
	return "?"
}

func Bool(leaf string) (bool, error) {
	switch leaf {
	case "b0":
		return false, nil
	case "b1":
		return true, nil
	}
	return false, fmt.Errorf("not a bool leaf: %q", leaf)
}

func BoolLeaf(b bool) string {
	if b {
		return "b1"
	}
	return "b0"
}

// Lexical renders a leaf as the text an independent writer puts into an XML attribute /
// text node (before escaping).  variant selects among equivalent spellings.
func (s *Symbols) Lexical(leaf string, variant int) (string, error) {
	switch {
	case strings.HasPrefix(leaf, "D:"):
		t, err := s.Time(leaf[2:])
		if err != nil {
			return "", err
		}
		// the notes API date style: date, time of day, zone abbreviation
		return t.UTC().Format("2006-01-02 15:04:05") + " UTC", nil
	case strings.HasPrefix(leaf, "s"), strings.HasPrefix(leaf, "="):
		return s.Str(leaf)
	case strings.HasPrefix(leaf, "i"), strings.HasPrefix(leaf, "#"):
		n, err := s.Int(leaf)
		return strconv.FormatInt(n, 10), err
	case strings.HasPrefix(leaf, "f"):
		f, err := s.Float(leaf)
		if err != nil {
			return "", err
		}
		return floatText(f, variant), nil
	case strings.HasPrefix(leaf, "b"):
		b, err := Bool(leaf)
		return strconv.FormatBool(b), err
	case strings.HasPrefix(leaf, "t"):
		t, err := s.Time(leaf)
		if err != nil {
			return "", err
		}
		return timeText(t, variant), nil
	}
	return "", fmt.Errorf("unknown leaf %q", leaf)
}

func floatText(f float64, variant int) string {
	txt := strconv.FormatFloat(f, 'f', -1, 64)
	switch variant % 4 {
	case 1: // trailing zeros are the same number
		if strings.Contains(txt, ".") {
			return txt + "00"
		}
		return txt + ".0"
	case 2: // the fixed-point spelling with exactly seven decimals (what the OSM API and Overpass print)
		if p := strconv.FormatFloat(f, 'f', 7, 64); parsesTo(p, f) {
			return p
		}
	case 3: // zero may carry a sign
		if f == 0 {
			return "-0.0"
		}
	}
	return txt
}

func parsesTo(txt string, f float64) bool {
	g, err := strconv.ParseFloat(txt, 64)
	return err == nil && g == f
}

func timeText(t time.Time, variant int) string {
	// RFC 3339 / xsd:dateTime, UTC written as Z or as +00:00
	txt := t.UTC().Format("2006-01-02T15:04:05.999999999")
	if variant%4 == 3 {
		return txt + "+00:00"
	}
	return txt + "Z"
}
