package osmdoc

import (
	"bytes"
	"encoding/xml"
	"fmt"
	"io"
	"math/rand"
	"strings"
	"unicode/utf8"
)

// XNode is a generic XML element tree: name, attributes (name, leaf), children, optional text leaf.
// A node with an empty name and a text leaf is a raw fragment that is emitted as is.
type XNode struct {
	N string      `json:"n"`
	A [][2]string `json:"a"`
	C []*XNode    `json:"c"`
	T []string    `json:"t"`
}

// Layout selects among equivalent spellings of the same document.
type Layout struct {
	R       *rand.Rand
	Compact bool   // no optional white space / comments / unknown names, always open+close tags
	UnkAttr string // name of an attribute no schema knows ("" = never insert)
	UnkElem string // name of an element no schema knows
	Decl    bool
}

func (l *Layout) coin(p float64) bool { return !l.Compact && l.R.Float64() < p }

var namedEnt = map[rune]string{'<': "&lt;", '>': "&gt;", '&': "&amp;", '"': "&quot;", '\'': "&apos;"}

// escape writes s as XML character data / attribute value.  Characters that must be escaped in the
// given context always are; the others are escaped at the layout's whim (named entity, decimal or
// hexadecimal character reference, also for non-ASCII).
func (l *Layout) escape(b *bytes.Buffer, s string, quote rune, attr bool) {
	for _, r := range s {
		must := r == '&' || r == '<' || r == '>' || (attr && r == quote) || r == '\r' || (attr && (r == '\n' || r == '\t'))
		opt := r == '"' || r == '\'' || r > 127
		if !must && !(opt && l.coin(0.5)) {
			b.WriteRune(r)
			continue
		}
		ent, named := namedEnt[r]
		k := 0
		if !l.Compact {
			k = l.R.Intn(3)
		}
		switch {
		case named && k != 1 && k != 2:
			b.WriteString(ent)
		case k == 1 || !named && k == 0:
			fmt.Fprintf(b, "&#%d;", r)
		default:
			fmt.Fprintf(b, "&#x%X;", r)
		}
	}
}

func (l *Layout) space(b *bytes.Buffer, depth int) {
	if l.Compact {
		return
	}
	switch l.R.Intn(5) {
	case 0:
	case 1:
		b.WriteString("\n" + strings.Repeat("  ", depth))
	case 2:
		b.WriteString("\t")
	case 3:
		b.WriteString("\n<!-- comment with <node id=\"1\"/> & stuff -->\n")
	case 4:
		b.WriteString(" ")
	}
}

// Print renders the tree.  syms gives the lexical form of the leaves.
func (l *Layout) Print(b *bytes.Buffer, syms *Symbols, n *XNode, depth int) error {
	if n.N == "" { // raw fragment
		for _, leaf := range n.T {
			s, err := syms.Str(leaf)
			if err != nil {
				return err
			}
			b.WriteString(s)
		}
		return nil
	}
	if depth == 0 && l.Decl {
		b.WriteString("<?xml version=\"1.0\" encoding=\"UTF-8\"?>")
		l.space(b, 0)
	}
	b.WriteString("<" + n.N)
	attrs := append([][2]string(nil), n.A...)
	textOnly := len(n.T) > 0
	if l.UnkAttr != "" && l.coin(0.3) {
		attrs = append(attrs, [2]string{l.UnkAttr, "s" + fmt.Sprint(1+l.R.Intn(nStr))})
	}
	if !l.Compact {
		l.R.Shuffle(len(attrs), func(i, j int) { attrs[i], attrs[j] = attrs[j], attrs[i] })
	}
	for _, a := range attrs {
		sep := " "
		if l.coin(0.15) {
			sep = "\n    "
		}
		q := '"'
		if l.coin(0.3) {
			q = '\''
		}
		txt, err := syms.Lexical(a[1], l.variant())
		if err != nil {
			return fmt.Errorf("attribute %s: %v", a[0], err)
		}
		b.WriteString(sep + a[0] + "=" + string(q))
		l.escape(b, txt, q, true)
		b.WriteRune(q)
	}
	if l.coin(0.2) {
		b.WriteString(" ")
	}
	if len(n.C) == 0 && !textOnly {
		unk := l.UnkElem != "" && l.coin(0.1)
		if !unk {
			if l.coin(0.5) {
				b.WriteString("/>")
			} else {
				b.WriteString("></" + n.N + ">")
			}
			return nil
		}
		b.WriteString(">")
		l.unknown(b)
		b.WriteString("</" + n.N + ">")
		return nil
	}
	b.WriteString(">")
	if textOnly {
		txt, err := syms.Lexical(n.T[0], l.variant())
		if err != nil {
			return fmt.Errorf("text of %s: %v", n.N, err)
		}
		l.text(b, txt)
	} else {
		for _, c := range n.C {
			l.space(b, depth+1)
			if l.UnkElem != "" && l.coin(0.08) {
				l.unknown(b)
				l.space(b, depth+1)
			}
			if err := l.Print(b, syms, c, depth+1); err != nil {
				return err
			}
		}
		l.space(b, depth)
		if l.UnkElem != "" && l.coin(0.08) {
			l.unknown(b)
		}
	}
	b.WriteString("</" + n.N)
	if l.coin(0.1) {
		b.WriteString(" ")
	}
	b.WriteString(">")
	return nil
}

func (l *Layout) variant() int {
	if l.Compact {
		return 0
	}
	return l.R.Intn(12)
}

// none of these names occurs in any xml tag of the library (checked against the struct tags and the scanner's switch)
var lookAlikes = [][2]string{
	{"bound", `box="-1.5,2,3.25,4" origin="x"`}, {"bound", `box="0,0,1,1"`}, {"nodes", `id="7" lat="1" lon="2"`},
	{"wayz", `id="7" version="2"`}, {"relations", `id="9" visible="true"`}, {"tagz", `k="a" v="b"`}, {"ndx", `ref="3"`},
	{"members", `type="node" ref="1" role="r"`}, {"bbox", `minlat="1" minlon="2" maxlat="3" maxlon="4"`},
	{"osmosis", `version="0.6"`}, {"Bound", `box="1,2,3,4"`}, {"NODES", `id="1"`},
}

// unknown: an empty element that no schema knows, with an unknown attribute
func (l *Layout) unknown(b *bytes.Buffer) {
	if l.R.Intn(2) == 0 {
		// a name no schema knows that looks like one (legacy / plural / misspelt), with attributes that known
		// elements carry: still "unknown", still ignored
		la := lookAlikes[l.R.Intn(len(lookAlikes))]
		b.WriteString("<" + la[0] + " " + la[1])
		if l.R.Intn(2) == 0 {
			b.WriteString("/>")
		} else {
			b.WriteString("></" + la[0] + ">")
		}
		return
	}
	b.WriteString("<" + l.UnkElem)
	if l.UnkAttr != "" && l.R.Intn(2) == 0 {
		b.WriteString(" " + l.UnkAttr + "=\"1\"")
	}
	if l.R.Intn(2) == 0 {
		b.WriteString("/>")
	} else {
		b.WriteString("></" + l.UnkElem + ">")
	}
}

// text content: escaped, or (when possible) as CDATA sections, possibly split by a comment
func (l *Layout) text(b *bytes.Buffer, s string) {
	if l.coin(0.25) && !strings.Contains(s, "]]>") && !strings.Contains(s, "\r") && s != "" {
		cut := 0
		if len(s) > 1 && l.R.Intn(2) == 0 { // two sections; cut at a rune boundary
			cut = l.R.Intn(len(s))
			for cut > 0 && !utf8.RuneStart(s[cut]) {
				cut--
			}
		}
		if cut > 0 {
			b.WriteString("<![CDATA[" + s[:cut] + "]]><![CDATA[" + s[cut:] + "]]>")
		} else {
			b.WriteString("<![CDATA[" + s + "]]>")
		}
		return
	}
	if l.coin(0.15) && len(s) > 1 {
		cut := l.R.Intn(len(s))
		for cut > 0 && !utf8.RuneStart(s[cut]) {
			cut--
		}
		l.escape(b, s[:cut], 0, false)
		b.WriteString("<!-- split -->")
		l.escape(b, s[cut:], 0, false)
		return
	}
	l.escape(b, s, 0, false)
}

// ParseXML reads any XML text into a generic tree (first element is the root).  Attribute values
// and text become leaves through the string table (pool symbol or literal); white-space-only
// text between elements is dropped.
func ParseXML(syms *Symbols, data []byte) (*XNode, error) {
	d := xml.NewDecoder(bytes.NewReader(data))
	var stack []*XNode
	var text []*strings.Builder
	var root *XNode
	for {
		tok, err := d.RawToken()
		if err == io.EOF {
			break
		}
		if err != nil {
			return nil, err
		}
		switch t := tok.(type) {
		case xml.StartElement:
			n := &XNode{N: t.Name.Local, A: [][2]string{}, C: []*XNode{}, T: []string{}}
			if t.Name.Space != "" {
				n.N = t.Name.Space + ":" + t.Name.Local
			}
			for _, a := range t.Attr {
				name := a.Name.Local
				if a.Name.Space != "" {
					name = a.Name.Space + ":" + name
				}
				n.A = append(n.A, [2]string{name, syms.StrLeaf(a.Value)})
			}
			if len(stack) > 0 {
				p := stack[len(stack)-1]
				p.C = append(p.C, n)
			} else if root == nil {
				root = n
			}
			stack = append(stack, n)
			text = append(text, &strings.Builder{})
		case xml.EndElement:
			if len(stack) == 0 {
				return nil, fmt.Errorf("unbalanced end tag")
			}
			n := stack[len(stack)-1]
			txt := text[len(text)-1].String()
			if len(n.C) == 0 && txt != "" || strings.TrimSpace(txt) != "" {
				n.T = []string{syms.StrLeaf(txt)}
			}
			stack = stack[:len(stack)-1]
			text = text[:len(text)-1]
		case xml.CharData:
			if len(text) > 0 {
				text[len(text)-1].Write(t)
			}
		}
	}
	if root == nil {
		return nil, fmt.Errorf("no root element")
	}
	return root, nil
}
