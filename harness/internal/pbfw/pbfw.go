// Package pbfw is an INDEPENDENT writer for the OSM PBF file format.
//
// It is written from the format definition only (fileformat.proto / osmformat.proto:
// BlobHeader, Blob, HeaderBlock, HeaderBBox, PrimitiveBlock, PrimitiveGroup, StringTable,
// DenseNodes, DenseInfo, Node, Way, Relation, Info) on top of protowire and compress/zlib.
// It shares no code with github.com/paulmach/osm and must never import it: the checks
// C01 / C08 / C06 use it to produce the input of the real decoder.
//
// The writer validates nothing.  Every column is given as an explicit slice, so a caller
// can produce any valid file (every optional part absent or present) and also deliberately
// MALFORMED files: columns of different length, string indices outside the table,
// missing required columns (Dense.OmitIDs ...), and, through the per-block Damage
// options, wrong sizes, wrong raw_size, a corrupt zlib stream, an unknown encoding,
// an unexpected block type.  Unsupported required features are just strings in
// Header.Required.
//
// Encode returns the file bytes and, for each file block, its byte layout
// (4-byte size prefix, BlobHeader, Blob) so that cut points can be classified.
//
// Conventions
//   - nil slice   = the field is absent (not written at all)
//   - empty slice = the field is written with zero length (a legal encoding of "no values")
//   - all coordinate / id / timestamp columns are given as ABSOLUTE values; the writer
//     applies the delta coding the format prescribes for that column.
//   - Reverse = true writes the fields of every message of that block in descending
//     field-number order (protobuf permits any order).
package pbfw

import (
	"bytes"
	"compress/zlib"
	"encoding/binary"

	"google.golang.org/protobuf/encoding/protowire"
)

// ---------------------------------------------------------------------------
// abstract syntax
// ---------------------------------------------------------------------------

// File is a whole PBF file: an optional header block followed by data blocks.
type File struct {
	Header *Header // nil: no OSMHeader block (a "resumed" stream)
	Blocks []*Block
}

// BBox is HeaderBBox, in nanodegrees.
type BBox struct{ Left, Right, Top, Bottom int64 }

// Header is HeaderBlock.  Pointer / nil-slice = absent.
type Header struct {
	BBox            *BBox
	Required        []string
	Optional        []string
	WritingProgram  *string
	Source          *string
	ReplTimestamp   *int64 // osmosis_replication_timestamp (seconds)
	ReplSequence    *int64 // osmosis_replication_sequence_number
	ReplBaseURL     *string
	Zlib            bool // blob encoding of the header block
	Reverse         bool
	Damage          Damage
	ExtraRawPayload []byte // appended verbatim to the HeaderBlock message (unknown fields)
}

// Block is one OSMData file block holding a PrimitiveBlock.
type Block struct {
	Granularity     *int32   // field 17, absent = format default 100
	LatOffset       *int64   // field 19, absent = 0
	LonOffset       *int64   // field 20, absent = 0
	DateGranularity *int32   // field 18, absent = format default 1000
	Strings         []string // the complete string table, index 0 included (by convention "")
	OmitStringTable bool     // malformed: required field 1 not written
	Groups          []Group
	Zlib            bool
	Reverse         bool
	Damage          Damage
}

// Group is a PrimitiveGroup.  The format asks for one kind per group; the writer does not enforce it.
type Group struct {
	Nodes     []Node // plain (non-dense) nodes, field 1
	Dense     *Dense // field 2
	Ways      []Way  // field 3
	Relations []Relation
}

// Tag is a pair of string-table indices.
type Tag struct{ K, V uint32 }

// Dense is DenseNodes.
type Dense struct {
	IDs, Lats, Lons             []int64 // absolute raw values (units of granularity for lat/lon)
	OmitIDs, OmitLats, OmitLons bool    // malformed: column not written
	Info                        *DenseInfo
	// keys_vals: written iff KeysVals is true (built from Tags: (k v)* 0 per node) or RawKeysVals != nil (verbatim).
	KeysVals    bool
	Tags        [][]Tag
	RawKeysVals []int32
}

// DenseInfo columns; nil = column absent.  Timestamps/Changesets/UIDs/UserSIDs absolute (writer delta-codes).
type DenseInfo struct {
	Versions   []int32
	Timestamps []int64
	Changesets []int64
	UIDs       []int32
	UserSIDs   []int32
	Visibles   []bool
}

// Info is the per-element Info message; nil pointer = field absent.
type Info struct {
	Version   *int32
	Timestamp *int64
	Changeset *int64
	UID       *int32
	UserSID   *uint32
	Visible   *bool
}

// Node is a plain node (PrimitiveGroup.nodes).
type Node struct {
	ID         int64
	Keys, Vals []uint32
	Info       *Info
	Lat, Lon   int64
}

// Way is Way.  Refs/Lats/Lons absolute; nil = absent, empty = written empty.
type Way struct {
	ID         int64
	OmitID     bool
	Keys, Vals []uint32
	Info       *Info
	Refs       []int64
	Lats, Lons []int64
}

// Relation is Relation.  MemIDs absolute.
type Relation struct {
	ID         int64
	OmitID     bool
	Keys, Vals []uint32
	Info       *Info
	RolesSID   []int32
	MemIDs     []int64
	Types      []int32 // 0 node, 1 way, 2 relation (anything else is malformed)
}

// Damage are deliberate framing-level malformations of one file block.  The zero value is "intact".
type Damage struct {
	BlockType        string  // if non-empty, BlobHeader.type is this instead of OSMHeader / OSMData
	PrefixOverride   *uint32 // value written into the 4-byte size prefix instead of len(BlobHeader)
	DataSizeOverride *int32  // BlobHeader.datasize instead of len(Blob) (may be negative or oversized)
	OmitDataSize     bool    // required field datasize not written
	RawSizeOverride  *int32  // Blob.raw_size instead of the true uncompressed size (zlib blobs)
	OmitRawSize      bool
	CorruptZlib      int    // 0 intact; 1 flip a byte in the middle of the zlib stream; 2 truncate the stream; 3 bad zlib header; 4 wrong checksum trailer
	Encoding         string // "" (from Zlib flag) | "raw" | "zlib" | "lzma" (payload stored in field 4) | "none" (no data field at all)
	IndexData        []byte // BlobHeader.indexdata (valid, optional) if non-nil
	BlobHeaderExtra  []byte // appended verbatim to the BlobHeader message: unknown fields a reader must skip (valid)
	TruncatePayload  int    // >0: drop that many bytes from the end of the uncompressed message before wrapping
	PayloadOverride  []byte // if non-nil: the uncompressed message bytes are exactly these
}

// Span is the byte layout of one file block inside the encoded file.
type Span struct {
	Type      string // BlobHeader.type as written
	Offset    int    // offset of the 4-byte size prefix
	HeaderLen int    // length of the BlobHeader message
	BlobLen   int    // length of the Blob message
	IsHeader  bool   // it is the File.Header block
	DataIndex int    // index into File.Blocks (-1 for the header block)
}

// PrefixEnd, HeaderEnd, End are the offsets just after the prefix, the BlobHeader and the Blob.
func (s Span) PrefixEnd() int { return s.Offset + 4 }
func (s Span) HeaderEnd() int { return s.Offset + 4 + s.HeaderLen }
func (s Span) End() int       { return s.Offset + 4 + s.HeaderLen + s.BlobLen }

// ---------------------------------------------------------------------------
// message builder (fields can be emitted in reverse order)
// ---------------------------------------------------------------------------

type msg struct {
	parts [][]byte
}

func (m *msg) add(b []byte) { m.parts = append(m.parts, b) }

func (m *msg) varint(num int, v uint64) {
	b := protowire.AppendTag(nil, protowire.Number(num), protowire.VarintType)
	m.add(protowire.AppendVarint(b, v))
}

func (m *msg) bytes(num int, data []byte) {
	b := protowire.AppendTag(nil, protowire.Number(num), protowire.BytesType)
	m.add(protowire.AppendBytes(b, data))
}

func (m *msg) encode(reverse bool) []byte {
	var out []byte
	if reverse {
		for i := len(m.parts) - 1; i >= 0; i-- {
			out = append(out, m.parts[i]...)
		}
		return out
	}
	for _, p := range m.parts {
		out = append(out, p...)
	}
	return out
}

func zz(v int64) uint64 { return protowire.EncodeZigZag(v) }

func packU(vals []uint64) []byte {
	b := []byte{}
	for _, v := range vals {
		b = protowire.AppendVarint(b, v)
	}
	return b
}

// packed sint64, delta coded
func packDelta64(v []int64) []byte {
	out := make([]uint64, len(v))
	var p int64
	for i, x := range v {
		out[i] = zz(x - p)
		p = x
	}
	return packU(out)
}

// packed sint32, delta coded
func packDelta32(v []int32) []byte {
	out := make([]uint64, len(v))
	var p int32
	for i, x := range v {
		out[i] = zz(int64(x - p))
		p = x
	}
	return packU(out)
}

// packed int32 (two's complement varint, sign extended to 64 bit as protobuf prescribes)
func packInt32(v []int32) []byte {
	out := make([]uint64, len(v))
	for i, x := range v {
		out[i] = uint64(int64(x))
	}
	return packU(out)
}

func packUint32(v []uint32) []byte {
	out := make([]uint64, len(v))
	for i, x := range v {
		out[i] = uint64(x)
	}
	return packU(out)
}

func packBool(v []bool) []byte {
	out := make([]uint64, len(v))
	for i, x := range v {
		if x {
			out[i] = 1
		}
	}
	return packU(out)
}

// ---------------------------------------------------------------------------
// messages
// ---------------------------------------------------------------------------

func (in *Info) encode(rev bool) []byte {
	var m msg
	if in.Version != nil {
		m.varint(1, uint64(int64(*in.Version)))
	}
	if in.Timestamp != nil {
		m.varint(2, uint64(*in.Timestamp))
	}
	if in.Changeset != nil {
		m.varint(3, uint64(*in.Changeset))
	}
	if in.UID != nil {
		m.varint(4, uint64(int64(*in.UID)))
	}
	if in.UserSID != nil {
		m.varint(5, uint64(*in.UserSID))
	}
	if in.Visible != nil {
		v := uint64(0)
		if *in.Visible {
			v = 1
		}
		m.varint(6, v)
	}
	return m.encode(rev)
}

func (di *DenseInfo) encode(rev bool) []byte {
	var m msg
	if di.Versions != nil {
		m.bytes(1, packInt32(di.Versions))
	}
	if di.Timestamps != nil {
		m.bytes(2, packDelta64(di.Timestamps))
	}
	if di.Changesets != nil {
		m.bytes(3, packDelta64(di.Changesets))
	}
	if di.UIDs != nil {
		m.bytes(4, packDelta32(di.UIDs))
	}
	if di.UserSIDs != nil {
		m.bytes(5, packDelta32(di.UserSIDs))
	}
	if di.Visibles != nil {
		m.bytes(6, packBool(di.Visibles))
	}
	return m.encode(rev)
}

func (d *Dense) encode(rev bool) []byte {
	var m msg
	if !d.OmitIDs {
		m.bytes(1, packDelta64(d.IDs))
	}
	if d.Info != nil {
		m.bytes(5, d.Info.encode(rev))
	}
	if !d.OmitLats {
		m.bytes(8, packDelta64(d.Lats))
	}
	if !d.OmitLons {
		m.bytes(9, packDelta64(d.Lons))
	}
	if d.RawKeysVals != nil {
		m.bytes(10, packInt32(d.RawKeysVals))
	} else if d.KeysVals {
		kv := []int32{}
		for i := range d.IDs {
			if i < len(d.Tags) {
				for _, t := range d.Tags[i] {
					kv = append(kv, int32(t.K), int32(t.V))
				}
			}
			kv = append(kv, 0)
		}
		m.bytes(10, packInt32(kv))
	}
	return m.encode(rev)
}

func (n *Node) encode(rev bool) []byte {
	var m msg
	m.varint(1, zz(n.ID))
	if n.Keys != nil {
		m.bytes(2, packUint32(n.Keys))
	}
	if n.Vals != nil {
		m.bytes(3, packUint32(n.Vals))
	}
	if n.Info != nil {
		m.bytes(4, n.Info.encode(rev))
	}
	m.varint(8, zz(n.Lat))
	m.varint(9, zz(n.Lon))
	return m.encode(rev)
}

func (w *Way) encode(rev bool) []byte {
	var m msg
	if !w.OmitID {
		m.varint(1, uint64(w.ID))
	}
	if w.Keys != nil {
		m.bytes(2, packUint32(w.Keys))
	}
	if w.Vals != nil {
		m.bytes(3, packUint32(w.Vals))
	}
	if w.Info != nil {
		m.bytes(4, w.Info.encode(rev))
	}
	if w.Refs != nil {
		m.bytes(8, packDelta64(w.Refs))
	}
	if w.Lats != nil {
		m.bytes(9, packDelta64(w.Lats))
	}
	if w.Lons != nil {
		m.bytes(10, packDelta64(w.Lons))
	}
	return m.encode(rev)
}

func (r *Relation) encode(rev bool) []byte {
	var m msg
	if !r.OmitID {
		m.varint(1, uint64(r.ID))
	}
	if r.Keys != nil {
		m.bytes(2, packUint32(r.Keys))
	}
	if r.Vals != nil {
		m.bytes(3, packUint32(r.Vals))
	}
	if r.Info != nil {
		m.bytes(4, r.Info.encode(rev))
	}
	if r.RolesSID != nil {
		m.bytes(8, packInt32(r.RolesSID))
	}
	if r.MemIDs != nil {
		m.bytes(9, packDelta64(r.MemIDs))
	}
	if r.Types != nil {
		m.bytes(10, packInt32(r.Types))
	}
	return m.encode(rev)
}

func (g *Group) encode(rev bool) []byte {
	var m msg
	for i := range g.Nodes {
		m.bytes(1, g.Nodes[i].encode(rev))
	}
	if g.Dense != nil {
		m.bytes(2, g.Dense.encode(rev))
	}
	for i := range g.Ways {
		m.bytes(3, g.Ways[i].encode(rev))
	}
	for i := range g.Relations {
		m.bytes(4, g.Relations[i].encode(rev))
	}
	// repeated fields keep their relative order even in a reversed layout: only the
	// order of *different* field numbers is reversed (element order is data, not layout).
	if rev {
		return m.encodeStableReverse()
	}
	return m.encode(false)
}

// encodeStableReverse: descending field numbers, elements with the same number in original order.
func (m *msg) encodeStableReverse() []byte {
	// group consecutive parts with the same tag
	type run struct{ parts [][]byte }
	var runs []run
	var last uint64
	for i, p := range m.parts {
		tag, _ := protowire.ConsumeVarint(p)
		if i == 0 || tag != last {
			runs = append(runs, run{})
		}
		runs[len(runs)-1].parts = append(runs[len(runs)-1].parts, p)
		last = tag
	}
	var out []byte
	for i := len(runs) - 1; i >= 0; i-- {
		for _, p := range runs[i].parts {
			out = append(out, p...)
		}
	}
	return out
}

// PrimitiveBlockBytes encodes the PrimitiveBlock message of a block (uncompressed).
func (b *Block) PrimitiveBlockBytes() []byte {
	var m msg
	if !b.OmitStringTable {
		var st msg
		for _, s := range b.Strings {
			st.bytes(1, []byte(s))
		}
		m.bytes(1, st.encode(false))
	}
	for i := range b.Groups {
		m.bytes(2, b.Groups[i].encode(b.Reverse))
	}
	if b.Granularity != nil {
		m.varint(17, uint64(int64(*b.Granularity)))
	}
	if b.DateGranularity != nil {
		m.varint(18, uint64(int64(*b.DateGranularity)))
	}
	if b.LatOffset != nil {
		m.varint(19, uint64(*b.LatOffset))
	}
	if b.LonOffset != nil {
		m.varint(20, uint64(*b.LonOffset))
	}
	if b.Reverse {
		return m.encodeStableReverse()
	}
	return m.encode(false)
}

// HeaderBlockBytes encodes the HeaderBlock message (uncompressed).
func (h *Header) HeaderBlockBytes() []byte {
	var m msg
	if h.BBox != nil {
		var bb msg
		bb.varint(1, zz(h.BBox.Left))
		bb.varint(2, zz(h.BBox.Right))
		bb.varint(3, zz(h.BBox.Top))
		bb.varint(4, zz(h.BBox.Bottom))
		m.bytes(1, bb.encode(h.Reverse))
	}
	for _, s := range h.Required {
		m.bytes(4, []byte(s))
	}
	for _, s := range h.Optional {
		m.bytes(5, []byte(s))
	}
	if h.WritingProgram != nil {
		m.bytes(16, []byte(*h.WritingProgram))
	}
	if h.Source != nil {
		m.bytes(17, []byte(*h.Source))
	}
	if h.ReplTimestamp != nil {
		m.varint(32, uint64(*h.ReplTimestamp))
	}
	if h.ReplSequence != nil {
		m.varint(33, uint64(*h.ReplSequence))
	}
	if h.ReplBaseURL != nil {
		m.bytes(34, []byte(*h.ReplBaseURL))
	}
	var out []byte
	if h.Reverse {
		out = m.encodeStableReverse()
	} else {
		out = m.encode(false)
	}
	return append(out, h.ExtraRawPayload...)
}

// ---------------------------------------------------------------------------
// framing
// ---------------------------------------------------------------------------

// FileBlock wraps an uncompressed message into 4-byte prefix + BlobHeader + Blob.
// It returns the bytes and the lengths of the BlobHeader and the Blob.
func FileBlock(typ string, payload []byte, useZlib bool, dmg Damage) (out []byte, headerLen, blobLen int) {
	if dmg.PayloadOverride != nil {
		payload = dmg.PayloadOverride
	}
	if dmg.TruncatePayload > 0 {
		n := len(payload) - dmg.TruncatePayload
		if n < 0 {
			n = 0
		}
		payload = payload[:n]
	}
	enc := dmg.Encoding
	if enc == "" {
		enc = "raw"
		if useZlib {
			enc = "zlib"
		}
	}
	var blob msg
	switch enc {
	case "raw":
		blob.bytes(1, payload)
		if dmg.RawSizeOverride != nil { // legal but unusual: raw_size next to raw
			blob.varint(2, uint64(int64(*dmg.RawSizeOverride)))
		}
	case "zlib":
		var zb bytes.Buffer
		w := zlib.NewWriter(&zb)
		w.Write(payload)
		w.Close()
		z := zb.Bytes()
		switch dmg.CorruptZlib {
		case 1:
			if len(z) > 8 {
				z[len(z)/2] ^= 0x5a
				z[len(z)/2+1] ^= 0xa5
			}
		case 2:
			z = z[:len(z)/2]
		case 3:
			z[0], z[1] = 0xff, 0xff
		case 4: // intact deflate stream, wrong Adler-32 trailer
			z[len(z)-1] ^= 0x5a
			z[len(z)-3] ^= 0xa5
		}
		if !dmg.OmitRawSize {
			rs := int32(len(payload))
			if dmg.RawSizeOverride != nil {
				rs = *dmg.RawSizeOverride
			}
			blob.varint(2, uint64(int64(rs)))
		}
		blob.bytes(3, z)
	case "lzma":
		blob.varint(2, uint64(len(payload)))
		blob.bytes(4, payload)
	case "none":
		blob.varint(2, uint64(len(payload)))
	}
	blobBytes := blob.encode(false)

	if dmg.BlockType != "" {
		typ = dmg.BlockType
	}
	var hdr msg
	hdr.bytes(1, []byte(typ))
	if dmg.IndexData != nil {
		hdr.bytes(2, dmg.IndexData)
	}
	if !dmg.OmitDataSize {
		ds := int32(len(blobBytes))
		if dmg.DataSizeOverride != nil {
			ds = *dmg.DataSizeOverride
		}
		hdr.varint(3, uint64(int64(ds)))
	}
	hdrBytes := append(hdr.encode(false), dmg.BlobHeaderExtra...)

	out = make([]byte, 4, 4+len(hdrBytes)+len(blobBytes))
	pre := uint32(len(hdrBytes))
	if dmg.PrefixOverride != nil {
		pre = *dmg.PrefixOverride
	}
	binary.BigEndian.PutUint32(out, pre)
	out = append(out, hdrBytes...)
	out = append(out, blobBytes...)
	return out, len(hdrBytes), len(blobBytes)
}

// Encode renders the file and reports the byte layout of every file block.
func (f *File) Encode() ([]byte, []Span) {
	var out []byte
	var spans []Span
	if f.Header != nil {
		b, hl, bl := FileBlock("OSMHeader", f.Header.HeaderBlockBytes(), f.Header.Zlib, f.Header.Damage)
		typ := "OSMHeader"
		if f.Header.Damage.BlockType != "" {
			typ = f.Header.Damage.BlockType
		}
		spans = append(spans, Span{Type: typ, Offset: len(out), HeaderLen: hl, BlobLen: bl, IsHeader: true, DataIndex: -1})
		out = append(out, b...)
	}
	for i, blk := range f.Blocks {
		b, hl, bl := FileBlock("OSMData", blk.PrimitiveBlockBytes(), blk.Zlib, blk.Damage)
		typ := "OSMData"
		if blk.Damage.BlockType != "" {
			typ = blk.Damage.BlockType
		}
		spans = append(spans, Span{Type: typ, Offset: len(out), HeaderLen: hl, BlobLen: bl, DataIndex: i})
		out = append(out, b...)
	}
	return out, spans
}

// CutClass classifies a cut of the file after `n` bytes (0 <= n <= len(file)) relative to the spans:
// the number of complete file blocks before the cut and where inside the next block the cut falls.
//
//	"boundary"      exactly between two blocks (or at the very end / start)
//	"in-prefix"     inside the 4-byte size prefix
//	"after-prefix"  exactly after the size prefix
//	"in-header"     inside the BlobHeader
//	"after-header"  exactly after the BlobHeader (only if the Blob is non-empty)
//	"in-blob"       inside the Blob
func CutClass(spans []Span, n int) (complete int, where string) {
	for i, s := range spans {
		switch {
		case n == s.Offset:
			return i, "boundary"
		case n < s.PrefixEnd():
			return i, "in-prefix"
		case n == s.PrefixEnd() && n < s.End():
			return i, "after-prefix"
		case n < s.HeaderEnd():
			return i, "in-header"
		case n == s.HeaderEnd() && n < s.End():
			return i, "after-header"
		case n < s.End():
			return i, "in-blob"
		}
	}
	return len(spans), "boundary"
}

// Helpers for building pointer fields.
func I32(v int32) *int32   { return &v }
func I64(v int64) *int64   { return &v }
func U32(v uint32) *uint32 { return &v }
func Bool(v bool) *bool    { return &v }
func Str(v string) *string { return &v }
