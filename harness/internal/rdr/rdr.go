// Package rdr puts the same bytes behind the io.Reader behaviours the io.Reader contract allows:
// whole reads, short reads, one byte per call, and the final bytes returned together with io.EOF
// (iotest.DataErrReader; HTTP bodies of known length and some decompressors behave like that).
// It knows nothing about what is read.
package rdr

import (
	"bytes"
	"io"
	"testing/iotest"
)

// Kinds is the number of behaviours For distinguishes.
const Kinds = 5

// Name of behaviour k (recorded with a run, never judged).
func Name(k int) string {
	return []string{"plain", "chunks", "onebyte", "data+eof", "chunks,data+eof"}[mod(k)]
}

func mod(k int) int {
	k %= Kinds
	if k < 0 {
		k += Kinds
	}
	return k
}

// For returns a reader over data with behaviour k mod Kinds.
func For(data []byte, k int) io.Reader {
	switch mod(k) {
	case 1:
		return &Chunk{Data: data}
	case 2:
		return iotest.OneByteReader(bytes.NewReader(data))
	case 3:
		return iotest.DataErrReader(bytes.NewReader(data))
	case 4:
		return iotest.DataErrReader(&Chunk{Data: data})
	}
	return bytes.NewReader(data)
}

// Chunk hands the data out in short reads (1..7 bytes, then larger), as sockets, pipes and decompressors do.
type Chunk struct {
	Data []byte
	pos  int
	k    int
}

func (c *Chunk) Read(p []byte) (int, error) {
	if c.pos >= len(c.Data) {
		return 0, io.EOF
	}
	c.k++
	n := []int{1, 3, 2, 7, 1, 64, 5, 4096, 1, 2}[c.k%10]
	if n > len(p) {
		n = len(p)
	}
	if n > len(c.Data)-c.pos {
		n = len(c.Data) - c.pos
	}
	copy(p, c.Data[c.pos:c.pos+n])
	c.pos += n
	return n, nil
}
