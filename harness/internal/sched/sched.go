// Package sched is a token-passing deterministic scheduler over the `verif` hook points of
// the osmpbf decoder pipeline (osmpbf.VerifHook).  Every instrumented goroutine blocks in its
// pre-operation hook ("x.y?") until it is granted; exactly one goroutine (or the two partners of
// an unbuffered rendezvous) runs between two hook points.  Enabledness of a pending operation is
// computed from the real channel state handed to the hook, so a granted goroutine never blocks --
// if it does not reach its next hook within the timeout the real code hangs where Go semantics
// say it should not (reported as such by the caller).  The log is an exact linearization.
//
// The package knows the hook vocabulary and Go channel semantics; it knows nothing about what
// the pipeline is supposed to deliver.
package sched

import (
	"fmt"
	"os"
	"reflect"
	"sort"
	"strconv"
	"strings"
	"sync"
	"time"
)

// Event is one logged hook call.
type Event struct {
	G    string // goroutine: r, w<i>, s, c, x (environment)
	Site string
	Who  int
	A, B int64
	X    map[string]interface{} // payload of driver-level events (consumer API observations)
}

// Pending is a goroutine parked at a yield point.
type Pending struct {
	G     string
	Site  string
	Who   int
	ch    reflect.Value
	grant chan struct{}
}

type arrival struct {
	kind string // "start", "park", "exit"
	n    int
	g    string
	p    *Pending
}

// Sched is the scheduler state.
type Sched struct {
	mu      sync.Mutex
	log     []Event
	joint   map[string][]Event // per-goroutine buffers during a rendezvous step
	arrive  chan arrival
	parked  map[string]*Pending
	exited  map[string]bool
	running map[string]bool
	N       int  // decoder count announced by Start
	Started bool // Start has run
	CtxDone func() bool
	Timeout time.Duration
}

// GID maps a hook site to the goroutine it belongs to.
func GID(site string, who int) string {
	switch site[0] {
	case 'r':
		return "r"
	case 'w':
		return fmt.Sprintf("w%d", who)
	case 's':
		if site == "start" {
			return "c"
		}
		return "s"
	case 'x':
		return "x"
	}
	return "c"
}

// New returns a scheduler; the consumer goroutine "c" must be registered with Go().
func New() *Sched {
	to := 300 * time.Second // generous: a starved process must not look like a hang
	if v, err := strconv.Atoi(os.Getenv("VERIF_SETTLE_S")); err == nil && v > 0 {
		to = time.Duration(v) * time.Second // the driver shortens it after a first hang has been recorded
	}
	return &Sched{arrive: make(chan arrival, 1024), parked: map[string]*Pending{}, exited: map[string]bool{},
		running: map[string]bool{}, Timeout: to, CtxDone: func() bool { return false }}
}

// Go marks goroutine g as running (it will park or exit by itself).
func (s *Sched) Go(g string) { s.running[g] = true }

// Note appends an environment event to the log (e.g. "x.cancel").
func (s *Sched) Note(site string, a, b int64) {
	s.mu.Lock()
	s.log = append(s.log, Event{G: GID(site, 0), Site: site, A: a, B: b})
	s.mu.Unlock()
}

// NoteX appends a driver-level event with a payload.  Only call it from the goroutine that currently
// holds the token (or from the scheduler loop itself).
func (s *Sched) NoteX(site string, x map[string]interface{}) {
	s.mu.Lock()
	s.log = append(s.log, Event{G: GID(site, 0), Site: site, X: x})
	s.mu.Unlock()
}

// Hook is installed as osmpbf.VerifHook and is also called by the consumer driver.
func (s *Sched) Hook(site string, who int, ch interface{}, a, b int64) {
	g := GID(site, who)
	s.mu.Lock()
	if s.joint != nil {
		s.joint[g] = append(s.joint[g], Event{G: g, Site: site, Who: who, A: a, B: b})
	} else {
		s.log = append(s.log, Event{G: g, Site: site, Who: who, A: a, B: b})
	}
	s.mu.Unlock()
	switch {
	case site == "start":
		s.arrive <- arrival{kind: "start", n: who}
	case strings.HasSuffix(site, ".exit"):
		s.arrive <- arrival{kind: "exit", g: g}
	case strings.HasSuffix(site, "?"):
		p := &Pending{G: g, Site: site, Who: who, grant: make(chan struct{})}
		if ch != nil {
			p.ch = reflect.ValueOf(ch)
		}
		s.arrive <- arrival{kind: "park", g: g, p: p}
		<-p.grant
	}
}

func (s *Sched) wname(i int) string { return fmt.Sprintf("w%d", i) }

// enabled says whether the operation p is about to perform can complete now (Go semantics).
func (s *Sched) enabled(p *Pending) bool {
	done := s.CtxDone()
	switch p.Site {
	case "r.loop?", "c.api?", "s.exit?":
		return true
	case "r.first?": // plain send, no select
		return p.ch.Len() < p.ch.Cap() || (p.ch.Cap() == 0 && s.parkedAt("w0", "w.recv?"))
	case "r.send?":
		return done || p.ch.Len() < p.ch.Cap() || (p.ch.Cap() == 0 && s.parkedAt(s.wname(p.Who), "w.recv?"))
	case "w.send?":
		return done || p.ch.Len() < p.ch.Cap() || (p.ch.Cap() == 0 && s.parkedAtWho("s", "s.recv?", p.Who))
	case "s.send?":
		return done || p.ch.Len() < p.ch.Cap()
	case "w.recv?": // range over input: data available or input closed (reader exited)
		return p.ch.Len() > 0 || s.exited["r"]
	case "s.recv?":
		return done || p.ch.Len() > 0 || s.exited[s.wname(p.Who)]
	case "c.recv?":
		return p.ch.Len() > 0 || s.exited["s"]
	case "c.wait?":
		if !s.Started {
			return true
		}
		if !s.exited["r"] || !s.exited["s"] {
			return false
		}
		for i := 0; i < s.N; i++ {
			if !s.exited[s.wname(i)] {
				return false
			}
		}
		return true
	}
	panic("sched: unknown yield site " + p.Site)
}

func (s *Sched) parkedAt(g, site string) bool {
	p := s.parked[g]
	return p != nil && p.Site == site
}

func (s *Sched) parkedAtWho(g, site string, who int) bool {
	p := s.parked[g]
	return p != nil && p.Site == site && p.Who == who
}

// partner returns the goroutine that must be released together with p for an unbuffered
// rendezvous (only when the send is the operation that will happen, i.e. the context is live).
func (s *Sched) partner(p *Pending) *Pending {
	if !p.ch.IsValid() || p.ch.Cap() != 0 {
		return nil
	}
	if p.Site != "r.first?" && s.CtxDone() {
		return nil
	}
	switch p.Site {
	case "r.first?":
		return s.parked["w0"]
	case "r.send?":
		if q := s.parked[s.wname(p.Who)]; q != nil && q.Site == "w.recv?" {
			return q
		}
	case "w.send?":
		if q := s.parked["s"]; q != nil && q.Site == "s.recv?" && q.Who == p.Who {
			return q
		}
	}
	return nil
}

// Settle waits until every running goroutine has parked or exited.
func (s *Sched) Settle() error {
	for len(s.running) > 0 {
		select {
		case a := <-s.arrive:
			switch a.kind {
			case "start":
				s.N, s.Started = a.n, true
				s.running["r"], s.running["s"] = true, true
				for i := 0; i < a.n; i++ {
					s.running[s.wname(i)] = true
				}
			case "park":
				s.parked[a.g] = a.p
				delete(s.running, a.g)
			case "exit":
				s.exited[a.g] = true
				delete(s.running, a.g)
			}
		case <-time.After(s.Timeout):
			return fmt.Errorf("goroutines did not reach their next hook: running=%v parked=%v", keys(s.running), s.ParkedSites())
		}
	}
	return nil
}

func keys(m map[string]bool) []string {
	var out []string
	for k := range m {
		out = append(out, k)
	}
	sort.Strings(out)
	return out
}

// ParkedSites lists "g@site" of all parked goroutines.
func (s *Sched) ParkedSites() []string {
	var out []string
	for g, p := range s.parked {
		out = append(out, g+"@"+p.Site)
	}
	sort.Strings(out)
	return out
}

// Exited reports whether goroutine g has run its exit hook.
func (s *Sched) Exited(g string) bool { return s.exited[g] }

// Parked returns the pending operation of g, or nil.
func (s *Sched) Parked(g string) *Pending { return s.parked[g] }

// IsEnabled exposes enabledness of a parked operation.
func (s *Sched) IsEnabled(p *Pending) bool { return s.enabled(p) }

// Partner exposes the rendezvous partner of p (nil if none).
func (s *Sched) Partner(p *Pending) *Pending { return s.partner(p) }

// Enabled returns the enabled parked operations in a canonical order.  Receivers of an
// unbuffered channel are driven from the sender's side.
func (s *Sched) Enabled() []*Pending {
	var out []*Pending
	for _, p := range s.parked {
		if p.Site == "w.recv?" && p.ch.Cap() == 0 && !s.exited["r"] {
			continue
		}
		if p.Site == "s.recv?" && p.ch.Cap() == 0 && !s.CtxDone() && !s.exited[s.wname(p.Who)] {
			continue
		}
		if s.enabled(p) {
			out = append(out, p)
		}
	}
	sort.Slice(out, func(i, j int) bool { return out[i].G < out[j].G })
	return out
}

// Step grants p (and its rendezvous partner) and waits until they park again.
func (s *Sched) Step(p *Pending) error {
	q := s.partner(p)
	delete(s.parked, p.G)
	s.running[p.G] = true
	if q != nil {
		delete(s.parked, q.G)
		s.running[q.G] = true
		s.mu.Lock()
		s.joint = map[string][]Event{}
		s.mu.Unlock()
	}
	close(p.grant)
	if q != nil {
		close(q.grant)
	}
	err := s.Settle()
	if q != nil {
		s.mu.Lock()
		s.log = append(s.log, s.joint[p.G]...) // sender first, then receiver
		s.log = append(s.log, s.joint[q.G]...)
		for g, evs := range s.joint {
			if g != p.G && g != q.G {
				s.log = append(s.log, evs...)
			}
		}
		s.joint = nil
		s.mu.Unlock()
	}
	return err
}

// Log returns a copy of the linearized event log.
func (s *Sched) Log() []Event {
	s.mu.Lock()
	defer s.mu.Unlock()
	return append([]Event(nil), s.log...)
}
