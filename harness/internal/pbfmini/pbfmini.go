// Package pbfmini renders the abstract pipeline configurations of PbfPipeline.tla
// (a sequence of blocks, each intact with n objects, undecodable, or of an unexpected
// type; clean or truncated end; header present / absent / damaged) as PBF bytes.
// Independent of the library under test: protowire + compress/zlib only.
package pbfmini

import (
	"bytes"
	"compress/zlib"
	"encoding/binary"
	"strconv"

	"google.golang.org/protobuf/encoding/protowire"
)

func zz(v int64) uint64 { return protowire.EncodeZigZag(v) }

func packed(vals []uint64) []byte {
	var b []byte
	for _, v := range vals {
		b = protowire.AppendVarint(b, v)
	}
	return b
}

func fBytes(b []byte, num int, data []byte) []byte {
	b = protowire.AppendTag(b, protowire.Number(num), protowire.BytesType)
	return protowire.AppendBytes(b, data)
}

func fVar(b []byte, num int, v uint64) []byte {
	b = protowire.AppendTag(b, protowire.Number(num), protowire.VarintType)
	return protowire.AppendVarint(b, v)
}

func delta(v []int64) []uint64 {
	out := make([]uint64, len(v))
	var p int64
	for i, x := range v {
		out[i] = zz(x - p)
		p = x
	}
	return out
}

// FileBlock wraps payload into size prefix + BlobHeader + Blob.
func FileBlock(typ string, payload []byte, useZlib, corrupt bool) []byte {
	var blob []byte
	if useZlib {
		var zb bytes.Buffer
		w := zlib.NewWriter(&zb)
		w.Write(payload)
		w.Close()
		z := zb.Bytes()
		if corrupt {
			for i := 2; i < len(z); i++ {
				z[i] ^= 0x5a
			}
		}
		blob = fVar(blob, 2, uint64(len(payload)))
		blob = fBytes(blob, 3, z)
	} else {
		if corrupt {
			payload = append([]byte{0xff, 0xff, 0xff}, payload...) // not a PrimitiveBlock
		}
		blob = fBytes(blob, 1, payload)
	}
	var hdr []byte
	hdr = fBytes(hdr, 1, []byte(typ))
	hdr = fVar(hdr, 3, uint64(len(blob)))
	out := make([]byte, 4)
	binary.BigEndian.PutUint32(out, uint32(len(hdr)))
	out = append(out, hdr...)
	out = append(out, blob...)
	return out
}

// HeaderBlock returns an OSMHeader file block; feature is an extra required feature ("" = none).
func HeaderBlock(feature string) []byte {
	var h []byte
	h = fBytes(h, 4, []byte("OsmSchema-V0.6"))
	h = fBytes(h, 4, []byte("DenseNodes"))
	if feature != "" {
		h = fBytes(h, 4, []byte(feature))
	}
	h = fBytes(h, 16, []byte("verif-pbfmini"))
	return FileBlock("OSMHeader", h, true, false)
}

// DenseBlock returns an OSMData block holding nodes with the given ids (possibly none).
func DenseBlock(ids []int64, useZlib, corrupt bool) []byte {
	return DenseBlockX(ids, useZlib, corrupt, 0, 0)
}

// DenseBlockX: gran > 0 writes a granularity field (absent otherwise: the format default applies); pad > 0 adds an unused
// string of that many bytes to the string table (a block whose uncompressed size is large although it holds few elements).
func DenseBlockX(ids []int64, useZlib, corrupt bool, gran int, pad int) []byte {
	// every node has its own user name, tag key and tag value, so the string table differs from block to block and a string
	// that ends up on the wrong element (or is overwritten later) is visible
	strs := []string{""}
	for _, id := range ids {
		f := FieldsOf(id)
		strs = append(strs, f.User, f.Key, f.Val)
	}
	var st []byte
	for _, s := range strs {
		st = fBytes(st, 1, []byte(s))
	}
	if pad > 0 {
		st = fBytes(st, 1, bytes.Repeat([]byte("padding "), pad/8))
	}
	var pb []byte
	pb = fBytes(pb, 1, st)
	if len(ids) > 0 {
		var lats, lons, tss, css, uids, sids []int64
		var vers, kv []uint64
		for i, id := range ids {
			f := FieldsOf(id)
			lats = append(lats, id*10)
			lons = append(lons, id*20)
			vers = append(vers, uint64(f.Version))
			tss = append(tss, f.TS)
			css = append(css, f.CS)
			uids = append(uids, f.UID)
			sids = append(sids, int64(1+3*i))
			kv = append(kv, uint64(2+3*i), uint64(3+3*i), 0)
		}
		var d []byte
		d = fBytes(d, 1, packed(delta(ids)))
		var in []byte
		in = fBytes(in, 1, packed(vers))
		in = fBytes(in, 2, packed(delta(tss)))
		in = fBytes(in, 3, packed(delta(css)))
		in = fBytes(in, 4, packed(delta(uids)))
		in = fBytes(in, 5, packed(delta(sids)))
		d = fBytes(d, 5, in)
		d = fBytes(d, 8, packed(delta(lats)))
		d = fBytes(d, 9, packed(delta(lons)))
		d = fBytes(d, 10, packed(kv))
		pb = fBytes(pb, 2, fBytes(nil, 2, d))
	}
	if gran > 0 {
		pb = fVar(pb, 17, uint64(gran))
	}
	return FileBlock("OSMData", pb, useZlib, corrupt)
}

// Fields are the id-determined contents of a rendered node (besides its position): the rendering is a function of the id
// alone, so a recorder can tell an intact object from one carrying another element's values.
type Fields struct {
	Version  int
	TS       int64 // seconds
	CS, UID  int64
	User     string
	Key, Val string
}

// FieldsOf returns the contents node id is rendered with.
func FieldsOf(id int64) Fields {
	return Fields{Version: int(1 + id%3), TS: 1300000000 + id*61, CS: id + 5, UID: 1 + id%997,
		User: "u" + strconv.FormatInt(id, 10), Key: "k" + strconv.FormatInt(id%7, 10), Val: "v" + strconv.FormatInt(id, 10)}
}

// Block is one abstract block of a configuration.
type Block struct {
	K   string `json:"k"` // "data" | "bad" | "type"
	N   int    `json:"n"`
	G   int    `json:"g,omitempty"`   // granularity field of the block (0 = absent)
	Pad int    `json:"pad,omitempty"` // bytes of unused string-table padding
}

// Cfg is the file-shaped part of a PbfPipeline configuration.
type Cfg struct {
	Blocks  []Block `json:"blocks"`
	Endkind string  `json:"endkind"` // "eof" | "trunc"
	Hdr     string  `json:"hdr"`     // "ok" | "none" | "trunc" | "feature" | "empty"
}

// File is the rendering of a Cfg.
type File struct {
	Data    []byte
	Offs    []int64 // byte offset of data block k (index k-1)
	Ends    []int64 // byte offset just after data block k
	Per     []int   // objects per block (0 for damaged blocks)
	FirstID []int64 // id of the first object of block k
	Hdr     string
	HdrLen  int64 // length of the header block (0 if none)
}

// Build renders c. Object <<k, j>> gets id FirstID[k-1]+j-1; ids increase through the file.
// variant perturbs layout only (which blocks are zlib-compressed).
func Build(c Cfg, variant int) File {
	f := File{Hdr: c.Hdr}
	var out []byte
	switch c.Hdr {
	case "ok":
		out = append(out, HeaderBlock("")...)
		f.HdrLen = int64(len(out))
	case "feature":
		out = append(out, HeaderBlock("VerifUnsupportedFeature")...)
		f.HdrLen = int64(len(out))
	case "trunc":
		h := HeaderBlock("")
		out = append(out, h[:len(h)/2]...)
		f.Data = out
		return f
	case "empty":
		f.Data = out
		return f
	}
	id := int64(1000 + 7*int64(variant%5))
	for b, blk := range c.Blocks {
		f.Offs = append(f.Offs, int64(len(out)))
		f.FirstID = append(f.FirstID, id)
		var ids []int64
		for i := 0; i < blk.N; i++ {
			ids = append(ids, id)
			id++
		}
		z := (b+variant)%2 == 0
		switch blk.K {
		case "data":
			if blk.Pad > 0 {
				z = true
			}
			out = append(out, DenseBlockX(ids, z, false, blk.G, blk.Pad)...)
			f.Per = append(f.Per, blk.N)
		case "bad":
			out = append(out, DenseBlock([]int64{id + 500}, true, true)...)
			f.Per = append(f.Per, 0)
		case "type":
			out = append(out, FileBlock("OSMVerifUnknown", []byte{1, 2, 3}, false, false)...)
			f.Per = append(f.Per, 0)
		}
		f.Ends = append(f.Ends, int64(len(out)))
	}
	if c.Endkind == "trunc" {
		extra := DenseBlock([]int64{id + 900, id + 901}, variant%2 == 0, false)
		cut := []int{2, 4, 9, len(extra) / 2, len(extra) - 1}[variant%5]
		out = append(out, extra[:cut]...)
	}
	f.Data = out
	return f
}

// CutCfg describes the file obtained by cutting f (built from c) at byte offset cut: the complete blocks
// before the cut, whether the cut is on a block boundary, and what is left of the header.
func (f File) CutCfg(c Cfg, cut int64) Cfg {
	out := Cfg{Endkind: "eof", Hdr: c.Hdr}
	if c.Hdr == "trunc" || c.Hdr == "empty" || c.Hdr == "feature" {
		if cut >= int64(len(f.Data)) {
			return Cfg{Endkind: c.Endkind, Hdr: c.Hdr, Blocks: c.Blocks} // uncut: the configuration itself
		}
	}
	if cut >= int64(len(f.Data)) {
		return c
	}
	if c.Hdr != "none" {
		switch {
		case cut == 0:
			out.Hdr = "empty"
			return out
		case cut < f.HdrLen:
			out.Hdr = "trunc"
			return out
		}
	}
	pos := f.HdrLen
	for k := range f.Ends {
		if f.Ends[k] <= cut {
			out.Blocks = append(out.Blocks, c.Blocks[k])
			pos = f.Ends[k]
		}
	}
	if cut > pos {
		out.Endkind = "trunc"
	}
	if c.Hdr == "none" && len(out.Blocks) == 0 {
		// nothing complete: the first block is read by Start like a header
		if cut == 0 {
			out.Hdr = "empty"
		} else {
			out.Hdr = "trunc"
		}
		out.Endkind = "eof"
	}
	return out
}

// Blk maps a concrete byte offset to the data block index starting there (0 if none).
func (f File) Blk(off int64) int {
	for i, o := range f.Offs {
		if o == off {
			return i + 1
		}
	}
	return 0
}

// AbsOff maps a concrete offset reported by the scanner to the abstract offset of the model:
// with a header block k has offset k, without one k-1; anything else is -1 (no Judge accepts it).
func (f File) AbsOff(off int64) int {
	if off == 0 {
		return 0
	}
	k := f.Blk(off)
	if k == 0 {
		return -1
	}
	if f.Hdr != "none" {
		return k
	}
	return k - 1
}

// Pos maps an object id back to <<block, index>> (0,0 if unknown).
func (f File) Pos(id int64) (int, int) {
	for b, first := range f.FirstID {
		if id >= first && id < first+int64(f.Per[b]) {
			return b + 1, int(id-first) + 1
		}
	}
	return 0, 0
}
