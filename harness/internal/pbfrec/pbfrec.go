// Package pbfrec: neutral symbol maps between the abstract PBF files of spec/PbfFormat.tla and the
// concrete world: Render turns an abstract file into a pbfw.File under a magnitude profile (abstract small
// integers -> concrete ids / nanodegrees / milliseconds, string symbols -> strings), and the Rec* functions turn
// what the real scanner returned back into abstract values (a value that is not in the image of the profile becomes
// the sentinel Unknown, which no Judge accepts).  There are no expected values and no property logic here: what a
// file should decode to is defined only in PbfFormat.tla.
package pbfrec

import (
	"encoding/json"
	"math"
	"time"

	"github.com/paulmach/osm"
	"github.com/paulmach/osm/osmpbf"
	"verifharness/internal/pbfw"
)

// Unknown is the abstract value of a concrete value that is not in the image of the profile.
const Unknown = -999999

// ---------------------------------------------------------------------------
// abstract file (JSON written by TLC)
// ---------------------------------------------------------------------------

type AFile struct {
	Header AHeader  `json:"header"`
	Blocks []ABlock `json:"blocks"`
}

// AHeader: optional fields are sequences of length 0 (absent) or 1.
type AHeader struct {
	BBox []int64  `json:"bbox"` // <<>> or <<left, right, top, bottom>> in bbox units
	Req  []string `json:"req"`
	Opt  []int    `json:"opt"` // string symbols
	Prog []int    `json:"prog"`
	Src  []int    `json:"src"`
	RTs  []int64  `json:"rts"`
	RSeq []int64  `json:"rseq"`
	RURL []int    `json:"rurl"`
	Zlib bool     `json:"zlib"`
	Rev  bool     `json:"rev"`
	BH   int      `json:"bh"` // BlobHeader layout variant, see BlobHeaderVariant
}

type ABlock struct {
	Gran   []int64  `json:"gran"`   // literal granularity
	LatOff []int64  `json:"latoff"` // coordinate units
	LonOff []int64  `json:"lonoff"`
	DGran  []int64  `json:"dgran"` // literal date granularity
	Zlib   bool     `json:"zlib"`
	Rev    bool     `json:"rev"`
	BH     int      `json:"bh"` // BlobHeader layout variant, see BlobHeaderVariant
	St     []int    `json:"st"` // string table as string symbols, index 0 first
	Groups []AGroup `json:"groups"`
}

type AGroup struct {
	Kind string `json:"kind"` // "dense" | "ways" | "rels" | "empty"
	// dense
	Nodes []ANode  `json:"nodes"`
	Info  bool     `json:"info"`
	Cols  []string `json:"cols"`
	KV    bool     `json:"kv"`
	// ways / rels
	Ways []AWay `json:"ways"`
	Rels []ARel `json:"rels"`
	// run-length groups "xdense" | "xways" | "xrels" (PbfFormatBig.tla): N elements, element i (1-based) is Base with
	// id, cs, ts advanced by (i-1) * Step.  Expand() turns them into ordinary groups.
	N    int             `json:"n"`
	Step AStep           `json:"step"`
	Base json.RawMessage `json:"base"`
}

type AStep struct {
	ID int64 `json:"id"`
	Cs int64 `json:"cs"`
	Ts int64 `json:"ts"`
}

// Expand replaces every run-length group of the file by the ordinary group it stands for (a structural expansion:
// the rule "element i = base advanced by (i-1)*step" is given by the case; what the elements decode to is not known here).
func (f *AFile) Expand() error {
	for bi := range f.Blocks {
		for gi := range f.Blocks[bi].Groups {
			g := &f.Blocks[bi].Groups[gi]
			switch g.Kind {
			case "xdense":
				var base ANode
				if err := json.Unmarshal(g.Base, &base); err != nil {
					return err
				}
				g.Kind, g.Nodes = "dense", make([]ANode, g.N)
				for i := 0; i < g.N; i++ {
					e := base
					e.ID, e.Cs, e.Ts = base.ID+int64(i)*g.Step.ID, base.Cs+int64(i)*g.Step.Cs, base.Ts+int64(i)*g.Step.Ts
					g.Nodes[i] = e
				}
			case "xways":
				var base AWay
				if err := json.Unmarshal(g.Base, &base); err != nil {
					return err
				}
				g.Kind, g.Ways = "ways", make([]AWay, g.N)
				for i := 0; i < g.N; i++ {
					e := base
					e.ID, e.Cs, e.Ts = base.ID+int64(i)*g.Step.ID, base.Cs+int64(i)*g.Step.Cs, base.Ts+int64(i)*g.Step.Ts
					g.Ways[i] = e
				}
			case "xrels":
				var base ARel
				if err := json.Unmarshal(g.Base, &base); err != nil {
					return err
				}
				g.Kind, g.Rels = "rels", make([]ARel, g.N)
				for i := 0; i < g.N; i++ {
					e := base
					e.ID, e.Cs, e.Ts = base.ID+int64(i)*g.Step.ID, base.Cs+int64(i)*g.Step.Cs, base.Ts+int64(i)*g.Step.Ts
					g.Rels[i] = e
				}
			}
			g.Base = nil
		}
	}
	return nil
}

type ANode struct {
	ID   int64    `json:"id"`
	Lat  int64    `json:"lat"`
	Lon  int64    `json:"lon"`
	Ver  int64    `json:"ver"`
	Ts   int64    `json:"ts"`
	Cs   int64    `json:"cs"`
	UID  int64    `json:"uid"`
	USID int64    `json:"usid"`
	Vis  bool     `json:"vis"`
	Tags [][2]int `json:"tags"`
}

type AMeta struct {
	Info   bool     `json:"info"`
	Fields []string `json:"fields"`
	Ver    int64    `json:"ver"`
	Ts     int64    `json:"ts"`
	Cs     int64    `json:"cs"`
	UID    int64    `json:"uid"`
	USID   int64    `json:"usid"`
	Vis    bool     `json:"vis"`
}

type AWay struct {
	ID   int64    `json:"id"`
	Tags [][2]int `json:"tags"`
	AMeta
	Refs []int64 `json:"refs"`
	Loc  string  `json:"loc"` // "none" | "both" | "lat" | "lon"
	Lats []int64 `json:"lats"`
	Lons []int64 `json:"lons"`
	EE   bool    `json:"ee"` // write empty packed fields explicitly instead of omitting them
}

type ARel struct {
	ID   int64    `json:"id"`
	Tags [][2]int `json:"tags"`
	AMeta
	Mems [][3]int64 `json:"mems"` // <<type 0..2, ref, role string index>>
	EE   bool       `json:"ee"`
}

// ---------------------------------------------------------------------------
// magnitude profiles
// ---------------------------------------------------------------------------

// Mag maps a small symbolic integer injectively to a concrete magnitude: 0 -> 0, s -> sign(s)*(Base+|s|*Step).
type Mag struct{ Base, Step int64 }

func (m Mag) Up(s int64) int64 {
	switch {
	case s == 0:
		return 0
	case s > 0:
		return m.Base + s*m.Step
	default:
		return -(m.Base + (-s)*m.Step)
	}
}

func (m Mag) Down(c int64) int64 {
	if c == 0 {
		return 0
	}
	sign := int64(1)
	if c < 0 {
		sign, c = -1, -c
		if c < 0 {
			return Unknown
		}
	}
	d := c - m.Base
	if d <= 0 || d%m.Step != 0 || d/m.Step > 50000000 {
		return Unknown
	}
	return sign * (d / m.Step)
}

// Profile: concrete magnitudes.  Coordinates, offsets and timestamps are scaled LINEARLY (unit -> M nanodegrees,
// raw timestamp unit -> T) so that the format's arithmetic offset+granularity*raw and raw*date_granularity, which the
// spec performs on small integers, commutes with the rendering.
type Profile struct {
	Name string
	M    int64 // nanodegrees per coordinate unit
	MB   int64 // nanodegrees per bbox unit
	T    int64 // raw timestamp scale: concrete raw = T * abstract raw  (so ms = T * (dgran*raw))
	ID   Mag   // node/way/relation ids, refs, member refs
	CS   Mag   // changesets
	Ver  Mag   // versions (int32)
	UID  Mag   // user ids (int32)
	RTs  Mag   // header replication timestamp (s)
	RSeq Mag   // header replication sequence number
	Pool []string
}

var basePool = []string{"", "a", "highway", "name:ru=Привет", "日本語", "🙂 smile", "x=y&z<>\"'\\", " lead/trail ", "Ünï", "0"}

// Profiles returns the magnitude profile `idx` (0 small, 1 realistic, 2 large, 3 extreme) with the string pool rotated by seed.
func GetProfile(idx int, seed int64) Profile {
	var p Profile
	switch idx % 4 {
	case 0:
		p = Profile{Name: "small", M: 1, MB: 1, T: 1, ID: Mag{0, 1}, CS: Mag{0, 1}, Ver: Mag{0, 1}, UID: Mag{0, 1}, RTs: Mag{0, 1}, RSeq: Mag{0, 1}}
	case 1:
		p = Profile{Name: "real", M: 1000003, MB: 499999993, T: 8000003, ID: Mag{1 << 31, 3}, CS: Mag{100000000, 17}, Ver: Mag{1000, 1}, UID: Mag{7000000, 13},
			RTs: Mag{1347400000, 61}, RSeq: Mag{5000000, 1}}
	case 2:
		p = Profile{Name: "large", M: 2000003, MB: 999999937, T: 25000000, ID: Mag{1 << 40, 1000003}, CS: Mag{1 << 33, 5}, Ver: Mag{1 << 20, 3}, UID: Mag{1 << 30, 1},
			RTs: Mag{1 << 32, 7}, RSeq: Mag{1 << 40, 3}}
	default:
		p = Profile{Name: "extreme", M: 1999993, MB: 1000000007 - 14, T: 30000001, ID: Mag{1 << 62, 7}, CS: Mag{1 << 62, 11}, Ver: Mag{1<<31 - 5000, 1}, UID: Mag{1<<31 - 9000, 1},
			RTs: Mag{1 << 33, 1}, RSeq: Mag{1 << 62, 1}}
	}
	// string pool: symbol 0 is always "", the others are rotated by the seed
	n := len(basePool) - 1
	p.Pool = make([]string, len(basePool))
	for i := 1; i <= n; i++ {
		p.Pool[i] = basePool[1+(i-1+int(seed%int64(n))+n)%n]
	}
	return p
}

func (p Profile) Str(sym int) string {
	if sym < 0 || sym >= len(p.Pool) {
		return "<sym out of pool>"
	}
	return p.Pool[sym]
}

func (p Profile) Sym(s string) int {
	for i, x := range p.Pool {
		if x == s {
			return i
		}
	}
	return Unknown
}

// Coordinate (degrees) -> units; the concrete value must lie within 1e-10 degrees of M*unit nanodegrees.
func coordDown(deg float64, m int64) int64 {
	x := deg * 1e9
	n := math.Round(x / float64(m))
	if math.IsNaN(n) || math.Abs(n) > 1e8 {
		return Unknown
	}
	if math.Abs(x-n*float64(m)) > 0.1 {
		return Unknown
	}
	return int64(n)
}

func (p Profile) CoordDown(deg float64) int64 { return coordDown(deg, p.M) }

// Timestamp -> <<>> (zero time.Time) or <<n>> with unix milliseconds = T*n.
func (p Profile) TimeDown(t time.Time, scale int64) []int64 {
	if t.IsZero() {
		return []int64{}
	}
	if t.Location() != time.UTC {
		return []int64{Unknown}
	}
	ns := t.UnixNano()
	if ns%1000000 != 0 {
		return []int64{Unknown}
	}
	ms := ns / 1000000
	if ms%scale != 0 || ms/scale > 100000000 || ms/scale < -100000000 {
		return []int64{Unknown}
	}
	return []int64{ms / scale}
}

// ---------------------------------------------------------------------------
// rendering
// ---------------------------------------------------------------------------

func opt32(v []int64) *int32 {
	if len(v) == 0 {
		return nil
	}
	return pbfw.I32(int32(v[0]))
}

func has(list []string, f string) bool {
	for _, x := range list {
		if x == f {
			return true
		}
	}
	return false
}

func (p Profile) info(m AMeta) *pbfw.Info {
	if !m.Info {
		return nil
	}
	in := &pbfw.Info{}
	if has(m.Fields, "version") {
		in.Version = pbfw.I32(int32(p.Ver.Up(m.Ver)))
	}
	if has(m.Fields, "timestamp") {
		in.Timestamp = pbfw.I64(p.T * m.Ts)
	}
	if has(m.Fields, "changeset") {
		in.Changeset = pbfw.I64(p.CS.Up(m.Cs))
	}
	if has(m.Fields, "uid") {
		in.UID = pbfw.I32(int32(p.UID.Up(m.UID)))
	}
	if has(m.Fields, "user_sid") {
		in.UserSID = pbfw.U32(uint32(m.USID))
	}
	if has(m.Fields, "visible") {
		in.Visible = pbfw.Bool(m.Vis)
	}
	return in
}

func keysVals(tags [][2]int, ee bool) (k, v []uint32) {
	if len(tags) == 0 {
		if ee {
			return []uint32{}, []uint32{}
		}
		return nil, nil
	}
	for _, t := range tags {
		k = append(k, uint32(t[0]))
		v = append(v, uint32(t[1]))
	}
	return
}

func scale(v []int64, m int64) []int64 {
	out := make([]int64, len(v))
	for i, x := range v {
		out[i] = x * m
	}
	return out
}

// BlobHeaderVariant: optional parts of the BlobHeader of a file block, a layout choice of the writer like the blob
// encoding (the content of the block is the same): variant 0 nothing extra; 1 a one-byte indexdata; 2 an indexdata whose
// bytes look like BlobHeader fields (type "abc", datasize 5); 3 a 300-byte indexdata (two-byte length); 4 unknown
// fields (a varint field 15 and a bytes field 16) after datasize; 5 indexdata and unknown fields.
func BlobHeaderVariant(v int) (indexdata, extra []byte) {
	unknown := []byte{0x78, 0x2a, 0x82, 0x01, 0x03, 0x18, 0x07, 0x0a} // 15: varint 42; 16: bytes {0x18, 0x07, 0x0a}
	switch v {
	case 1:
		return []byte{0x00}, nil
	case 2:
		return []byte{0x0a, 0x03, 'a', 'b', 'c', 0x18, 0x05}, nil
	case 3:
		b := make([]byte, 300)
		for i := range b {
			b[i] = byte(0x18 + i%7)
		}
		return b, nil
	case 4:
		return nil, unknown
	case 5:
		return []byte{0x18, 0x01, 0x0a, 0x00}, unknown
	}
	return nil, nil
}

// Render turns the abstract file into a concrete pbfw.File.
func (p Profile) Render(f *AFile) *pbfw.File {
	out := &pbfw.File{}
	h := &pbfw.Header{Zlib: f.Header.Zlib, Reverse: f.Header.Rev}
	if len(f.Header.BBox) == 4 {
		b := f.Header.BBox
		h.BBox = &pbfw.BBox{Left: b[0] * p.MB, Right: b[1] * p.MB, Top: b[2] * p.MB, Bottom: b[3] * p.MB}
	}
	h.Required = append(h.Required, f.Header.Req...)
	for _, s := range f.Header.Opt {
		h.Optional = append(h.Optional, p.Str(s))
	}
	if len(f.Header.Prog) > 0 {
		h.WritingProgram = pbfw.Str(p.Str(f.Header.Prog[0]))
	}
	if len(f.Header.Src) > 0 {
		h.Source = pbfw.Str(p.Str(f.Header.Src[0]))
	}
	if len(f.Header.RTs) > 0 {
		h.ReplTimestamp = pbfw.I64(p.RTs.Up(f.Header.RTs[0]))
	}
	if len(f.Header.RSeq) > 0 {
		h.ReplSequence = pbfw.I64(p.RSeq.Up(f.Header.RSeq[0]))
	}
	if len(f.Header.RURL) > 0 {
		h.ReplBaseURL = pbfw.Str(p.Str(f.Header.RURL[0]))
	}
	h.Damage.IndexData, h.Damage.BlobHeaderExtra = BlobHeaderVariant(f.Header.BH)
	out.Header = h

	for _, ab := range f.Blocks {
		b := &pbfw.Block{Zlib: ab.Zlib, Reverse: ab.Rev}
		b.Damage.IndexData, b.Damage.BlobHeaderExtra = BlobHeaderVariant(ab.BH)
		b.Granularity = opt32(ab.Gran)
		b.DateGranularity = opt32(ab.DGran)
		if len(ab.LatOff) > 0 {
			b.LatOffset = pbfw.I64(ab.LatOff[0] * p.M)
		}
		if len(ab.LonOff) > 0 {
			b.LonOffset = pbfw.I64(ab.LonOff[0] * p.M)
		}
		for _, s := range ab.St {
			b.Strings = append(b.Strings, p.Str(s))
		}
		for _, ag := range ab.Groups {
			var g pbfw.Group
			switch ag.Kind {
			case "dense":
				d := &pbfw.Dense{KeysVals: ag.KV}
				var di *pbfw.DenseInfo
				if ag.Info {
					di = &pbfw.DenseInfo{}
					if has(ag.Cols, "version") {
						di.Versions = []int32{}
					}
					if has(ag.Cols, "timestamp") {
						di.Timestamps = []int64{}
					}
					if has(ag.Cols, "changeset") {
						di.Changesets = []int64{}
					}
					if has(ag.Cols, "uid") {
						di.UIDs = []int32{}
					}
					if has(ag.Cols, "user_sid") {
						di.UserSIDs = []int32{}
					}
					if has(ag.Cols, "visible") {
						di.Visibles = []bool{}
					}
				}
				for _, n := range ag.Nodes {
					d.IDs = append(d.IDs, p.ID.Up(n.ID))
					d.Lats = append(d.Lats, n.Lat*p.M)
					d.Lons = append(d.Lons, n.Lon*p.M)
					var tags []pbfw.Tag
					for _, t := range n.Tags {
						tags = append(tags, pbfw.Tag{K: uint32(t[0]), V: uint32(t[1])})
					}
					d.Tags = append(d.Tags, tags)
					if di != nil {
						if di.Versions != nil {
							di.Versions = append(di.Versions, int32(p.Ver.Up(n.Ver)))
						}
						if di.Timestamps != nil {
							di.Timestamps = append(di.Timestamps, p.T*n.Ts)
						}
						if di.Changesets != nil {
							di.Changesets = append(di.Changesets, p.CS.Up(n.Cs))
						}
						if di.UIDs != nil {
							di.UIDs = append(di.UIDs, int32(p.UID.Up(n.UID)))
						}
						if di.UserSIDs != nil {
							di.UserSIDs = append(di.UserSIDs, int32(n.USID))
						}
						if di.Visibles != nil {
							di.Visibles = append(di.Visibles, n.Vis)
						}
					}
				}
				d.Info = di
				g.Dense = d
			case "ways":
				for _, w := range ag.Ways {
					pw := pbfw.Way{ID: p.ID.Up(w.ID), Info: p.info(w.AMeta)}
					pw.Keys, pw.Vals = keysVals(w.Tags, w.EE)
					if len(w.Refs) > 0 || w.EE {
						pw.Refs = []int64{}
						for _, r := range w.Refs {
							pw.Refs = append(pw.Refs, p.ID.Up(r))
						}
					}
					if (w.Loc == "both" || w.Loc == "lat") && (len(w.Lats) > 0 || w.EE) {
						pw.Lats = scale(w.Lats, p.M)
					}
					if (w.Loc == "both" || w.Loc == "lon") && (len(w.Lons) > 0 || w.EE) {
						pw.Lons = scale(w.Lons, p.M)
					}
					g.Ways = append(g.Ways, pw)
				}
			case "rels":
				for _, r := range ag.Rels {
					pr := pbfw.Relation{ID: p.ID.Up(r.ID), Info: p.info(r.AMeta)}
					pr.Keys, pr.Vals = keysVals(r.Tags, r.EE)
					if len(r.Mems) > 0 || r.EE {
						pr.RolesSID, pr.MemIDs, pr.Types = []int32{}, []int64{}, []int32{}
						for _, m := range r.Mems {
							pr.Types = append(pr.Types, int32(m[0]))
							pr.MemIDs = append(pr.MemIDs, p.ID.Up(m[1]))
							pr.RolesSID = append(pr.RolesSID, int32(m[2]))
						}
					}
					g.Relations = append(g.Relations, pr)
				}
			case "empty":
			}
			b.Groups = append(b.Groups, g)
		}
		out.Blocks = append(out.Blocks, b)
	}
	return out
}

// ---------------------------------------------------------------------------
// recording
// ---------------------------------------------------------------------------

// RNode / RWay / RRel are the abstract observations of returned objects (the key sets are exactly those of the
// records PbfFormat!DecodeFile produces).
type RNode struct {
	T    string   `json:"t"`
	ID   int64    `json:"id"`
	Lat  int64    `json:"lat"`
	Lon  int64    `json:"lon"`
	Ver  int64    `json:"ver"`
	Ts   []int64  `json:"ts"`
	Cs   int64    `json:"cs"`
	UID  int64    `json:"uid"`
	User int      `json:"user"`
	Vis  bool     `json:"vis"`
	Tags [][2]int `json:"tags"`
}

type RWay struct {
	T     string     `json:"t"`
	ID    int64      `json:"id"`
	Ver   int64      `json:"ver"`
	Ts    []int64    `json:"ts"`
	Cs    int64      `json:"cs"`
	UID   int64      `json:"uid"`
	User  int        `json:"user"`
	Vis   bool       `json:"vis"`
	Tags  [][2]int   `json:"tags"`
	Nodes [][3]int64 `json:"nodes"` // <<ref, lat, lon>>
}

type RRel struct {
	T       string          `json:"t"`
	ID      int64           `json:"id"`
	Ver     int64           `json:"ver"`
	Ts      []int64         `json:"ts"`
	Cs      int64           `json:"cs"`
	UID     int64           `json:"uid"`
	User    int             `json:"user"`
	Vis     bool            `json:"vis"`
	Tags    [][2]int        `json:"tags"`
	Members [][]interface{} `json:"members"` // <<type name, ref, role symbol>>
}

func (p Profile) tags(t osm.Tags) [][2]int {
	out := make([][2]int, 0, len(t))
	for _, x := range t {
		out = append(out, [2]int{p.Sym(x.Key), p.Sym(x.Value)})
	}
	return out
}

// RecObject maps one returned object to its abstract observation.
func (p Profile) RecObject(o osm.Object) interface{} {
	switch e := o.(type) {
	case *osm.Node:
		return RNode{T: "node", ID: p.ID.Down(int64(e.ID)), Lat: p.CoordDown(e.Lat), Lon: p.CoordDown(e.Lon),
			Ver: p.Ver.Down(int64(e.Version)), Ts: p.TimeDown(e.Timestamp, p.T), Cs: p.CS.Down(int64(e.ChangesetID)),
			UID: p.UID.Down(int64(e.UserID)), User: p.Sym(e.User), Vis: e.Visible, Tags: p.tags(e.Tags)}
	case *osm.Way:
		w := RWay{T: "way", ID: p.ID.Down(int64(e.ID)),
			Ver: p.Ver.Down(int64(e.Version)), Ts: p.TimeDown(e.Timestamp, p.T), Cs: p.CS.Down(int64(e.ChangesetID)),
			UID: p.UID.Down(int64(e.UserID)), User: p.Sym(e.User), Vis: e.Visible, Tags: p.tags(e.Tags), Nodes: [][3]int64{}}
		for _, n := range e.Nodes {
			w.Nodes = append(w.Nodes, [3]int64{p.ID.Down(int64(n.ID)), p.CoordDown(n.Lat), p.CoordDown(n.Lon)})
		}
		return w
	case *osm.Relation:
		r := RRel{T: "relation", ID: p.ID.Down(int64(e.ID)),
			Ver: p.Ver.Down(int64(e.Version)), Ts: p.TimeDown(e.Timestamp, p.T), Cs: p.CS.Down(int64(e.ChangesetID)),
			UID: p.UID.Down(int64(e.UserID)), User: p.Sym(e.User), Vis: e.Visible, Tags: p.tags(e.Tags), Members: [][]interface{}{}}
		for _, m := range e.Members {
			r.Members = append(r.Members, []interface{}{string(m.Type), p.ID.Down(m.Ref), p.Sym(m.Role)})
		}
		return r
	}
	return map[string]interface{}{"t": "unknown"}
}

// RHeader is the abstract observation of Scanner.Header().
type RHeader struct {
	Nil  bool     `json:"nil"`  // Header() returned a nil *Header
	BBox []int64  `json:"bbox"` // <<>> (nil Bounds) or <<left,right,top,bottom>>
	Req  []string `json:"req"`
	Opt  []int    `json:"opt"`
	Prog int      `json:"prog"`
	Src  int      `json:"src"`
	RTs  []int64  `json:"rts"` // <<>> zero time
	RSeq int64    `json:"rseq"`
	RURL int      `json:"rurl"`
}

func (p Profile) RecHeader(h *osmpbf.Header) RHeader {
	r := RHeader{BBox: []int64{}, Req: []string{}, Opt: []int{}, RTs: []int64{}}
	if h == nil {
		r.Nil = true
		return r
	}
	if h.Bounds != nil {
		b := h.Bounds
		r.BBox = []int64{coordDown(b.MinLon, p.MB), coordDown(b.MaxLon, p.MB), coordDown(b.MaxLat, p.MB), coordDown(b.MinLat, p.MB)}
	}
	r.Req = append(r.Req, h.RequiredFeatures...)
	for _, s := range h.OptionalFeatures {
		r.Opt = append(r.Opt, p.Sym(s))
	}
	r.Prog, r.Src, r.RURL = p.Sym(h.WritingProgram), p.Sym(h.Source), p.Sym(h.ReplicationBaseURL)
	if !h.ReplicationTimestamp.IsZero() {
		t := h.ReplicationTimestamp
		if t.Nanosecond() != 0 || t.Location() != time.UTC {
			r.RTs = []int64{Unknown}
		} else {
			r.RTs = []int64{p.RTs.Down(t.Unix())}
		}
	}
	if h.ReplicationSeqNum > math.MaxInt64 {
		r.RSeq = Unknown
	} else {
		r.RSeq = p.RSeq.Down(int64(h.ReplicationSeqNum))
	}
	return r
}
