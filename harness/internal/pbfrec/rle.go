package pbfrec

import (
	"encoding/json"
)

// Run is a maximal arithmetic run of consecutive recorded elements: First, then N-1 more elements each differing from
// its predecessor by D in the numeric fields and by nothing else.
type Run struct {
	First interface{} `json:"first"`
	N     int         `json:"n"`
	D     RunDelta    `json:"d"`
}

type RunDelta struct {
	ID   int64 `json:"id"`
	Lat  int64 `json:"lat"`
	Lon  int64 `json:"lon"`
	Ver  int64 `json:"ver"`
	Cs   int64 `json:"cs"`
	UID  int64 `json:"uid"`
	User int64 `json:"user"`
	Ts   int64 `json:"ts"`
}

type flat struct {
	num   RunDelta // the numeric fields (ts: its value, 0 if absent)
	shape string   // everything else: type, visibility, tags, presence of a timestamp, way nodes / members
}

func flatten(e interface{}) flat {
	tsnum := func(ts []int64) int64 {
		if len(ts) == 0 {
			return 0
		}
		return ts[0]
	}
	var f flat
	var rest interface{}
	switch x := e.(type) {
	case RNode:
		f.num = RunDelta{x.ID, x.Lat, x.Lon, x.Ver, x.Cs, x.UID, int64(x.User), tsnum(x.Ts)}
		rest = []interface{}{x.T, x.Vis, x.Tags, len(x.Ts)}
	case RWay:
		f.num = RunDelta{x.ID, 0, 0, x.Ver, x.Cs, x.UID, int64(x.User), tsnum(x.Ts)}
		rest = []interface{}{x.T, x.Vis, x.Tags, len(x.Ts), x.Nodes}
	case RRel:
		f.num = RunDelta{x.ID, 0, 0, x.Ver, x.Cs, x.UID, int64(x.User), tsnum(x.Ts)}
		rest = []interface{}{x.T, x.Vis, x.Tags, len(x.Ts), x.Members}
	default:
		rest = e
	}
	b, _ := json.Marshal(rest)
	f.shape = string(b)
	return f
}

func sub(a, b RunDelta) RunDelta {
	return RunDelta{a.ID - b.ID, a.Lat - b.Lat, a.Lon - b.Lon, a.Ver - b.Ver, a.Cs - b.Cs, a.UID - b.UID, a.User - b.User, a.Ts - b.Ts}
}

// Compress is a lossless run-length encoding of a sequence of recorded elements (RNode / RWay / RRel), greedy from
// the left: a run of one element is extended by any next element of the same shape (which fixes D); a run of two or
// more is extended by the next element iff it has the same shape and differs from the last one by exactly D.
// The same rule is written down as PbfFormatBig!Compress; it knows nothing about what is expected.
func Compress(elems []interface{}) []Run {
	runs := []Run{}
	var last flat
	for _, e := range elems {
		f := flatten(e)
		if n := len(runs); n > 0 && f.shape == last.shape {
			r := &runs[n-1]
			d := sub(f.num, last.num)
			if r.N == 1 {
				r.D, r.N, last = d, 2, f
				continue
			}
			if d == r.D {
				r.N++
				last = f
				continue
			}
		}
		runs = append(runs, Run{First: e, N: 1})
		last = f
	}
	return runs
}
