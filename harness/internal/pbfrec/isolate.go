package pbfrec

import (
	"bufio"
	"bytes"
	"encoding/json"
	"fmt"
	"io"
	"os"
	"os/exec"
	"runtime"
	"strconv"
	"sync"
)

// MapIsolated runs f over the ndjson lines in child processes (the same binary, started with VERIF_CHILD=1) so that a
// panic inside a library goroutine (which kills the whole process) only costs the case it happened on: that case gets
// the record crash(i, line, tail of the child's stderr), and a new child continues after it.  Results are printed in
// input order, one JSON value per line.  readLines is only called in the parent (children get their cases from the
// parent over stdin).  It knows nothing about OSM.
func MapIsolated(readLines func() [][]byte, par int, f func(i int, line []byte) interface{}, crash func(i int, line []byte, stderr string) interface{}) {
	if os.Getenv("VERIF_CHILD") == "1" {
		childLoop(f)
		return
	}
	lines := readLines()
	if par <= 0 {
		par = runtime.NumCPU()
	}
	if par > len(lines) {
		par = len(lines)
	}
	res := make([][]byte, len(lines))
	var wg sync.WaitGroup
	var mu sync.Mutex
	next := 0
	const chunk = 16
	take := func() (lo, hi int) {
		mu.Lock()
		defer mu.Unlock()
		lo = next
		hi = lo + chunk
		if hi > len(lines) {
			hi = len(lines)
		}
		next = hi
		return
	}
	for w := 0; w < par; w++ {
		wg.Add(1)
		go func() {
			defer wg.Done()
			var c *child
			defer func() {
				if c != nil {
					c.stop()
				}
			}()
			for {
				lo, hi := take()
				if lo >= hi {
					return
				}
				for i := lo; i < hi; i++ {
					if c == nil {
						c = startChild()
					}
					out, ok := c.do(i, lines[i])
					if ok {
						res[i] = out
						continue
					}
					tail := c.stop()
					c = nil
					b, err := json.Marshal(crash(i, lines[i], tail))
					if err != nil {
						fmt.Fprintf(os.Stderr, "marshal crash record %d: %v\n", i, err)
						os.Exit(3)
					}
					res[i] = b
				}
			}
		}()
	}
	wg.Wait()
	w := bufio.NewWriterSize(os.Stdout, 1<<20)
	for _, b := range res {
		w.Write(b)
		w.WriteByte('\n')
	}
	w.Flush()
}

type child struct {
	cmd    *exec.Cmd
	in     io.WriteCloser
	out    *bufio.Reader
	stderr *bytes.Buffer
}

func startChild() *child {
	cmd := exec.Command(os.Args[0], os.Args[1:]...)
	cmd.Env = append(os.Environ(), "VERIF_CHILD=1")
	in, err := cmd.StdinPipe()
	if err != nil {
		fmt.Fprintln(os.Stderr, "child stdin:", err)
		os.Exit(3)
	}
	outp, err := cmd.StdoutPipe()
	if err != nil {
		fmt.Fprintln(os.Stderr, "child stdout:", err)
		os.Exit(3)
	}
	c := &child{cmd: cmd, in: in, out: bufio.NewReaderSize(outp, 1<<20), stderr: &bytes.Buffer{}}
	cmd.Stderr = c.stderr
	if err := cmd.Start(); err != nil {
		fmt.Fprintln(os.Stderr, "child start:", err)
		os.Exit(3)
	}
	return c
}

// do sends one line and waits for its answer; ok = false if the child died.
func (c *child) do(i int, line []byte) ([]byte, bool) {
	hdr := strconv.Itoa(i) + "\t"
	if _, err := io.WriteString(c.in, hdr); err != nil {
		return nil, false
	}
	if _, err := c.in.Write(line); err != nil {
		return nil, false
	}
	if _, err := c.in.Write([]byte{'\n'}); err != nil {
		return nil, false
	}
	ans, err := c.out.ReadBytes('\n')
	if err != nil {
		return nil, false
	}
	return bytes.TrimRight(ans, "\n"), true
}

func (c *child) stop() string {
	c.in.Close()
	c.cmd.Wait()
	s := c.stderr.String()
	if len(s) > 1500 {
		s = s[:1500]
	}
	return s
}

func childLoop(f func(i int, line []byte) interface{}) {
	rd := bufio.NewReaderSize(os.Stdin, 1<<20)
	w := bufio.NewWriterSize(os.Stdout, 1<<20)
	for {
		l, err := rd.ReadBytes('\n')
		if len(l) > 0 {
			l = bytes.TrimRight(l, "\n")
			tab := bytes.IndexByte(l, '\t')
			if tab < 0 {
				fmt.Fprintln(os.Stderr, "child: malformed request")
				os.Exit(3)
			}
			i, _ := strconv.Atoi(string(l[:tab]))
			b, merr := json.Marshal(f(i, l[tab+1:]))
			if merr != nil {
				fmt.Fprintf(os.Stderr, "child: marshal result %d: %v\n", i, merr)
				os.Exit(3)
			}
			w.Write(b)
			w.WriteByte('\n')
			w.Flush()
		}
		if err != nil {
			return
		}
	}
}
