package pbfrec

import (
	"bytes"
	"context"
	"hash/crc32"
	"strconv"
	"strings"
	"time"

	"github.com/paulmach/osm"
	"github.com/paulmach/osm/osmpbf"
)

// ScanResult is what one complete use of the public scanner API returned.
type ScanResult struct {
	Header  *osmpbf.Header
	HErr    error
	Objects []osm.Object
	Err     error
	Hang    bool
}

// Scan drives osmpbf.New(ctx, reader, procs) / Header / Scan / Object / Err / Close over the bytes.
// configure (may be nil) sets the public knobs before the first call; onObject (may be nil) is called for every
// returned object right after Object().  headerFirst selects whether Header() is asked before or after the scan.
func Scan(data []byte, procs int, headerFirst bool, configure func(*osmpbf.Scanner), onObject func(osm.Object), deadline time.Duration) ScanResult {
	done := make(chan ScanResult, 1)
	go func() {
		var r ScanResult
		s := osmpbf.New(context.Background(), bytes.NewReader(data), procs)
		if configure != nil {
			configure(s)
		}
		if headerFirst {
			r.Header, r.HErr = s.Header()
		}
		for s.Scan() {
			o := s.Object()
			r.Objects = append(r.Objects, o)
			if onObject != nil {
				onObject(o)
			}
		}
		r.Err = s.Err()
		if !headerFirst {
			r.Header, r.HErr = s.Header()
		}
		s.Close()
		done <- r
	}()
	select {
	case r := <-done:
		return r
	case <-time.After(deadline):
		return ScanResult{Hang: true}
	}
}

func ErrStr(e error) string {
	if e == nil {
		return ""
	}
	return e.Error()
}

// ProfileChooser parses "0,2" (fixed list) or "rotN" (N consecutive profiles starting at crc32(case)+seed mod 4, so the
// choice is a function of the case text and the seed only and a single case can be replayed).
func ProfileChooser(spec string, seed int64) func(line []byte) []int {
	if strings.HasPrefix(spec, "rot") {
		n, err := strconv.Atoi(spec[3:])
		if err != nil || n < 1 || n > 4 {
			panic("bad -profiles " + spec)
		}
		return func(line []byte) []int {
			start := (int64(crc32.ChecksumIEEE(line)) + seed) % 4
			out := make([]int, n)
			for k := 0; k < n; k++ {
				out[k] = int((start + int64(k)) % 4)
			}
			return out
		}
	}
	var fixed []int
	for _, s := range strings.Split(spec, ",") {
		n, err := strconv.Atoi(strings.TrimSpace(s))
		if err != nil {
			panic("bad -profiles " + spec)
		}
		fixed = append(fixed, n)
	}
	return func([]byte) []int { return fixed }
}
