package pbfrec

import (
	"bytes"
	"context"
	"hash/crc32"
	"io"
	"math/rand"
	"strconv"
	"strings"
	"time"

	"github.com/paulmach/osm"
	"github.com/paulmach/osm/osmpbf"
)

// ScanResult is what one complete use of the public scanner API returned.
type ScanResult struct {
	Header  *osmpbf.Header
	HErr    error
	Objects []osm.Object
	Err     error
	Hang    bool
}

// Scan drives osmpbf.New(ctx, reader, procs) / Header / Scan / Object / Err / Close over the bytes.
// configure (may be nil) sets the public knobs before the first call; onObject (may be nil) is called for every
// returned object right after Object().  headerFirst selects whether Header() is asked before or after the scan.
func Scan(data []byte, procs int, headerFirst bool, configure func(*osmpbf.Scanner), onObject func(osm.Object), deadline time.Duration) ScanResult {
	return ScanFrom(bytes.NewReader(data), procs, headerFirst, configure, onObject, deadline)
}

// ScanFrom is Scan over an arbitrary io.Reader (see NewReader for the reader behaviours used as layout variants).
func ScanFrom(rd io.Reader, procs int, headerFirst bool, configure func(*osmpbf.Scanner), onObject func(osm.Object), deadline time.Duration) ScanResult {
	done := make(chan ScanResult, 1)
	go func() {
		var r ScanResult
		s := osmpbf.New(context.Background(), rd, procs)
		if configure != nil {
			configure(s)
		}
		if headerFirst {
			r.Header, r.HErr = s.Header()
		}
		for s.Scan() {
			o := s.Object()
			r.Objects = append(r.Objects, o)
			if onObject != nil {
				onObject(o)
			}
		}
		r.Err = s.Err()
		if !headerFirst {
			r.Header, r.HErr = s.Header()
		}
		s.Close()
		done <- r
	}()
	select {
	case r := <-done:
		return r
	case <-time.After(deadline):
		return ScanResult{Hang: true}
	}
}

func ErrStr(e error) string {
	if e == nil {
		return ""
	}
	return e.Error()
}

// ProfileChooser parses "0,2" (fixed list) or "rotN" (N consecutive profiles starting at crc32(case)+seed mod 4, so the
// choice is a function of the case text and the seed only and a single case can be replayed).
func ProfileChooser(spec string, seed int64) func(line []byte) []int {
	if strings.HasPrefix(spec, "rot") {
		n, err := strconv.Atoi(spec[3:])
		if err != nil || n < 1 || n > 4 {
			panic("bad -profiles " + spec)
		}
		return func(line []byte) []int {
			start := (int64(crc32.ChecksumIEEE(line)) + seed) % 4
			out := make([]int, n)
			for k := 0; k < n; k++ {
				out[k] = int((start + int64(k)) % 4)
			}
			return out
		}
	}
	var fixed []int
	for _, s := range strings.Split(spec, ",") {
		n, err := strconv.Atoi(strings.TrimSpace(s))
		if err != nil {
			panic("bad -profiles " + spec)
		}
		fixed = append(fixed, n)
	}
	return func([]byte) []int { return fixed }
}

// ReaderKinds are the io.Reader behaviours a file is delivered through.  They are a layout parameter like the blob
// encoding: the bytes are the same, only the sizes of the pieces handed out by Read differ.
//
//	bytes    bytes.Reader: every Read is satisfied completely
//	onebyte  one byte per Read (iotest.OneByteReader behaviour)
//	chunk    seeded chunk sizes, 1..7 bytes mixed with large pieces, so that read boundaries fall inside size
//	         prefixes, BlobHeaders and Blobs (a socket / pipe / decompressor)
//	dataeof  every Read is satisfied completely and the Read that hands out the last bytes of the stream returns
//	         io.EOF together with them (iotest.DataErrReader behaviour; HTTP bodies of known length do this)
//	chunkeof the seeded chunks of "chunk", and the last piece comes together with io.EOF
//
// (A reader that sometimes returns (0, nil) is legal but discouraged by io.Reader's contract; it is not used.)
var ReaderKinds = []string{"bytes", "onebyte", "chunk", "dataeof", "chunkeof"}

// ReaderKindFor picks the reader behaviour of a run as a function of the case text, the seed and the run parameters only.
func ReaderKindFor(line []byte, seed int64, profile, procs int) string {
	return ReaderKinds[(int64(crc32.ChecksumIEEE(line)>>3)+seed+int64(profile)+int64(procs))%int64(len(ReaderKinds))]
}

// NewReader delivers data with the given behaviour.
func NewReader(kind string, data []byte, seed int64) io.Reader {
	switch kind {
	case "onebyte":
		return &chunkReader{data: data, next: func() int { return 1 }}
	case "dataeof":
		return &chunkReader{data: data, next: func() int { return 1 << 30 }, eofWithData: true}
	case "chunk", "chunkeof":
		rng := rand.New(rand.NewSource(seed*1000003 + int64(len(data))))
		return &chunkReader{data: data, eofWithData: kind == "chunkeof", next: func() int {
			if rng.Intn(10) < 7 {
				return 1 + rng.Intn(7)
			}
			return 64 + rng.Intn(8192)
		}}
	}
	return bytes.NewReader(data)
}

type chunkReader struct {
	data        []byte
	next        func() int
	eofWithData bool // the Read that returns the final bytes also returns io.EOF
}

func (c *chunkReader) Read(p []byte) (int, error) {
	if len(c.data) == 0 {
		return 0, io.EOF
	}
	if len(p) == 0 {
		return 0, nil
	}
	n := c.next()
	if n > len(p) {
		n = len(p)
	}
	if n > len(c.data) {
		n = len(c.data)
	}
	copy(p, c.data[:n])
	c.data = c.data[n:]
	if c.eofWithData && len(c.data) == 0 {
		return n, io.EOF
	}
	return n, nil
}
