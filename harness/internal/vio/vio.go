// Package vio: ndjson in / ndjson out plumbing shared by the harness commands.
// It knows nothing about OSM or about any property.
package vio

import (
	"bufio"
	"encoding/json"
	"fmt"
	"os"
	"runtime"
	"sync"
)

// ReadLines reads all ndjson lines from stdin.
func ReadLines() [][]byte {
	var out [][]byte
	sc := bufio.NewScanner(os.Stdin)
	sc.Buffer(make([]byte, 1<<20), 1<<28)
	for sc.Scan() {
		b := append([]byte(nil), sc.Bytes()...)
		if len(b) > 0 {
			out = append(out, b)
		}
	}
	return out
}

// Map runs f over the lines with `par` goroutines (0 = NumCPU) and prints the
// results in input order, one JSON value per line.
func Map(lines [][]byte, par int, f func(i int, line []byte) interface{}) {
	if par <= 0 {
		par = runtime.NumCPU()
	}
	res := make([][]byte, len(lines))
	var wg sync.WaitGroup
	ch := make(chan int)
	for w := 0; w < par; w++ {
		wg.Add(1)
		go func() {
			defer wg.Done()
			for i := range ch {
				v := f(i, lines[i])
				b, err := json.Marshal(v)
				if err != nil {
					fmt.Fprintf(os.Stderr, "marshal result %d: %v\n", i, err)
					os.Exit(3)
				}
				res[i] = b
			}
		}()
	}
	for i := range lines {
		ch <- i
	}
	close(ch)
	wg.Wait()
	w := bufio.NewWriterSize(os.Stdout, 1<<20)
	for _, b := range res {
		w.Write(b)
		w.WriteByte('\n')
	}
	w.Flush()
}

// Must aborts the harness (exit 3 = infrastructure) on error.
func Must(err error, what string) {
	if err != nil {
		fmt.Fprintf(os.Stderr, "harness: %s: %v\n", what, err)
		os.Exit(3)
	}
}
