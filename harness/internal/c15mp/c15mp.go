// Package c15mp reaches mputil.Group, the consumer of Way.LineStringAt when multipolygon members are
// grouped (internal/mputil/mputil.go).  The package is internal to github.com/paulmach/osm, so it cannot
// be imported from the harness module; the function is bound by name instead (go:linkname) and the real,
// unmodified code of the repository's working tree runs.  Segment mirrors mputil.Segment field by field;
// if either drifts the build or the first call fails, which the check reports as an infrastructure error,
// never as a verdict.  No property logic here.
package c15mp

import (
	"time"
	_ "unsafe" // go:linkname

	"github.com/paulmach/orb"
	"github.com/paulmach/osm"
	_ "github.com/paulmach/osm/osmgeojson" // links internal/mputil into the binary
)

// Segment mirrors mputil.Segment.
type Segment struct {
	Index       uint32
	Orientation orb.Orientation
	Reversed    bool
	Line        orb.LineString
}

// Group is mputil.Group.
//
//go:linkname Group github.com/paulmach/osm/internal/mputil.Group
func Group(members osm.Members, ways map[osm.WayID]*osm.Way, at time.Time) (outer, inner []Segment, tainted bool)
