// osmdoc: neutral renderer / recorder for C03, C04, C05 and the XmlScan call histories.
//
// Abstract cases (ndjson on stdin) come from OsmDocGen.tla / XmlScanGen.tla.  This command
// builds and reads github.com/paulmach/osm values BY REFLECTION over Go type and field names
// only, prints / parses generic XML and JSON trees, and records what the real decoders,
// encoders and the real streaming scanner did.  It contains no element, attribute or JSON key
// name, no expected value and no property logic.
//
//	-mode c03   {doc, tree, unk}         -> print tree under -layouts seeded layouts; xml.Unmarshal; osmxml.Scanner
//	-mode c04   {root, v}                -> build value; xml.Marshal; generic parse; xml.Unmarshal; osmxml.Scanner
//	-mode c05   {kind:"rt", root, v}     -> build value; json.Marshal; generic parse; json.Unmarshal
//	            {kind:"doc", root, jtree, unk} -> print JSON tree under a seeded layout; json.Unmarshal
//	            -codec std|custom (a codec installed as osm.CustomJSONMarshaler/Unmarshaler), -top std|codec
//	-mode scan  {toks, pieces, ops, idfield} -> run the call history on the real scanner, one byte per read, log events
package main

import (
	"bytes"
	"context"
	"encoding/json"
	"encoding/xml"
	"errors"
	"flag"
	"fmt"
	"io"
	"math/rand"
	"reflect"

	jsoniter "github.com/json-iterator/go"
	"github.com/paulmach/osm"
	"github.com/paulmach/osm/osmxml"
	"verifharness/internal/osmdoc"
	"verifharness/internal/vio"
)

// Go type names only.
var registry = map[string]reflect.Type{
	"OSM": reflect.TypeOf(osm.OSM{}), "Change": reflect.TypeOf(osm.Change{}), "Diff": reflect.TypeOf(osm.Diff{}),
	"Node": reflect.TypeOf(osm.Node{}), "Way": reflect.TypeOf(osm.Way{}), "Relation": reflect.TypeOf(osm.Relation{}),
	"Changeset": reflect.TypeOf(osm.Changeset{}), "Note": reflect.TypeOf(osm.Note{}), "User": reflect.TypeOf(osm.User{}),
	"Bounds": reflect.TypeOf(osm.Bounds{}),
}

var (
	mode    = flag.String("mode", "", "c03|c04|c05|scan")
	seed    = flag.Int64("seed", 1, "seed for symbol tables and layouts")
	layouts = flag.Int("layouts", 1, "layouts per document (c03)")
	codec   = flag.String("codec", "std", "std|custom (c05)")
	top     = flag.String("top", "std", "std|codec: which codec makes the top-level call (c05)")
	par     = flag.Int("par", 0, "parallelism")
	dump    = flag.Bool("dump", false, "include the rendered text in the record (debugging / replay)")
)

var syms *osmdoc.Symbols

type obj = map[string]interface{}

func errText(err error) string {
	if err == nil {
		return ""
	}
	return "E:" + err.Error()
}

func newValue(root string) (reflect.Value, error) {
	t, ok := registry[root]
	if !ok {
		return reflect.Value{}, fmt.Errorf("unknown root type %q", root)
	}
	return reflect.New(t), nil
}

// scanAll runs the real streaming scanner over the text.  Every object handed out by Scan()/Object() is RETAINED and
// reflected into a generic value only after the scan has ended (a caller may keep the objects; whatever the scanner does
// to them afterwards is part of what it "yields").  A snapshot taken at yield time is compared with the final reading:
// mutated = some object changed behind the caller's back.
func scanAll(text []byte) (objs []interface{}, errtxt string, mutated bool) {
	sc := osmxml.New(context.Background(), bytes.NewReader(text))
	defer sc.Close()
	var kept []osm.Object
	var early [][]byte
	for sc.Scan() {
		o := sc.Object()
		kept = append(kept, o)
		snap, _ := json.Marshal(readObject(o))
		early = append(early, snap)
	}
	errtxt = errText(sc.Err())
	objs = []interface{}{}
	for i, o := range kept {
		v := readObject(o)
		late, _ := json.Marshal(v)
		if !bytes.Equal(late, early[i]) {
			mutated = true
		}
		objs = append(objs, v)
	}
	return objs, errtxt, mutated
}

func readObject(o osm.Object) interface{} {
	v := reflect.ValueOf(o)
	if v.Kind() != reflect.Ptr || v.IsNil() {
		return obj{"T": "?", "f": obj{}}
	}
	return obj{"T": v.Elem().Type().Name(), "f": syms.Read(v.Elem())}
}

// crashed: a panic in the library while running a case is the abstract outcome "crash"
func crashed(res *interface{}, c interface{}) {
	if r := recover(); r != nil {
		*res = obj{"case": c, "got": obj{"crash": fmt.Sprint(r)}}
	}
}

func guard(i int, f func() interface{}) interface{} { return f() }

// ------------------------------------------------------------------ c03
type c03Case struct {
	Doc  json.RawMessage `json:"doc"`
	Root string          `json:"-"`
	Tree *osmdoc.XNode   `json:"tree"`
	Unk  []string        `json:"unk"`
}

func runC03(i int, line []byte, lay int) (res interface{}) {
	var c c03Case
	vio.Must(json.Unmarshal(line, &c), "c03 case")
	defer crashed(&res, obj{"doc": c.Doc, "lay": lay, "line": i})
	var hd struct{ T string }
	vio.Must(json.Unmarshal(c.Doc, &hd), "c03 doc")
	l := &osmdoc.Layout{R: rand.New(rand.NewSource(*seed*1000003 + int64(i)*31 + int64(lay))), Compact: lay == 0 && i%4 == 0}
	if len(c.Unk) == 2 {
		l.UnkAttr, l.UnkElem = c.Unk[0], c.Unk[1]
	}
	l.Decl = l.R.Intn(2) == 0
	var b bytes.Buffer
	vio.Must(l.Print(&b, syms, c.Tree, 0), "print tree")
	text := b.Bytes()
	got := obj{}
	pv, err := newValue(hd.T)
	vio.Must(err, "root")
	werr := xml.Unmarshal(text, pv.Interface())
	got["werr"] = errText(werr)
	got["whole"] = syms.Read(pv.Elem())
	got["stream"], got["serr"], got["smut"] = scanAll(text)
	if *dump {
		got["text"] = string(text)
	}
	return obj{"case": obj{"doc": c.Doc, "lay": lay, "line": i}, "got": got}
}

// ------------------------------------------------------------------ c04
type valCase struct {
	Kind  string          `json:"kind"`
	Root  string          `json:"root"`
	V     interface{}     `json:"v"`
	JTree *osmdoc.JNode   `json:"jtree"`
	Unk   string          `json:"unk"`
	Reps  int             `json:"reps"` // decode the text this many times in the same goroutine (0 = once)
	Pre   []*osmdoc.JNode `json:"pre"`  // documents decoded (result discarded) before every repetition, same goroutine
	Raw   json.RawMessage `json:"-"`
}

func runC04(i int, line []byte) (res interface{}) {
	var c valCase
	vio.Must(json.Unmarshal(line, &c), "c04 case")
	defer crashed(&res, json.RawMessage(line))
	pv, err := newValue(c.Root)
	vio.Must(err, "root")
	vio.Must(syms.Build(pv.Elem(), c.V), "build value")
	got := obj{"tree": []interface{}{}, "un": []interface{}{}, "scan": []interface{}{}, "uerr": "", "serr": "", "perr": "", "smut": false, "vmerr": "", "vsame": true}
	text, merr := xml.Marshal(pv.Interface())
	got["merr"] = errText(merr)
	// the same value marshalled BY VALUE (non-addressable, as an interface value) must give the same document
	vtext, vmerr := xml.Marshal(pv.Elem().Interface())
	got["vmerr"] = errText(vmerr)
	got["vsame"] = bytes.Equal(text, vtext)
	if merr == nil {
		if t, perr := osmdoc.ParseXML(syms, text); perr == nil {
			got["tree"] = []interface{}{t}
		} else {
			got["perr"] = errText(perr)
		}
		back, _ := newValue(c.Root)
		uerr := xml.Unmarshal(text, back.Interface())
		got["uerr"] = errText(uerr)
		got["un"] = []interface{}{syms.Read(back.Elem())}
		got["scan"], got["serr"], got["smut"] = scanAll(text)
	}
	if *dump {
		got["text"] = string(text)
	}
	return obj{"case": json.RawMessage(line), "got": got}
}

// ------------------------------------------------------------------ c05
type stdCodec struct{}

func (stdCodec) Marshal(v interface{}) ([]byte, error)      { return json.Marshal(v) }
func (stdCodec) Unmarshal(data []byte, v interface{}) error { return json.Unmarshal(data, v) }

type jcodec interface {
	Marshal(v interface{}) ([]byte, error)
	Unmarshal(data []byte, v interface{}) error
}

// customCodec is the "user-installed codec" configuration: json-iterator (standard-library compatible
// configuration) as unmarshaler; as marshaler an encoder with different byte-level habits (indentation, no HTML
// escaping).  json-iterator cannot be the marshaler in this sandbox: v1.1.11 with the only offline reflect2 (v1.0.1)
// faults inside the Go 1.23 runtime when it iterates a map (see notes/C05.md).
type customCodec struct{}

func (customCodec) Marshal(v interface{}) ([]byte, error) {
	var b bytes.Buffer
	e := json.NewEncoder(&b)
	e.SetEscapeHTML(false)
	e.SetIndent("", " ")
	if err := e.Encode(v); err != nil {
		return nil, err
	}
	return bytes.TrimRight(b.Bytes(), "\n"), nil
}
func (customCodec) Unmarshal(data []byte, v interface{}) error {
	return jsoniter.ConfigCompatibleWithStandardLibrary.Unmarshal(data, v)
}

var topCodec jcodec = stdCodec{}

// a panic inside the library is an outcome of the call ("panic: ..."), recorded like an error
func safeMarshal(v interface{}) (b []byte, err error) {
	defer func() {
		if r := recover(); r != nil {
			b, err = nil, fmt.Errorf("panic: %v", r)
		}
	}()
	return topCodec.Marshal(v)
}

func safeUnmarshal(data []byte, v interface{}) (err error) {
	defer func() {
		if r := recover(); r != nil {
			err = fmt.Errorf("panic: %v", r)
		}
	}()
	return topCodec.Unmarshal(data, v)
}

func runC05(i int, line []byte) (res interface{}) {
	var c valCase
	vio.Must(json.Unmarshal(line, &c), "c05 case")
	defer crashed(&res, json.RawMessage(line))
	got := obj{"tree": []interface{}{}, "un": []interface{}{}, "uerr": "", "merr": "", "perr": "", "vmerr": "", "vsame": true}
	var text []byte
	if c.Kind == "rt" {
		pv, err := newValue(c.Root)
		vio.Must(err, "root")
		vio.Must(syms.Build(pv.Elem(), c.V), "build value")
		var merr error
		text, merr = safeMarshal(pv.Interface())
		got["merr"] = errText(merr)
		// the same value marshalled BY VALUE (non-addressable, as an interface value) must give the same document
		vtext, vmerr := safeMarshal(pv.Elem().Interface())
		got["vmerr"] = errText(vmerr)
		got["vsame"] = bytes.Equal(text, vtext)
		if merr != nil {
			return obj{"case": json.RawMessage(line), "got": got}
		}
		if t, perr := osmdoc.ParseJSON(syms, text); perr == nil {
			got["tree"] = []interface{}{t}
		} else {
			got["perr"] = errText(perr)
		}
	} else {
		l := &osmdoc.JLayout{R: rand.New(rand.NewSource(*seed*1000003 + int64(i)*31)), UnkKey: c.Unk}
		var b bytes.Buffer
		vio.Must(l.Print(&b, syms, c.JTree), "print json tree")
		text = b.Bytes()
		if !json.Valid(text) {
			vio.Must(fmt.Errorf("printer produced invalid JSON: %s", text), "print json tree")
		}
	}
	// un = the result of every repetition (all decoded one after the other in this goroutine); uerr = the first error
	reps := c.Reps
	if reps < 1 {
		reps = 1
	}
	// the preceding documents: printed once, decoded before each repetition; only whether they were accepted is recorded
	var preTexts [][]byte
	for k, t := range c.Pre {
		l := &osmdoc.JLayout{R: rand.New(rand.NewSource(*seed*1000003 + int64(i)*31 + int64(k) + 1)), UnkKey: c.Unk}
		var b bytes.Buffer
		vio.Must(l.Print(&b, syms, t), "print preceding json tree")
		if !json.Valid(b.Bytes()) {
			vio.Must(fmt.Errorf("printer produced invalid JSON: %s", b.Bytes()), "print preceding json tree")
		}
		preTexts = append(preTexts, b.Bytes())
	}
	pres := []interface{}{}
	uns := []interface{}{}
	for k := 0; k < reps; k++ {
		for _, pt := range preTexts {
			pv, err := newValue(c.Root)
			vio.Must(err, "root")
			perr := safeUnmarshal(pt, pv.Interface())
			if k == 0 {
				pres = append(pres, errText(perr))
			}
		}
		back, err := newValue(c.Root)
		vio.Must(err, "root")
		uerr := safeUnmarshal(text, back.Interface())
		if uerr != nil && got["uerr"] == "" {
			got["uerr"] = errText(uerr)
		}
		uns = append(uns, syms.Read(back.Elem()))
	}
	got["un"] = uns
	got["pre"] = pres
	if *dump {
		got["text"] = string(text)
	}
	return obj{"case": json.RawMessage(line), "got": got}
}

// ------------------------------------------------------------------ scan
type op struct {
	O string `json:"o"`
	J int    `json:"j"`
}
type scanCase struct {
	Toks    json.RawMessage `json:"toks"`
	Pieces  []*osmdoc.XNode `json:"pieces"`
	Ops     []op            `json:"ops"`
	IDField string          `json:"idfield"`
}
type event struct {
	E   string `json:"e"`
	Op  string `json:"op"`
	J   int    `json:"j"`
	Ret string `json:"ret"`
	ID  string `json:"id"`
}

// pieceReader hands out one byte per Read and reports when the first byte of a piece is delivered.
type pieceReader struct {
	data   []byte
	starts map[int]int // offset -> piece number (1-based)
	pos    int
	armed  int // cancel when this piece (len+1 = end of input) is reached
	cancel context.CancelFunc
	log    *[]event
	n      int
}

func (r *pieceReader) Read(p []byte) (int, error) {
	if len(p) == 0 {
		return 0, nil
	}
	if r.pos >= len(r.data) {
		if r.armed == r.n+1 {
			r.armed = 0
			r.cancel()
			*r.log = append(*r.log, event{E: "fired", J: r.n + 1})
		}
		*r.log = append(*r.log, event{E: "eof"})
		return 0, io.EOF
	}
	if j, ok := r.starts[r.pos]; ok {
		if r.armed == j {
			r.armed = 0
			r.cancel()
			*r.log = append(*r.log, event{E: "fired", J: j})
		}
		*r.log = append(*r.log, event{E: "tok", J: j})
	}
	p[0] = r.data[r.pos]
	r.pos++
	return 1, nil
}

func runScan(i int, line []byte) interface{} {
	var c scanCase
	vio.Must(json.Unmarshal(line, &c), "scan case")
	l := &osmdoc.Layout{R: rand.New(rand.NewSource(1)), Compact: true}
	var b bytes.Buffer
	starts := map[int]int{}
	for k, p := range c.Pieces {
		starts[b.Len()] = k + 1
		vio.Must(l.Print(&b, syms, p, 1), "print piece")
	}
	log := []event{}
	ctx, cancel := context.WithCancel(context.Background())
	defer cancel()
	rd := &pieceReader{data: b.Bytes(), starts: starts, cancel: cancel, log: &log, n: len(c.Pieces)}
	sc := osmxml.New(ctx, rd)
	for _, o := range c.Ops {
		switch o.O {
		case "Scan":
			log = append(log, event{E: "call", Op: "Scan"})
			ok := sc.Scan()
			ev := event{E: "ret", Op: "Scan", Ret: fmt.Sprint(ok), ID: "nil"}
			if ok {
				ev.ID = "?"
				v := reflect.ValueOf(sc.Object())
				if v.Kind() == reflect.Ptr && !v.IsNil() {
					if f := v.Elem().FieldByName(c.IDField); f.IsValid() {
						if s, isStr := syms.Read(f).(string); isStr {
							ev.ID = s
						}
					}
				}
			}
			log = append(log, ev)
		case "Close":
			ret := "nil"
			if err := sc.Close(); err != nil {
				ret = "err"
			}
			log = append(log, event{E: "ret", Op: "Close", Ret: ret, ID: "nil"})
		case "Err":
			err := sc.Err()
			ret := "err"
			switch {
			case err == nil:
				ret = "nil"
			case errors.Is(err, osm.ErrScannerClosed):
				ret = "closed"
			case errors.Is(err, context.Canceled), errors.Is(err, context.DeadlineExceeded):
				ret = "ctx"
			}
			log = append(log, event{E: "ret", Op: "Err", Ret: ret, ID: "nil"})
		case "Cancel":
			cancel()
			log = append(log, event{E: "cancel"})
		case "CancelAt":
			rd.armed = o.J
		default:
			vio.Must(fmt.Errorf("unknown op %q", o.O), "scan case")
		}
	}
	res := obj{"case": obj{"toks": c.Toks, "ops": c.Ops, "line": i}, "ev": log}
	if *dump {
		res["text"] = b.String()
	}
	return res
}

func main() {
	flag.Parse()
	syms = osmdoc.NewSymbols(*seed)
	if *codec == "custom" {
		c := customCodec{}
		osm.CustomJSONMarshaler = c
		osm.CustomJSONUnmarshaler = c
		if *top == "codec" {
			topCodec = c
		}
	}
	lines := vio.ReadLines()
	switch *mode {
	case "c03":
		// one record per (document, layout)
		n := *layouts
		idx := make([][]byte, 0, len(lines)*n)
		for _, l := range lines {
			for k := 0; k < n; k++ {
				idx = append(idx, l)
			}
		}
		vio.Map(idx, *par, func(i int, line []byte) interface{} {
			return guard(i, func() interface{} { return runC03(i/n, line, i%n) })
		})
	case "c04":
		vio.Map(lines, *par, func(i int, line []byte) interface{} { return guard(i, func() interface{} { return runC04(i, line) }) })
	case "c05":
		vio.Map(lines, *par, func(i int, line []byte) interface{} { return guard(i, func() interface{} { return runC05(i, line) }) })
	case "scan":
		vio.Map(lines, *par, func(i int, line []byte) interface{} { return guard(i, func() interface{} { return runScan(i, line) }) })
	default:
		vio.Must(fmt.Errorf("unknown mode %q", *mode), "flags")
	}
}
