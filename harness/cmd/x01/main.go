// x01: replays call sequences generated from spec/OsmCore.tla on real osm.OSM / osm.Change /
// osm.HistoryDatasource / osm.Tags / osm.Members / osm.WayNodes values (one fresh set per sequence) and
// records, after every call, the projected state of the containers and the result of every query.
//
// Neutral renderer + recorder: no expected values, no property logic.  Symbol maps only:
//
//	serial  <-> pointer identity of the object created for it (unknown pointer: -1)
//	id i    <-> i*1000003 + 17        version v <-> 5*v        coordinate a <-> 12.5*a   (not in the image: -1 / -99)
//	kind    <-> Go type / osm.Type
package main

import (
	"context"
	"encoding/json"
	"errors"
	"fmt"
	"math"
	"sort"

	"github.com/paulmach/orb/maptile"
	"github.com/paulmach/osm"
	"verifharness/internal/vio"
)

type Op struct {
	Op  string `json:"op"`
	To  string `json:"to,omitempty"`
	S   int    `json:"s,omitempty"`
	K   string `json:"k,omitempty"`
	ID  int64  `json:"id,omitempty"`
	V   int    `json:"v,omitempty"`
	Vis bool   `json:"vis,omitempty"`
	Key string `json:"key,omitempty"`
	Val string `json:"val,omitempty"`
	Lat int    `json:"lat,omitempty"`
	Lon int    `json:"lon,omitempty"`
}

type Case struct {
	Ops   []json.RawMessage `json:"ops"`
	QKeys []string          `json:"qkeys"`
	QIDs  []int64           `json:"qids"`
	Grid  []int             `json:"grid"`
}

type J = map[string]interface{}
type L = []interface{}

// ---- symbol maps
const idMul, idAdd, verMul, coordMul = 1000003, 17, 5, 12.5

func cid(i int64) int64 { return i*idMul + idAdd }
func aid(c int64) int64 {
	if (c-idAdd)%idMul != 0 || c < idAdd {
		return -1
	}
	return (c - idAdd) / idMul
}
func cver(v int) int { return v * verMul }
func aver(c int) int {
	if c%verMul != 0 || c < 0 {
		return -1
	}
	return c / verMul
}
func ccoord(a int) float64 { return float64(a) * coordMul }
func acoord(c float64) int {
	a := c / coordMul
	if a != math.Trunc(a) || math.Abs(a) > 50 {
		return -99
	}
	return int(a)
}

type world struct {
	heap   []osm.Object
	serial map[osm.Object]int
	doc    *osm.OSM
	chg    *osm.Change
	ds     *osm.HistoryDatasource
	way    *osm.Way      // probe: Tags, Nodes
	rel    *osm.Relation // probe: Members
	c      *Case
}

func newWorld(c *Case) *world {
	return &world{serial: map[osm.Object]int{}, doc: &osm.OSM{}, chg: &osm.Change{}, way: &osm.Way{ID: 1}, rel: &osm.Relation{ID: 1}, c: c}
}

func (w *world) ser(o osm.Object) int {
	if s, ok := w.serial[o]; ok {
		return s
	}
	return -1
}

func (w *world) create(o Op) osm.Object {
	var obj osm.Object
	switch o.K {
	case "node":
		obj = &osm.Node{ID: osm.NodeID(cid(o.ID)), Version: cver(o.V), Visible: o.Vis}
	case "way":
		obj = &osm.Way{ID: osm.WayID(cid(o.ID)), Version: cver(o.V), Visible: o.Vis}
	case "relation":
		obj = &osm.Relation{ID: osm.RelationID(cid(o.ID)), Version: cver(o.V), Visible: o.Vis}
	case "changeset":
		obj = &osm.Changeset{ID: osm.ChangesetID(cid(o.ID))}
	case "note":
		obj = &osm.Note{ID: osm.NoteID(cid(o.ID))}
	case "user":
		obj = &osm.User{ID: osm.UserID(cid(o.ID))}
	case "bounds":
		obj = &osm.Bounds{MinLat: -1, MaxLat: 1, MinLon: -2, MaxLon: 2}
	default:
		vio.Must(fmt.Errorf("unknown kind %q", o.K), "case")
	}
	w.heap = append(w.heap, obj)
	w.serial[obj] = len(w.heap)
	return obj
}

func (w *world) container(name string) *osm.OSM {
	switch name {
	case "doc":
		return w.doc
	case "create":
		return w.chg.Create
	case "modify":
		return w.chg.Modify
	case "delete":
		return w.chg.Delete
	}
	vio.Must(fmt.Errorf("unknown container %q", name), "case")
	return nil
}

// ---- the calls
func (w *world) do(o Op) {
	switch o.Op {
	case "append":
		var obj osm.Object
		if o.S == len(w.heap)+1 {
			obj = w.create(o)
		} else if o.S >= 1 && o.S <= len(w.heap) {
			obj = w.heap[o.S-1]
		} else {
			vio.Must(fmt.Errorf("serial %d out of range", o.S), "case")
		}
		switch o.To {
		case "doc":
			w.doc.Append(obj)
		case "create":
			w.chg.AppendCreate(obj)
		case "modify":
			w.chg.AppendModify(obj)
		case "delete":
			w.chg.AppendDelete(obj)
		default:
			vio.Must(fmt.Errorf("unknown container %q", o.To), "case")
		}
	case "sort":
		c := w.container(o.To)
		if c == nil {
			vio.Must(fmt.Errorf("sort on nil container %q", o.To), "case")
		}
		switch o.K {
		case "node":
			c.Nodes.SortByIDVersion()
		case "way":
			c.Ways.SortByIDVersion()
		case "relation":
			c.Relations.SortByIDVersion()
		default:
			vio.Must(fmt.Errorf("sort of kind %q", o.K), "case")
		}
	case "docds":
		w.ds = w.doc.HistoryDatasource()
	case "chgds":
		w.ds = w.chg.HistoryDatasource()
	case "tagadd":
		w.way.Tags = append(w.way.Tags, osm.Tag{Key: o.Key, Value: o.Val})
	case "tagsort":
		w.way.Tags.SortByKeyValue()
	case "refadd":
		w.rel.Members = append(w.rel.Members, osm.Member{Type: osm.Type(o.K), Ref: cid(o.ID), Version: cver(o.V), Lat: ccoord(o.Lat), Lon: ccoord(o.Lon)})
		if o.K == "node" {
			w.way.Nodes = append(w.way.Nodes, osm.WayNode{ID: osm.NodeID(cid(o.ID)), Version: cver(o.V), Lat: ccoord(o.Lat), Lon: ccoord(o.Lon)})
		}
	default:
		vio.Must(fmt.Errorf("unknown op %q", o.Op), "case")
	}
}

// ---- projection of the state
func (w *world) objRec(o osm.Object) J {
	switch x := o.(type) {
	case *osm.Node:
		return J{"k": "node", "id": aid(int64(x.ID)), "v": aver(x.Version), "vis": x.Visible}
	case *osm.Way:
		return J{"k": "way", "id": aid(int64(x.ID)), "v": aver(x.Version), "vis": x.Visible}
	case *osm.Relation:
		return J{"k": "relation", "id": aid(int64(x.ID)), "v": aver(x.Version), "vis": x.Visible}
	case *osm.Changeset:
		return J{"k": "changeset", "id": aid(int64(x.ID)), "v": 0, "vis": false}
	case *osm.Note:
		return J{"k": "note", "id": aid(int64(x.ID)), "v": 0, "vis": false}
	case *osm.User:
		return J{"k": "user", "id": aid(int64(x.ID)), "v": 0, "vis": false}
	case *osm.Bounds:
		return J{"k": "bounds", "id": 0, "v": 0, "vis": false}
	}
	return J{"k": "?", "id": -1, "v": -1, "vis": false}
}

func (w *world) osmRec(o *osm.OSM) J {
	r := J{"nil": o == nil, "bounds": 0, "node": L{}, "way": L{}, "relation": L{}, "changeset": L{}, "note": L{}, "user": L{}}
	if o == nil {
		return r
	}
	if o.Bounds != nil {
		r["bounds"] = w.ser(o.Bounds)
	}
	var a L
	a = L{}
	for _, x := range o.Nodes {
		a = append(a, w.ser(x))
	}
	r["node"] = a
	a = L{}
	for _, x := range o.Ways {
		a = append(a, w.ser(x))
	}
	r["way"] = a
	a = L{}
	for _, x := range o.Relations {
		a = append(a, w.ser(x))
	}
	r["relation"] = a
	a = L{}
	for _, x := range o.Changesets {
		a = append(a, w.ser(x))
	}
	r["changeset"] = a
	a = L{}
	for _, x := range o.Notes {
		a = append(a, w.ser(x))
	}
	r["note"] = a
	a = L{}
	for _, x := range o.Users {
		a = append(a, w.ser(x))
	}
	r["user"] = a
	return r
}

func (w *world) dsRec() J {
	r := J{"nil": w.ds == nil, "node": L{}, "way": L{}, "relation": L{}}
	if w.ds == nil {
		return r
	}
	{
		ids := make([]int64, 0)
		for id := range w.ds.Nodes {
			ids = append(ids, int64(id))
		}
		sort.Slice(ids, func(i, j int) bool { return ids[i] < ids[j] })
		a := L{}
		for _, id := range ids {
			h := L{}
			for _, x := range w.ds.Nodes[osm.NodeID(id)] {
				h = append(h, w.ser(x))
			}
			a = append(a, L{aid(id), h})
		}
		r["node"] = a
	}
	{
		ids := make([]int64, 0)
		for id := range w.ds.Ways {
			ids = append(ids, int64(id))
		}
		sort.Slice(ids, func(i, j int) bool { return ids[i] < ids[j] })
		a := L{}
		for _, id := range ids {
			h := L{}
			for _, x := range w.ds.Ways[osm.WayID(id)] {
				h = append(h, w.ser(x))
			}
			a = append(a, L{aid(id), h})
		}
		r["way"] = a
	}
	{
		ids := make([]int64, 0)
		for id := range w.ds.Relations {
			ids = append(ids, int64(id))
		}
		sort.Slice(ids, func(i, j int) bool { return ids[i] < ids[j] })
		a := L{}
		for _, id := range ids {
			h := L{}
			for _, x := range w.ds.Relations[osm.RelationID(id)] {
				h = append(h, w.ser(x))
			}
			a = append(a, L{aid(id), h})
		}
		r["relation"] = a
	}
	return r
}

func (w *world) state() J {
	heap := L{}
	for _, o := range w.heap {
		heap = append(heap, w.objRec(o))
	}
	tags := L{}
	for _, t := range w.way.Tags {
		tags = append(tags, L{t.Key, t.Value})
	}
	refs := L{}
	for _, m := range w.rel.Members {
		refs = append(refs, J{"k": string(m.Type), "id": aid(m.Ref), "v": aver(m.Version), "lat": acoord(m.Lat), "lon": acoord(m.Lon)})
	}
	return J{"heap": heap, "doc": w.osmRec(w.doc), "create": w.osmRec(w.chg.Create), "modify": w.osmRec(w.chg.Modify),
		"delete": w.osmRec(w.chg.Delete), "ds": w.dsRec(), "tags": tags, "refs": refs}
}

// ---- queries
func kindOf(t osm.Type) string { return string(t) }

func fidRec(id osm.FeatureID) L { return L{kindOf(id.Type()), aid(id.Ref())} }
func eidRec(id osm.ElementID) L { return L{kindOf(id.Type()), aid(id.Ref()), aver(id.Version())} }
func oidRec(id osm.ObjectID) L {
	if id.Type() == osm.TypeBounds {
		return L{"bounds", id.Ref(), id.Version()}
	}
	return L{kindOf(id.Type()), aid(id.Ref()), aver(id.Version())}
}
func fidList(ids osm.FeatureIDs) L {
	a := L{}
	for _, id := range ids {
		a = append(a, fidRec(id))
	}
	return a
}
func eidList(ids osm.ElementIDs) L {
	a := L{}
	for _, id := range ids {
		a = append(a, eidRec(id))
	}
	return a
}
func (w *world) objList(os osm.Objects) L {
	a := L{}
	for _, o := range os {
		a = append(a, w.ser(o))
	}
	return a
}
func (w *world) elemList(es osm.Elements) L {
	a := L{}
	for _, e := range es {
		a = append(a, w.ser(e))
	}
	return a
}

func (w *world) queries() J {
	q := J{}
	d := w.doc
	objs := d.Objects()
	q["objs"] = w.objList(objs)
	elems := d.Elements()
	q["elems"] = w.elemList(elems)
	q["fids"] = fidList(d.FeatureIDs())
	q["eids"] = eidList(d.ElementIDs())
	oids := L{}
	for _, id := range objs.ObjectIDs() {
		oids = append(oids, oidRec(id))
	}
	q["oids"] = oids
	q["e_eids"] = eidList(elems.ElementIDs())
	q["e_fids"] = fidList(elems.FeatureIDs())
	ids := func(n int, f func(i int) int64) L {
		a := L{}
		for i := 0; i < n; i++ {
			a = append(a, aid(f(i)))
		}
		return a
	}
	nids, wids, rids, cids := d.Nodes.IDs(), d.Ways.IDs(), d.Relations.IDs(), d.Changesets.IDs()
	q["k_ids"] = J{"node": ids(len(nids), func(i int) int64 { return int64(nids[i]) }), "way": ids(len(wids), func(i int) int64 { return int64(wids[i]) }),
		"relation": ids(len(rids), func(i int) int64 { return int64(rids[i]) }), "changeset": ids(len(cids), func(i int) int64 { return int64(cids[i]) })}
	q["k_fids"] = J{"node": fidList(d.Nodes.FeatureIDs()), "way": fidList(d.Ways.FeatureIDs()), "relation": fidList(d.Relations.FeatureIDs())}
	q["k_eids"] = J{"node": eidList(d.Nodes.ElementIDs()), "way": eidList(d.Ways.ElementIDs()), "relation": eidList(d.Relations.ElementIDs())}
	se := d.Elements()
	se.Sort()
	q["s_elems"] = w.elemList(se)
	sei := d.ElementIDs()
	sei.Sort()
	q["s_eids"] = eidList(sei)
	sfi := d.FeatureIDs()
	sfi.Sort()
	q["s_fids"] = fidList(sfi)
	{
		a, b, c := d.ElementIDs().Counts()
		q["cnt_e"] = L{a, b, c}
		a, b, c = d.FeatureIDs().Counts()
		q["cnt_f"] = L{a, b, c}
	}
	q["cobjs"] = J{"create": w.objList(w.chg.Create.Objects()), "modify": w.objList(w.chg.Modify.Objects()), "delete": w.objList(w.chg.Delete.Objects())}

	// histories
	hist := L{}
	if w.ds != nil {
		ctx := context.Background()
		entry := func(k string, id int64, n int, ser func(i int) int, err error) {
			switch {
			case err == nil:
				h := L{}
				for i := 0; i < n; i++ {
					h = append(h, ser(i))
				}
				hist = append(hist, L{k, id, 1, h})
			case w.ds.NotFound(err):
				hist = append(hist, L{k, id, 0, L{}})
			default:
				hist = append(hist, L{k, id, -1, L{}})
			}
		}
		for _, id := range w.c.QIDs {
			ns, err := w.ds.NodeHistory(ctx, osm.NodeID(cid(id)))
			entry("node", id, len(ns), func(i int) int { return w.ser(ns[i]) }, err)
		}
		for _, id := range w.c.QIDs {
			ws, err := w.ds.WayHistory(ctx, osm.WayID(cid(id)))
			entry("way", id, len(ws), func(i int) int { return w.ser(ws[i]) }, err)
		}
		for _, id := range w.c.QIDs {
			rs, err := w.ds.RelationHistory(ctx, osm.RelationID(cid(id)))
			entry("relation", id, len(rs), func(i int) int { return w.ser(rs[i]) }, err)
		}
	}
	q["hist"] = hist

	// tags
	ts := w.way.Tags
	find, findtag, has := L{}, L{}, L{}
	for _, k := range w.c.QKeys {
		find = append(find, L{k, ts.Find(k)})
		if t := ts.FindTag(k); t != nil {
			findtag = append(findtag, L{t.Key, true, t.Value})
		} else {
			findtag = append(findtag, L{k, false, ""})
		}
		has = append(has, L{k, ts.HasTag(k)})
	}
	q["find"], q["findtag"], q["has"] = find, findtag, has
	m := ts.Map()
	keys := make([]string, 0, len(m))
	for k := range m {
		keys = append(keys, k)
	}
	sort.Strings(keys)
	tmap := L{}
	for _, k := range keys {
		tmap = append(tmap, L{k, m[k]})
	}
	q["tmap"] = tmap
	q["interesting"] = ts.AnyInteresting()

	// references
	q["m_fids"] = fidList(w.rel.Members.FeatureIDs())
	q["m_eids"] = eidList(w.rel.Members.ElementIDs())
	wn := w.way.Nodes
	wnids := L{}
	for _, id := range wn.NodeIDs() {
		wnids = append(wnids, aid(int64(id)))
	}
	q["wn_ids"] = wnids
	q["wn_fids"] = fidList(wn.FeatureIDs())
	q["wn_eids"] = eidList(wn.ElementIDs())
	b := wn.Bounds()
	if b.MinLat > b.MaxLat || b.MinLon > b.MaxLon {
		q["wn_bounds"] = L{true, 0, 0, 0, 0}
	} else {
		q["wn_bounds"] = L{false, acoord(b.MinLat), acoord(b.MaxLat), acoord(b.MinLon), acoord(b.MaxLon)}
	}
	ls := L{}
	for _, p := range w.way.LineString() {
		ls = append(ls, L{acoord(p[0]), acoord(p[1])})
	}
	q["ls"] = ls
	contains := L{}
	for _, la := range w.c.Grid {
		for _, lo := range w.c.Grid {
			if b.ContainsNode(&osm.Node{Lat: ccoord(la), Lon: ccoord(lo)}) {
				contains = append(contains, L{la, lo})
			}
		}
	}
	q["contains"] = contains
	return q
}

// state independent
func pure() J {
	tiles := L{}
	r4 := func(f float64) int { return int(math.Round(f * 10000)) }
	for z := 0; z <= 2; z++ {
		for x := 0; x <= 4; x++ {
			for y := 0; y <= 4; y++ {
				b, err := osm.NewBoundsFromTile(maptile.New(uint32(x), uint32(y), maptile.Zoom(z)))
				if err != nil {
					tiles = append(tiles, L{z, x, y, true, 0, 0, 0, 0})
				} else {
					tiles = append(tiles, L{z, x, y, false, r4(b.MinLon), r4(b.MaxLon), r4(b.MinLat), r4(b.MaxLat)})
				}
			}
		}
	}
	ctx := context.Background()
	d1, d2 := &osm.HistoryDatasource{}, (&osm.OSM{Nodes: osm.Nodes{{ID: 5, Version: 1}}}).HistoryDatasource()
	_, e1 := d1.NodeHistory(ctx, 1)
	_, e2 := d2.WayHistory(ctx, 1)
	nf := L{d1.NotFound(nil), d1.NotFound(errors.New("osm: feature not found")), d1.NotFound(fmt.Errorf("lookup: %w", e1)), d1.NotFound(e1), d1.NotFound(e2)}
	return J{"tiles": tiles, "nf": nf}
}

func run(line []byte) (got L) {
	var c Case
	vio.Must(json.Unmarshal(line, &c), "case")
	w := newWorld(&c)
	got = L{}
	defer func() {
		if r := recover(); r != nil {
			got = append(got, J{"e": "crash", "at": len(got), "msg": fmt.Sprint(r)})
		}
	}()
	got = append(got, J{"e": "reset", "st": w.state(), "q": w.queries(), "p": pure()})
	for _, raw := range c.Ops {
		var o Op
		vio.Must(json.Unmarshal(raw, &o), "op")
		w.do(o)
		st := w.state()
		q := w.queries()
		got = append(got, J{"e": "op", "op": raw, "st": st, "q": q})
	}
	return got
}

func main() {
	vio.Map(vio.ReadLines(), 0, func(i int, line []byte) interface{} {
		return J{"case": json.RawMessage(line), "got": run(line)}
	})
}
