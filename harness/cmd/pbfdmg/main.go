// pbfdmg renders files in which one block carries one of the damage classes of C06 and scans them
// with the real scanner.  One case per line on stdin:
//
//	{"kind":"dmg","class":"<name>","pos":k,"nb":4,"n":procs,"zlib":bool,"variant":v}
//
// stdout: {"case":..., "run":{cfg,H,reads,rem,outcome,resume}} in the vocabulary of PbfPipeline!RunOK:
// cfg.blocks = intact blocks ("data", n objects) with the damaged one marked "bad".
// The damaged block is otherwise a normal block; which block is damaged and how is all this program
// knows -- it has no expectation about what the scanner does with it.
package main

import (
	"bufio"
	"context"
	"encoding/json"
	"errors"
	"io"
	"os"
	"reflect"
	"time"

	"github.com/paulmach/osm"
	"github.com/paulmach/osm/osmpbf"
	"verifharness/internal/pbfw"
	"verifharness/internal/rdr"
	"verifharness/internal/vio"
)

type M = map[string]interface{}

type Case struct {
	Kind    string `json:"kind"`
	Class   string `json:"class"`
	Pos     int    `json:"pos"` // 1-based block position to damage; 0 = the header block
	NB      int    `json:"nb"`
	N       int    `json:"n"`
	Zlib    bool   `json:"zlib"`
	Variant int    `json:"variant"`
}

// Classes lists every damage class this program can apply (printed by kind "classes").
var Classes = []string{
	"prefix-oversized", "prefix-topbit", "prefix-allones", "datasize-oversized", "datasize-negative", "datasize-missing",
	"rawsize-too-small", "rawsize-too-large", "rawsize-negative", "rawsize-zero", "rawsize-group-boundary",
	"zlib-corrupt", "zlib-truncated", "zlib-badheader", "zlib-bad-checksum", "encoding-lzma", "encoding-none",
	"blocktype-unknown", "blocktype-header-again",
	"dense-no-ids", "dense-no-lats", "dense-no-lons", "dense-short-lats", "dense-short-lons",
	"dense-usersid-oor", "dense-keyvals-oor", "dense-keyvals-odd", "dense-keyvals-short", "dense-short-versions", "dense-short-usersids",
	"way-key-oor", "way-val-oor", "way-keys-longer", "way-usersid-oor", "way-lats-longer",
	"rel-key-oor", "rel-usersid-oor", "rel-role-oor", "rel-roles-longer", "rel-memids-shorter",
	"stringtable-missing", "payload-truncated", "payload-garbage",
	"group-plain-nodes", "prefix-in-band", "datasize-in-band",
}

// Tolerated lists malformations the property does not name (a surplus column entry the decoder may ignore);
// they are not used as damage classes.
var Tolerated = []string{"dense-long-lats", "way-vals-longer", "way-lons-shorter", "rel-types-longer", "rel-type-invalid"}

var HeaderClasses = []string{"feature-unsupported", "header-zlib-corrupt", "header-rawsize-wrong", "header-datasize-negative", "header-payload-garbage"}

const perBlock = 4 // objects per intact block: 2 dense nodes, 1 way, 1 relation

func objID(blk, idx int) int64 { return int64(blk*100 + idx) }

func block(b int, zl bool) *pbfw.Block {
	st := []string{"", "k", "v", "user", "role"}
	d := &pbfw.Dense{
		IDs: []int64{objID(b, 1), objID(b, 2)}, Lats: []int64{100, 200}, Lons: []int64{300, 400},
		Info: &pbfw.DenseInfo{Versions: []int32{1, 2}, Timestamps: []int64{10, 20}, Changesets: []int64{5, 6}, UIDs: []int32{7, 7},
			UserSIDs: []int32{3, 3}, Visibles: []bool{true, true}},
		KeysVals: true, Tags: [][]pbfw.Tag{{{K: 1, V: 2}}, {}},
	}
	w := pbfw.Way{ID: objID(b, 3), Keys: []uint32{1}, Vals: []uint32{2}, Refs: []int64{objID(b, 1), objID(b, 2)},
		Info: &pbfw.Info{Version: pbfw.I32(1), UserSID: pbfw.U32(3)}, Lats: []int64{100, 200}, Lons: []int64{300, 400}}
	r := pbfw.Relation{ID: objID(b, 4), Keys: []uint32{1}, Vals: []uint32{2}, RolesSID: []int32{4, 4}, MemIDs: []int64{objID(b, 1), objID(b, 3)},
		Types: []int32{0, 1}, Info: &pbfw.Info{Version: pbfw.I32(1), UserSID: pbfw.U32(3)}}
	return &pbfw.Block{Strings: st, Zlib: zl, Groups: []pbfw.Group{{Dense: d}, {Ways: []pbfw.Way{w}}, {Relations: []pbfw.Relation{r}}}}
}

func damage(b *pbfw.Block, class string) bool {
	d := b.Groups[0].Dense
	w := &b.Groups[1].Ways[0]
	r := &b.Groups[2].Relations[0]
	switch class {
	case "prefix-oversized":
		v := uint32(70000)
		b.Damage.PrefixOverride = &v
	case "prefix-topbit":
		v := uint32(0x80000010)
		b.Damage.PrefixOverride = &v
	case "prefix-allones":
		v := uint32(0xffffffff)
		b.Damage.PrefixOverride = &v
	case "prefix-in-band":
		// sizes inside the bands the format allows but advises against (header 32..64 KiB, blob 16..32 MiB) that the
		// stream does not hold: a reader must run into the end of input, not into its own buffer limits
		v := uint32(40000)
		b.Damage.PrefixOverride = &v
	case "datasize-in-band":
		b.Damage.DataSizeOverride = pbfw.I32(20 << 20)
	case "datasize-oversized":
		b.Damage.DataSizeOverride = pbfw.I32(40 << 20)
	case "datasize-negative":
		b.Damage.DataSizeOverride = pbfw.I32(-5)
	case "datasize-missing":
		b.Damage.OmitDataSize = true
	case "rawsize-too-small":
		b.Zlib = true
		b.Damage.RawSizeOverride = pbfw.I32(7)
	case "rawsize-too-large":
		b.Zlib = true
		b.Damage.RawSizeOverride = pbfw.I32(100000)
	case "rawsize-negative":
		b.Zlib = true
		b.Damage.RawSizeOverride = pbfw.I32(-3)
	case "rawsize-zero":
		b.Zlib = true
		b.Damage.RawSizeOverride = pbfw.I32(0)
	case "rawsize-group-boundary":
		// declared size = the message up to the end of its first primitive group: what is inflated up to there is
		// itself a well-formed PrimitiveBlock, only the declared size tells the reader that the blob is damaged
		b.Zlib = true
		short := *b
		short.Groups = b.Groups[:1]
		b.Damage.RawSizeOverride = pbfw.I32(int32(len(short.PrimitiveBlockBytes())))
	case "rawsize-missing":
		b.Zlib = true
		b.Damage.OmitRawSize = true
	case "zlib-bad-checksum":
		b.Zlib = true
		b.Damage.CorruptZlib = 4
	case "zlib-corrupt":
		b.Zlib = true
		b.Damage.CorruptZlib = 1
	case "zlib-truncated":
		b.Zlib = true
		b.Damage.CorruptZlib = 2
	case "zlib-badheader":
		b.Zlib = true
		b.Damage.CorruptZlib = 3
	case "encoding-lzma":
		b.Damage.Encoding = "lzma"
	case "encoding-none":
		b.Damage.Encoding = "none"
	case "blocktype-unknown":
		b.Damage.BlockType = "OSMVerifUnknown"
	case "blocktype-header-again":
		b.Damage.BlockType = "OSMHeader"
	case "dense-no-ids":
		d.OmitIDs = true
	case "dense-no-lats":
		d.OmitLats = true
	case "dense-no-lons":
		d.OmitLons = true
	case "dense-short-lats":
		d.Lats = d.Lats[:1]
	case "dense-short-lons":
		d.Lons = d.Lons[:1]
	case "dense-long-lats":
		d.Lats = append(d.Lats, 500)
	case "dense-usersid-oor":
		d.Info.UserSIDs = []int32{3, 99}
	case "dense-keyvals-oor":
		d.Tags = [][]pbfw.Tag{{{K: 1, V: 77}}, {}}
	case "dense-keyvals-short":
		// the column ends on an entry boundary but has fewer terminators than the group has nodes
		d.KeysVals, d.RawKeysVals = false, []int32{1, 2, 0}
	case "dense-keyvals-odd":
		d.KeysVals, d.RawKeysVals = false, []int32{1, 2, 1}
	case "dense-short-versions":
		d.Info.Versions = d.Info.Versions[:1]
	case "dense-short-usersids":
		d.Info.UserSIDs = d.Info.UserSIDs[:1]
	case "way-key-oor":
		w.Keys = []uint32{55}
	case "way-val-oor":
		w.Vals = []uint32{55}
	case "way-keys-longer":
		w.Keys = []uint32{1, 1}
	case "way-vals-longer":
		w.Vals = []uint32{2, 2}
	case "way-usersid-oor":
		w.Info.UserSID = pbfw.U32(60)
	case "way-lats-longer":
		w.Lats = append(w.Lats, 9)
	case "way-lons-shorter":
		w.Lons = w.Lons[:1]
	case "rel-key-oor":
		r.Keys = []uint32{55}
	case "rel-usersid-oor":
		r.Info.UserSID = pbfw.U32(60)
	case "rel-role-oor":
		r.RolesSID = []int32{4, 44}
	case "rel-roles-longer":
		r.RolesSID = append(r.RolesSID, 4)
	case "rel-types-longer":
		r.Types = append(r.Types, 0)
	case "rel-memids-shorter":
		r.MemIDs = r.MemIDs[:1]
	case "rel-type-invalid":
		r.Types = []int32{0, 7}
	case "group-plain-nodes":
		// valid PBF the library does not support (plain Node messages instead of DenseNodes): "unsupported in a way the
		// format lets a reader detect" -- the scan must end with an error after the intact blocks, not kill the process
		b.Groups = append(b.Groups, pbfw.Group{Nodes: []pbfw.Node{{ID: 7, Keys: []uint32{1}, Vals: []uint32{2}, Lat: 100, Lon: 300,
			Info: &pbfw.Info{Version: pbfw.I32(1), UserSID: pbfw.U32(3)}}}})
	case "stringtable-missing":
		b.OmitStringTable = true
	case "payload-truncated":
		b.Damage.TruncatePayload = 9
	case "payload-garbage":
		b.Damage.PayloadOverride = []byte{0xff, 0xff, 0xff, 0xff, 0x07, 0x12}
	default:
		return false
	}
	return true
}

func damageHeader(h *pbfw.Header, class string) bool {
	switch class {
	case "feature-unsupported":
		h.Required = append(h.Required, "VerifUnsupportedFeature")
	case "header-zlib-corrupt":
		h.Zlib = true
		h.Damage.CorruptZlib = 1
	case "header-rawsize-wrong":
		h.Zlib = true
		h.Damage.RawSizeOverride = pbfw.I32(3)
	case "header-datasize-negative":
		h.Damage.DataSizeOverride = pbfw.I32(-9)
	case "header-payload-garbage":
		h.Damage.PayloadOverride = []byte{0xff, 0xff, 0xff, 0xff, 0x07, 0x12}
	default:
		return false
	}
	return true
}

func errClass(err error) string {
	switch {
	case err == nil:
		return "nil"
	case err == osm.ErrScannerClosed:
		return "closed"
	case errors.Is(err, context.Canceled):
		return "canceled"
	case err == io.ErrUnexpectedEOF:
		return "trunc"
	}
	return "other"
}

func runCase(c Case, raw json.RawMessage) M {
	f := &pbfw.File{Header: &pbfw.Header{Required: []string{"OsmSchema-V0.6", "DenseNodes"}, WritingProgram: pbfw.Str("verif-pbfdmg")}}
	blocks := []M{}
	hdr := "ok"
	for b := 1; b <= c.NB; b++ {
		blk := block(b, (b+c.Variant)%2 == 0)
		if b == c.Pos {
			if !damage(blk, c.Class) {
				vio.Must(errors.New(c.Class), "unknown damage class")
			}
			blocks = append(blocks, M{"k": "bad", "n": 0})
		} else {
			blocks = append(blocks, M{"k": "data", "n": perBlock})
		}
		f.Blocks = append(f.Blocks, blk)
	}
	if c.Pos == 0 {
		if !damageHeader(f.Header, c.Class) {
			vio.Must(errors.New(c.Class), "unknown header damage class")
		}
		hdr = "feature" // abstractly: Start fails, nothing is delivered, Err is non-nil
	}
	data, _ := f.Encode()
	cfg := M{"n": c.N, "blocks": blocks, "endkind": "eof", "hdr": hdr}
	done := make(chan M, 1)
	go func() {
		s := osmpbf.New(context.Background(), rdr.For(data, c.Variant/2), c.N)
		defer s.Close()
		H := []M{}
		if c.Variant%2 == 1 { // asking for the header first must not change what the scan reports
			_, herr := s.Header()
			hc := errClass(herr)
			if herr == io.EOF {
				hc = "eof"
			}
			H = append(H, M{"op": "hdr", "class": hc})
		}
		for {
			H = append(H, M{"op": "call"})
			if !s.Scan() {
				H = append(H, M{"op": "ret", "ok": false, "blk": 0, "idx": 0, "cur": 0, "prev": 0})
				break
			}
			id := int64(s.Object().ObjectID().Ref())
			H = append(H, M{"op": "ret", "ok": true, "blk": int(id / 100), "idx": int(id % 100), "cur": -2, "prev": -2})
		}
		H = append(H, M{"op": "err", "class": errClass(s.Err())})
		done <- M{"cfg": cfg, "H": H, "reads": 0, "rem": 0, "outcome": "ok", "resume": []M{}}
	}()
	select {
	case run := <-done:
		return M{"case": raw, "run": run}
	case <-time.After(40 * time.Second):
		return M{"case": raw, "run": M{"cfg": cfg, "H": []M{}, "reads": 0, "rem": 0, "outcome": "hang: scan did not end within 40s", "resume": []M{}}}
	}
}

// kind "skipresume": blocks hold one element type each; skip flags turn whole blocks into empty ones.
// Full scan with offsets after every Scan, then a second scanner at every distinct reported offset (C09).
type SkipCase struct {
	NB      int    `json:"nb"`
	N       int    `json:"n"`
	Skip    []bool `json:"skip"` // nodes, ways, relations
	Variant int    `json:"variant"`
	Header  bool   `json:"header"`
}

func typedBlock(b, typ int) (*pbfw.Block, int) {
	full := block(b, b%2 == 0)
	switch typ {
	case 0:
		full.Groups = full.Groups[0:1]
		return full, 2
	case 1:
		w2 := full.Groups[1].Ways[0]
		w2.ID = objID(b, 2)
		full.Groups[1].Ways[0].ID = objID(b, 1)
		full.Groups = []pbfw.Group{{Ways: []pbfw.Way{full.Groups[1].Ways[0], w2}}}
		return full, 2
	default:
		full.Groups[2].Relations[0].ID = objID(b, 1)
		full.Groups = full.Groups[2:3]
		return full, 1
	}
}

func runSkipResume(c SkipCase, raw json.RawMessage) M {
	f := &pbfw.File{}
	hdr := "none"
	if c.Header {
		f.Header = &pbfw.Header{Required: []string{"OsmSchema-V0.6", "DenseNodes"}}
		if c.Variant%2 == 1 {
			f.Header.Required = append(f.Header.Required, "HistoricalInformation")
		}
		hdr = "ok"
	}
	blocks := []M{}
	for b := 1; b <= c.NB; b++ {
		typ := (b + c.Variant) % 3
		blk, n := typedBlock(b, typ)
		if c.Variant%2 == 1 { // a history file: deleted versions
			for gi := range blk.Groups {
				if d := blk.Groups[gi].Dense; d != nil && d.Info != nil {
					d.Info.Visibles = []bool{false, true}
				}
				for wi := range blk.Groups[gi].Ways {
					blk.Groups[gi].Ways[wi].Info.Visible = pbfw.Bool(wi%2 == 1)
				}
				for ri := range blk.Groups[gi].Relations {
					blk.Groups[gi].Relations[ri].Info.Visible = pbfw.Bool(false)
				}
			}
		}
		if c.Skip[typ] {
			n = 0
		}
		blocks = append(blocks, M{"k": "data", "n": n})
		f.Blocks = append(f.Blocks, blk)
	}
	data, spans := f.Encode()
	blkAt := func(off int64) int {
		for _, sp := range spans {
			if !sp.IsHeader && int64(sp.Offset) == off {
				return sp.DataIndex + 1
			}
		}
		return 0
	}
	absOff := func(off int64) int {
		if off == 0 {
			return 0
		}
		k := blkAt(off)
		if k == 0 {
			return -1
		}
		if c.Header {
			return k
		}
		return k - 1
	}
	newScanner := func(d []byte) *osmpbf.Scanner {
		s := osmpbf.New(context.Background(), rdr.For(d, c.Variant/2+len(d)), c.N)
		s.SkipNodes, s.SkipWays, s.SkipRelations = c.Skip[0], c.Skip[1], c.Skip[2]
		return s
	}
	cfg := M{"n": c.N, "blocks": blocks, "endkind": "eof", "hdr": hdr}
	s := newScanner(data)
	H := []M{}
	full := map[int64]osm.Object{} // objects of the full scan, by id: a resumed scan must return equal objects
	seen := map[int64]bool{}
	var offs []int64
	for {
		H = append(H, M{"op": "call"})
		ok := s.Scan()
		cur, prev := s.FullyScannedBytes(), s.PreviousFullyScannedBytes()
		if !ok {
			H = append(H, M{"op": "ret", "ok": false, "blk": 0, "idx": 0, "cur": absOff(cur), "prev": absOff(prev)})
			break
		}
		id := int64(s.Object().ObjectID().Ref())
		full[id] = s.Object()
		H = append(H, M{"op": "ret", "ok": true, "blk": int(id / 100), "idx": int(id % 100), "cur": absOff(cur), "prev": absOff(prev)})
		if !seen[cur] {
			seen[cur] = true
			offs = append(offs, cur)
		}
	}
	H = append(H, M{"op": "err", "class": errClass(s.Err())})
	s.Close()
	resume := []M{}
	for k, off := range offs {
		s2 := newScanner(data[off:])
		if (k+c.Variant)%2 == 0 {
			s2.Header() // asking a resumed scanner for its (absent) header must not disturb the scan
		}
		objs := [][]int{}
		for s2.Scan() {
			id := int64(s2.Object().ObjectID().Ref())
			if o, ok := full[id]; !ok || !reflect.DeepEqual(o, s2.Object()) {
				objs = append(objs, []int{-1, -1}) // not the object the full scan returned
				continue
			}
			objs = append(objs, []int{int(id / 100), int(id % 100)})
		}
		resume = append(resume, M{"from": blkAt(off), "objs": objs, "err": errClass(s2.Err())})
		s2.Close()
	}
	return M{"case": raw, "run": M{"cfg": cfg, "H": H, "reads": 0, "rem": 0, "outcome": "ok", "resume": resume}}
}

func main() {
	in := bufio.NewScanner(os.Stdin)
	in.Buffer(make([]byte, 1<<20), 1<<26)
	out := bufio.NewWriter(os.Stdout)
	defer out.Flush()
	for in.Scan() {
		line := append([]byte(nil), in.Bytes()...)
		if len(line) == 0 {
			continue
		}
		var c Case
		vio.Must(json.Unmarshal(line, &c), "case")
		var rec M
		if c.Kind == "classes" {
			rec = M{"classes": Classes, "header": HeaderClasses}
		} else if c.Kind == "skipresume" {
			var sc SkipCase
			vio.Must(json.Unmarshal(line, &sc), "case")
			rec = runSkipResume(sc, line)
		} else {
			rec = runCase(c, line)
		}
		b, err := json.Marshal(rec)
		vio.Must(err, "marshal")
		out.Write(b)
		out.WriteByte('\n')
		out.Flush()
	}
}
