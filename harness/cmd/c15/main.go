// c15: runs ApplyUpdatesUpTo / LineString / LineStringAt / Updates.UpTo / the sorts of the real
// library - and mputil.Group, the consumer of LineStringAt (kind "group", bound through
// verifharness/internal/c15mp) - on abstract cases from Updates.tla and records what they return.
// One element is built per case; every ApplyUpdatesUpTo call runs on a copy of it (struct copy with its
// own child list, the same update list value), the geometry queries run on the element itself before and
// after its copies were updated.
// Neutral renderer/recorder: symbol maps only (abstract small integer <-> time.Time, float64
// coordinate, changeset id, ...); no expected values, no property logic.
package main

import (
	"encoding/json"
	"errors"
	"flag"
	"time"

	"github.com/paulmach/orb"
	"github.com/paulmach/osm"
	"verifharness/internal/c15mp"
	"verifharness/internal/vio"
)

type Child struct {
	Typ string `json:"typ"`
	Ref int    `json:"ref"`
	Ver int    `json:"ver"`
	CS  int    `json:"cs"`
	Lat int    `json:"lat"`
	Lon int    `json:"lon"`
	Ori int    `json:"ori"`
	// what an update must not touch: the member's role and the optional node path of a way member
	// (entries [node ref, lon, lat]); always "" / [] for way nodes
	Role  string   `json:"role"`
	Nodes [][3]int `json:"nodes"`
}

type Upd struct {
	Idx  int  `json:"idx"`
	Time int  `json:"time"`
	Rev  bool `json:"rev"`
	Ver  int  `json:"ver"`
	CS   int  `json:"cs"`
	Lat  int  `json:"lat"`
	Lon  int  `json:"lon"`
}

type Case struct {
	Kind     string  `json:"kind"`
	Children []Child `json:"children"`
	Updates  []Upd   `json:"updates"`
	T1       int     `json:"t1"`
	T2       int     `json:"t2"`
	TMax     int     `json:"tmax"`
	Members  []GMem  `json:"members"` // kind "group": the member list handed to mputil.Group
	Queries  []Query `json:"queries"` // kind "group": the queries made one after the other on the way
	TS       int     `json:"ts"`      // the element's own Timestamp: -1 = zero time, else symbolic time
	Com      int     `json:"com"`     // the element's Committed: -1 = nil, else symbolic time
	Profile  int     `json:"profile"` // rendering parameter: which time profile to use
}

// GMem is one member of a kind "group" case: tgt "way" = the case's way, "gone" = a way that is not in
// the way map, "node" = a node member.
type GMem struct {
	Tgt  string `json:"tgt"`
	Role string `json:"role"`
	Ori  int    `json:"ori"`
}

// Query is one read-only call: op "group" = mputil.Group(members, {way}, t), op "lsat" = way.LineStringAt(t).
type Query struct {
	Op string `json:"op"`
	T  int    `json:"t"`
}

// Seg is one segment returned by mputil.Group.
type Seg struct {
	Idx  int      `json:"idx"`
	Ori  int      `json:"ori"`
	Rev  bool     `json:"rev"`
	Line [][2]int `json:"line"`
}

// Answer is what one query returned, plus the geometry of a copy of the way, taken before the first query,
// after ApplyUpdatesUpTo(t).
type Answer struct {
	Line    [][2]int `json:"line"`
	Outer   []Seg    `json:"outer"`
	Inner   []Seg    `json:"inner"`
	Tainted bool     `json:"tainted"`
	Crash   bool     `json:"crash"`
	AErr    string   `json:"aerr"`
	Applied [][2]int `json:"applied"`
}

// GotGroup is what a kind "group" case records.
type GotGroup struct {
	Answers []Answer `json:"answers"`
	State   State    `json:"state"` // the way after the last query
	Own     [2]int   `json:"own"`
}

type RecGroup struct {
	Case json.RawMessage `json:"case"`
	Got  GotGroup        `json:"got"`
}

// State is the observable state of an element: its children and its pending updates.
type State struct {
	Children []Child `json:"children"`
	Pending  []Upd   `json:"pending"`
}

// Res is the element after one ApplyUpdatesUpTo call and what the call returned.
type Res struct {
	Err      string  `json:"err"` // none | index | other | crash | skipped
	ErrIdx   int     `json:"erridx"`
	Children []Child `json:"children"`
	Pending  []Upd   `json:"pending"`
}

type Geom struct {
	At0     [][2]int `json:"at0"`     // LineStringAt(t) on the element before any copy of it was updated
	At      [][2]int `json:"at"`      // LineStringAt(t) on the element after ApplyUpdatesUpTo(t) ran on a copy of it
	Applied [][2]int `json:"applied"` // LineString() of the copy after ApplyUpdatesUpTo(t)
	State   State    `json:"state"`   // the way after LineStringAt(t)
	Crash   bool     `json:"crash"`
}

type Got struct {
	A1    Res      `json:"a1"`
	A12   Res      `json:"a12"`
	A2    Res      `json:"a2"`
	G1    Geom     `json:"g1"`
	G2    Geom     `json:"g2"`
	Ls0   [][2]int `json:"ls0"`
	UpTo1 []Upd    `json:"upto1"`
	UpTo2 []Upd    `json:"upto2"`
	ByTS  []Upd    `json:"byts"`
	ByIdx []Upd    `json:"byidx"`
	Own   [][2]int `json:"own"` // [ts, com] of the copies behind a12 and a2 and of the element itself, at the end
}

type Rec struct {
	Case json.RawMessage `json:"case"`
	Got  Got             `json:"got"`
}

// ---- symbol maps ----------------------------------------------------------------------------

const symMax = 200

type profile struct {
	base   time.Time
	step   time.Duration
	updLoc *time.Location // location the update stamps are expressed in
	qLoc   *time.Location // location the query times are expressed in
}

var profiles = []profile{
	{time.Date(2012, 9, 12, 9, 30, 3, 0, time.UTC), time.Second, time.UTC, time.UTC},
	{time.Unix(0, 0).UTC(), time.Nanosecond, time.UTC, time.FixedZone("q", 5*3600+1800)},
	{time.Date(2038, 1, 19, 3, 14, 7, 0, time.UTC), time.Hour, time.FixedZone("u", -8*3600), time.UTC},
	{time.Date(2000, 2, 28, 23, 59, 59, 999999999, time.UTC), 24 * time.Hour, time.UTC, time.FixedZone("q", -3*3600)},
	{time.Date(2015, 6, 30, 23, 59, 59, 999999998, time.UTC), time.Nanosecond, time.UTC, time.UTC},
}

// R renders abstract values under one time profile and maps observations back.
type R struct{ prof profile }

func (r R) timeOf(a int, loc *time.Location) time.Time {
	return r.prof.base.Add(time.Duration(a) * r.prof.step).In(loc)
}

func (r R) timeInv(t time.Time) int {
	d := t.Sub(r.prof.base)
	if d < 0 || d%r.prof.step != 0 || int(d/r.prof.step) > symMax {
		return -1
	}
	return int(d / r.prof.step)
}

func latOf(a int) float64 {
	if a == 0 {
		return 0
	}
	return float64(a)*0.7 + 0.1
}

func lonOf(a int) float64 {
	if a == 0 {
		return 0
	}
	return float64(a)*1.3 - 60.05
}

func csOf(a int) osm.ChangesetID {
	if a == 0 {
		return 0
	}
	return osm.ChangesetID(1000000 + 7*a)
}

func inv(f func(int) float64, v float64) int {
	for a := 0; a <= symMax; a++ {
		if f(a) == v {
			return a
		}
	}
	return -1
}

func csInv(c osm.ChangesetID) int {
	for a := 0; a <= symMax; a++ {
		if csOf(a) == c {
			return a
		}
	}
	return -1
}

func (r R) updOf(u Upd) osm.Update {
	return osm.Update{Index: u.Idx, Version: u.Ver, Timestamp: r.timeOf(u.Time, r.prof.updLoc),
		ChangesetID: csOf(u.CS), Lat: latOf(u.Lat), Lon: lonOf(u.Lon), Reverse: u.Rev}
}

func (r R) updsOf(us []Upd) osm.Updates {
	var out osm.Updates // nil when empty, as after decoding
	for _, u := range us {
		out = append(out, r.updOf(u))
	}
	return out
}

func (r R) absUpds(us osm.Updates) []Upd {
	out := make([]Upd, 0, len(us))
	for _, u := range us {
		out = append(out, Upd{Idx: u.Index, Time: r.timeInv(u.Timestamp), Rev: u.Reverse, Ver: u.Version,
			CS: csInv(u.ChangesetID), Lat: inv(latOf, u.Lat), Lon: inv(lonOf, u.Lon)})
	}
	return out
}

func absLine(ls orb.LineString) [][2]int {
	out := make([][2]int, 0, len(ls))
	for _, p := range ls {
		out = append(out, [2]int{inv(lonOf, p[0]), inv(latOf, p[1])})
	}
	return out
}

// ownOf renders the element's own Timestamp / Committed.
func (r R) ownOf(c *Case) (ts time.Time, com *time.Time) {
	if c.TS >= 0 {
		ts = r.timeOf(c.TS, r.prof.updLoc)
	}
	if c.Com >= 0 {
		t := r.timeOf(c.Com, r.prof.updLoc)
		com = &t
	}
	return ts, com
}

// ownAbs maps the element's own time back: -1 = unset, -2 = not in the image.
func (r R) ownAbs(e element) [2]int {
	var ts time.Time
	var com *time.Time
	switch x := e.(type) {
	case *osm.Way:
		ts, com = x.Timestamp, x.Committed
	case *osm.Relation:
		ts, com = x.Timestamp, x.Committed
	}
	ab := func(t time.Time) int {
		if v := r.timeInv(t); v >= 0 {
			return v
		}
		return -2
	}
	out := [2]int{-1, -1}
	if !ts.IsZero() {
		out[0] = ab(ts)
	}
	if com != nil {
		out[1] = ab(*com)
	}
	return out
}

// element is the common surface of *osm.Way and *osm.Relation used here.
type element interface {
	ApplyUpdatesUpTo(time.Time) error
}

func (r R) build(c *Case) element {
	if c.Kind == "way" || c.Kind == "group" {
		w := &osm.Way{ID: 7, Version: 3, Visible: true, Updates: r.updsOf(c.Updates)}
		w.Timestamp, w.Committed = r.ownOf(c)
		for _, ch := range c.Children {
			w.Nodes = append(w.Nodes, osm.WayNode{ID: osm.NodeID(ch.Ref), Version: ch.Ver,
				ChangesetID: csOf(ch.CS), Lat: latOf(ch.Lat), Lon: lonOf(ch.Lon)})
		}
		return w
	}
	rel := &osm.Relation{ID: 9, Version: 2, Visible: true, Updates: r.updsOf(c.Updates)}
	rel.Timestamp, rel.Committed = r.ownOf(c)
	for _, ch := range c.Children {
		m := osm.Member{Type: osm.Type(ch.Typ), Ref: int64(ch.Ref), Role: ch.Role,
			Version: ch.Ver, ChangesetID: csOf(ch.CS), Lat: latOf(ch.Lat), Lon: lonOf(ch.Lon),
			Orientation: orb.Orientation(ch.Ori)}
		for _, nd := range ch.Nodes {
			m.Nodes = append(m.Nodes, osm.WayNode{ID: osm.NodeID(nd[0]), Lon: lonOf(nd[1]), Lat: latOf(nd[2])})
		}
		rel.Members = append(rel.Members, m)
	}
	return rel
}

// copyOf is "a copy" of an element as Go code makes one: the struct is copied and the child list, which
// ApplyUpdatesUpTo writes to, is duplicated; the update list is the same slice value.
// spare is the unused capacity behind the copied child list (lists built by append usually have some).
func copyOf(e element, spare int) element {
	switch x := e.(type) {
	case *osm.Way:
		c := *x
		c.Nodes = append(make(osm.WayNodes, 0, len(x.Nodes)+spare), x.Nodes...)
		return &c
	case *osm.Relation:
		c := *x
		c.Members = append(make(osm.Members, 0, len(x.Members)+spare), x.Members...)
		return &c
	}
	return nil
}

func (r R) state(e element) State {
	s := State{Children: []Child{}}
	switch x := e.(type) {
	case *osm.Way:
		for _, n := range x.Nodes {
			s.Children = append(s.Children, Child{Typ: "node", Ref: int(n.ID), Ver: n.Version, CS: csInv(n.ChangesetID),
				Lat: inv(latOf, n.Lat), Lon: inv(lonOf, n.Lon), Ori: 0, Role: "", Nodes: [][3]int{}})
		}
		s.Pending = r.absUpds(x.Updates)
	case *osm.Relation:
		for _, m := range x.Members {
			nodes := [][3]int{}
			for _, nd := range m.Nodes {
				nodes = append(nodes, [3]int{int(nd.ID), inv(lonOf, nd.Lon), inv(latOf, nd.Lat)})
			}
			s.Children = append(s.Children, Child{Typ: string(m.Type), Ref: int(m.Ref), Ver: m.Version, CS: csInv(m.ChangesetID),
				Lat: inv(latOf, m.Lat), Lon: inv(lonOf, m.Lon), Ori: int(m.Orientation), Role: m.Role, Nodes: nodes})
		}
		s.Pending = r.absUpds(x.Updates)
	}
	return s
}

// apply calls ApplyUpdatesUpTo(t) on e and records the outcome and the element afterwards.
func (r R) apply(e element, t int) (res Res) {
	res.ErrIdx = -1
	func() {
		defer func() {
			if p := recover(); p != nil {
				res.Err = "crash"
			}
		}()
		err := e.ApplyUpdatesUpTo(r.timeOf(t, r.prof.qLoc))
		var ie *osm.UpdateIndexOutOfRangeError
		switch {
		case err == nil:
			res.Err = "none"
		case errors.As(err, &ie):
			res.Err, res.ErrIdx = "index", ie.Index
		default:
			res.Err = "other"
		}
	}()
	s := r.state(e)
	res.Children, res.Pending = s.Children, s.Pending
	return res
}

// lineAt is LineStringAt(t) of a way ([] for relations or after a panic).
func (r R) lineAt(e element, t int) (ls [][2]int, crash bool) {
	ls = [][2]int{}
	w, ok := e.(*osm.Way)
	if !ok {
		return ls, false
	}
	defer func() {
		if p := recover(); p != nil {
			ls, crash = [][2]int{}, true
		}
	}()
	return absLine(w.LineStringAt(r.timeOf(t, r.prof.qLoc))), false
}

// geom queries the geometry at time t on the element itself after `applied`, a copy of it, went through
// ApplyUpdatesUpTo(t); at0 is the same query made before any copy was updated.
func (r R) geom(orig element, t int, applied element, at0 [][2]int, crash0 bool) (g Geom) {
	g.At0, g.Applied, g.Crash = at0, [][2]int{}, crash0
	var c bool
	g.At, c = r.lineAt(orig, t)
	g.Crash = g.Crash || c
	if w, ok := applied.(*osm.Way); ok {
		func() {
			defer func() {
				if p := recover(); p != nil {
					g.Crash = true
				}
			}()
			g.Applied = absLine(w.LineString())
		}()
	}
	g.State = r.state(orig)
	return g
}

// group runs the case's queries one after the other on one way object.  The geometries they are compared
// with come from copies of the way taken, and updated, before the first query.
func (r R) group(c *Case, line []byte) RecGroup {
	var g GotGroup
	orig := r.build(c).(*osm.Way)
	var ms osm.Members
	for _, m := range c.Members {
		mem := osm.Member{Type: osm.TypeWay, Ref: int64(orig.ID), Role: m.Role, Orientation: orb.Orientation(m.Ori)}
		switch m.Tgt {
		case "gone":
			mem.Ref = 8
		case "node":
			mem.Type, mem.Ref = osm.TypeNode, 1
		}
		ms = append(ms, mem)
	}
	segs := func(in []c15mp.Segment) []Seg {
		out := make([]Seg, 0, len(in))
		for _, s := range in {
			out = append(out, Seg{Idx: int(s.Index), Ori: int(s.Orientation), Rev: s.Reversed, Line: absLine(s.Line)})
		}
		return out
	}
	g.Answers = make([]Answer, len(c.Queries))
	for i, q := range c.Queries {
		cp := copyOf(orig, (c.Profile+i)%3)
		g.Answers[i] = Answer{Line: [][2]int{}, Outer: []Seg{}, Inner: []Seg{}, AErr: r.apply(cp, q.T).Err}
		g.Answers[i].Applied = absLine(cp.(*osm.Way).LineString())
	}
	for i, q := range c.Queries {
		a := &g.Answers[i]
		if q.Op == "lsat" {
			a.Line, a.Crash = r.lineAt(orig, q.T)
			continue
		}
		func() {
			defer func() {
				if p := recover(); p != nil {
					a.Crash = true
				}
			}()
			o, in, t := c15mp.Group(ms, map[osm.WayID]*osm.Way{orig.ID: orig}, r.timeOf(q.T, r.prof.qLoc))
			a.Outer, a.Inner, a.Tainted = segs(o), segs(in), t
		}()
	}
	g.State = r.state(orig)
	g.Own = r.ownAbs(orig)
	return RecGroup{Case: line, Got: g}
}

func main() {
	p := flag.Int("profile", 0, "added to the case's profile number")
	flag.Parse()

	vio.Map(vio.ReadLines(), 0, func(i int, line []byte) interface{} {
		var c Case
		vio.Must(json.Unmarshal(line, &c), "case")
		r := R{profiles[(((c.Profile+*p)%len(profiles))+len(profiles))%len(profiles)]}
		var g Got

		if c.Kind == "group" {
			return r.group(&c, line)
		}

		// One element; every call below runs on a copy of it (own child list, the same update list), the
		// geometry queries run on the element itself.
		orig := r.build(&c)
		at01, c01 := r.lineAt(orig, c.T1)
		at02, c02 := r.lineAt(orig, c.T2)
		e1 := copyOf(orig, c.Profile%3)
		g.A1 = r.apply(e1, c.T1)
		g.G1 = r.geom(orig, c.T1, e1, at01, c01) // LineString() of e1 is taken before the second call
		if g.A1.Err == "crash" {
			g.A12 = Res{Err: "skipped", ErrIdx: -1, Children: []Child{}, Pending: []Upd{}}
		} else {
			g.A12 = r.apply(e1, c.T2)
		}
		e2 := copyOf(orig, (c.Profile+1)%3)
		g.A2 = r.apply(e2, c.T2)
		g.G2 = r.geom(orig, c.T2, e2, at02, c02)
		g.Own = [][2]int{r.ownAbs(e1), r.ownAbs(e2), r.ownAbs(orig)}

		g.Ls0 = [][2]int{}
		if w, ok := r.build(&c).(*osm.Way); ok {
			g.Ls0 = absLine(w.LineString())
		}
		g.UpTo1 = r.absUpds(r.updsOf(c.Updates).UpTo(r.timeOf(c.T1, r.prof.qLoc)))
		g.UpTo2 = r.absUpds(r.updsOf(c.Updates).UpTo(r.timeOf(c.T2, r.prof.qLoc)))
		bt := r.updsOf(c.Updates)
		bt.SortByTimestamp()
		g.ByTS = r.absUpds(bt)
		bi := r.updsOf(c.Updates)
		bi.SortByIndex()
		g.ByIdx = r.absUpds(bi)
		return Rec{Case: line, Got: g}
	})
}
