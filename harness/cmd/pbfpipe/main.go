// pbfpipe drives the real osmpbf scanner under the deterministic scheduler (build tag verif)
// and records (a) the linearized hook trace for validation against PbfTrace.tla and
// (b) the API-level history judged by PbfPipeline!RunOK.  Neutral: it contains no expectations.
//
// stdin: one case per line
//
//	{"kind":"walk","cfg":{n,blocks,endkind,hdr},"script":["scan","err",...],"seed":S,"cancelStep":K,"variant":V}
//	{"kind":"forced","cfg":{...},"sched":["c","r","w0",...],"variant":V}
//
// stdout: one record per line {"case":..., "trace":[...], "run":{cfg,H,reads,rem,outcome}, "sched":[...]}
// After a hang the process exits with status 7 (its goroutines are stuck); the caller restarts it
// for the remaining cases.
package main

import (
	"bufio"
	"bytes"
	"context"
	"encoding/json"
	"errors"
	"fmt"
	"hash/fnv"
	"io"
	"math/rand"
	"os"
	"runtime"
	"sort"
	"strings"
	"sync"
	"sync/atomic"
	"time"

	"github.com/paulmach/osm"
	"github.com/paulmach/osm/osmpbf"
	"verifharness/internal/pbfmini"
	"verifharness/internal/rdr"
	"verifharness/internal/sched"
	"verifharness/internal/vio"
)

type Cfg struct {
	N int `json:"n"`
	pbfmini.Cfg
}

type Case struct {
	Kind       string          `json:"kind"`
	Cfg        Cfg             `json:"cfg"`
	Script     []string        `json:"script"`
	Seed       int64           `json:"seed"`
	CancelStep int             `json:"cancelStep"`
	Variant    int             `json:"variant"`
	Sched      []string        `json:"sched"`
	Cut        int             `json:"cut"`
	Procs      []int           `json:"procs"` // kind "big": decoder counts to compare
	GoMaxProcs int             `json:"gomaxprocs"`
	SlowMS     int             `json:"slowms"`    // kind "big": the filter sleeps this long ...
	SlowEvery  int             `json:"slowevery"` // ... once every so many objects
	Slow       []int64         `json:"slow"`      // jitter mode: [class byte ('r','w','s' or 0), worker index, microseconds]
	Weights    map[string]int  `json:"weights"`
	Wit        []WitStep       `json:"wit"`      // kind "witness": steps of a TLC counterexample of a deviating Model
	Attempts   int             `json:"attempts"` // how often to try to follow it (select outcomes are random) // schedule bias of random walks: weight per goroutine class r|w|s|c
	Raw        json.RawMessage `json:"-"`
}

type M = map[string]interface{}

// WitStep is one step of a witness: goroutine and the completion event its step must produce ("x" = external cancel).
type WitStep struct {
	G string `json:"g"`
	A string `json:"a"`
}

func errClass(err error) string {
	switch {
	case err == nil:
		return "nil"
	case err == osm.ErrScannerClosed:
		return "closed"
	case errors.Is(err, context.Canceled):
		return "canceled"
	case err == io.ErrUnexpectedEOF:
		return "trunc"
	}
	return "other"
}

var errNames = []string{"nil", "eof", "trunc", "canceled", "other"}

// one run under the scheduler
func runCase(c Case) M {
	fi := pbfmini.Build(c.Cfg.Cfg, c.Variant)
	sc := sched.New()
	osmpbf.VerifHook = sc.Hook
	defer func() { osmpbf.VerifHook = nil }()
	ctx, cancel := context.WithCancel(context.Background())
	defer cancel()
	s := osmpbf.New(ctx, readerFor(fi.Data, c.Variant), c.Cfg.N)
	closed := false
	sc.CtxDone = func() bool { return ctx.Err() != nil || closed || sc.Exited("s") }

	script := append([]string(nil), c.Script...)
	witness := c.Kind == "witness"
	wi := 0
	sc.Go("c")
	go func() {
		doClose := func() {
			sc.NoteX("c.close", nil)
			closed = true
			s.Close()
			sc.NoteX("c.closed", nil)
			sc.NoteX("c.offs", M{"cur": fi.AbsOff(s.FullyScannedBytes()), "prev": fi.AbsOff(s.PreviousFullyScannedBytes())})
		}
		for _, op := range script {
			sc.Hook("c.api?", 0, nil, 0, 0)
			switch op {
			case "header":
				sc.NoteX("c.header", nil)
				_, err := s.Header()
				cls := errClass(err)
				if err == io.EOF {
					cls = "eof"
				}
				sc.NoteX("c.hdrret", M{"class": cls})
			case "scan", "scanall":
				for {
					sc.NoteX("c.scan", nil)
					ok := s.Scan()
					if !ok {
						sc.NoteX("c.ret", M{"ok": false, "blk": 0, "idx": 0,
							"cur": fi.AbsOff(s.FullyScannedBytes()), "prev": fi.AbsOff(s.PreviousFullyScannedBytes())})
						break
					}
					b, i := 0, 0
					if n, isNode := s.Object().(*osm.Node); isNode {
						b, i = posOf(fi, n)
					}
					sc.NoteX("c.ret", M{"ok": true, "blk": b, "idx": i,
						"cur": fi.AbsOff(s.FullyScannedBytes()), "prev": fi.AbsOff(s.PreviousFullyScannedBytes())})
					if op == "scan" {
						break
					}
					sc.Hook("c.api?", 0, nil, 0, 0)
				}
			case "err":
				sc.NoteX("c.err", M{"class": errClass(s.Err())})
			case "close":
				doClose()
			case "cancel":
				sc.NoteX("c.cancel", nil)
				cancel()
			}
		}
		sc.Hook("c.api?", 0, nil, 0, 0)
		if !closed {
			doClose()
		}
		sc.Hook("c.exit", 0, nil, 0, 0)
	}()

	outcome := "ok"
	var schedTaken []string
	fail := func(kind string, err error) {
		outcome = kind + ": " + err.Error()
	}
	if err := sc.Settle(); err != nil {
		fail("hang", err)
	}
	rng := rand.New(rand.NewSource(c.Seed))
	step := 0
	forced := c.Kind == "forced"
	fi2 := 0 // index into c.Sched
	skip := map[string]int{}
	diverged := ""
	for outcome == "ok" {
		if sc.Exited("c") && len(sc.ParkedSites()) == 0 {
			break
		}
		if !forced && step == c.CancelStep && ctx.Err() == nil {
			sc.NoteX("x.cancel", nil)
			cancel()
		}
		en := sc.Enabled()
		if len(en) == 0 {
			if sc.Exited("c") {
				fail("leak", fmt.Errorf("goroutines still parked after the consumer finished: %v", sc.ParkedSites()))
			} else {
				fail("hang", fmt.Errorf("deadlock, parked=%v", sc.ParkedSites()))
			}
			break
		}
		var p *sched.Pending
		expect := ""
		if witness && wi < len(c.Wit) && diverged == "" {
			st := c.Wit[wi]
			wi++
			if st.G == "x" {
				sc.NoteX("x.cancel", nil)
				cancel()
				continue
			}
			q := sc.Parked(st.G)
			if q == nil || !sc.IsEnabled(q) {
				diverged = fmt.Sprintf("witness step %d: %s cannot take a step (parked=%v)", wi, st.G, sc.ParkedSites())
			} else {
				p, expect = q, st.A
			}
		}
		if forced && fi2 < len(c.Sched) && diverged == "" {
			// follow the model's behaviour: next process name whose step is not already covered by a rendezvous
			for fi2 < len(c.Sched) && skip[c.Sched[fi2]] > 0 {
				skip[c.Sched[fi2]]--
				fi2++
			}
			if fi2 < len(c.Sched) {
				g := c.Sched[fi2]
				fi2++
				q := sc.Parked(g)
				if q == nil || !sc.IsEnabled(q) {
					diverged = fmt.Sprintf("step %d: model runs %s but it is not enabled in the real run (parked=%v)", fi2, g, sc.ParkedSites())
				} else {
					p = q
					if r := sc.Partner(q); r != nil {
						skip[r.G]++
					}
				}
			}
		}
		if p == nil {
			if forced || witness {
				p = en[len(en)-1] // drain deterministically
			} else {
				p = pick(rng, en, c.Weights)
			}
		}
		schedTaken = append(schedTaken, p.G)
		before := len(sc.Log())
		if err := sc.Step(p); err != nil {
			fail("hang", err)
		}
		if expect != "" {
			got := ""
			for _, e := range sc.Log()[before:] {
				if e.G == p.G && !strings.HasSuffix(e.Site, "?") {
					got = e.Site
					break
				}
			}
			if got != expect {
				diverged = fmt.Sprintf("witness step %d: %s completed with %q, the witness has %q (select chose otherwise, or the code differs)", wi, p.G, got, expect)
			}
		}
		step++
		if step > 100000 {
			fail("hang", fmt.Errorf("no termination after %d steps", step))
		}
	}

	// ---- convert the log
	var trace, H []M
	cfgLine := M{"e": "cfg", "n": c.Cfg.N, "cap": 10 / max(c.Cfg.N, 1), "blocks": c.Cfg.Blocks, "endkind": c.Cfg.Endkind, "hdr": c.Cfg.Hdr}
	if c.Cfg.N < 1 {
		cfgLine["n"] = 1
		cfgLine["cap"] = 10
	}
	trace = append(trace, cfgLine)
	stopAt := -1
	readsBefore, readsAfter := 0, 0
	started := false
	for _, e := range sc.Log() {
		m := M{"e": e.Site, "who": e.Who}
		keep := true
		switch e.Site {
		case "start":
			started = true
			m["n"], m["cap"] = e.Who, int(e.A)
			cfgLine["n"], cfgLine["cap"] = e.Who, int(e.A) // the real values, not an assumption
		case "r.read":
			m["blk"], m["err"] = fi.Blk(e.A), errNames[e.B]
			if e.B != 0 {
				m["blk"] = 0
			}
			if e.B == 0 {
				if stopAt >= 0 {
					readsAfter++
				} else {
					readsBefore++
				}
			}
		case "w.got":
			m["err"] = errNames[e.B]
		case "w.sent", "w.dropped":
			m["err"] = errNames[e.B]
		case "s.got", "c.got":
			m["off"], m["nobj"], m["err"] = fi.AbsOff(e.A), int(e.B/8), errNames[e.B%8]
		case "c.scan":
			H = append(H, M{"op": "call"})
		case "c.ret":
			m["ok"], m["blk"], m["idx"], m["cur"], m["prev"] = e.X["ok"], e.X["blk"], e.X["idx"], e.X["cur"], e.X["prev"]
			H = append(H, M{"op": "ret", "ok": e.X["ok"], "blk": e.X["blk"], "idx": e.X["idx"], "cur": e.X["cur"], "prev": e.X["prev"]})
		case "c.err":
			m["class"] = e.X["class"]
			H = append(H, M{"op": "err", "class": e.X["class"]})
		case "c.hdrret":
			m["class"] = e.X["class"]
			H = append(H, M{"op": "hdr", "class": e.X["class"]})
		case "c.offs":
			m["cur"], m["prev"] = e.X["cur"], e.X["prev"]
			H = append(H, M{"op": "offs", "cur": e.X["cur"], "prev": e.X["prev"]})
		case "c.close":
			H = append(H, M{"op": "close"})
			if stopAt < 0 {
				stopAt = len(trace)
			}
		case "c.closed":
			H = append(H, M{"op": "closed"})
		case "x.cancel", "c.cancel":
			m["e"] = "x.cancel"
			H = append(H, M{"op": "cancel"})
			if stopAt < 0 {
				stopAt = len(trace)
			}
		case "r.firstsent", "r.loopexit", "r.sent", "r.dropped", "w.inclosed", "s.done1", "s.done2",
			"s.sent", "s.exit", "c.waited", "s.errexit", "r.exit", "w.exit", "c.header":
		default:
			keep = false // yields, c.exit
		}
		if keep {
			trace = append(trace, m)
		}
	}
	total := len(c.Cfg.Blocks)
	if c.Cfg.Hdr == "none" && started {
		readsBefore++
	}
	rem, reads := 0, 0
	if stopAt >= 0 {
		rem, reads = total-readsBefore, readsAfter
		if rem < 0 {
			rem = 0
		}
	}
	if H == nil {
		H = []M{}
	}
	run := M{"cfg": M{"n": c.Cfg.N, "blocks": c.Cfg.Blocks, "endkind": c.Cfg.Endkind, "hdr": c.Cfg.Hdr},
		"H": H, "reads": reads, "rem": rem, "outcome": outcome}
	return M{"case": c.Raw, "trace": trace, "run": run, "sched": schedTaken, "diverged": diverged}
}

// pick chooses among the enabled operations, by goroutine class weight if weights are given.
func pick(rng *rand.Rand, en []*sched.Pending, w map[string]int) *sched.Pending {
	if len(w) == 0 {
		return en[rng.Intn(len(en))]
	}
	total := 0
	ws := make([]int, len(en))
	for i, p := range en {
		ws[i] = w[p.G[:1]]
		if ws[i] <= 0 {
			ws[i] = 1
		}
		total += ws[i]
	}
	x := rng.Intn(total)
	for i := range en {
		if x < ws[i] {
			return en[i]
		}
		x -= ws[i]
	}
	return en[len(en)-1]
}

// ---------------------------------------------------------------------------------------------
// jitter mode: real concurrency.  The hooks only sleep for a duration derived from
// hash(seed, site, local counter): no shared state, no synchronisation, so they add no
// happens-before edges and the race detector sees the program's own synchronisation only.
type countingReader struct {
	r   io.Reader
	pos int64
}

func (c *countingReader) Read(p []byte) (int, error) {
	n, err := c.r.Read(p)
	atomic.AddInt64(&c.pos, int64(n))
	return n, err
}

var jitterSeed int64

// set per jitter run: records how much input had been consumed when a stop took effect (called right after cancel())
var jitterMarkStop atomic.Value // func()

// one goroutine class made slow on purpose ("however fast or slow the reader, the decoders and the consumer are"):
// slowClass 'r' | 'w' | 's' | 0 (none), slowWho = worker index for 'w', slowUS = microseconds per hook
var slowClass, slowWho, slowUS int64

// installed once per process: goroutines of a finished run may still be in their last hook
func jitterHook() func(string, int, interface{}, int64, int64) {
	return func(site string, who int, ch interface{}, a, b int64) {
		h := fnv.New64a()
		fmt.Fprintf(h, "%d|%s|%d|%d", atomic.LoadInt64(&jitterSeed), site, who, a)
		v := h.Sum64()
		if site == "c.wait?" { // decoder.Close: the internal context has just been cancelled
			if f, ok := jitterMarkStop.Load().(func()); ok && f != nil {
				f()
			}
		}
		if sc := atomic.LoadInt64(&slowClass); sc != 0 && int64(site[0]) == sc && (sc != 'w' || int64(who) == atomic.LoadInt64(&slowWho)) {
			time.Sleep(time.Duration(atomic.LoadInt64(&slowUS)) * time.Microsecond)
			return
		}
		switch v % 4 {
		case 0:
		case 1:
			runtime.Gosched()
		default:
			time.Sleep(time.Duration(v%300) * time.Microsecond)
		}
	}
}

// intact: the node carries exactly the contents its id is rendered with (pbfmini.FieldsOf) -- version, timestamp,
// changeset, user id and name, its one tag.  The rendering is a function of the id, so this is a symbol map, not an expectation.
func intact(n *osm.Node) bool {
	f := pbfmini.FieldsOf(int64(n.ID))
	return n.Version == f.Version && n.Timestamp.Unix() == f.TS && int64(n.ChangesetID) == f.CS && int64(n.UserID) == f.UID &&
		n.User == f.User && len(n.Tags) == 1 && n.Tags[0].Key == f.Key && n.Tags[0].Value == f.Val
}

// posOf: abstract position <<block, index>> of a returned node; <<-1, -1>> when it is not the intact element of that id.
func posOf(fi pbfmini.File, n *osm.Node) (int, int) {
	if !intact(n) {
		return -1, -1
	}
	return fi.Pos(int64(n.ID))
}

type snap struct {
	n        *osm.Node
	id       osm.NodeID
	lat, lon float64
	version  int
	hIndex   int
}

func runJitter(c Case) M {
	fi := pbfmini.Build(c.Cfg.Cfg, c.Variant)
	atomic.StoreInt64(&jitterSeed, c.Seed)
	atomic.StoreInt64(&slowClass, 0)
	if len(c.Slow) == 3 {
		atomic.StoreInt64(&slowWho, c.Slow[1])
		atomic.StoreInt64(&slowUS, c.Slow[2])
		atomic.StoreInt64(&slowClass, c.Slow[0])
	}
	ctx, cancel := context.WithCancel(context.Background())
	defer cancel()
	cr := &countingReader{r: readerFor(fi.Data, c.Variant)}
	s := osmpbf.New(ctx, cr, c.Cfg.N)
	var seq int64
	var mu sync.Mutex
	type hev struct {
		seq int64
		m   M
	}
	var hs []hev
	logH := func(m M) int {
		q := atomic.AddInt64(&seq, 1)
		mu.Lock()
		hs = append(hs, hev{q, m})
		i := len(hs) - 1
		mu.Unlock()
		return i
	}
	var stopPos int64 = -1
	markStop := func() {
		atomic.CompareAndSwapInt64(&stopPos, -1, atomic.LoadInt64(&cr.pos))
	}
	jitterMarkStop.Store(markStop)
	if c.CancelStep >= 0 {
		go func() {
			time.Sleep(time.Duration(c.CancelStep) * 40 * time.Microsecond)
			logH(M{"op": "cancel.b"})
			cancel()
			markStop() // input consumed up to the moment the stop took effect
			logH(M{"op": "cancel.e"})
		}()
	}
	var snaps []snap
	outcome := "ok"
	done := make(chan struct{})
	closed := false
	go func() {
		defer close(done)
		doClose := func() {
			logH(M{"op": "close"})
			closed = true
			s.Close() // the jitter hook marks the stop position at c.wait?, i.e. right after the cancel inside Close
			markStop()
			logH(M{"op": "closed"})
		}
		for _, op := range c.Script {
			switch op {
			case "header":
				_, herr := s.Header()
				hc := errClass(herr)
				if herr == io.EOF {
					hc = "eof"
				}
				logH(M{"op": "hdr", "class": hc})
			case "scan", "scanall":
				for {
					logH(M{"op": "call"})
					ok := s.Scan()
					cur, prev := fi.AbsOff(s.FullyScannedBytes()), fi.AbsOff(s.PreviousFullyScannedBytes())
					if !ok {
						logH(M{"op": "ret", "ok": false, "blk": 0, "idx": 0, "cur": cur, "prev": prev})
						break
					}
					b, i := 0, 0
					n, isNode := s.Object().(*osm.Node)
					if isNode {
						b, i = posOf(fi, n)
					}
					hi := logH(M{"op": "ret", "ok": true, "blk": b, "idx": i, "cur": cur, "prev": prev})
					if isNode {
						snaps = append(snaps, snap{n, n.ID, n.Lat, n.Lon, n.Version, hi})
					}
					if op == "scan" {
						break
					}
				}
			case "err":
				logH(M{"op": "err", "class": errClass(s.Err())})
			case "close":
				doClose()
			case "cancel":
				logH(M{"op": "cancel"})
				cancel()
				markStop()
			}
		}
		if !closed {
			doClose()
		}
	}()
	select {
	case <-done:
	case <-time.After(120 * time.Second):
		outcome = "hang: consumer script did not finish within 120s"
	}
	if outcome == "ok" {
		// every goroutine the scanner started must be gone after Close
		deadline := time.Now().Add(30 * time.Second)
		for {
			buf := make([]byte, 1<<20)
			st := string(buf[:runtime.Stack(buf, true)])
			if !strings.Contains(st, "osmpbf.(*decoder).Start") {
				break
			}
			if time.Now().After(deadline) {
				outcome = "leak: scanner goroutines still alive after Close returned"
				break
			}
			time.Sleep(5 * time.Millisecond)
		}
	}
	mu.Lock()
	// an object the consumer retained must still be what it was when returned
	for _, sn := range snaps {
		if sn.n.ID != sn.id || sn.n.Lat != sn.lat || sn.n.Lon != sn.lon || sn.n.Version != sn.version || !intact(sn.n) {
			hs[sn.hIndex].m["blk"], hs[sn.hIndex].m["idx"] = -1, -1
		}
	}
	sort.Slice(hs, func(i, j int) bool { return hs[i].seq < hs[j].seq })
	H := []M{}
	for _, h := range hs {
		H = append(H, h.m)
	}
	mu.Unlock()
	reads, rem := 0, 0
	if sp := atomic.LoadInt64(&stopPos); sp >= 0 {
		fin := atomic.LoadInt64(&cr.pos)
		for k := range fi.Offs {
			if fi.Offs[k] >= sp {
				rem++
				if fi.Ends[k] <= fin {
					reads++
				}
			}
		}
	}
	run := M{"cfg": M{"n": c.Cfg.N, "blocks": c.Cfg.Blocks, "endkind": c.Cfg.Endkind, "hdr": c.Cfg.Hdr},
		"H": H, "reads": reads, "rem": rem, "outcome": outcome}
	return M{"case": c.Raw, "trace": []M{}, "run": run, "sched": []string{}, "diverged": ""}
}

// ---------------------------------------------------------------------------------------------
// plain mode (no scheduler, no hooks): kinds "cut" (scan the file cut at a byte offset) and
// "resume" (scan, then re-open a scanner at every distinct reported offset).
func scanAll(fi pbfmini.File, data []byte, procs int, variant int) ([]M, string) {
	s := osmpbf.New(context.Background(), readerFor(data, variant), procs)
	defer s.Close()
	H := []M{}
	for {
		H = append(H, M{"op": "call"})
		ok := s.Scan()
		cur, prev := fi.AbsOff(s.FullyScannedBytes()), fi.AbsOff(s.PreviousFullyScannedBytes())
		if !ok {
			H = append(H, M{"op": "ret", "ok": false, "blk": 0, "idx": 0, "cur": cur, "prev": prev})
			break
		}
		b, i := 0, 0
		if n, isNode := s.Object().(*osm.Node); isNode {
			b, i = posOf(fi, n)
		}
		H = append(H, M{"op": "ret", "ok": true, "blk": b, "idx": i, "cur": cur, "prev": prev, "curbytes": s.FullyScannedBytes()})
	}
	cls := errClass(s.Err())
	H = append(H, M{"op": "err", "class": cls})
	return H, cls
}

func runPlain(c Case) M {
	fi := pbfmini.Build(c.Cfg.Cfg, c.Variant)
	type res struct{ m M }
	done := make(chan M, 1)
	go func() {
		switch c.Kind {
		case "cut":
			cut := int64(c.Cut)
			if cut > int64(len(fi.Data)) {
				cut = int64(len(fi.Data))
			}
			cc := fi.CutCfg(c.Cfg.Cfg, cut)
			H, _ := scanAll(fi, fi.Data[:cut], c.Cfg.N, c.Variant)
			done <- M{"cfg": M{"n": c.Cfg.N, "blocks": nonNil(cc.Blocks), "endkind": cc.Endkind, "hdr": cc.Hdr}, "H": H, "reads": 0, "rem": 0, "outcome": "ok", "resume": []M{}}
		case "resume":
			H, _ := scanAll(fi, fi.Data, c.Cfg.N, c.Variant)
			seen := map[int64]bool{}
			resume := []M{}
			for _, h := range H {
				off, has := h["curbytes"].(int64)
				if !has || seen[off] {
					continue
				}
				seen[off] = true
				// a new scanner on the same data at the reported offset: its first block is a data block
				fi2 := fi
				H2 := []M{}
				// the resumed input: the rest of the data behind one of the reader behaviours, or -- every third time -- the whole
				// data in a seekable reader positioned at the offset (what a caller does with a file: Seek, then New)
				var r2 io.Reader = readerFor(fi.Data[off:], c.Variant+len(seen))
				if (len(seen)+c.Variant)%3 == 0 {
					br := bytes.NewReader(fi.Data)
					br.Seek(off, io.SeekStart)
					r2 = br
				}
				s2 := osmpbf.New(context.Background(), r2, c.Cfg.N)
				if (len(seen)+c.Variant)%2 == 0 {
					s2.Header() // asking a resumed scanner for its (absent) header must not disturb the scan
				}
				objs := [][]int{}
				offs := [][]int{} // what the resumed scanner reports, as absolute abstract offsets (offsets are relative to where it started)
				for k := 0; s2.Scan(); k++ {
					b, i := 0, 0
					if n, isNode := s2.Object().(*osm.Node); isNode {
						b, i = fi2.Pos(int64(n.ID))
					}
					objs = append(objs, []int{b, i})
					offs = append(offs, []int{fi.AbsOff(off + s2.FullyScannedBytes()), fi.AbsOff(off + s2.PreviousFullyScannedBytes())})
					if k == 1 && (len(seen)+c.Variant)%4 == 1 {
						s2.Header() // ... nor may asking again in the middle of the resumed scan
					}
				}
				_ = H2
				resume = append(resume, M{"from": fi.Blk(off), "objs": objs, "offs": offs, "err": errClass(s2.Err())})
				s2.Close()
			}
			for _, h := range H {
				delete(h, "curbytes")
			}
			done <- M{"cfg": M{"n": c.Cfg.N, "blocks": c.Cfg.Blocks, "endkind": c.Cfg.Endkind, "hdr": c.Cfg.Hdr}, "H": H, "reads": 0, "rem": 0, "outcome": "ok", "resume": resume}
		}
	}()
	select {
	case run := <-done:
		if hs, ok := run["H"].([]M); ok {
			for _, h := range hs {
				delete(h, "curbytes")
			}
		}
		return M{"case": c.Raw, "trace": []M{}, "run": run, "sched": []string{}, "diverged": ""}
	case <-time.After(120 * time.Second):
		return M{"case": c.Raw, "trace": []M{}, "sched": []string{}, "diverged": "",
			"run": M{"cfg": M{"n": c.Cfg.N, "blocks": c.Cfg.Blocks, "endkind": c.Cfg.Endkind, "hdr": c.Cfg.Hdr}, "H": []M{}, "reads": 0, "rem": 0,
				"outcome": "hang: scan did not end within 120s", "resume": []M{}}}
	}
}

// readerFor: the same bytes behind different io.Reader behaviours (internal/rdr), by layout variant
func readerFor(data []byte, variant int) io.Reader { return rdr.For(data, variant) }

// kind "big": real-size blocks (thousands of elements).  The file is scanned with every decoder count of the case; per count the
// recorder reports how many objects came out, an order-sensitive digest of (id, lat, lon, version) and the ids at a few probe
// positions.  The Judge compares every count with the single-decoder scan and with the number of objects the file holds.
func runBig(c Case) M {
	fi := pbfmini.Build(c.Cfg.Cfg, c.Variant)
	if c.GoMaxProcs > 0 { // few OS threads: decoders, reader and consumer take turns on the same P
		defer runtime.GOMAXPROCS(runtime.GOMAXPROCS(c.GoMaxProcs))
	}
	scans := []M{}
	for _, n := range c.Procs {
		s := osmpbf.New(context.Background(), readerFor(fi.Data, c.Variant/2), n)
		if c.Variant%2 == 1 {
			// an installed filter that accepts everything changes nothing, however slow it is
			s.FilterNode = func(nd *osm.Node) bool {
				k := int64(nd.ID) - fi.FirstID[0]
				if k%97 == 0 {
					time.Sleep(300 * time.Microsecond)
				}
				if c.SlowMS > 0 && k%int64(c.SlowEvery) == int64(c.SlowEvery)/2 {
					time.Sleep(time.Duration(c.SlowMS) * time.Millisecond) // one decoder held up inside a block
				}
				return true
			}
		}
		h := fnv.New64a()
		count := 0
		probes := []int64{}
		var kept []*osm.Node
		for s.Scan() {
			nd, ok := s.Object().(*osm.Node)
			if !ok {
				continue
			}
			fmt.Fprintf(h, "%d|%.7f|%.7f|%d|%s|%v|%v;", nd.ID, nd.Lat, nd.Lon, nd.Version, nd.User, nd.Tags, intact(nd))
			if count%4099 == 0 {
				probes = append(probes, int64(nd.ID)-fi.FirstID[0])
				kept = append(kept, nd)
			}
			count++
		}
		stable := true
		for i, nd := range kept { // retained objects are still what they were
			if int64(nd.ID)-fi.FirstID[0] != probes[i] || !intact(nd) {
				stable = false
			}
		}
		scans = append(scans, M{"n": n, "count": count, "digest": fmt.Sprintf("%x", h.Sum64()), "probes": probes, "err": errClass(s.Err()), "stable": stable})
		s.Close()
	}
	return M{"case": c.Raw, "big": M{"blocks": c.Cfg.Blocks, "scans": scans}, "trace": []M{}, "sched": []string{}, "diverged": "",
		"run": M{"cfg": M{"n": 1, "blocks": []pbfmini.Block{}, "endkind": "eof", "hdr": "ok"}, "H": []M{}, "reads": 0, "rem": 0, "outcome": "ok", "resume": []M{}}}
}

func nonNil(b []pbfmini.Block) []pbfmini.Block {
	if b == nil {
		return []pbfmini.Block{}
	}
	return b
}

func main() {
	in := bufio.NewScanner(os.Stdin)
	in.Buffer(make([]byte, 1<<20), 1<<26)
	out := bufio.NewWriter(os.Stdout)
	for in.Scan() {
		line := append([]byte(nil), in.Bytes()...)
		if len(line) == 0 {
			continue
		}
		var c Case
		c.CancelStep = -1
		vio.Must(json.Unmarshal(line, &c), "case")
		c.Raw = line
		var rec M
		if c.Kind == "big" {
			rec = runBig(c)
			b, _ := json.Marshal(rec)
			out.Write(b)
			out.WriteByte('\n')
			out.Flush()
			continue
		}
		if c.Kind == "len" {
			fi := pbfmini.Build(c.Cfg.Cfg, c.Variant)
			rec = M{"len": len(fi.Data)}
			b, _ := json.Marshal(rec)
			out.Write(b)
			out.WriteByte('\n')
			out.Flush()
			continue
		} else if c.Kind == "cut" || c.Kind == "resume" {
			rec = runPlain(c)
		} else if c.Kind == "jitter" {
			if osmpbf.VerifHook == nil {
				osmpbf.VerifHook = jitterHook() // a process runs either jitter cases or scheduler cases
			}
			rec = runJitter(c)
		} else {
			rec = runCase(c)
			if c.Kind == "witness" {
				n := c.Attempts
				if n <= 0 {
					n = 40
				}
				for a := 1; a < n && rec["diverged"].(string) != "" && rec["run"].(M)["outcome"].(string) == "ok"; a++ {
					rec = runCase(c)
				}
				rec["followed"] = rec["diverged"].(string) == ""
			}
		}
		b, err := json.Marshal(rec)
		vio.Must(err, "marshal")
		out.Write(b)
		out.WriteByte('\n')
		out.Flush()
		if o := rec["run"].(M)["outcome"].(string); o != "ok" {
			os.Exit(7) // goroutines of this run may be stuck: restart for the remaining cases
		}
	}
}
