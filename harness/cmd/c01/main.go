// c01: renders abstract PBF files (cases of spec/PbfFormatGen.tla) with the independent writer, runs the real
// osmpbf scanner on the bytes and records header and elements field by field as abstract values.
// Neutral renderer/recorder: no expected values, no decoding rules (those are in spec/PbfFormat.tla).
//
//	c01 -seed N -profiles 0,1     (ndjson cases on stdin, one ndjson record per case on stdout)
//	c01 -dump FILE                (debug: write the bytes of the first case, profile[0], to FILE)
package main

import (
	"encoding/json"
	"flag"
	"hash/crc32"
	"os"
	"time"

	"verifharness/internal/pbfrec"
	"verifharness/internal/vio"
)

type Case struct {
	Fam   string       `json:"fam"`
	Procs []int        `json:"procs"`
	File  pbfrec.AFile `json:"file"`
	RLE   bool         `json:"rle"` // record the elements run-length encoded (pbfrec.Compress): large blocks
}

type Run struct {
	Procs   int            `json:"procs"`
	Profile int            `json:"profile"`
	Reader  string         `json:"reader"` // io.Reader behaviour the bytes were delivered through (layout, not judged)
	HFirst  bool           `json:"hfirst"`
	Header  pbfrec.RHeader `json:"header"`
	HErr    string         `json:"herr"`
	Elems   []interface{}  `json:"elems"`
	Err     string         `json:"err"`
}

type Rec struct {
	Case json.RawMessage `json:"case"`
	Runs []Run           `json:"runs"`
}

func main() {
	seed := flag.Int64("seed", 1, "seed (string pool rotation)")
	profs := flag.String("profiles", "0", "comma separated magnitude profile numbers, or rotN: N profiles starting at one derived from seed and case")
	dump := flag.String("dump", "", "write bytes of first case to this file and exit")
	flag.Parse()
	profilesOf := pbfrec.ProfileChooser(*profs, *seed)

	one := func(i int, line []byte) interface{} {
		var c Case
		vio.Must(json.Unmarshal(line, &c), "case")
		vio.Must(c.File.Expand(), "expand run-length groups")
		rec := Rec{Case: line, Runs: []Run{}}
		for _, pi := range profilesOf(line) {
			p := pbfrec.GetProfile(pi, *seed)
			data, _ := p.Render(&c.File).Encode()
			if *dump != "" {
				vio.Must(os.WriteFile(*dump, data, 0o644), "dump")
				os.Exit(0)
			}
			for _, procs := range c.Procs {
				hfirst := (pi+procs+int(crc32.ChecksumIEEE(line)%2))%2 == 0 // a function of the case text only (replayable)
				rk := pbfrec.ReaderKindFor(line, *seed, pi, procs)
				r := pbfrec.ScanFrom(pbfrec.NewReader(rk, data, *seed), procs, hfirst, nil, nil, 20*time.Second)
				run := Run{Procs: procs, Profile: pi, Reader: rk, HFirst: hfirst, Elems: []interface{}{}}
				if r.Hang {
					run.Err, run.HErr = "hang", "hang"
					run.Header = p.RecHeader(nil)
				} else {
					run.Header, run.HErr, run.Err = p.RecHeader(r.Header), pbfrec.ErrStr(r.HErr), pbfrec.ErrStr(r.Err)
					for _, o := range r.Objects {
						run.Elems = append(run.Elems, p.RecObject(o))
					}
					if c.RLE {
						runs := pbfrec.Compress(run.Elems)
						run.Elems = make([]interface{}, len(runs))
						for k := range runs {
							run.Elems[k] = runs[k]
						}
					}
				}
				rec.Runs = append(rec.Runs, run)
			}
		}
		return rec
	}
	crash := func(i int, line []byte, stderr string) interface{} {
		return Rec{Case: line, Runs: []Run{{Procs: 0, Profile: -1, Header: pbfrec.GetProfile(0, 1).RecHeader(nil), HErr: "crash", Elems: []interface{}{}, Err: "crash: " + stderr}}}
	}
	pbfrec.MapIsolated(vio.ReadLines, 0, one, crash)
}
