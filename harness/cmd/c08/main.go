// c08: renders abstract PBF files with the independent writer and scans them with skip flags and filter functions set
// as the case says.  The filters are pure functions of (element type, id): they accept the elements at the positions
// listed in the case.  Recorded per run: the returned elements (abstract), for every returned object whether a deep
// snapshot taken when Scan returned it still equals the object after the scan ended (`mutated`), and a snapshot of every
// value a filter function was shown.  No expected values here: what must come out is PbfFormat!Filtered.
//
//	c08 -seed N -profiles rot1     (ndjson cases on stdin, one ndjson record per case on stdout)
package main

import (
	"encoding/json"
	"flag"
	"reflect"
	"sync"
	"time"

	"github.com/paulmach/osm"
	"github.com/paulmach/osm/osmpbf"
	"verifharness/internal/pbfrec"
	"verifharness/internal/vio"
)

type Case struct {
	File   pbfrec.AFile `json:"file"`
	Skip   [3]bool      `json:"skip"`   // nodes, ways, relations
	Inst   [3]bool      `json:"inst"`   // filter function installed for nodes, ways, relations
	Accept []int        `json:"accept"` // accepted positions (1-based, file order over all elements)
	Procs  []int        `json:"procs"`
	// large-block cases (PbfFormatBig.tla): the predicate is "position % m = r" (AccMod = [m, r]) instead of a list of
	// positions, elements are recorded run-length encoded, `mutated` is one flag (any), `shown` is not recorded
	RLE    bool  `json:"rle"`
	AccMod []int `json:"accmod"`
	// stateful filter kinds (the verdict depends on earlier calls, not only on the element):
	//   "" / "pos"  pure: accept the listed positions
	//   "alt"       the verdicts of each filter function alternate per call: true, false, true, ...
	//   "firstN"    true for the first FN calls of each filter function
	//   "seen"      true only on the first call for an element (type, id)
	FKind string `json:"fkind"`
	FN    int    `json:"fn"`
}

type Run struct {
	Procs   int           `json:"procs"`
	Profile int           `json:"profile"`
	Reader  string        `json:"reader"`
	Elems   []interface{} `json:"elems"`
	Mutated []bool        `json:"mutated"`
	Shown   []interface{} `json:"shown"`
	Calls   []interface{} `json:"calls"` // every filter call in the order made: [type, abstract id, verdict]
	Err     string        `json:"err"`
}

type Rec struct {
	Case json.RawMessage `json:"case"`
	Runs []Run           `json:"runs"`
}

type key struct {
	t  string
	id int64 // abstract id
}

// positions of the file's elements in file order (a structural walk; no decoding rules involved)
func elementKeys(f *pbfrec.AFile) []key {
	var out []key
	for _, b := range f.Blocks {
		for _, g := range b.Groups {
			switch g.Kind {
			case "dense":
				for _, n := range g.Nodes {
					out = append(out, key{"node", n.ID})
				}
			case "ways":
				for _, w := range g.Ways {
					out = append(out, key{"way", w.ID})
				}
			case "rels":
				for _, r := range g.Rels {
					out = append(out, key{"relation", r.ID})
				}
			}
		}
	}
	return out
}

func deepCopy(o osm.Object) osm.Object {
	switch e := o.(type) {
	case *osm.Node:
		c := *e
		if e.Tags != nil {
			c.Tags = append(osm.Tags{}, e.Tags...)
		}
		return &c
	case *osm.Way:
		c := *e
		if e.Tags != nil {
			c.Tags = append(osm.Tags{}, e.Tags...)
		}
		if e.Nodes != nil {
			c.Nodes = append(osm.WayNodes{}, e.Nodes...)
		}
		return &c
	case *osm.Relation:
		c := *e
		if e.Tags != nil {
			c.Tags = append(osm.Tags{}, e.Tags...)
		}
		if e.Members != nil {
			c.Members = append(osm.Members{}, e.Members...)
		}
		return &c
	}
	return o
}

func main() {
	seed := flag.Int64("seed", 1, "seed (string pool rotation)")
	profs := flag.String("profiles", "rot1", "magnitude profiles (list or rotN)")
	flag.Parse()
	profilesOf := pbfrec.ProfileChooser(*profs, *seed)

	one := func(i int, line []byte) interface{} {
		var c Case
		vio.Must(json.Unmarshal(line, &c), "case")
		vio.Must(c.File.Expand(), "expand run-length groups")
		keys := elementKeys(&c.File)
		accept := map[key]bool{}
		for _, pos := range c.Accept {
			if pos >= 1 && pos <= len(keys) {
				accept[keys[pos-1]] = true
			}
		}
		if len(c.AccMod) == 2 && c.AccMod[0] > 0 {
			for pos := 1; pos <= len(keys); pos++ {
				if pos%c.AccMod[0] == c.AccMod[1] {
					accept[keys[pos-1]] = true
				}
			}
		}
		rec := Rec{Case: line, Runs: []Run{}}
		for _, pi := range profilesOf(line) {
			p := pbfrec.GetProfile(pi, *seed)
			data, _ := p.Render(&c.File).Encode()
			for _, procs := range c.Procs {
				var mu sync.Mutex
				shown := []interface{}{}
				calls := []interface{}{}
				ncalls := map[string]int{}
				seen := map[key]bool{}
				// the filter function of type t asked about object o (called from decoder goroutines, hence the lock);
				// what it was shown and what it answered are logged in call order
				ask := func(t string, id int64, o osm.Object) bool {
					k := key{t, p.ID.Down(id)}
					if c.RLE {
						return accept[k]
					}
					r := p.RecObject(o)
					mu.Lock()
					defer mu.Unlock()
					var v bool
					switch c.FKind {
					case "alt":
						ncalls[t]++
						v = ncalls[t]%2 == 1
					case "firstN":
						ncalls[t]++
						v = ncalls[t] <= c.FN
					case "seen":
						v = !seen[k]
						seen[k] = true
					default:
						v = accept[k]
					}
					shown = append(shown, r)
					calls = append(calls, []interface{}{t, k.id, v})
					return v
				}
				configure := func(s *osmpbf.Scanner) {
					s.SkipNodes, s.SkipWays, s.SkipRelations = c.Skip[0], c.Skip[1], c.Skip[2]
					if c.Inst[0] {
						s.FilterNode = func(n *osm.Node) bool { return ask("node", int64(n.ID), n) }
					}
					if c.Inst[1] {
						s.FilterWay = func(w *osm.Way) bool { return ask("way", int64(w.ID), w) }
					}
					if c.Inst[2] {
						s.FilterRelation = func(r *osm.Relation) bool { return ask("relation", int64(r.ID), r) }
					}
				}
				var snaps []osm.Object
				run := Run{Procs: procs, Profile: pi, Elems: []interface{}{}, Mutated: []bool{}}
				onObj := func(o osm.Object) {
					snaps = append(snaps, deepCopy(o))
					run.Elems = append(run.Elems, p.RecObject(o)) // the value at the moment Scan returned it
				}
				rk := pbfrec.ReaderKindFor(line, *seed, pi, procs)
				run.Reader = rk
				r := pbfrec.ScanFrom(pbfrec.NewReader(rk, data, *seed), procs, false, configure, onObj, 20*time.Second)
				if r.Hang {
					run = Run{Procs: procs, Profile: pi, Reader: rk, Elems: []interface{}{}, Mutated: []bool{}, Err: "hang"}
				} else {
					run.Err = pbfrec.ErrStr(r.Err)
					for k, o := range r.Objects {
						run.Mutated = append(run.Mutated, !reflect.DeepEqual(o, snaps[k]))
					}
					if c.RLE {
						anyMut := false
						for _, m := range run.Mutated {
							anyMut = anyMut || m
						}
						run.Mutated = []bool{anyMut}
						runs := pbfrec.Compress(run.Elems)
						run.Elems = make([]interface{}, len(runs))
						for k := range runs {
							run.Elems[k] = runs[k]
						}
					}
				}
				mu.Lock()
				run.Shown, run.Calls = shown, calls
				mu.Unlock()
				rec.Runs = append(rec.Runs, run)
			}
		}
		return rec
	}
	crash := func(i int, line []byte, stderr string) interface{} {
		return Rec{Case: line, Runs: []Run{{Procs: 0, Profile: -1, Elems: []interface{}{}, Mutated: []bool{}, Shown: []interface{}{}, Calls: []interface{}{}, Err: "crash: " + stderr}}}
	}
	pbfrec.MapIsolated(vio.ReadLines, 0, one, crash)
}
