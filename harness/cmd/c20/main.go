// c20: drives the real osmapi calls against an in-process HTTP server and a recording rate limiter.
//
// Neutral renderer/recorder for spec/OsmApi.tla: every stdin line is an abstract case (call configuration +
// scripted environment: limiter outcome, HTTP status, response document).  For each case the call is made
// through the public API of github.com/paulmach/osm/osmapi and the events that really happened are written
// back in order:
//
//	{"e":"wait","ok":b}                           the limiter's Wait was called (and what it answered)
//	{"e":"get","method","host","path","query"}    the server received a request
//	{"e":"resp","status","body"}                  the server answered (echo of the script)
//	{"e":"ret","errtype","limerr","code","notfound","els","zero"}   what the call returned (zero: nil / zero value)
//
// No expected values and no endpoint table live here: only the symbol maps endpoint name -> Go function,
// element kind -> XML snippet, returned Go values -> abstract element list.
package main

import (
	"context"
	"encoding/json"
	"errors"
	"fmt"
	"math"
	"net"
	"net/http"
	"net/http/httptest"
	"net/url"
	"reflect"
	"strconv"
	"strings"
	"sync"
	"time"

	"github.com/paulmach/osm"
	"github.com/paulmach/osm/osmapi"
	"verifharness/internal/vio"
)

type El struct {
	T   string `json:"t"`
	ID  string `json:"id"`
	Sec string `json:"sec"`
}

type Body struct {
	Kind  string `json:"kind"`
	Root  string `json:"root"`
	Els   []El   `json:"els"`
	Pad   int    `json:"pad"`   // kilobytes of XML comments in front of the elements
	Flush bool   `json:"flush"` // body written in two pieces with a pause in between
}

type Opt struct {
	K string `json:"k"`
	V string `json:"v"`
	N int    `json:"n"`
}

type Case struct {
	Ep     string          `json:"ep"`
	ID     string          `json:"id"`
	Ver    string          `json:"ver"`
	IDs    []string        `json:"ids"`
	BBox   []int64         `json:"bbox"`
	Q      string          `json:"q"`
	Opts   []Opt           `json:"opts"`
	Base   string          `json:"base"`
	Lim    string          `json:"lim"`
	Via    string          `json:"via"`
	Ctx    string          `json:"ctx"`
	LimOK  bool            `json:"limok"`
	Status int             `json:"status"`
	Body   Body            `json:"body"`
	RawBod json.RawMessage `json:"-"`
}

type Param struct {
	K    string  `json:"k"`
	V    string  `json:"v"`
	Nums []int64 `json:"nums"`
}

type Event map[string]interface{}

type Rec struct {
	Case json.RawMessage `json:"case"`
	Ev   []Event         `json:"ev"`
}

const badNum = 2000000000

const flushPause = 15 * time.Millisecond

var padding = "<!-- " + strings.Repeat("padding padding padding padding padding padding padding padding\n", 16) + " -->\n" // 1 KB

// ---------------------------------------------------------------- event log
var (
	mu     sync.Mutex
	events []Event
	script struct {
		status int
		body   []byte
		flush  bool
		raw    json.RawMessage
	}
)

func logEv(e Event) {
	mu.Lock()
	events = append(events, e)
	mu.Unlock()
}

// ---------------------------------------------------------------- limiter
var errLimiter = errors.New("verif: limiter refuses")

type recLimiter struct{ ok bool }

func (l *recLimiter) Wait(ctx context.Context) error {
	logEv(Event{"e": "wait", "ok": l.ok})
	if l.ok {
		return nil
	}
	return errLimiter
}

// ---------------------------------------------------------------- server
func nums(v string) []int64 {
	out := []int64{}
	for _, part := range strings.Split(v, ",") {
		x, err := strconv.ParseFloat(part, 64)
		if err != nil {
			out = append(out, badNum)
			continue
		}
		y := x * 1e7
		r := math.Round(y)
		if math.Abs(y-r) > 1e-4 || math.Abs(r) > 1.9e9 {
			out = append(out, badNum)
			continue
		}
		out = append(out, int64(r))
	}
	return out
}

func parseQuery(raw string) []Param {
	ps := []Param{}
	for _, piece := range strings.Split(raw, "&") {
		if piece == "" {
			continue
		}
		k, v := piece, ""
		if i := strings.IndexByte(piece, '='); i >= 0 {
			k, v = piece[:i], piece[i+1:]
		}
		k1, err1 := url.QueryUnescape(k)
		v1, err2 := url.QueryUnescape(v)
		if err1 != nil || err2 != nil {
			k1, v1 = "?"+k, "?"+v
		}
		ps = append(ps, Param{K: k1, V: v1, Nums: nums(v1)})
	}
	return ps
}

func handler(w http.ResponseWriter, r *http.Request) {
	logEv(Event{"e": "get", "method": r.Method, "host": r.Host, "path": r.URL.EscapedPath(), "query": parseQuery(r.URL.RawQuery)})
	mu.Lock()
	st, body, raw, flush := script.status, script.body, script.raw, script.flush
	mu.Unlock()
	// logged before anything is written: the caller cannot have seen the answer yet
	logEv(Event{"e": "resp", "status": st, "body": raw})
	w.Header().Set("Content-Type", "text/xml; charset=utf-8")
	w.Header().Set("Content-Length", strconv.Itoa(len(body)))
	if st == 204 || st == 304 {
		w.Header().Del("Content-Length")
	}
	w.WriteHeader(st)
	if st != 204 && st != 304 {
		if flush && len(body) > 1 {
			// a server that streams: first half, flush, pause, second half
			half := len(body) / 2
			w.Write(body[:half])
			if f, ok := w.(http.Flusher); ok {
				f.Flush()
			}
			time.Sleep(flushPause)
			w.Write(body[half:])
		} else {
			w.Write(body)
		}
	}
}

func elXML(e El) string {
	switch e.T {
	case "node":
		return fmt.Sprintf(`<node id="%s" version="3" lat="1.5" lon="2.5" visible="true" changeset="9" user="u" uid="8" timestamp="2015-01-01T00:00:00Z"/>`, e.ID)
	case "way":
		return fmt.Sprintf(`<way id="%s" version="2" visible="true"><nd ref="11"/><nd ref="12"/><tag k="highway" v="path"/></way>`, e.ID)
	case "relation":
		return fmt.Sprintf(`<relation id="%s" version="1" visible="true"><member type="node" ref="11" role="stop"/></relation>`, e.ID)
	case "changeset":
		return fmt.Sprintf(`<changeset id="%s" open="false" user="u" uid="8"><tag k="comment" v="c"/><discussion><comment uid="1" user="x" date="2015-01-01T00:00:00Z"><text>t</text></comment></discussion></changeset>`, e.ID)
	case "note":
		return fmt.Sprintf(`<note lon="1.25" lat="2.25"><id>%s</id><status>open</status><comments><comment><text>hello</text></comment></comments></note>`, e.ID)
	case "user":
		return fmt.Sprintf(`<user id="%s" display_name="someone"><description>d</description></user>`, e.ID)
	}
	vio.Must(fmt.Errorf("unknown element kind %q", e.T), "render")
	return ""
}

func renderBody(b Body) []byte {
	switch b.Kind {
	case "empty":
		return nil
	case "garbage":
		return []byte("this is not a document <<< & >")
	}
	var sb strings.Builder
	sb.WriteString(`<?xml version="1.0" encoding="UTF-8"?>` + "\n")
	sb.WriteString(fmt.Sprintf(`<%s version="0.6" generator="verif">`, b.Root))
	for i := 0; i < b.Pad; i++ {
		sb.WriteString(padding)
	}
	sec := ""
	for _, e := range b.Els {
		if e.Sec != sec {
			if sec != "" {
				sb.WriteString("</" + sec + ">")
			}
			if e.Sec != "" {
				sb.WriteString("<" + e.Sec + ">")
			}
			sec = e.Sec
		}
		sb.WriteString(elXML(e))
	}
	if sec != "" {
		sb.WriteString("</" + sec + ">")
	}
	sb.WriteString("</" + b.Root + ">")
	s := sb.String()
	if b.Kind == "trunc" {
		s = s[:len(s)-len(b.Root)-5] // cut inside the last element's end, document is not well-formed
	}
	return []byte(s)
}

// ---------------------------------------------------------------- returned values -> abstract elements
func i64(x int64) string { return strconv.FormatInt(x, 10) }

func flatOSM(o *osm.OSM, sec string) []El {
	out := []El{}
	if o == nil {
		return out
	}
	for _, n := range o.Nodes {
		out = append(out, El{"node", i64(int64(n.ID)), sec})
	}
	for _, w := range o.Ways {
		out = append(out, El{"way", i64(int64(w.ID)), sec})
	}
	for _, r := range o.Relations {
		out = append(out, El{"relation", i64(int64(r.ID)), sec})
	}
	for _, c := range o.Changesets {
		out = append(out, El{"changeset", i64(int64(c.ID)), sec})
	}
	for _, n := range o.Notes {
		out = append(out, El{"note", i64(int64(n.ID)), sec})
	}
	for _, u := range o.Users {
		out = append(out, El{"user", i64(int64(u.ID)), sec})
	}
	return out
}

func flat(v interface{}) []El {
	out := []El{}
	switch x := v.(type) {
	case *osm.Node:
		if x != nil {
			out = append(out, El{"node", i64(int64(x.ID)), ""})
		}
	case *osm.Way:
		if x != nil {
			out = append(out, El{"way", i64(int64(x.ID)), ""})
		}
	case *osm.Relation:
		if x != nil {
			out = append(out, El{"relation", i64(int64(x.ID)), ""})
		}
	case *osm.Changeset:
		if x != nil {
			out = append(out, El{"changeset", i64(int64(x.ID)), ""})
		}
	case *osm.Note:
		if x != nil {
			out = append(out, El{"note", i64(int64(x.ID)), ""})
		}
	case *osm.User:
		if x != nil {
			out = append(out, El{"user", i64(int64(x.ID)), ""})
		}
	case osm.Nodes:
		out = flatOSM(&osm.OSM{Nodes: x}, "")
	case osm.Ways:
		out = flatOSM(&osm.OSM{Ways: x}, "")
	case osm.Relations:
		out = flatOSM(&osm.OSM{Relations: x}, "")
	case osm.Notes:
		out = flatOSM(&osm.OSM{Notes: x}, "")
	case *osm.OSM:
		out = flatOSM(x, "")
	case *osm.Change:
		if x != nil {
			out = append(out, flatOSM(x.Create, "create")...)
			out = append(out, flatOSM(x.Modify, "modify")...)
			out = append(out, flatOSM(x.Delete, "delete")...)
		}
	default:
		vio.Must(fmt.Errorf("unknown result type %T", v), "flatten")
	}
	return out
}

// ---------------------------------------------------------------- dispatch: endpoint name -> Go function
func atoi64(s string) int64 {
	if s == "" {
		return 0
	}
	v, err := strconv.ParseInt(s, 10, 64)
	vio.Must(err, "id "+s)
	return v
}

func call(c *Case, ds *osmapi.Datasource) (interface{}, error) {
	ctx := context.Background()
	if c.Ctx == "deadline" {
		var cancel context.CancelFunc
		ctx, cancel = context.WithTimeout(ctx, 30*time.Minute)
		defer cancel()
	} else if c.Ctx != "bg" {
		vio.Must(fmt.Errorf("unknown ctx %q", c.Ctx), "case")
	}
	pkg := c.Via == "pkg"
	id := atoi64(c.ID)
	ver := int(atoi64(c.Ver))
	var fo []osmapi.FeatureOption
	var no []osmapi.NotesOption
	for _, o := range c.Opts {
		switch o.K {
		case "at":
			t, err := time.Parse(time.RFC3339, o.V)
			vio.Must(err, "at option")
			fo = append(fo, osmapi.At(t.In(time.FixedZone("z", o.N))))
		case "limit":
			no = append(no, osmapi.Limit(o.N))
		case "closed":
			no = append(no, osmapi.MaxDaysClosed(o.N))
		default:
			vio.Must(fmt.Errorf("unknown option %q", o.K), "option")
		}
	}
	var bounds *osm.Bounds
	if len(c.BBox) == 4 {
		f := func(k int64) float64 { return float64(k) / 1e7 }
		bounds = &osm.Bounds{MinLon: f(c.BBox[0]), MinLat: f(c.BBox[1]), MaxLon: f(c.BBox[2]), MaxLat: f(c.BBox[3])}
	}
	switch c.Ep {
	case "Node":
		if pkg {
			return osmapi.Node(ctx, osm.NodeID(id), fo...)
		}
		return ds.Node(ctx, osm.NodeID(id), fo...)
	case "Way":
		if pkg {
			return osmapi.Way(ctx, osm.WayID(id), fo...)
		}
		return ds.Way(ctx, osm.WayID(id), fo...)
	case "Relation":
		if pkg {
			return osmapi.Relation(ctx, osm.RelationID(id), fo...)
		}
		return ds.Relation(ctx, osm.RelationID(id), fo...)
	case "NodeVersion":
		if pkg {
			return osmapi.NodeVersion(ctx, osm.NodeID(id), ver)
		}
		return ds.NodeVersion(ctx, osm.NodeID(id), ver)
	case "WayVersion":
		if pkg {
			return osmapi.WayVersion(ctx, osm.WayID(id), ver)
		}
		return ds.WayVersion(ctx, osm.WayID(id), ver)
	case "RelationVersion":
		if pkg {
			return osmapi.RelationVersion(ctx, osm.RelationID(id), ver)
		}
		return ds.RelationVersion(ctx, osm.RelationID(id), ver)
	case "NodeHistory":
		if pkg {
			return osmapi.NodeHistory(ctx, osm.NodeID(id))
		}
		return ds.NodeHistory(ctx, osm.NodeID(id))
	case "WayHistory":
		if pkg {
			return osmapi.WayHistory(ctx, osm.WayID(id))
		}
		return ds.WayHistory(ctx, osm.WayID(id))
	case "RelationHistory":
		if pkg {
			return osmapi.RelationHistory(ctx, osm.RelationID(id))
		}
		return ds.RelationHistory(ctx, osm.RelationID(id))
	case "Nodes":
		ids := make([]osm.NodeID, 0)
		for _, s := range c.IDs {
			ids = append(ids, osm.NodeID(atoi64(s)))
		}
		if pkg {
			return osmapi.Nodes(ctx, ids, fo...)
		}
		return ds.Nodes(ctx, ids, fo...)
	case "Ways":
		ids := make([]osm.WayID, 0)
		for _, s := range c.IDs {
			ids = append(ids, osm.WayID(atoi64(s)))
		}
		if pkg {
			return osmapi.Ways(ctx, ids, fo...)
		}
		return ds.Ways(ctx, ids, fo...)
	case "Relations":
		ids := make([]osm.RelationID, 0)
		for _, s := range c.IDs {
			ids = append(ids, osm.RelationID(atoi64(s)))
		}
		if pkg {
			return osmapi.Relations(ctx, ids, fo...)
		}
		return ds.Relations(ctx, ids, fo...)
	case "NodeWays":
		if pkg {
			return osmapi.NodeWays(ctx, osm.NodeID(id), fo...)
		}
		return ds.NodeWays(ctx, osm.NodeID(id), fo...)
	case "NodeRelations":
		if pkg {
			return osmapi.NodeRelations(ctx, osm.NodeID(id), fo...)
		}
		return ds.NodeRelations(ctx, osm.NodeID(id), fo...)
	case "WayRelations":
		if pkg {
			return osmapi.WayRelations(ctx, osm.WayID(id), fo...)
		}
		return ds.WayRelations(ctx, osm.WayID(id), fo...)
	case "RelationRelations":
		if pkg {
			return osmapi.RelationRelations(ctx, osm.RelationID(id), fo...)
		}
		return ds.RelationRelations(ctx, osm.RelationID(id), fo...)
	case "WayFull":
		if pkg {
			return osmapi.WayFull(ctx, osm.WayID(id), fo...)
		}
		return ds.WayFull(ctx, osm.WayID(id), fo...)
	case "RelationFull":
		if pkg {
			return osmapi.RelationFull(ctx, osm.RelationID(id), fo...)
		}
		return ds.RelationFull(ctx, osm.RelationID(id), fo...)
	case "Map":
		if pkg {
			return osmapi.Map(ctx, bounds, fo...)
		}
		return ds.Map(ctx, bounds, fo...)
	case "Changeset":
		if pkg {
			return osmapi.Changeset(ctx, osm.ChangesetID(id))
		}
		return ds.Changeset(ctx, osm.ChangesetID(id))
	case "ChangesetWithDiscussion":
		if pkg {
			return osmapi.ChangesetWithDiscussion(ctx, osm.ChangesetID(id))
		}
		return ds.ChangesetWithDiscussion(ctx, osm.ChangesetID(id))
	case "ChangesetDownload":
		if pkg {
			return osmapi.ChangesetDownload(ctx, osm.ChangesetID(id))
		}
		return ds.ChangesetDownload(ctx, osm.ChangesetID(id))
	case "Note":
		if pkg {
			return osmapi.Note(ctx, osm.NoteID(id))
		}
		return ds.Note(ctx, osm.NoteID(id))
	case "Notes":
		if pkg {
			return osmapi.Notes(ctx, bounds, no...)
		}
		return ds.Notes(ctx, bounds, no...)
	case "NotesSearch":
		if pkg {
			return osmapi.NotesSearch(ctx, c.Q, no...)
		}
		return ds.NotesSearch(ctx, c.Q, no...)
	case "User":
		if pkg {
			return osmapi.User(ctx, osm.UserID(id))
		}
		return ds.User(ctx, osm.UserID(id))
	}
	vio.Must(fmt.Errorf("unknown endpoint %q", c.Ep), "dispatch")
	return nil, nil
}

func main() {
	srv := httptest.NewServer(http.HandlerFunc(handler))
	defer srv.Close()
	addr := srv.Listener.Addr().String()
	// every host name resolves to the local server; the URL (and so the Host header and path) is left as the
	// library built it
	tr := &http.Transport{
		DialContext: func(ctx context.Context, network, _ string) (net.Conn, error) {
			var d net.Dialer
			return d.DialContext(ctx, network, addr)
		},
		MaxIdleConnsPerHost: 4,
	}
	client := &http.Client{Transport: tr, Timeout: 120 * time.Second}
	defaultBase := osmapi.DefaultDatasource.BaseURL
	osmapi.DefaultDatasource.Client = client

	lines := vio.ReadLines()
	// calls run one at a time: the package-level functions share DefaultDatasource and the event log is one sequence
	vio.Map(lines, 1, func(i int, line []byte) interface{} {
		var c Case
		vio.Must(json.Unmarshal(line, &c), "case")
		var raw struct {
			Body json.RawMessage `json:"body"`
		}
		vio.Must(json.Unmarshal(line, &raw), "case body")

		mu.Lock()
		events = nil
		script.status, script.body, script.raw, script.flush = c.Status, renderBody(c.Body), raw.Body, c.Body.Flush
		mu.Unlock()

		var lim osmapi.RateLimiter
		if c.Lim == "set" {
			lim = &recLimiter{ok: c.LimOK}
		}
		var ds *osmapi.Datasource
		switch c.Via {
		case "ds":
			ds = &osmapi.Datasource{BaseURL: c.Base, Client: client, Limiter: lim}
		case "dsnil":
			ds = &osmapi.Datasource{BaseURL: c.Base, Limiter: lim}
		case "pkg":
			ds = osmapi.DefaultDatasource
			ds.Limiter = lim
			if c.Base == "" {
				ds.BaseURL = defaultBase // nothing configured
			} else {
				ds.BaseURL = c.Base
			}
		default:
			vio.Must(fmt.Errorf("unknown via %q", c.Via), "case")
		}

		ret := Event{"e": "ret", "errtype": "", "limerr": false, "code": 0, "notfound": false, "els": []El{}, "zero": true}
		func() {
			defer func() {
				if p := recover(); p != nil {
					ret["errtype"] = "panic"
					ret["panic"] = fmt.Sprint(p)
				}
			}()
			v, err := call(&c, ds)
			ret["els"] = flat(v)
			// is the returned value the zero value of its type (nil pointer, nil slice)?
			rv := reflect.ValueOf(v)
			ret["zero"] = !rv.IsValid() || rv.IsZero()
			ret["notfound"] = ds.NotFound(err)
			if err != nil {
				ret["errtype"] = fmt.Sprintf("%T", err)
				ret["limerr"] = errors.Is(err, errLimiter)
				ret["errmsg"] = err.Error()
				if u, ok := err.(*osmapi.UnexpectedStatusCodeError); ok {
					ret["code"] = u.Code
				}
			}
		}()
		if c.Via == "pkg" {
			osmapi.DefaultDatasource.Limiter = nil
			osmapi.DefaultDatasource.BaseURL = defaultBase
		}
		mu.Lock()
		evs := append([]Event(nil), events...)
		mu.Unlock()
		evs = append(evs, ret)
		return Rec{Case: line, Ev: evs}
	})
}
