// c16: renders abstract multipolygon cases (Multipolygon.tla) into osm relations + ways (+ nodes),
// runs osmgeojson.Convert / annotate.Relations from the real code and records the resulting rings
// as vertex symbols.  Neutral renderer/recorder: it knows where a symbol is placed, nothing else -
// no expected rings, no orientation logic (member orientations are copied from the case).
package main

import (
	"context"
	"encoding/json"
	"fmt"
	"hash/fnv"
	"math"
	"os"
	"sort"
	"strconv"
	"time"

	"github.com/paulmach/orb"
	"github.com/paulmach/orb/geojson"
	"github.com/paulmach/osm"
	"github.com/paulmach/osm/annotate"
	"github.com/paulmach/osm/osmgeojson"
	"verifharness/internal/vio"
)

type RingDesc struct {
	N      int `json:"n"`
	Parent int `json:"parent"`
}

type Member struct {
	Role  string `json:"role"`
	Nodes []int  `json:"nodes"`
	Dir   int    `json:"dir"`
}

type Case struct {
	G       []RingDesc `json:"g"`
	Members []Member   `json:"members"`
	Masks   [][]bool   `json:"masks"`
	RType   string     `json:"rtype"`
	NOrder  int        `json:"norder"`
	Grid    bool       `json:"grid"`  // place the vertices on a coarse grid (rings share latitudes / longitudes exactly)
	Near    bool       `json:"near"`  // two sibling rings get vertices a single 1e-7 degree step apart
	Place   string     `json:"place"` // "" | "grid" | "near" | "tiny" | "concave" (grid / near: also the two flags above)
	Ids     IdSpec     `json:"ids"`   // node / way id assignment
	Vers    [][]bool   `json:"vers"`  // relation history: vers[v][i] = member way i is reversed at relation version v+1
	Doc     *DocSpec   `json:"doc"`   // the relation is observed inside a document of several relations sharing ways
}

// IdSpec: "" ids of the placement | zero: vertex Z is node 0 | span: ids sym-Z | neg: all negative | i31 / i32: ids around
// 2^31 / 2^32 with vertex Z exactly on the power of two
type IdSpec struct {
	Mode string `json:"mode"`
	Z    int    `json:"z"`
}

func (c *Case) remapIDs(l *layout) {
	for s := range l.id {
		d := int64(s - c.Ids.Z)
		switch c.Ids.Mode {
		case "zero":
			if s == c.Ids.Z {
				l.id[s] = 0
			}
		case "span":
			l.id[s] = osm.NodeID(d)
		case "neg":
			l.id[s] = osm.NodeID(-(1000 + int64(s)))
		case "i31":
			l.id[s] = osm.NodeID((int64(1) << 31) + d)
		case "i32":
			l.id[s] = osm.NodeID((int64(1) << 32) + d)
		}
	}
}

func (c *Case) wayID(i int) osm.WayID {
	switch c.Ids.Mode {
	case "i31":
		return osm.WayID((int64(1) << 31) - 2 + int64(i))
	case "i32":
		return osm.WayID((int64(1) << 32) - 2 + int64(i))
	}
	return osm.WayID(500 + i)
}

// DocSpec: a document of 2-3 relations sharing ways; the case observes relation K (1-based) of Rels.
type RelSpec struct {
	G       []RingDesc `json:"g"`
	Members []Member   `json:"members"`
	Masks   [][]bool   `json:"masks"`
	RType   string     `json:"rtype"`
}

type DocSpec struct {
	Spec     string    `json:"spec"`
	Kind     string    `json:"kind"` // adjacent: A,B | island: A,C | both: A,B,C
	S        int       `json:"s"`    // edges of the border shared by A and B
	K        int       `json:"k"`
	Rels     []RelSpec `json:"rels"`
	RelOrder []int     `json:"relorder"`
}

type Run struct {
	Src     string    `json:"src"`
	M       int       `json:"m"` // 1-based index into case.masks (0 = orientation taken from annotate.Relations)
	NPoly   int       `json:"npoly"`
	NFeat   int       `json:"nfeat"`
	Polys   [][][]int `json:"polys"`
	Tainted bool      `json:"tainted"`
	Crash   bool      `json:"crash"`
	Err     string    `json:"err"`
}

type VerGot struct {
	Annot []int `json:"annot"` // Member.Orientation of this relation version after annotate.Relations on the history
	Pipe  Run   `json:"pipe"`  // conversion of this annotated version with the way versions current at it
}

type Got struct {
	Runs   []Run    `json:"runs"`
	Annot  []int    `json:"annot"`
	AnnErr string   `json:"annerr"`
	Pipe   Run      `json:"pipe"`
	Vers   []VerGot `json:"vers"`
	VErr   string   `json:"verr"`
}

type Rec struct {
	Case json.RawMessage `json:"case"`
	Got  Got             `json:"got"`
}

// ---- symbol map: vertex symbol r*100+i  <->  node id, coordinate ----

type profile struct {
	lon0, lat0, radius float64
	idBase             int64
	snap               int // 1: first vertex of the first outer has lon == 0 exactly, 2: lat == 0 exactly
}

var profiles = []profile{
	{-81.8752338, 41.4176729, 0.01, 1000, 0},
	{0.0031, -0.0017, 0.01, 1 << 31, 0}, // straddles lon = 0 and lat = 0
	{150.25, -70.5, 2.0, 1 << 40, 0},    // large, far south-east
	{-120.5, 60.25, 1e-5, 900000000, 0}, // tiny
	{0, 10, 0.5, 77, 1},                 // a vertex with lon == 0 (lat != 0): still a location
	{-33.3, 0, 0.02, 5000000000, 2},     // a vertex with lat == 0 (lon != 0): still a location
}

type layout struct {
	pt  map[int]orb.Point
	sym map[orb.Point]int
	id  map[int]osm.NodeID
}

func place(c *Case, seed uint64, h uint64) *layout {
	x := seed*0x9E3779B97F4A7C15 ^ h
	next := func() float64 { // splitmix64 -> [0,1)
		x += 0x9E3779B97F4A7C15
		z := x
		z = (z ^ (z >> 30)) * 0xBF58476D1CE4E5B9
		z = (z ^ (z >> 27)) * 0x94D049BB133111EB
		z ^= z >> 31
		return float64(z>>11) / float64(uint64(1)<<53)
	}
	l := &layout{pt: map[int]orb.Point{}, sym: map[orb.Point]int{}, id: map[int]osm.NodeID{}}
	switch {
	case c.Grid || c.Place == "grid":
		placeGrid(c, l, next)
		return l
	case c.Near || c.Place == "near":
		placeNear(c, l, next)
		return l
	case c.Place == "tiny":
		placeTiny(c, l, next)
		return l
	case c.Place == "concave":
		placeConcave(c, l, next)
		return l
	}
	p := profiles[int(next()*float64(len(profiles)))%len(profiles)]

	// vertex angles: counter-clockwise on a circle (convex), slightly irregular
	ang := make([][]float64, len(c.G)+1)
	for r := 1; r <= len(c.G); r++ {
		n := c.G[r-1].N
		th0 := next() * 2 * math.Pi
		ang[r] = make([]float64, n+1)
		for i := 1; i <= n; i++ {
			ang[r][i] = th0 + 2*math.Pi*(float64(i-1)+0.1*(2*next()-1))/float64(n)
		}
	}

	type circ struct{ cx, cy, r float64 }
	cs := make([]circ, len(c.G)+1)
	k := 0
	dir := next() * 2 * math.Pi // outers are lined up in this direction: disjoint discs
	for r := 1; r <= len(c.G); r++ {
		if c.G[r-1].Parent == 0 {
			cx, cy := p.lon0, p.lat0
			if k == 0 && p.snap == 1 {
				cx = -(p.radius * math.Cos(ang[r][1]))
			}
			if k == 0 && p.snap == 2 {
				cy = -(p.radius * math.Sin(ang[r][1]))
			}
			if k == 0 {
				cs[r] = circ{cx, cy, p.radius}
				p.lon0, p.lat0 = cx, cy
			} else {
				cs[r] = circ{p.lon0 + float64(k)*3*p.radius*math.Cos(dir), p.lat0 + float64(k)*3*p.radius*math.Sin(dir), p.radius}
			}
			k++
		}
	}
	for X := 1; X <= len(c.G); X++ { // holes: small discs strictly inside the inscribed disc of their outer
		var hs []int
		for r := 1; r <= len(c.G); r++ {
			if c.G[r-1].Parent == X {
				hs = append(hs, r)
			}
		}
		phi0 := next() * 2 * math.Pi
		for j, r := range hs {
			d, rho := 0.0, 0.2
			if len(hs) == 2 {
				d, rho = 0.15, 0.1
			} else if len(hs) > 2 {
				d, rho = 0.15, 0.35*0.15*math.Sin(math.Pi/float64(len(hs)))*2
			}
			phi := phi0 + 2*math.Pi*float64(j)/float64(len(hs))
			cs[r] = circ{cs[X].cx + d*cs[X].r*math.Cos(phi), cs[X].cy + d*cs[X].r*math.Sin(phi), rho * cs[X].r}
		}
	}
	for r := 1; r <= len(c.G); r++ {
		for i := 1; i <= c.G[r-1].N; i++ {
			th := ang[r][i]
			pt := orb.Point{cs[r].cx + cs[r].r*math.Cos(th), cs[r].cy + cs[r].r*math.Sin(th)}
			if pt[0] == 0 && pt[1] == 0 { // lon = lat = 0 means "no location" on a way node: outside the property
				pt[0] = 1e-9
			}
			s := r*100 + i
			if _, dup := l.sym[pt]; dup {
				vio.Must(fmt.Errorf("two symbols on one coordinate"), "layout")
			}
			l.pt[s] = pt
			l.sym[pt] = s
			l.id[s] = osm.NodeID(p.idBase + int64(s))
		}
	}
	return l
}

// ---- grid layout ----
// Every vertex lies on an integer grid (unit 1/8 degree). Outers are star-shaped rings with their vertices on 24
// directions at distance 40 around centres 120 units apart on one row (east / west) or one column (north / south);
// holes have their vertices on 12 directions at distance 10 / 5 / 4 around integer centres near the centre of their
// outer. One vertex of every ring lies on an axis direction, so hole vertices share their latitude (row) or their
// longitude (column) exactly with vertices of the other outers - vertices that are no north/south extrema.
// The layout checks its own contract with exact integer arithmetic: rings listed counter-clockwise around their
// centre, holes strictly inside their own outer and strictly outside the others, outers in disjoint boxes.
type ipt struct{ x, y int64 }

func placeGrid(c *Case, l *layout, next func() float64) {
	const ro = 40
	dirs := [][2]int64{{1, 0}, {-1, 0}, {1, 0}, {-1, 0}, {0, 1}, {0, -1}}
	d := dirs[int(next()*6)%6]
	centre := make([]ipt, len(c.G)+1)
	rings := make([][]ipt, len(c.G)+1)
	spoke := func(ctr ipt, rad float64, idx, of int) ipt {
		th := 2 * math.Pi * float64(idx) / float64(of)
		return ipt{ctr.x + int64(math.Round(rad*math.Cos(th))), ctr.y + int64(math.Round(rad*math.Sin(th)))}
	}
	k := int64(0)
	for r := 1; r <= len(c.G); r++ {
		if c.G[r-1].Parent != 0 {
			continue
		}
		n := c.G[r-1].N
		if n > 24 {
			vio.Must(fmt.Errorf("outer with %d vertices", n), "grid layout")
		}
		centre[r] = ipt{k * 120 * d[0], k * 120 * d[1]}
		k++
		off := 6 * (int(next()*4) % 4)
		for i := 0; i < n; i++ {
			rings[r] = append(rings[r], spoke(centre[r], ro, (off+i*24/n)%24, 24))
		}
	}
	for X := 1; X <= len(c.G); X++ {
		var hs []int
		for r := 1; r <= len(c.G); r++ {
			if c.G[r-1].Parent == X {
				hs = append(hs, r)
			}
		}
		var offs []ipt
		rho := 10.0
		switch len(hs) {
		case 0, 1:
			offs = []ipt{{0, 0}}
		case 2:
			rho = 5
			if next() < 0.5 {
				offs = []ipt{{7, 0}, {-7, 0}}
			} else {
				offs = []ipt{{0, 7}, {0, -7}}
			}
		case 3:
			rho = 4
			offs = []ipt{{0, 8}, {-7, -4}, {7, -4}}
		default:
			vio.Must(fmt.Errorf("%d holes in one outer", len(hs)), "grid layout")
		}
		for j, r := range hs {
			n := c.G[r-1].N
			if n > 12 {
				vio.Must(fmt.Errorf("hole with %d vertices", n), "grid layout")
			}
			centre[r] = ipt{centre[X].x + offs[j].x, centre[X].y + offs[j].y}
			off := 3 * (int(next()*4) % 4)
			for i := 0; i < n; i++ {
				rings[r] = append(rings[r], spoke(centre[r], rho, (off+i*12/n)%12, 12))
			}
		}
	}

	// the layout's own contract, exact
	cross := func(o, a, b ipt) int64 { return (a.x-o.x)*(b.y-o.y) - (a.y-o.y)*(b.x-o.x) }
	strictlyInside := func(ring []ipt, ctr ipt, p ipt) bool { // ring is star-shaped around ctr, listed counter-clockwise
		for i := range ring {
			a, b := ring[i], ring[(i+1)%len(ring)]
			if cross(ctr, a, p) >= 0 && cross(ctr, p, b) > 0 { // p in the wedge a..b (half open)
				return cross(a, b, p) > 0
			}
		}
		return p == ctr
	}
	for r := 1; r <= len(c.G); r++ {
		for i := range rings[r] {
			if cross(centre[r], rings[r][i], rings[r][(i+1)%len(rings[r])]) <= 0 {
				vio.Must(fmt.Errorf("ring %d is not counter-clockwise around its centre", r), "grid layout")
			}
		}
		if X := c.G[r-1].Parent; X != 0 {
			for _, p := range rings[r] {
				if !strictlyInside(rings[X], centre[X], p) {
					vio.Must(fmt.Errorf("hole %d not strictly inside outer %d", r, X), "grid layout")
				}
			}
			for r2 := 1; r2 <= len(c.G); r2++ {
				if r2 != r && c.G[r2-1].Parent == X { // holes of one outer: disjoint boxes
					a, b := centre[r], centre[r2]
					if (a.x-b.x)*(a.x-b.x)+(a.y-b.y)*(a.y-b.y) < 13*13 {
						vio.Must(fmt.Errorf("holes %d and %d too close", r, r2), "grid layout")
					}
				}
			}
		}
	}

	const unit, lon0, lat0 = 0.125, 60.0625, 20.0625 // dyadic: every coordinate is exact, none is 0
	for r := 1; r <= len(c.G); r++ {
		for i, q := range rings[r] {
			s := r*100 + i + 1
			pt := orb.Point{lon0 + float64(q.x)*unit, lat0 + float64(q.y)*unit}
			if _, dup := l.sym[pt]; dup {
				vio.Must(fmt.Errorf("two symbols on one coordinate"), "grid layout")
			}
			l.pt[s] = pt
			l.sym[pt] = s
			l.id[s] = osm.NodeID(3000 + int64(s))
		}
	}
}

// exact position of an integer point relative to a simple integer polygon: 1 inside, 0 on the boundary, -1 outside
func insideInt(poly []ipt, p ipt) int {
	in := false
	for i := range poly {
		a, b := poly[i], poly[(i+1)%len(poly)]
		cr := (b.x-a.x)*(p.y-a.y) - (b.y-a.y)*(p.x-a.x)
		if cr == 0 && minI(a.x, b.x) <= p.x && p.x <= maxI(a.x, b.x) && minI(a.y, b.y) <= p.y && p.y <= maxI(a.y, b.y) {
			return 0
		}
		if (a.y > p.y) != (b.y > p.y) { // edge crosses the horizontal line through p: is the crossing east of p ?
			if (cr > 0) == (b.y > a.y) {
				in = !in
			}
		}
	}
	if in {
		return 1
	}
	return -1
}

func minI(a, b int64) int64 {
	if a < b {
		return a
	}
	return b
}

func maxI(a, b int64) int64 {
	if a > b {
		return a
	}
	return b
}

func area2(poly []ipt) int64 {
	var s int64
	for i := range poly {
		a, b := poly[i], poly[(i+1)%len(poly)]
		s += a.x*b.y - b.x*a.y
	}
	return s
}

// ---- tiny layout ----
// Rings without holes are lattice polygons 1..5 coordinate steps (1e-7 degree) across, at anchors far from lon = lat
// = 0 in all four sign quadrants; an outer with holes is a lattice polygon just large enough to hold its tiny holes.
var tinyTemplates = map[int][][]ipt{
	3: {{{0, 0}, {2, 0}, {0, 1}}, {{0, 0}, {3, 1}, {1, 2}}, {{0, 0}, {1, 0}, {0, 1}}, {{0, 0}, {3, 0}, {1, 2}}},
	4: {{{0, 0}, {2, 0}, {2, 1}, {0, 1}}, {{0, 0}, {1, 0}, {1, 1}, {0, 1}}, {{0, 0}, {2, 0}, {3, 2}, {1, 2}}, {{0, 0}, {3, 0}, {2, 2}, {1, 2}}},
	5: {{{0, 0}, {2, 0}, {3, 1}, {2, 2}, {0, 2}}, {{0, 0}, {1, 0}, {2, 1}, {1, 2}, {0, 1}}},
}
var tinyAnchors = [][2]int64{{1001234567, 407654321}, {1512093000, -338688000}, {-1224194000, 377749000},
	{-583816000, -346037000}, {1399999990, 357000011}, {-700000003, -199999998}}

func placeTiny(c *Case, l *layout, next func() float64) {
	a := tinyAnchors[int(next()*float64(len(tinyAnchors)))%len(tinyAnchors)]
	a[0] += int64(next()*8192) - 4096
	a[1] += int64(next()*8192) - 4096
	tmpl := func(n int, maxScale int64) []ipt {
		ts := tinyTemplates[n]
		if ts == nil {
			vio.Must(fmt.Errorf("ring with %d vertices", n), "tiny layout")
		}
		t := ts[int(next()*float64(len(ts)))%len(ts)]
		var ext int64
		for _, q := range t {
			ext = maxI(ext, maxI(q.x, q.y))
		}
		sc := 1 + int64(next()*float64(maxScale/ext))%maxI(maxScale/ext, 1)
		rot := int(next()*float64(n)) % n
		out := make([]ipt, n)
		for i := range t {
			q := t[(i+rot)%n]
			out[i] = ipt{q.x * sc, q.y * sc}
		}
		return out
	}
	put := func(r int, ring []ipt, ox, oy int64) {
		if area2(ring) <= 0 {
			vio.Must(fmt.Errorf("ring %d not counter-clockwise", r), "tiny layout")
		}
		for i, q := range ring {
			pt := orb.Point{float64(a[0]+ox+q.x) / 1e7, float64(a[1]+oy+q.y) / 1e7}
			s := r*100 + i + 1
			if _, dup := l.sym[pt]; dup {
				vio.Must(fmt.Errorf("two symbols on one coordinate"), "tiny layout")
			}
			l.pt[s], l.sym[pt], l.id[s] = pt, s, osm.NodeID(9000+int64(s))
		}
	}
	k := int64(0)
	for X := 1; X <= len(c.G); X++ {
		if c.G[X-1].Parent != 0 {
			continue
		}
		var hs []int
		for r := 1; r <= len(c.G); r++ {
			if c.G[r-1].Parent == X {
				hs = append(hs, r)
			}
		}
		ox := 60 * k
		k++
		if len(hs) == 0 {
			put(X, tmpl(c.G[X-1].N, 5), ox, 0)
			continue
		}
		// outer: a template blown up; holes: tiny templates at lattice offsets found by exact search
		outer := tmpl(c.G[X-1].N, 2)
		var ext int64
		for _, q := range outer {
			ext = maxI(ext, maxI(q.x, q.y))
		}
		f := 24 / ext
		for i := range outer {
			outer[i] = ipt{outer[i].x * f, outer[i].y * f}
		}
		put(X, outer, ox, 0)
		var placed [][]ipt
		for _, h := range hs {
			hole := tmpl(c.G[h-1].N, 3)
			found := false
			start := int64(next() * 24)
		search:
			for d := int64(0); d < 24*24; d++ {
				px, py := (start+d)%24, ((start+d)/24)%24
				cand := make([]ipt, len(hole))
				for i, q := range hole {
					cand[i] = ipt{px + q.x, py + q.y}
					if insideInt(outer, cand[i]) != 1 {
						continue search
					}
				}
				for _, other := range placed { // keep the holes apart: bounding boxes at least one step apart
					var ax0, ay0, ax1, ay1, bx0, by0, bx1, by1 int64 = 1 << 40, 1 << 40, -1 << 40, -1 << 40, 1 << 40, 1 << 40, -1 << 40, -1 << 40
					for _, q := range cand {
						ax0, ay0, ax1, ay1 = minI(ax0, q.x), minI(ay0, q.y), maxI(ax1, q.x), maxI(ay1, q.y)
					}
					for _, q := range other {
						bx0, by0, bx1, by1 = minI(bx0, q.x), minI(by0, q.y), maxI(bx1, q.x), maxI(by1, q.y)
					}
					if !(ax1+1 < bx0 || bx1+1 < ax0 || ay1+1 < by0 || by1+1 < ay0) {
						continue search
					}
				}
				placed = append(placed, cand)
				put(h, cand, ox, 0)
				found = true
				break
			}
			if !found {
				vio.Must(fmt.Errorf("no room for hole %d", h), "tiny layout")
			}
		}
	}
}

// ---- concave layout ----
// Outers with a hole are chevrons: feet L, R, apex T (or a flat top T1 T2) and a reflex vertex N that makes a deep notch
// between the feet. Their hole is a thinner chevron inside the arms; the middle of its bounding box lies in the notch,
// i.e. outside the hole and outside the hole's own outer. The first outer without holes sits in the notch of the first
// chevron, around that middle point; further ones lie apart. Unit 1e-5 degree; every containment fact is verified exactly.
func placeConcave(c *Case, l *layout, next func() float64) {
	p := profiles[int(next()*float64(len(profiles)))%len(profiles)]
	const unit = 1e-5
	chevOuter := map[int][]ipt{4: {{0, 0}, {100, 200}, {200, 0}, {100, 300}}, 5: {{0, 0}, {100, 200}, {200, 0}, {110, 300}, {90, 300}}}
	chevHole := map[int][]ipt{4: {{25, 60}, {100, 240}, {175, 60}, {100, 285}}, 5: {{25, 60}, {100, 240}, {175, 60}, {104, 285}, {96, 285}}}
	notch := map[int][]ipt{3: {{92, 150}, {108, 150}, {100, 180}}, 4: {{92, 150}, {108, 150}, {106, 178}, {94, 178}},
		5: {{92, 150}, {108, 150}, {108, 170}, {100, 180}, {92, 170}}}
	rotd := func(t []ipt, ox int64) []ipt {
		if t == nil {
			vio.Must(fmt.Errorf("no concave template"), "concave layout")
		}
		n := len(t)
		rot := int(next()*float64(n)) % n
		out := make([]ipt, n)
		for i := range t {
			out[i] = ipt{t[(i+rot)%n].x + ox, t[(i+rot)%n].y}
		}
		return out
	}
	put := func(r int, ring []ipt) {
		if area2(ring) <= 0 {
			vio.Must(fmt.Errorf("ring %d not counter-clockwise", r), "concave layout")
		}
		for i, q := range ring {
			pt := orb.Point{p.lon0 + float64(q.x)*unit, p.lat0 + float64(q.y)*unit}
			if pt[0] == 0 && pt[1] == 0 {
				pt[0] = 1e-9
			}
			s := r*100 + i + 1
			if _, dup := l.sym[pt]; dup {
				vio.Must(fmt.Errorf("two symbols on one coordinate"), "concave layout")
			}
			l.pt[s], l.sym[pt], l.id[s] = pt, s, osm.NodeID(p.idBase+20000+int64(s))
		}
	}
	var first []ipt // the first chevron outer
	var firstHole []ipt
	k := int64(0)
	var plain []int
	for X := 1; X <= len(c.G); X++ {
		if c.G[X-1].Parent != 0 {
			continue
		}
		h := 0
		for r := 1; r <= len(c.G); r++ {
			if c.G[r-1].Parent == X {
				if h != 0 {
					vio.Must(fmt.Errorf("two holes in outer %d", X), "concave layout")
				}
				h = r
			}
		}
		if h == 0 {
			plain = append(plain, X)
			continue
		}
		outer := rotd(chevOuter[c.G[X-1].N], 300*k)
		hole := rotd(chevHole[c.G[h-1].N], 300*k)
		k++
		for _, q := range hole {
			if insideInt(outer, q) != 1 {
				vio.Must(fmt.Errorf("hole %d not strictly inside outer %d", h, X), "concave layout")
			}
		}
		if first == nil {
			first, firstHole = outer, hole
		}
		put(X, outer)
		put(h, hole)
	}
	if first == nil {
		vio.Must(fmt.Errorf("no outer with a hole"), "concave layout")
	}
	for j, X := range plain {
		var ring []ipt
		if j == 0 {
			ring = rotd(notch[c.G[X-1].N], 0)
			for _, q := range ring { // in the notch: outside the chevron; and it covers the middle of the hole's box
				if insideInt(first, q) != -1 {
					vio.Must(fmt.Errorf("outer %d touches the chevron", X), "concave layout")
				}
			}
			var x0, y0, x1, y1 int64 = 1 << 40, 1 << 40, -1 << 40, -1 << 40
			for _, q := range firstHole {
				x0, y0, x1, y1 = minI(x0, q.x), minI(y0, q.y), maxI(x1, q.x), maxI(y1, q.y)
			}
			mid2 := ipt{x0 + x1, y0 + y1} // twice the middle, to stay in integers
			dbl := make([]ipt, len(ring))
			for i, q := range ring {
				dbl[i] = ipt{2 * q.x, 2 * q.y}
			}
			if insideInt(dbl, mid2) != 1 {
				vio.Must(fmt.Errorf("outer %d does not cover the middle of the hole's box", X), "concave layout")
			}
		} else {
			ring = rotd(notch[c.G[X-1].N], 300*(k+int64(j)))
		}
		put(X, ring)
	}
}

// ---- near layout ----
// All vertices on the 1e-7 degree grid of osm coordinates (integers / 1e7). Rings are regular polygons. The first two
// outers touch almost: one vertex of the first lies exactly one grid step west (or south) of one vertex of the second,
// same latitude (longitude). Likewise the first two holes of every outer. Which vertex of a ring is the near one is
// seeded, so over the enumerated cuts it is a cut position or an inner vertex of a way. Rings stay disjoint (discs one
// step apart), holes strictly inside their outer.
func placeNear(c *Case, l *layout, next func() float64) {
	bases := [][2]int64{{133710000, 525103000}, {-818752338, 414176729}, {1502500000, -705000000}, {31000, -17000}, {77000000, 9000000}}
	b := bases[int(next()*float64(len(bases)))%len(bases)]
	b[0] += int64(next() * 4096)
	b[1] += int64(next() * 4096)
	vert := next() < 0.3
	const R = 10000 // 0.001 degree
	rot := func(dx, dy int64) (int64, int64) {
		if vert {
			return -dy, dx
		}
		return dx, dy
	}
	aoff := 0.0
	if vert {
		aoff = math.Pi / 2
	}
	ring := func(r int, cx, cy int64, rad float64, ang float64) {
		n := c.G[r-1].N
		f := 1 + int(next()*float64(n))%n // the vertex placed at angle ang
		for i := 1; i <= n; i++ {
			th := ang + aoff + 2*math.Pi*float64(i-f)/float64(n)
			X := cx + int64(math.Round(rad*math.Cos(th)))
			Y := cy + int64(math.Round(rad*math.Sin(th)))
			pt := orb.Point{float64(X) / 1e7, float64(Y) / 1e7}
			if pt[0] == 0 && pt[1] == 0 {
				pt[0] = 1e-7
			}
			s := r*100 + i
			if _, dup := l.sym[pt]; dup {
				vio.Must(fmt.Errorf("two symbols on one coordinate"), "near layout")
			}
			l.pt[s], l.sym[pt], l.id[s] = pt, s, osm.NodeID(7000+int64(s))
		}
	}
	centre := map[int][2]int64{}
	k := int64(0)
	for r := 1; r <= len(c.G); r++ {
		if c.G[r-1].Parent != 0 {
			continue
		}
		var dx, dy int64
		ang := 0.0
		switch {
		case k == 1:
			dx, dy = rot(2*R+1, 0)
			ang = math.Pi
		case k >= 2:
			dx, dy = rot(0, -3*R*(k-1))
		}
		centre[r] = [2]int64{b[0] + dx, b[1] + dy}
		ring(r, centre[r][0], centre[r][1], R, ang)
		k++
	}
	for X := 1; X <= len(c.G); X++ {
		var hs []int
		for r := 1; r <= len(c.G); r++ {
			if c.G[r-1].Parent == X {
				hs = append(hs, r)
			}
		}
		const rho = R / 10
		for j, r := range hs {
			var dx, dy int64
			rad, ang := float64(rho), 0.0
			switch {
			case len(hs) == 1:
				rad = 2 * rho
			case j == 0:
				dx, dy = rot(-rho, 0)
			case j == 1:
				dx, dy = rot(rho+1, 0)
				ang = math.Pi
			case j == 2:
				dx, dy = rot(0, 2*rho+rho/2)
				rad = 0.6 * rho
			default:
				vio.Must(fmt.Errorf("%d holes in one outer", len(hs)), "near layout")
			}
			ring(r, centre[X][0]+dx, centre[X][1]+dy, rad, ang)
		}
	}
}

func (l *layout) ring(r orb.Ring) []int {
	out := make([]int, len(r))
	for i, p := range r {
		out[i] = l.sym[p] // 0 = not the coordinate of any vertex
	}
	return out
}

func (l *layout) poly(p orb.Polygon) [][]int {
	out := make([][]int, len(p))
	for i, r := range p {
		out[i] = l.ring(r)
	}
	return out
}

var t0 = time.Date(2012, 9, 12, 10, 0, 0, 0, time.UTC)

// build renders the case. src: "nodes" (separate node objects) | "waynodes" (annotated way nodes).
func build(c *Case, l *layout, src string, mask []bool) *osm.OSM {
	o := &osm.OSM{}
	rel := &osm.Relation{ID: 7, Version: 1, Visible: true, Timestamp: t0.Add(time.Hour),
		Tags: osm.Tags{{Key: "type", Value: c.RType}}}
	if c.NOrder == 1 {
		rel.Tags = append(osm.Tags{{Key: "name", Value: "x"}}, rel.Tags...)
	}
	used := map[int]bool{}
	for i, m := range c.Members {
		w := &osm.Way{ID: c.wayID(i), Version: 1, Visible: true, Timestamp: t0}
		for _, s := range m.Nodes {
			wn := osm.WayNode{ID: l.id[s]}
			if src == "waynodes" {
				wn.Version, wn.Lon, wn.Lat = 1, l.pt[s][0], l.pt[s][1]
			}
			w.Nodes = append(w.Nodes, wn)
			used[s] = true
		}
		o.Ways = append(o.Ways, w)
		mem := osm.Member{Type: osm.TypeWay, Ref: int64(w.ID), Role: m.Role}
		if mask != nil && mask[i] {
			mem.Orientation = orb.Orientation(m.Dir)
		}
		rel.Members = append(rel.Members, mem)
	}
	o.Relations = osm.Relations{rel}
	if src == "nodes" {
		var syms []int
		for s := range used {
			syms = append(syms, s)
		}
		sort.Ints(syms)
		switch c.NOrder {
		case 1:
			sort.Sort(sort.Reverse(sort.IntSlice(syms)))
		case 2:
			sort.Slice(syms, func(a, b int) bool { return (syms[a]*37)%101 < (syms[b]*37)%101 })
		}
		for _, s := range syms {
			o.Nodes = append(o.Nodes, &osm.Node{ID: l.id[s], Version: 1, Visible: true, Lon: l.pt[s][0], Lat: l.pt[s][1], Timestamp: t0})
		}
		if c.NOrder == 2 { // ways listed in reverse too
			for a, b := 0, len(o.Ways)-1; a < b; a, b = a+1, b-1 {
				o.Ways[a], o.Ways[b] = o.Ways[b], o.Ways[a]
			}
		}
	}
	return o
}

func convert(o *osm.OSM, l *layout, src string, m int) (run Run) {
	run = Run{Src: src, M: m, Polys: [][][]int{}}
	defer func() {
		if r := recover(); r != nil {
			run.Crash = true
			run.Err = fmt.Sprint(r)
		}
	}()
	fc, err := osmgeojson.Convert(o)
	if err != nil {
		run.Err = err.Error()
		return
	}
	run.NFeat = len(fc.Features)
	for _, f := range fc.Features {
		switch g := f.Geometry.(type) {
		case orb.Polygon:
			run.NPoly++
			if run.NPoly == 1 {
				run.Polys = append(run.Polys, l.poly(g))
				run.Tainted = tainted(f)
			}
		case orb.MultiPolygon:
			run.NPoly++
			if run.NPoly == 1 {
				for _, p := range g {
					run.Polys = append(run.Polys, l.poly(p))
				}
				run.Tainted = tainted(f)
			}
		}
	}
	return
}

func tainted(f *geojson.Feature) bool {
	t, _ := f.Properties["tainted"].(bool)
	return t
}

func doCase(c *Case, seed uint64, line []byte) Got {
	h := fnv.New64a()
	h.Write(line)
	l := place(c, seed, h.Sum64())
	c.remapIDs(l)
	if os.Getenv("C16_DUMP") != "" { // debugging aid for replays: where every symbol was placed
		for s, pt := range l.pt {
			fmt.Fprintf(os.Stderr, "sym %d id %d lon %.17g lat %.17g\n", s, l.id[s], pt[0], pt[1])
		}
	}
	got := Got{Runs: []Run{}, Annot: []int{}}
	for _, src := range []string{"nodes", "waynodes"} {
		for mi, mask := range c.Masks {
			if src == "waynodes" && mi >= 2 {
				continue // the partial masks are run with one coordinate source only
			}
			got.Runs = append(got.Runs, convert(build(c, l, src, mask), l, src, mi+1))
		}
	}
	// annotate.Relations on the un-annotated relation, history datasource made of the (annotated) ways
	o := build(c, l, "waynodes", nil)
	func() {
		defer func() {
			if r := recover(); r != nil {
				got.AnnErr = "crash: " + fmt.Sprint(r)
			}
		}()
		ds := (&osm.OSM{Ways: o.Ways}).HistoryDatasource()
		if err := annotate.Relations(context.Background(), o.Relations, ds, annotate.Threshold(30*time.Minute)); err != nil {
			got.AnnErr = err.Error()
		}
	}()
	for _, m := range o.Relations[0].Members {
		got.Annot = append(got.Annot, int(m.Orientation))
	}
	// production pipeline: convert the relation as annotated by the real annotator
	got.Pipe = convert(o, l, "waynodes", 0)
	doVersions(c, l, &got)
	return got
}

// doVersions: a history of the relation with identical member lists (one version per entry of c.Vers); member way i
// gets a new version with its nodes in opposite order whenever c.Vers[v][i] changes from one relation version to the
// next. All relation versions are annotated in ONE annotate.Relations call; every annotated version is converted
// together with the way versions current at it.
func doVersions(c *Case, l *layout, got *Got) {
	got.Vers = []VerGot{}
	if len(c.Vers) == 0 {
		return
	}
	day := 24 * time.Hour
	wayNodes := func(m Member, rev bool) osm.WayNodes {
		var wn osm.WayNodes
		for _, s := range m.Nodes {
			wn = append(wn, osm.WayNode{ID: l.id[s], Version: 1, ChangesetID: 1, Lon: l.pt[s][0], Lat: l.pt[s][1]})
		}
		if rev {
			for a, b := 0, len(wn)-1; a < b; a, b = a+1, b-1 {
				wn[a], wn[b] = wn[b], wn[a]
			}
		}
		return wn
	}
	var hist osm.Ways                          // all way versions
	current := make([][]*osm.Way, len(c.Vers)) // way versions current at each relation version
	for i, m := range c.Members {
		id := c.wayID(i)
		var cur *osm.Way
		for v := range c.Vers {
			rev := c.Vers[v][i]
			if cur == nil || rev != c.Vers[v-1][i] {
				ver := 1
				ts := t0
				if cur != nil {
					ver = cur.Version + 1
					ts = t0.Add(time.Duration(20*v) * day) // between relation versions v and v+1
				}
				cur = &osm.Way{ID: id, Version: ver, ChangesetID: osm.ChangesetID(1 + 2*v), Visible: true, Timestamp: ts, Nodes: wayNodes(m, rev)}
				hist = append(hist, cur)
			}
			current[v] = append(current[v], cur)
		}
	}
	var rels osm.Relations
	for v := range c.Vers {
		rel := &osm.Relation{ID: 7, Version: v + 1, ChangesetID: osm.ChangesetID(2 + 2*v), Visible: true,
			Timestamp: t0.Add(time.Duration(20*v+10) * day), Tags: osm.Tags{{Key: "type", Value: c.RType}}}
		if v > 0 {
			rel.Tags = append(rel.Tags, osm.Tag{Key: "note", Value: fmt.Sprintf("edit %d", v)})
		}
		for i, m := range c.Members {
			rel.Members = append(rel.Members, osm.Member{Type: osm.TypeWay, Ref: int64(c.wayID(i)), Role: m.Role})
		}
		rels = append(rels, rel)
	}
	func() {
		defer func() {
			if r := recover(); r != nil {
				got.VErr = "crash: " + fmt.Sprint(r)
			}
		}()
		ds := (&osm.OSM{Ways: hist}).HistoryDatasource()
		if err := annotate.Relations(context.Background(), rels, ds, annotate.Threshold(time.Hour)); err != nil {
			got.VErr = err.Error()
		}
	}()
	for v, rel := range rels {
		vg := VerGot{Annot: []int{}}
		for _, m := range rel.Members {
			vg.Annot = append(vg.Annot, int(m.Orientation))
		}
		vg.Pipe = convert(&osm.OSM{Relations: osm.Relations{rel}, Ways: current[v]}, l, "waynodes", 0)
		got.Vers = append(got.Vers, vg)
	}
}

// ---- documents: several relations sharing ways ----
// Symbol map of a document (see MultipolygonDocs.tla): A lies west of the border, B east of it. The border points
// P_0 (south) .. P_s (north) are A's vertices 1..s+1 and B's vertices s+1..1; the other vertices of A lie on the
// western half circle (counter-clockwise from north to south), those of B on the eastern one (south to north).
// A's hole (ring 2) is a small ring well inside A; C's outer ring is that ring, vertex by vertex.
// Every relation gets its own symbol <-> point map; glued symbols are one point and one node.
func placeDoc(c *Case, seed uint64, h uint64) []*layout {
	d := c.Doc
	x := seed*0x9E3779B97F4A7C15 ^ h
	next := func() float64 {
		x += 0x9E3779B97F4A7C15
		z := x
		z = (z ^ (z >> 30)) * 0xBF58476D1CE4E5B9
		z = (z ^ (z >> 27)) * 0x94D049BB133111EB
		z ^= z >> 31
		return float64(z>>11) / float64(uint64(1)<<53)
	}
	p := profiles[int(next()*float64(len(profiles)))%len(profiles)]
	R := p.radius
	ids := map[orb.Point]osm.NodeID{}
	lays := make([]*layout, len(d.Rels))
	for i := range lays {
		lays[i] = &layout{pt: map[int]orb.Point{}, sym: map[orb.Point]int{}, id: map[int]osm.NodeID{}}
	}
	put := func(rel, sym int, pt orb.Point) {
		if pt[0] == 0 && pt[1] == 0 {
			pt[0] = 1e-9
		}
		if _, ok := ids[pt]; !ok {
			ids[pt] = osm.NodeID(p.idBase + int64(len(ids)) + 1)
		}
		l := lays[rel]
		if _, dup := l.sym[pt]; dup {
			vio.Must(fmt.Errorf("two symbols of one relation on one coordinate"), "doc layout")
		}
		l.pt[sym], l.sym[pt], l.id[sym] = pt, sym, ids[pt]
	}
	iA, iB, iC := 0, -1, -1
	switch d.Kind {
	case "adjacent":
		iB = 1
	case "island":
		iC = 1
	case "both":
		iB, iC = 1, 2
	default:
		vio.Must(fmt.Errorf("kind %q", d.Kind), "doc")
	}
	s := d.S
	border := make([]orb.Point, s+1)
	zig := 0.08 * R
	if next() < 0.5 {
		zig = -zig
	}
	for t := 0; t <= s; t++ {
		bx := p.lon0
		if t > 0 && t < s {
			bx += zig
			zig = -zig
		}
		border[t] = orb.Point{bx, p.lat0 - R + 2*R*float64(t)/float64(maxInt(s, 1))}
	}
	gA := d.Rels[iA].G
	nA := gA[0].N
	if s > 0 {
		for t := 0; t <= s; t++ {
			put(iA, 100+t+1, border[t])
		}
		mA := nA - (s + 1)
		for j := 1; j <= mA; j++ {
			th := math.Pi/2 + math.Pi*float64(j)/float64(mA+1)
			put(iA, 100+s+1+j, orb.Point{p.lon0 + R*math.Cos(th), p.lat0 + R*math.Sin(th)})
		}
	} else { // no border: a ring around the place where the hole goes
		th0 := next() * 2 * math.Pi
		for i := 1; i <= nA; i++ {
			th := th0 + 2*math.Pi*float64(i-1)/float64(nA)
			put(iA, 100+i, orb.Point{p.lon0 - 0.42*R + 0.55*R*math.Cos(th), p.lat0 + 0.55*R*math.Sin(th)})
		}
	}
	if len(gA) > 2 {
		vio.Must(fmt.Errorf("A with %d rings", len(gA)), "doc")
	}
	if len(gA) == 2 {
		nh := gA[1].N
		th0 := next() * 2 * math.Pi
		for i := 1; i <= nh; i++ {
			th := th0 + 2*math.Pi*float64(i-1)/float64(nh)
			pt := orb.Point{p.lon0 - 0.42*R + 0.12*R*math.Cos(th), p.lat0 + 0.12*R*math.Sin(th)}
			put(iA, 200+i, pt)
			if iC >= 0 {
				put(iC, 100+i, pt)
			}
		}
	}
	if iB >= 0 {
		nB := d.Rels[iB].G[0].N
		for t := 0; t <= s; t++ {
			put(iB, 100+t+1, border[s-t])
		}
		mB := nB - (s + 1)
		for j := 1; j <= mB; j++ {
			th := 1.5*math.Pi + math.Pi*float64(j)/float64(mB+1)
			put(iB, 100+s+1+j, orb.Point{p.lon0 + R*math.Cos(th), p.lat0 + R*math.Sin(th)})
		}
	}
	return lays
}

func maxInt(a, b int) int {
	if a > b {
		return a
	}
	return b
}

const relIDBase = 70

// buildDoc renders the whole document; m is the 1-based mask index (nil masks when m == 0).
func buildDoc(c *Case, lays []*layout, src string, m int) *osm.OSM {
	d := c.Doc
	o := &osm.OSM{}
	wayOf := map[string]osm.WayID{}
	rels := make([]*osm.Relation, len(d.Rels))
	nodes := map[osm.NodeID]orb.Point{}
	for ri, rs := range d.Rels {
		l := lays[ri]
		rel := &osm.Relation{ID: osm.RelationID(relIDBase + ri), Version: 1, Visible: true, Timestamp: t0.Add(time.Hour),
			Tags: osm.Tags{{Key: "type", Value: rs.RType}, {Key: "name", Value: fmt.Sprintf("area %d", ri)}}}
		var mask []bool
		if m > 0 {
			mi := m
			if mi > len(rs.Masks) {
				mi = len(rs.Masks)
			}
			mask = rs.Masks[mi-1]
		}
		for i, mem := range rs.Members {
			key := ""
			for _, s := range mem.Nodes {
				key += fmt.Sprintf("%d,", l.id[s])
				nodes[l.id[s]] = l.pt[s]
			}
			id, ok := wayOf[key]
			if !ok { // one way per distinct node sequence: a way shared by two relations exists once
				id = osm.WayID(500 + len(wayOf))
				wayOf[key] = id
				w := &osm.Way{ID: id, Version: 1, Visible: true, Timestamp: t0}
				for _, s := range mem.Nodes {
					wn := osm.WayNode{ID: l.id[s]}
					if src == "waynodes" {
						wn.Version, wn.Lon, wn.Lat = 1, l.pt[s][0], l.pt[s][1]
					}
					w.Nodes = append(w.Nodes, wn)
				}
				o.Ways = append(o.Ways, w)
			}
			om := osm.Member{Type: osm.TypeWay, Ref: int64(id), Role: mem.Role}
			if mask != nil && mask[i] {
				om.Orientation = orb.Orientation(mem.Dir)
			}
			rel.Members = append(rel.Members, om)
		}
		rels[ri] = rel
	}
	for _, k := range d.RelOrder {
		o.Relations = append(o.Relations, rels[k-1])
	}
	if src == "nodes" {
		var idl []int64
		for id := range nodes {
			idl = append(idl, int64(id))
		}
		sort.Slice(idl, func(a, b int) bool { return idl[a] < idl[b] })
		if c.NOrder == 1 {
			sort.Slice(idl, func(a, b int) bool { return idl[a] > idl[b] })
		}
		for _, id := range idl {
			pt := nodes[osm.NodeID(id)]
			o.Nodes = append(o.Nodes, &osm.Node{ID: osm.NodeID(id), Version: 1, Visible: true, Lon: pt[0], Lat: pt[1], Timestamp: t0})
		}
	}
	if c.NOrder == 2 {
		for a, b := 0, len(o.Ways)-1; a < b; a, b = a+1, b-1 {
			o.Ways[a], o.Ways[b] = o.Ways[b], o.Ways[a]
		}
	}
	return o
}

// convertDoc converts the document and records the feature(s) of relation relID.
func convertDoc(o *osm.OSM, l *layout, relID int, src string, m int) (run Run) {
	run = Run{Src: src, M: m, Polys: [][][]int{}}
	defer func() {
		if r := recover(); r != nil {
			run.Crash = true
			run.Err = fmt.Sprint(r)
		}
	}()
	fc, err := osmgeojson.Convert(o)
	if err != nil {
		run.Err = err.Error()
		return
	}
	run.NFeat = len(fc.Features)
	for _, f := range fc.Features {
		if t, _ := f.Properties["type"].(string); t != "relation" {
			continue
		}
		if id, _ := f.Properties["id"].(int); id != relID {
			continue
		}
		var polys []orb.Polygon
		switch g := f.Geometry.(type) {
		case orb.Polygon:
			polys = []orb.Polygon{g}
		case orb.MultiPolygon:
			polys = g
		default:
			continue
		}
		run.NPoly++
		if run.NPoly == 1 {
			for _, p := range polys {
				run.Polys = append(run.Polys, l.poly(p))
			}
			run.Tainted = tainted(f)
		}
	}
	return
}

func doDoc(c *Case, seed uint64, line []byte) Got {
	d := c.Doc
	// the layout depends on the document, not on the observed relation or the relation order
	hh := fnv.New64a()
	dj, _ := json.Marshal(d.Rels)
	hh.Write(dj)
	lays := placeDoc(c, seed, hh.Sum64())
	k := d.K - 1
	l := lays[k]
	relID := relIDBase + k
	if os.Getenv("C16_DUMP") != "" {
		for ri, ll := range lays {
			for s, pt := range ll.pt {
				fmt.Fprintf(os.Stderr, "rel %d sym %d id %d lon %.17g lat %.17g\n", ri+1, s, ll.id[s], pt[0], pt[1])
			}
		}
	}
	got := Got{Runs: []Run{}, Annot: []int{}, Vers: []VerGot{}}
	for _, src := range []string{"nodes", "waynodes"} {
		for mi := range c.Masks {
			if src == "waynodes" && mi >= 2 {
				continue
			}
			got.Runs = append(got.Runs, convertDoc(buildDoc(c, lays, src, mi+1), l, relID, src, mi+1))
		}
	}
	// annotate every relation of the document (each is its own history), then convert the annotated document
	o := buildDoc(c, lays, "waynodes", 0)
	for _, rel := range o.Relations {
		func() {
			defer func() {
				if r := recover(); r != nil && int(rel.ID) == relID {
					got.AnnErr = "crash: " + fmt.Sprint(r)
				}
			}()
			ds := (&osm.OSM{Ways: o.Ways}).HistoryDatasource()
			if err := annotate.Relations(context.Background(), osm.Relations{rel}, ds, annotate.Threshold(30*time.Minute)); err != nil && int(rel.ID) == relID {
				got.AnnErr = err.Error()
			}
		}()
		if int(rel.ID) == relID {
			for _, m := range rel.Members {
				got.Annot = append(got.Annot, int(m.Orientation))
			}
		}
	}
	got.Pipe = convertDoc(o, l, relID, "waynodes", 0)
	return got
}

func main() {
	seed, _ := strconv.ParseUint(os.Getenv("VERIF_SEED"), 10, 64)
	vio.Map(vio.ReadLines(), 0, func(i int, line []byte) interface{} {
		var c Case
		vio.Must(json.Unmarshal(line, &c), "case")
		if c.Doc != nil {
			return Rec{Case: line, Got: doDoc(&c, seed, line)}
		}
		return Rec{Case: line, Got: doCase(&c, seed, line)}
	})
}
