// c14: drives annotate.NewChildFirstOrdering on abstract cases from ChildFirst.tla.
//
// Neutral renderer / recorder: it maps abstract relation ids 1..N to concrete osm ids
// (several magnitude profiles) and back, builds an in-memory history datasource, performs
// the call plan of the case (Next xk, then Close / external cancel / nothing) and records
// what the real code returned.  It contains no expected values and no property logic.
//
// Modes:
//
//	c14                 cases on stdin: {"hist":[[[m,..],..],..],"req":[..],"bad":[..],"plans":[{"k":..,"stop":..},..]}
//	                    -> {"case":<verbatim>,"got":[<plan result>,..]}
//	c14 -random N       N seeded random larger cases (same record shape; the case is generated here
//	                    from the same vocabulary, the TLA+ Judge is still the only oracle)
//	c14 -trace          cases on stdin (hist, req, bad): each is run once with a seeded random consumer
//	                    script and, possibly, a concurrent canceller; the call/return history is
//	                    written as one event per line ({"e":"cfg",...} starts a run)
//
// Runs are executed one at a time per process (the goroutine-exit observation counts goroutines);
// the Python driver shards the cases over several processes.
package main

import (
	"bufio"
	"context"
	"encoding/json"
	"errors"
	"flag"
	"fmt"
	"hash/fnv"
	"math/rand"
	"os"
	"runtime"
	"strings"
	"sync"
	"sync/atomic"
	"time"

	"github.com/paulmach/osm"
	"github.com/paulmach/osm/annotate"
	"verifharness/internal/vio"
)

type Plan struct {
	K    int    `json:"k"`
	Stop string `json:"stop"` // "none" | "close" | "cancel"
}

type Case struct {
	Hist  [][][]int `json:"hist"`
	Req   []int     `json:"req"`
	Bad   []int     `json:"bad"`
	Plans []Plan    `json:"plans"`
}

// PlanRes is the abstract observation of one run.
type PlanRes struct {
	K         int    `json:"k"`
	Stop      string `json:"stop"`
	Outcome   string `json:"out"`          // "ok" | "hang" | "runaway" | "skipped"
	At        string `json:"at,omitempty"` // the call in progress when the deadline expired ("" otherwise)
	Ids       []int  `json:"ids"`          // abstract ids of RelationID() after every Next that returned true (0 = not an id of the case)
	EndFalse  bool   `json:"endf"`         // one of the planned Next calls returned false
	After     string `json:"after"`        // result of one more Next after the stop / after the end
	Err       string `json:"err"`          // class of Err() after that: "nil" | "canceled" | "dserr" | "?"
	Gone      bool   `json:"gone"`         // producer goroutine gone: after Close (stop=close), after cancel without Close, after the end without Close
	CloseRet  bool   `json:"cret"`         // every Close call made in the run returned (all plans end with a Close; stop=close makes two)
	GoneEnd   bool   `json:"gend"`         // producer goroutine gone after the final Close
	Completed int    `json:"comp"`         // o.CompletedIndex after the final Close
}

type Rec struct {
	Case json.RawMessage `json:"case"`
	Got  []PlanRes       `json:"got"`
}

var (
	callDeadline = 6 * time.Second // a run that has not finished by callDeadline + 2*goneDeadline is a "hang"
	goneDeadline = 4 * time.Second
	maxHangs     = 2 // after that many hangs the remaining runs of this process are "skipped"
	hangs        int32
)

// ---------------------------------------------------------------- symbol maps

type idmap struct {
	profile int
	back    map[int64]int
}

func (m *idmap) id(i int) int64 {
	switch m.profile {
	case 1:
		return int64(1)<<31 - 2 + int64(i) // straddles 2^31
	case 2:
		return int64(1)<<40 + 7*int64(i)
	case 3:
		return -int64(i) // negative placeholder ids
	case 4:
		return int64(i)<<32 | 5 // equal in the low 32 bits
	default:
		return int64(i)
	}
}

func newIDMap(profile, n int) *idmap {
	m := &idmap{profile: profile, back: map[int64]int{}}
	for i := 1; i <= n; i++ {
		m.back[m.id(i)] = i
	}
	return m
}

func (m *idmap) abs(id osm.RelationID) int {
	if a, ok := m.back[int64(id)]; ok {
		return a
	}
	return 0
}

var errDS = errors.New("c14: datasource failure")
var errOwnNotFound = errors.New("c14: no such relation")

// osmDS: the library's own map datasource, with failures injected for the "bad" ids.
type osmDS struct {
	*osm.HistoryDatasource
	bad map[osm.RelationID]bool
}

func (d *osmDS) RelationHistory(ctx context.Context, id osm.RelationID) (osm.Relations, error) {
	if d.bad[id] {
		return nil, errDS
	}
	return d.HistoryDatasource.RelationHistory(ctx, id)
}

// ownDS: an independent datasource with its own not-found error.
type ownDS struct {
	rels map[osm.RelationID]osm.Relations
	bad  map[osm.RelationID]bool
}

func (d *ownDS) RelationHistory(ctx context.Context, id osm.RelationID) (osm.Relations, error) {
	if d.bad[id] {
		return nil, errDS
	}
	if r, ok := d.rels[id]; ok {
		return r, nil
	}
	return nil, errOwnNotFound
}
func (d *ownDS) NotFound(err error) bool { return err == errOwnNotFound }

func render(c *Case, m *idmap, own bool) (annotate.RelationHistoryDatasourcer, []osm.RelationID) {
	var rels osm.Relations
	for i, versions := range c.Hist {
		for v, members := range versions {
			r := &osm.Relation{ID: osm.RelationID(m.id(i + 1)), Version: v + 1, Visible: true}
			for j, mem := range members {
				if mem > 0 {
					r.Members = append(r.Members, osm.Member{Type: osm.TypeRelation, Ref: m.id(mem), Role: "r"})
				} else {
					t := osm.TypeWay
					if j%2 == 1 {
						t = osm.TypeNode
					}
					r.Members = append(r.Members, osm.Member{Type: t, Ref: m.id(-mem)})
				}
			}
			rels = append(rels, r)
		}
	}
	bad := map[osm.RelationID]bool{}
	for _, b := range c.Bad {
		bad[osm.RelationID(m.id(b))] = true
	}
	ids := make([]osm.RelationID, 0, len(c.Req))
	for _, r := range c.Req {
		ids = append(ids, osm.RelationID(m.id(r)))
	}
	if own {
		d := &ownDS{rels: map[osm.RelationID]osm.Relations{}, bad: bad}
		for _, r := range rels {
			d.rels[r.ID] = append(d.rels[r.ID], r)
		}
		return d, ids
	}
	return &osmDS{HistoryDatasource: (&osm.OSM{Relations: rels}).HistoryDatasource(), bad: bad}, ids
}

func errClass(err error) string {
	switch err {
	case nil:
		return "nil"
	case context.Canceled:
		return "canceled"
	case errDS:
		return "dserr"
	}
	return "?"
}

func b2s(b bool) string {
	if b {
		return "true"
	}
	return "false"
}

func settle() {
	for t0 := time.Now(); time.Since(t0) < 20*time.Microsecond; {
		runtime.Gosched()
	}
}

// waitGone polls until the number of goroutines is back to the baseline.
func waitGone(base int) bool {
	end := time.Now().Add(goneDeadline)
	for spin := 0; ; spin++ {
		if runtime.NumGoroutine() <= base {
			return true
		}
		if spin < 200 {
			runtime.Gosched()
			continue
		}
		if time.Now().After(end) {
			return false
		}
		time.Sleep(50 * time.Microsecond)
	}
}

// producerFrames reports whether some goroutine is still inside annotate/order.go.
func producerFrames() bool {
	buf := make([]byte, 1<<20)
	n := runtime.Stack(buf, true)
	s := string(buf[:n])
	return strings.Contains(s, "annotate.(*ChildFirstOrdering)") || strings.Contains(s, "annotate.NewChildFirstOrdering")
}

// ---------------------------------------------------------------- deadline-guarded execution

// All runs execute on one long-lived worker goroutine, so that the goroutine count measured inside a run
// is stable (main + worker).  A run that does not finish in time is reported as a hang; its worker (stuck
// inside the library) is abandoned and a new one is started.
type job struct {
	f   func(at *atomic.Value) interface{}
	at  *atomic.Value
	out chan interface{}
}

var jobs chan job

func worker(in chan job) {
	for j := range in {
		j.out <- j.f(j.at)
	}
}

// guarded runs f on the worker; ok = false when the deadline expired (at = the call in progress).
func guarded(f func(at *atomic.Value) interface{}) (res interface{}, at string, ok bool) {
	if jobs == nil {
		jobs = make(chan job)
		go worker(jobs)
	}
	j := job{f: f, at: new(atomic.Value), out: make(chan interface{}, 1)}
	j.at.Store("")
	jobs <- j
	t := time.NewTimer(callDeadline + 2*goneDeadline)
	defer t.Stop()
	select {
	case r := <-j.out:
		return r, "", true
	case <-t.C:
		atomic.AddInt32(&hangs, 1)
		jobs = nil // abandon the stuck worker
		return nil, j.at.Load().(string), false
	}
}

// ---------------------------------------------------------------- one planned run

func runPlan(c *Case, p Plan, m *idmap, own bool) PlanRes {
	blank := PlanRes{K: p.K, Stop: p.Stop, Outcome: "ok", Ids: []int{}, After: "skip", Err: "?"}
	if atomic.LoadInt32(&hangs) >= int32(maxHangs) {
		blank.Outcome = "skipped"
		return blank
	}
	limit := 10*(len(c.Hist)+len(c.Req)) + 10
	r, at, ok := guarded(func(at *atomic.Value) interface{} {
		res := blank
		base := runtime.NumGoroutine()
		ds, ids := render(c, m, own)
		ctx, cancel := context.WithCancel(context.Background())
		defer cancel()
		at.Store("new")
		o := annotate.NewChildFirstOrdering(ctx, ids, ds)
		n := 0
		for p.Stop == "none" || n < p.K {
			at.Store("next")
			if !o.Next() {
				res.EndFalse = true
				break
			}
			res.Ids = append(res.Ids, m.abs(o.RelationID()))
			n++
			if n > limit {
				res.Outcome = "runaway"
				cancel()
				return res
			}
		}
		if p.Stop != "none" && (p.K+len(p.Stop))%2 == 0 {
			// schedule choice: let the producer run up to its next blocking point before the stop
			// (the other plans stop immediately; TLC explores both orders in the Model)
			settle()
		}
		switch p.Stop {
		case "close":
			at.Store("close")
			o.Close()
		case "cancel":
			at.Store("cancel")
			cancel()
		}
		at.Store("next-after")
		res.After = b2s(o.Next())
		at.Store("err")
		res.Err = errClass(o.Err())
		at.Store("gone")
		res.Gone = waitGone(base)
		at.Store("close-end")
		o.Close()
		res.CloseRet = true
		at.Store("gone-end")
		res.GoneEnd = waitGone(base)
		if !res.GoneEnd && !producerFrames() {
			res.GoneEnd, res.Gone = true, true // some unrelated goroutine was counted
		}
		res.Completed = o.CompletedIndex
		return res
	})
	if !ok {
		blank.Outcome, blank.At = "hang", at
		return blank
	}
	return r.(PlanRes)
}

func profileOf(line []byte, seed int64) (int, bool) {
	h := fnv.New64a()
	h.Write(line)
	v := h.Sum64() + uint64(seed)*0x9e3779b97f4a7c15
	return int(v>>8) % 5, (v>>20)%2 == 1
}

func runCase(line []byte, seed int64) Rec {
	var c Case
	vio.Must(json.Unmarshal(line, &c), "case")
	prof, own := profileOf(line, seed)
	m := newIDMap(prof, len(c.Hist))
	rec := Rec{Case: line, Got: make([]PlanRes, 0, len(c.Plans))}
	for _, p := range c.Plans {
		rec.Got = append(rec.Got, runPlan(&c, p, m, own))
	}
	return rec
}

// ---------------------------------------------------------------- seeded random larger cases

func randomCase(r *rand.Rand) Case {
	n := 4 + r.Intn(5) // 4..8 ids
	var c Case
	dag := r.Intn(2) == 0
	for i := 1; i <= n; i++ {
		if r.Intn(6) == 0 {
			c.Hist = append(c.Hist, [][]int{}) // no history
			continue
		}
		nv := 1 + r.Intn(3)
		vs := make([][]int, nv)
		for v := range vs {
			nm := r.Intn(4)
			vs[v] = []int{}
			for j := 0; j < nm; j++ {
				t := 1 + r.Intn(n)
				if dag { // only reference larger ids: acyclic by construction
					if i == n {
						continue
					}
					t = i + 1 + r.Intn(n-i)
				}
				if r.Intn(5) == 0 {
					t = -t
				}
				vs[v] = append(vs[v], t)
			}
		}
		c.Hist = append(c.Hist, vs)
	}
	nr := 1 + r.Intn(n)
	for j := 0; j < nr; j++ {
		c.Req = append(c.Req, 1+r.Intn(n))
	}
	c.Bad = []int{}
	if r.Intn(10) == 0 {
		c.Bad = append(c.Bad, 1+r.Intn(n))
	}
	c.Plans = []Plan{{K: 0, Stop: "none"}}
	for j := 0; j < 3; j++ {
		stop := "close"
		if r.Intn(2) == 0 {
			stop = "cancel"
		}
		c.Plans = append(c.Plans, Plan{K: r.Intn(n + 2), Stop: stop})
	}
	return c
}

// ---------------------------------------------------------------- recorded call/return histories

type Event map[string]interface{}

type tlog struct {
	mu  sync.Mutex
	evs []Event
}

func (l *tlog) add(e Event) {
	l.mu.Lock()
	l.evs = append(l.evs, e)
	l.mu.Unlock()
}

func jitter(r *rand.Rand) {
	switch r.Intn(4) {
	case 0:
	case 1:
		runtime.Gosched()
	case 2:
		for i := r.Intn(4); i >= 0; i-- {
			runtime.Gosched()
		}
	case 3:
		time.Sleep(time.Duration(r.Intn(30)) * time.Microsecond)
	}
}

func traceCase(line []byte, seed int64, idx int) []Event {
	var c Case
	vio.Must(json.Unmarshal(line, &c), "case")
	prof, own := profileOf(line, seed)
	m := newIDMap(prof, len(c.Hist))
	r := rand.New(rand.NewSource(seed*1000003 + int64(idx)))
	withCancel := r.Intn(2) == 0
	lg := &tlog{}
	var hist, req, bad interface{} = c.Hist, c.Req, c.Bad
	lg.add(Event{"e": "cfg", "hist": hist, "req": req, "bad": bad})
	limit := 10*(len(c.Hist)+len(c.Req)) + 10
	r0, at0, ok := guarded(func(at *atomic.Value) interface{} {
		base := runtime.NumGoroutine()
		ds, ids := render(&c, m, own)
		ctx, cancel := context.WithCancel(context.Background())
		defer cancel()
		o := annotate.NewChildFirstOrdering(ctx, ids, ds)
		var xwg sync.WaitGroup
		if withCancel {
			xr := rand.New(rand.NewSource(r.Int63()))
			delay := xr.Intn(6)
			xwg.Add(1)
			go func() {
				defer xwg.Done()
				for i := 0; i < delay; i++ {
					jitter(xr)
				}
				lg.add(Event{"e": "x.call"})
				cancel()
				lg.add(Event{"e": "x.ret"})
			}()
		}
		closed, sawFalse, extra, n := false, false, 0, 0
		for {
			jitter(r)
			ch := r.Intn(10)
			switch {
			case ch == 0 && !closed:
				at.Store("c.call")
				lg.add(Event{"e": "c.call"})
				o.Close()
				lg.add(Event{"e": "c.ret"})
				closed = true
			case ch == 1:
				at.Store("e.call")
				lg.add(Event{"e": "e.call"})
				cl := errClass(o.Err())
				lg.add(Event{"e": "e.ret", "class": cl})
			default:
				if closed || sawFalse {
					extra++
				}
				at.Store("n.call")
				lg.add(Event{"e": "n.call"})
				ok := o.Next()
				id := 0
				if ok {
					id = m.abs(o.RelationID())
					n++
				} else {
					sawFalse = true
				}
				lg.add(Event{"e": "n.ret", "ok": b2s(ok), "id": id})
			}
			if n > limit {
				at.Store("runaway")
				cancel()
				break
			}
			if (closed || sawFalse) && (extra >= 1 || r.Intn(2) == 0) {
				break
			}
		}
		at.Store("x.wait")
		xwg.Wait()
		// observation: without any further call, is the goroutine gone?  (it must be when the iteration
		// ended, was closed or cancelled - judged by the trace spec, not here)
		at.Store("gone")
		gone := waitGone(base)
		if !gone && !producerFrames() {
			gone = true
		}
		lg.add(Event{"e": "obs", "gone": gone})
		if !closed {
			at.Store("c.call")
			lg.add(Event{"e": "c.call"})
			o.Close()
			lg.add(Event{"e": "c.ret"})
		}
		at.Store("gone-end")
		gone = waitGone(base)
		if !gone && !producerFrames() {
			gone = true
		}
		return Event{"e": "end", "gone": gone, "completed": o.CompletedIndex}
	})
	lg.mu.Lock()
	evs := append([]Event(nil), lg.evs...)
	lg.mu.Unlock()
	if !ok {
		return append(evs, Event{"e": "hang", "at": at0})
	}
	return append(evs, r0.(Event))
}

func main() {
	seed := flag.Int64("seed", 1, "seed for profile selection / random cases / schedules")
	nrandom := flag.Int("random", 0, "generate and run this many random larger cases")
	trace := flag.Bool("trace", false, "record call/return histories")
	flag.Parse()
	w := bufio.NewWriterSize(os.Stdout, 1<<20)
	defer w.Flush()
	emit := func(v interface{}) {
		b, err := json.Marshal(v)
		vio.Must(err, "marshal")
		w.Write(b)
		w.WriteByte('\n')
	}
	switch {
	case *nrandom > 0:
		r := rand.New(rand.NewSource(*seed))
		for i := 0; i < *nrandom; i++ {
			c := randomCase(r)
			line, err := json.Marshal(c)
			vio.Must(err, "marshal case")
			emit(runCase(line, *seed))
		}
	case *trace:
		for i, line := range vio.ReadLines() {
			if atomic.LoadInt32(&hangs) >= int32(maxHangs) {
				break
			}
			for _, e := range traceCase(line, *seed, i) {
				emit(e)
			}
		}
	default:
		for _, line := range vio.ReadLines() {
			emit(runCase(line, *seed))
		}
	}
	if false {
		fmt.Println()
	}
}
