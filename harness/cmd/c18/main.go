// c18: runs Way.Polygon / Relation.Polygon on abstract cases from PolygonRules.tla.
// Neutral renderer/recorder: no rule table, no expected values.
package main

import (
	"encoding/json"

	"github.com/paulmach/osm"
	"verifharness/internal/vio"
)

type Case struct {
	Kind   string      `json:"kind"`
	NRefs  int         `json:"nrefs"`
	Closed bool        `json:"closed"`
	Tags   [][2]string `json:"tags"`
	Ann    string      `json:"ann"` // how the node refs are annotated: none | all | lastbare | differ | partial
}

type Rec struct {
	Case json.RawMessage `json:"case"`
	Got  bool            `json:"got"`
}

func main() {
	vio.Map(vio.ReadLines(), 0, func(i int, line []byte) interface{} {
		var c Case
		vio.Must(json.Unmarshal(line, &c), "case")
		var tags osm.Tags
		for _, kv := range c.Tags {
			tags = append(tags, osm.Tag{Key: kv[0], Value: kv[1]})
		}
		var got bool
		if c.Kind == "way" {
			w := &osm.Way{ID: 7, Tags: tags}
			for j := 0; j < c.NRefs; j++ {
				w.Nodes = append(w.Nodes, osm.WayNode{ID: osm.NodeID(100 + j)})
			}
			for j := range w.Nodes {
				ann := c.Ann == "all" || c.Ann == "lastbare" || c.Ann == "differ" || (c.Ann == "partial" && j%2 == 0)
				if ann {
					w.Nodes[j].Version, w.Nodes[j].ChangesetID = 2+j, osm.ChangesetID(50+j)
					w.Nodes[j].Lat, w.Nodes[j].Lon = 10+float64(j)/100, 20+float64(j)/100
				}
			}
			if c.Closed && c.NRefs > 0 {
				last := &w.Nodes[c.NRefs-1]
				last.ID = w.Nodes[0].ID
				switch c.Ann {
				case "all": // the closing ref is the same node: same annotations
					*last = w.Nodes[0]
				case "lastbare": // an annotated ring closed by appending a bare reference
					*last = osm.WayNode{ID: w.Nodes[0].ID}
				case "differ": // same node id, annotations of another version
					last.Version, last.Lat = 9, 11.5
				}
			}
			got = w.Polygon()
		} else {
			r := &osm.Relation{ID: 9, Tags: tags}
			got = r.Polygon()
		}
		return Rec{Case: line, Got: got}
	})
}
