// c18: runs Way.Polygon / Relation.Polygon on abstract cases from PolygonRules.tla.
// Neutral renderer/recorder: no rule table, no expected values.
package main

import (
	"encoding/json"

	"github.com/paulmach/osm"
	"verifharness/internal/vio"
)

type Case struct {
	Kind   string      `json:"kind"`
	NRefs  int         `json:"nrefs"`
	Closed bool        `json:"closed"`
	Tags   [][2]string `json:"tags"`
}

type Rec struct {
	Case json.RawMessage `json:"case"`
	Got  bool            `json:"got"`
}

func main() {
	vio.Map(vio.ReadLines(), 0, func(i int, line []byte) interface{} {
		var c Case
		vio.Must(json.Unmarshal(line, &c), "case")
		var tags osm.Tags
		for _, kv := range c.Tags {
			tags = append(tags, osm.Tag{Key: kv[0], Value: kv[1]})
		}
		var got bool
		if c.Kind == "way" {
			w := &osm.Way{ID: 7, Tags: tags}
			for j := 0; j < c.NRefs; j++ {
				w.Nodes = append(w.Nodes, osm.WayNode{ID: osm.NodeID(100 + j)})
			}
			if c.Closed && c.NRefs > 0 {
				w.Nodes[c.NRefs-1].ID = w.Nodes[0].ID
			}
			got = w.Polygon()
		} else {
			r := &osm.Relation{ID: 9, Tags: tags}
			got = r.Polygon()
		}
		return Rec{Case: line, Got: got}
	})
}
