// c19: serves TLC-rendered replication directories from an in-process HTTP server and runs
// Datasource.{Minute,Hour,Day,Changeset}StateAt / Current{...}State against them.
// One input line = one client history: its calls are made in order, against one server, in ONE FRESH CHILD
// PROCESS (package-level state of the library starts empty, so re-running a line reproduces its results).
// Neutral renderer/recorder: paths, file bodies, query times, request cap all come from the case
// (ReplicationSearchGen.tla); this file knows no layout, no expected result and no property logic.
package main

import (
	"bytes"
	"compress/gzip"
	"context"
	"encoding/json"
	"errors"
	"fmt"
	"net/http"
	"net/http/httptest"
	"os"
	"os/exec"
	"strings"
	"sync"
	"time"

	"github.com/paulmach/osm/replication"
	"verifharness/internal/vio"
)

type File struct {
	Path string `json:"path"`
	Body string `json:"body"`
}

type Query struct {
	Op   string `json:"op"` // "at": XxxStateAt(time) | "current": CurrentXxxState()
	Q    int    `json:"q"`
	Sec  int64  `json:"sec"`
	Nsec int64  `json:"nsec"`
	Tz   int    `json:"tz"` // the query value is expressed in this zone (seconds east of UTC); same instant
}

type Dir struct {
	Kind    string  `json:"kind"`
	Prefix  string  `json:"prefix"`
	Cap     int     `json:"cap"`
	Ds      string  `json:"ds"` // how the Datasource is built: "own" | "new" (NewDatasource) | "nilclient" (Client nil, BaseURL set)
	Gz      int     `json:"gz"` // 1: the server honours Accept-Encoding: gzip (compressed body + Content-Encoding)
	Current File    `json:"current"`
	Files   []File  `json:"files"`
	Queries []Query `json:"queries"`
}

// Req: request line (method omitted for GET), status answered, and the decimal digits of the
// request line read as one number (-1: none or too many) - a witness for the Judge's "exists n".
type Req struct {
	Path   string `json:"path"`
	Status int    `json:"status"`
	N      int64  `json:"n"`
}

type Got struct {
	Outcome  string `json:"outcome"` // ok | error | hang | crash (the library call panicked, or its process died)
	Seq      int64  `json:"seq"`
	StateSeq int64  `json:"state_seq"`
	Sec      int64  `json:"sec"`
	Nsec     int64  `json:"nsec"`
	TxnMax   int64  `json:"txn_max"`
	TxnMaxQ  int64  `json:"txn_max_queried"`
	Err      string `json:"err"` // error class ("" when none)
	Detail   string `json:"detail"`
	Count    int    `json:"count"`
	Deadline bool   `json:"deadline"`
	Reqs     []Req  `json:"reqs"`
}

type Run struct {
	Q   int `json:"q"`
	Got Got `json:"got"`
}

type Out struct {
	D    int   `json:"d"`
	Runs []Run `json:"runs"`
}

func digits(s string) int64 {
	var n int64 = -1
	k := 0
	for _, c := range s {
		if c >= '0' && c <= '9' {
			if n < 0 {
				n = 0
			}
			k++
			if k > 9 {
				return -1
			}
			n = n*10 + int64(c-'0')
		}
	}
	return n
}

// server state for one query run
type runState struct {
	mu     sync.Mutex
	cap    int
	count  int
	reqs   []Req
	cancel context.CancelFunc
}

func errClass(err error) string {
	var sc *replication.UnexpectedStatusCodeError
	switch {
	case err == nil:
		return ""
	case replication.NotFound(err):
		return "notfound"
	case errors.As(err, &sc):
		return "status"
	case errors.Is(err, context.Canceled), errors.Is(err, context.DeadlineExceeded):
		return "ctx"
	}
	return "other"
}

const deadline = 30 * time.Second

const historyDeadline = 20 * time.Minute

func main() {
	if len(os.Args) > 1 && os.Args[1] == "-history" {
		lines := vio.ReadLines()
		if len(lines) != 1 {
			vio.Must(errors.New("want exactly one line"), "-history")
		}
		b, err := json.Marshal(runHistory(lines[0]))
		vio.Must(err, "marshal")
		os.Stdout.Write(append(b, '\n'))
		return
	}
	self, err := os.Executable()
	vio.Must(err, "executable")
	vio.Map(vio.ReadLines(), 0, func(i int, line []byte) interface{} {
		ctx, cancel := context.WithTimeout(context.Background(), historyDeadline)
		defer cancel()
		cmd := exec.CommandContext(ctx, self, "-history")
		cmd.Stdin = bytes.NewReader(append(append([]byte(nil), line...), '\n'))
		var stdout, stderr bytes.Buffer
		cmd.Stdout, cmd.Stderr = &stdout, &stderr
		runErr := cmd.Run()
		var out Out
		if runErr == nil {
			runErr = json.Unmarshal(bytes.TrimSpace(stdout.Bytes()), &out)
		}
		if runErr != nil {
			// the child died (e.g. a panic in the library) or ran out of time: every call of the history is a "crash"
			var d Dir
			vio.Must(json.Unmarshal(line, &d), "case")
			tail := stderr.String()
			if len(tail) > 600 {
				tail = tail[len(tail)-600:]
			}
			out = Out{}
			for _, q := range d.Queries {
				out.Runs = append(out.Runs, Run{Q: q.Q, Got: Got{Outcome: "crash", Seq: -1, StateSeq: -1, Sec: -1, Nsec: -1,
					Err: "child", Detail: fmt.Sprintf("%v: %s", runErr, tail), Reqs: []Req{}}})
			}
		}
		out.D = i
		return out
	})
}

func runHistory(line []byte) Out {
	{
		var d Dir
		vio.Must(json.Unmarshal(line, &d), "case")
		files := map[string]string{d.Current.Path: d.Current.Body}
		for _, f := range d.Files {
			files[f.Path] = f.Body
		}
		var (
			mu  sync.Mutex
			cur *runState
		)
		srv := httptest.NewServer(http.HandlerFunc(func(w http.ResponseWriter, r *http.Request) {
			mu.Lock()
			rs := cur
			mu.Unlock()
			line := r.RequestURI
			if r.Method != http.MethodGet {
				line = r.Method + " " + line
			}
			rs.mu.Lock()
			rs.count++
			over := rs.count > rs.cap
			body, ok := files[line]
			status := http.StatusNotFound
			if over {
				status = http.StatusServiceUnavailable
			} else if ok {
				status = http.StatusOK
			}
			if !over {
				rs.reqs = append(rs.reqs, Req{Path: line, Status: status, N: digits(line)})
			}
			rs.mu.Unlock()
			if over {
				rs.cancel() // the search did not stop within the cap: abstract outcome "hang"
			}
			if over || !ok {
				// empty body: the client closes 404 bodies unread, an empty one keeps the connection reusable
				w.Header().Set("Content-Length", "0")
				w.WriteHeader(status)
				return
			}
			w.Header().Set("Content-Type", "text/plain")
			if d.Gz == 1 && strings.Contains(r.Header.Get("Accept-Encoding"), "gzip") {
				var buf bytes.Buffer
				zw := gzip.NewWriter(&buf)
				zw.Write([]byte(body))
				zw.Close()
				w.Header().Set("Content-Encoding", "gzip")
				w.Write(buf.Bytes())
				return
			}
			w.Write([]byte(body))
		}))
		defer srv.Close()
		out := Out{}
		for _, q := range d.Queries {
			var (
				seq      uint64
				st       *replication.State
				err      error
				rs       *runState
				panicked string
				ctx      context.Context
				cancel   context.CancelFunc
			)
			// A fresh transport per lookup: no connection survives from a lookup that was cut off by the cap.
			// A context error although nobody cancelled this lookup's context (no cap, no deadline) cannot come
			// from the code under test (it creates no contexts): it is a transport artefact, the lookup is redone.
			for attempt := 0; attempt < 3; attempt++ {
				tr := &http.Transport{}
				client := &http.Client{Transport: tr}
				var ds *replication.Datasource
				switch d.Ds {
				case "own":
					ds = &replication.Datasource{BaseURL: srv.URL + d.Prefix, Client: client}
				case "new":
					ds = replication.NewDatasource(client)
					ds.BaseURL = srv.URL + d.Prefix
				case "nilclient":
					// no client of its own: the library falls back to the default datasource's client; this
					// process runs one history only, so the test client is installed there
					replication.DefaultDatasource.Client = client
					ds = &replication.Datasource{BaseURL: srv.URL + d.Prefix}
				default:
					vio.Must(errors.New(d.Ds), "unknown datasource construction")
				}
				panicked = ""
				ctx, cancel = context.WithTimeout(context.Background(), deadline)
				rs = &runState{cap: d.Cap, cancel: cancel}
				mu.Lock()
				cur = rs
				mu.Unlock()
				t := time.Unix(q.Sec, q.Nsec).In(time.FixedZone("case", q.Tz))
				func() {
					defer func() {
						if p := recover(); p != nil {
							panicked = fmt.Sprint(p)
						}
					}()
					switch d.Kind + "/" + q.Op {
					case "minute/current":
						var n replication.MinuteSeqNum
						n, st, err = ds.CurrentMinuteState(ctx)
						seq = uint64(n)
					case "hour/current":
						var n replication.HourSeqNum
						n, st, err = ds.CurrentHourState(ctx)
						seq = uint64(n)
					case "day/current":
						var n replication.DaySeqNum
						n, st, err = ds.CurrentDayState(ctx)
						seq = uint64(n)
					case "changesets/current":
						var n replication.ChangesetSeqNum
						n, st, err = ds.CurrentChangesetState(ctx)
						seq = uint64(n)
					case "minute/at":
						var n replication.MinuteSeqNum
						n, st, err = ds.MinuteStateAt(ctx, t)
						seq = uint64(n)
					case "hour/at":
						var n replication.HourSeqNum
						n, st, err = ds.HourStateAt(ctx, t)
						seq = uint64(n)
					case "day/at":
						var n replication.DaySeqNum
						n, st, err = ds.DayStateAt(ctx, t)
						seq = uint64(n)
					case "changesets/at":
						var n replication.ChangesetSeqNum
						n, st, err = ds.ChangesetStateAt(ctx, t)
						seq = uint64(n)
					default:
						vio.Must(errors.New(d.Kind+"/"+q.Op), "unknown kind/op")
					}
				}()
				tr.CloseIdleConnections()
				if err != nil && errClass(err) == "ctx" && ctx.Err() == nil {
					cancel()
					continue
				}
				break
			}
			timedOut := ctx.Err() == context.DeadlineExceeded
			cancel()
			rs.mu.Lock()
			g := Got{Count: rs.count, Reqs: rs.reqs, Deadline: timedOut}
			rs.mu.Unlock()
			if g.Reqs == nil {
				g.Reqs = []Req{}
			}
			switch {
			case panicked != "":
				g.Outcome, g.Err, g.Detail = "crash", "panic", panicked
				g.Seq, g.StateSeq, g.Sec, g.Nsec = -1, -1, -1, -1
			case g.Count > d.Cap || timedOut:
				g.Outcome = "hang"
				g.Seq, g.StateSeq, g.Sec, g.Nsec = -1, -1, -1, -1
			case err != nil:
				g.Outcome, g.Err, g.Detail = "error", errClass(err), err.Error()
				g.Seq, g.StateSeq, g.Sec, g.Nsec = -1, -1, -1, -1
			case st == nil:
				g.Outcome, g.Err = "error", "nilstate"
				g.Seq, g.StateSeq, g.Sec, g.Nsec = -1, -1, -1, -1
			default:
				g.Outcome = "ok"
				g.Seq, g.StateSeq = int64(seq), int64(st.SeqNum)
				g.Sec, g.Nsec = st.Timestamp.Unix(), int64(st.Timestamp.Nanosecond())
				g.TxnMax, g.TxnMaxQ = int64(st.TxnMax), int64(st.TxnMaxQueried)
			}
			out.Runs = append(out.Runs, Run{Q: q.Q, Got: g})
		}
		return out
	}
}
