// c19: serves TLC-rendered replication directories from an in-process HTTP server and runs
// Datasource.{Minute,Hour,Day,Changeset}StateAt against them.
// Neutral renderer/recorder: paths, file bodies, query times, request cap all come from the case
// (ReplicationSearchGen.tla); this file knows no layout, no expected result and no property logic.
package main

import (
	"context"
	"encoding/json"
	"errors"
	"net/http"
	"net/http/httptest"
	"sync"
	"time"

	"github.com/paulmach/osm/replication"
	"verifharness/internal/vio"
)

type File struct {
	Path string `json:"path"`
	Body string `json:"body"`
}

type Query struct {
	Q    int   `json:"q"`
	Sec  int64 `json:"sec"`
	Nsec int64 `json:"nsec"`
	Tz   int   `json:"tz"` // the query value is expressed in this zone (seconds east of UTC); same instant
}

type Dir struct {
	Kind    string  `json:"kind"`
	Prefix  string  `json:"prefix"`
	Cap     int     `json:"cap"`
	Current File    `json:"current"`
	Files   []File  `json:"files"`
	Queries []Query `json:"queries"`
}

// Req: request line (method omitted for GET), status answered, and the decimal digits of the
// request line read as one number (-1: none or too many) - a witness for the Judge's "exists n".
type Req struct {
	Path   string `json:"path"`
	Status int    `json:"status"`
	N      int64  `json:"n"`
}

type Got struct {
	Outcome  string `json:"outcome"` // ok | error | hang
	Seq      int64  `json:"seq"`
	StateSeq int64  `json:"state_seq"`
	Sec      int64  `json:"sec"`
	Nsec     int64  `json:"nsec"`
	Err      string `json:"err"` // error class ("" when none)
	Detail   string `json:"detail"`
	Count    int    `json:"count"`
	Deadline bool   `json:"deadline"`
	Reqs     []Req  `json:"reqs"`
}

type Run struct {
	Q   int `json:"q"`
	Got Got `json:"got"`
}

type Out struct {
	D    int   `json:"d"`
	Runs []Run `json:"runs"`
}

func digits(s string) int64 {
	var n int64 = -1
	k := 0
	for _, c := range s {
		if c >= '0' && c <= '9' {
			if n < 0 {
				n = 0
			}
			k++
			if k > 9 {
				return -1
			}
			n = n*10 + int64(c-'0')
		}
	}
	return n
}

// server state for one query run
type runState struct {
	mu     sync.Mutex
	cap    int
	count  int
	reqs   []Req
	cancel context.CancelFunc
}

func errClass(err error) string {
	var sc *replication.UnexpectedStatusCodeError
	switch {
	case err == nil:
		return ""
	case replication.NotFound(err):
		return "notfound"
	case errors.As(err, &sc):
		return "status"
	case errors.Is(err, context.Canceled), errors.Is(err, context.DeadlineExceeded):
		return "ctx"
	}
	return "other"
}

const deadline = 30 * time.Second

func main() {
	vio.Map(vio.ReadLines(), 0, func(i int, line []byte) interface{} {
		var d Dir
		vio.Must(json.Unmarshal(line, &d), "case")
		files := map[string]string{d.Current.Path: d.Current.Body}
		for _, f := range d.Files {
			files[f.Path] = f.Body
		}
		var (
			mu  sync.Mutex
			cur *runState
		)
		srv := httptest.NewServer(http.HandlerFunc(func(w http.ResponseWriter, r *http.Request) {
			mu.Lock()
			rs := cur
			mu.Unlock()
			line := r.RequestURI
			if r.Method != http.MethodGet {
				line = r.Method + " " + line
			}
			rs.mu.Lock()
			rs.count++
			over := rs.count > rs.cap
			body, ok := files[line]
			status := http.StatusNotFound
			if over {
				status = http.StatusServiceUnavailable
			} else if ok {
				status = http.StatusOK
			}
			if !over {
				rs.reqs = append(rs.reqs, Req{Path: line, Status: status, N: digits(line)})
			}
			rs.mu.Unlock()
			if over {
				rs.cancel() // the search did not stop within the cap: abstract outcome "hang"
			}
			if over || !ok {
				// empty body: the client closes 404 bodies unread, an empty one keeps the connection reusable
				w.Header().Set("Content-Length", "0")
				w.WriteHeader(status)
				return
			}
			w.Header().Set("Content-Type", "text/plain")
			w.Write([]byte(body))
		}))
		defer srv.Close()
		out := Out{D: i}
		for _, q := range d.Queries {
			var (
				seq    uint64
				st     *replication.State
				err    error
				rs     *runState
				ctx    context.Context
				cancel context.CancelFunc
			)
			// A fresh transport per lookup: no connection survives from a lookup that was cut off by the cap.
			// A context error although nobody cancelled this lookup's context (no cap, no deadline) cannot come
			// from the code under test (it creates no contexts): it is a transport artefact, the lookup is redone.
			for attempt := 0; attempt < 3; attempt++ {
				tr := &http.Transport{}
				ds := &replication.Datasource{BaseURL: srv.URL + d.Prefix, Client: &http.Client{Transport: tr}}
				ctx, cancel = context.WithTimeout(context.Background(), deadline)
				rs = &runState{cap: d.Cap, cancel: cancel}
				mu.Lock()
				cur = rs
				mu.Unlock()
				t := time.Unix(q.Sec, q.Nsec).In(time.FixedZone("case", q.Tz))
				switch d.Kind {
				case "minute":
					var n replication.MinuteSeqNum
					n, st, err = ds.MinuteStateAt(ctx, t)
					seq = uint64(n)
				case "hour":
					var n replication.HourSeqNum
					n, st, err = ds.HourStateAt(ctx, t)
					seq = uint64(n)
				case "day":
					var n replication.DaySeqNum
					n, st, err = ds.DayStateAt(ctx, t)
					seq = uint64(n)
				case "changesets":
					var n replication.ChangesetSeqNum
					n, st, err = ds.ChangesetStateAt(ctx, t)
					seq = uint64(n)
				default:
					vio.Must(errors.New(d.Kind), "unknown kind")
				}
				tr.CloseIdleConnections()
				if err != nil && errClass(err) == "ctx" && ctx.Err() == nil {
					cancel()
					continue
				}
				break
			}
			timedOut := ctx.Err() == context.DeadlineExceeded
			cancel()
			rs.mu.Lock()
			g := Got{Count: rs.count, Reqs: rs.reqs, Deadline: timedOut}
			rs.mu.Unlock()
			if g.Reqs == nil {
				g.Reqs = []Req{}
			}
			switch {
			case g.Count > d.Cap || timedOut:
				g.Outcome = "hang"
				g.Seq, g.StateSeq, g.Sec, g.Nsec = -1, -1, -1, -1
			case err != nil:
				g.Outcome, g.Err, g.Detail = "error", errClass(err), err.Error()
				g.Seq, g.StateSeq, g.Sec, g.Nsec = -1, -1, -1, -1
			case st == nil:
				g.Outcome, g.Err = "error", "nilstate"
				g.Seq, g.StateSeq, g.Sec, g.Nsec = -1, -1, -1, -1
			default:
				g.Outcome = "ok"
				g.Seq, g.StateSeq = int64(seq), int64(st.SeqNum)
				g.Sec, g.Nsec = st.Timestamp.Unix(), int64(st.Timestamp.Nanosecond())
			}
			out.Runs = append(out.Runs, Run{Q: q.Q, Got: g})
		}
		return out
	})
}
