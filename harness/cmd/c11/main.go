// c11: renders abstract edit histories (OsmHistory.tla) as osm.Ways / osm.Relations plus an
// osm.HistoryDatasource, runs the real annotate.Ways / annotate.Relations on them (R times on
// fresh copies), then ApplyUpdatesUpTo(t) on copies of the annotated parents for every
// abstract instant t, and records what came back in abstract terms.  Used by C11 and C12.
//
// Neutral renderer/recorder: symbol maps only (abstract child id <-> element id, version
// index <-> version number, abstract time <-> time.Time around osm.CommitInfoStart, ...).
// No expected values, no property logic: the oracle is spec/AnnotateJudge.tla.
//
//	c11                  cases (ndjson) on stdin -> records (ndjson) on stdout
//	c11 -random N -seed S [-kids K -vers V -pars P]
//	                     prints N random abstract histories (same vocabulary: the actions of
//	                     OsmHistory.tla applied at random) as ndjson; no layout, no results
package main

import (
	"bytes"
	"context"
	"encoding/json"
	"flag"
	"fmt"
	"math/rand"
	"os"
	"os/exec"
	"time"

	"github.com/paulmach/osm"
	"github.com/paulmach/osm/annotate"
	"verifharness/internal/vio"
)

// ---- abstract case ---------------------------------------------------------------------

type Ver struct {
	T   int  `json:"t"`
	Vis bool `json:"vis"`
	Cs  int  `json:"cs"`
}

type Ref struct {
	K   int  `json:"k"`
	Pre bool `json:"pre"`
}

type PVer struct {
	T    int   `json:"t"`
	Vis  bool  `json:"vis"`
	Cs   int   `json:"cs"`
	Refs []Ref `json:"refs"`
}

type Hist struct {
	Kids [][]Ver `json:"kids"`
	Par  []PVer  `json:"par"`
}

type Opt struct {
	Regime string `json:"regime"` // "commit" | "stamp" | "mixed"
	Cut    int    `json:"cut"`    // mixed: versions with time >= cut carry a commit time
	Eps    int    `json:"eps"`
	IgI    bool   `json:"igI"`
	IgM    bool   `json:"igM"`
	Filt   int    `json:"filt"` // 0 none, -1 rejects all, k accepts only child k
}

// Lay: how the abstract case is rendered (chosen by the driver from the seed).
type Lay struct {
	Kind    string `json:"kind"`  // "way" | "rel"
	Unit    int    `json:"unit"`  // seconds per abstract tick
	Base    int    `json:"base"`  // seconds between CommitInfoStart and the time origin
	Skew    int    `json:"skew"`  // commit regime: Timestamp = Committed - skew seconds (skew <= base)
	VStep   int    `json:"vstep"` // version number of version index v = voff + vstep*v
	VOff    int    `json:"voff"`
	IDBase  int64  `json:"idbase,string"`  // element id of child k = idbase + k (same number for every type)
	CsBase  int64  `json:"csbase,string"`  // changeset id = csbase + abstract cs
	Shuffle int64  `json:"shuffle"`        // seed for the order of versions inside the datasource lists
	Runs    int    `json:"runs"`           // R
	OptAll  bool   `json:"optall"`         // pass every option explicitly (else only the non-default ones)
	SameID  bool   `json:"sameid"`         // all children share one id number (only when their types differ)
	NoThr   bool   `json:"nothr"`          // commit regime only: leave the Threshold option out (thresholds do not apply there)
	Zones   int64  `json:"zones"`          // != 0: the time.Time values are held in varying locations (same instants), chosen from this seed
	ReAnn   int    `json:"reann"`          // != 0: annotate the same (now annotated, Updates set) parents a second time: -2 without ChildFilter, -1 filter rejects all, k filter accepts only child k
	Huge    *Huge  `json:"huge,omitempty"` // the parent is expanded to N references before the call (see Huge)
	Pin     int    `json:"pin"`            // commit times present: versions at abstract time pin-1 carry Timestamp == CommitInfoStart exactly (0 = off)
	Late    bool   `json:"late"`           // timestamp regime: no commit info although every timestamp is after CommitInfoStart
}

type Case struct {
	H   Hist     `json:"h"`
	O   Opt      `json:"o"`
	Kt  []string `json:"kt"` // child types "n" | "w" | "r"
	Zv  []int    `json:"zv"` // per child: the version located exactly at (0, 0); 0 = none
	Lay Lay      `json:"lay"`
}

// ---- abstract observation --------------------------------------------------------------

type Ann struct {
	V   int `json:"v"`
	Cs  int `json:"cs"`
	Loc int `json:"loc"`
}

type Upd struct {
	Index int `json:"index"`
	V     int `json:"v"`
	T     int `json:"t"`
	Cs    int `json:"cs"`
	Loc   int `json:"loc"`
}

type ParOut struct {
	Refs []Ann `json:"refs"`
	Upd  []Upd `json:"upd"`
}

type Run struct {
	Err string   `json:"err"`
	Par []ParOut `json:"par"`
}

type Got struct {
	Runs []Run     `json:"runs"`
	App  [][][]Ann `json:"app"` // parent -> t -> position
}

// Huge: the case's (small) child lists are the references at the real positions Pos of a parent with N
// references; every other position references child Fill.  After the call the parent is projected back onto
// Pos (update indexes are mapped back; an index outside Pos is reported as N, which is no position).
type Huge struct {
	N    int   `json:"n"`
	Pos  []int `json:"pos"`
	Fill int   `json:"fill"`
}

func (s *sym) expandWay(w *osm.Way) {
	hg := s.c.Lay.Huge
	small := w.Nodes
	w.Nodes = make(osm.WayNodes, hg.N)
	for j := range w.Nodes {
		w.Nodes[j] = osm.WayNode{ID: osm.NodeID(s.id(hg.Fill))}
	}
	for j, p := range hg.Pos {
		if j < len(small) {
			w.Nodes[p] = small[j]
		}
	}
}

func (s *sym) expandRelation(r *osm.Relation) {
	hg := s.c.Lay.Huge
	small := r.Members
	r.Members = make(osm.Members, hg.N)
	for j := range r.Members {
		r.Members[j] = osm.Member{Type: osmType(s.c.Kt[hg.Fill-1]), Ref: s.id(hg.Fill), Role: "fill"}
	}
	for j, p := range hg.Pos {
		if j < len(small) {
			r.Members[p] = small[j]
		}
	}
}

func (s *sym) projectUpdates(us osm.Updates) osm.Updates {
	hg := s.c.Lay.Huge
	back := map[int]int{}
	for j, p := range hg.Pos {
		back[p] = j
	}
	fill := map[int]bool{}
	out := make(osm.Updates, 0, len(us))
	for _, u := range us {
		if j, ok := back[u.Index]; ok {
			u.Index = j
		} else if !fill[u.Index] && len(out) < 64 {
			// updates of filler positions are legitimate but not looked at; anything else stays visible
			if u.Index >= 0 && u.Index < hg.N && u.Version != 0 && s.absVersion(hg.Fill, u.Version) > 0 {
				fill[u.Index] = true
				continue
			}
			u.Index = hg.N
		} else {
			continue
		}
		out = append(out, u)
	}
	return out
}

func (s *sym) projectWay(w *osm.Way) {
	hg := s.c.Lay.Huge
	small := make(osm.WayNodes, 0, len(hg.Pos))
	for _, p := range hg.Pos {
		if p < len(w.Nodes) {
			small = append(small, w.Nodes[p])
		}
	}
	w.Nodes = small
	w.Updates = s.projectUpdates(w.Updates)
}

func (s *sym) projectRelation(r *osm.Relation) {
	hg := s.c.Lay.Huge
	small := make(osm.Members, 0, len(hg.Pos))
	for _, p := range hg.Pos {
		if p < len(r.Members) {
			small = append(small, r.Members[p])
		}
	}
	r.Members = small
	r.Updates = s.projectUpdates(r.Updates)
}

// Seq is a call history: the cases are annotated one after the other in one process.
type Seq struct {
	Steps []Case `json:"steps"`
}

type SeqRec struct {
	Case  json.RawMessage `json:"case"`
	Got   []Got           `json:"got"`
	Crash bool            `json:"crash"`
}

type Rec struct {
	Case json.RawMessage `json:"case"`
	Got  Got             `json:"got"`
}

const (
	unknown = -3
	preMark = -2

	preVersion = 9999
	preCs      = 999999
	preLat     = 77.5
	preLon     = 77.25
)

// ---- symbol maps -----------------------------------------------------------------------

type sym struct {
	c      *Case
	origin time.Time
	hz     int // last abstract instant recorded
}

func newSym(c *Case) *sym {
	s := &sym{c: c}
	maxT := 0
	for _, kl := range c.H.Kids {
		for _, v := range kl {
			if v.T > maxT {
				maxT = v.T
			}
		}
	}
	for _, p := range c.H.Par {
		if p.T > maxT {
			maxT = p.T
		}
	}
	e := c.O.Eps
	if c.O.Regime == "commit" {
		e = 0
	}
	s.hz = maxT + e + 1
	u := time.Duration(c.Lay.Unit) * time.Second
	switch {
	case c.O.Regime == "commit":
		// every committed time is on or after CommitInfoStart, and so is every timestamp
		s.origin = osm.CommitInfoStart.Add(time.Duration(c.Lay.Base) * time.Second)
	case c.O.Regime == "mixed":
		// abstract time `cut` is CommitInfoStart: earlier versions have a timestamp only
		s.origin = osm.CommitInfoStart.Add(-time.Duration(c.O.Cut) * u)
	case c.Lay.Late:
		// timestamps only (no commit info in the data), all of them after CommitInfoStart
		s.origin = osm.CommitInfoStart.Add(time.Duration(c.Lay.Base) * time.Second)
	default:
		// every timestamp of the history is before CommitInfoStart
		s.origin = osm.CommitInfoStart.Add(-time.Duration(c.Lay.Base+1) * time.Second).Add(-time.Duration(maxT) * u)
	}
	return s
}

func (s *sym) time(t int) time.Time {
	return s.origin.Add(time.Duration(t) * time.Duration(s.c.Lay.Unit) * time.Second)
}

func (s *sym) absTime(t time.Time) int {
	d := t.Sub(s.origin)
	u := time.Duration(s.c.Lay.Unit) * time.Second
	if d < 0 || d%u != 0 || int(d/u) > s.hz {
		return unknown
	}
	return int(d / u)
}

// stamps returns (Timestamp, Committed) of an element version at abstract time t
var zoneList = []*time.Location{time.UTC, time.FixedZone("+02:00", 2*3600), time.FixedZone("-05:30", -(5*3600 + 1800)), time.Local}

// inZone returns the same instant held in a location chosen by (layout seed, salt); with zones = 0 everything
// stays as computed (UTC).  Variant 4 goes through time.Unix (no .UTC()).
func (s *sym) inZone(t time.Time, salt int) time.Time {
	if s.c.Lay.Zones == 0 {
		return t
	}
	h := uint64(s.c.Lay.Zones)*0x9E3779B97F4A7C15 + uint64(salt)*0xBF58476D1CE4E5B9
	h ^= h >> 29
	switch n := int(h % 5); n {
	case 4:
		return time.Unix(t.Unix(), int64(t.Nanosecond()))
	default:
		return t.In(zoneList[n])
	}
}

func (s *sym) stampsZ(t, salt int) (time.Time, *time.Time) {
	ts, com := s.stamps(t)
	ts = s.inZone(ts, salt)
	if com != nil {
		c := s.inZone(*com, salt+1)
		com = &c
	}
	return ts, com
}

func (s *sym) stamps(t int) (time.Time, *time.Time) {
	switch {
	case s.c.O.Regime == "commit":
		c := s.time(t)
		if s.c.Lay.Pin > 0 && t == s.c.Lay.Pin-1 {
			// the boundary instant itself: "on or after CommitInfoStart" still means the commit time counts
			return osm.CommitInfoStart, &c
		}
		return c.Add(-time.Duration(s.c.Lay.Skew) * time.Second), &c
	case s.c.O.Regime == "mixed" && t >= s.c.O.Cut:
		c := s.time(t)
		if s.c.Lay.Pin > 0 && t == s.c.Lay.Pin-1 {
			return osm.CommitInfoStart, &c
		}
		return c, &c
	}
	return s.time(t), nil
}

func (s *sym) id(k int) int64 {
	if s.c.Lay.SameID {
		return s.c.Lay.IDBase + 1
	}
	return s.c.Lay.IDBase + int64(k)
}
func (s *sym) version(v int) int         { return s.c.Lay.VOff + s.c.Lay.VStep*v }
func (s *sym) cs(cs int) osm.ChangesetID { return osm.ChangesetID(s.c.Lay.CsBase + int64(cs)) }
func (s *sym) atOrigin(k, v int) bool    { return k-1 < len(s.c.Zv) && s.c.Zv[k-1] == v }
func (s *sym) lat(k, v int) float64 {
	if s.atOrigin(k, v) {
		return 0
	}
	return float64(k) + float64(v)/64
}
func (s *sym) lon(k, v int) float64 {
	if s.atOrigin(k, v) {
		return 0
	}
	return -(float64(v) + float64(k)/64)
}

func (s *sym) absVersion(k, ver int) int {
	if ver == 0 {
		return 0
	}
	if ver == preVersion {
		return preMark
	}
	d := ver - s.c.Lay.VOff
	if d <= 0 || d%s.c.Lay.VStep != 0 || d/s.c.Lay.VStep > len(s.c.H.Kids[k-1]) {
		return unknown
	}
	return d / s.c.Lay.VStep
}

func (s *sym) absCs(cs osm.ChangesetID) int {
	if cs == 0 {
		return 0
	}
	if cs == preCs {
		return preMark
	}
	d := int64(cs) - s.c.Lay.CsBase
	if d <= 0 || d > 1<<20 {
		return unknown
	}
	return int(d)
}

func (s *sym) absLoc(k int, lat, lon float64) int {
	if lat == 0 && lon == 0 {
		return 0
	}
	if lat == preLat && lon == preLon {
		return preMark
	}
	for v := 1; v <= len(s.c.H.Kids[k-1]); v++ {
		if lat == s.lat(k, v) && lon == s.lon(k, v) {
			return v
		}
	}
	return unknown
}

func osmType(kt string) osm.Type {
	switch kt {
	case "n":
		return osm.TypeNode
	case "w":
		return osm.TypeWay
	}
	return osm.TypeRelation
}

func (s *sym) fid(k int) osm.FeatureID {
	switch s.c.Kt[k-1] {
	case "n":
		return osm.NodeID(s.id(k)).FeatureID()
	case "w":
		return osm.WayID(s.id(k)).FeatureID()
	}
	return osm.RelationID(s.id(k)).FeatureID()
}

// ---- rendering -------------------------------------------------------------------------

const parentID = 4242

func (s *sym) datasource() *osm.HistoryDatasource {
	ds := &osm.HistoryDatasource{
		Nodes:     map[osm.NodeID]osm.Nodes{},
		Ways:      map[osm.WayID]osm.Ways{},
		Relations: map[osm.RelationID]osm.Relations{},
	}
	rng := rand.New(rand.NewSource(s.c.Lay.Shuffle))
	for k0, kl := range s.c.H.Kids {
		k := k0 + 1
		if len(kl) == 0 {
			continue // no history for this child
		}
		order := rng.Perm(len(kl)) // the datasource need not deliver versions in order
		for _, vi := range order {
			v := vi + 1
			ver := kl[vi]
			ts, com := s.stampsZ(ver.T, k*1000+v*2)
			switch s.c.Kt[k0] {
			case "n":
				n := &osm.Node{ID: osm.NodeID(s.id(k)), Version: s.version(v), ChangesetID: s.cs(ver.Cs),
					Visible: ver.Vis, Timestamp: ts, Committed: com, Lat: s.lat(k, v), Lon: s.lon(k, v)}
				ds.Nodes[n.ID] = append(ds.Nodes[n.ID], n)
			case "w":
				w := &osm.Way{ID: osm.WayID(s.id(k)), Version: s.version(v), ChangesetID: s.cs(ver.Cs),
					Visible: ver.Vis, Timestamp: ts, Committed: com}
				ds.Ways[w.ID] = append(ds.Ways[w.ID], w)
			default:
				r := &osm.Relation{ID: osm.RelationID(s.id(k)), Version: s.version(v), ChangesetID: s.cs(ver.Cs),
					Visible: ver.Vis, Timestamp: ts, Committed: com}
				ds.Relations[r.ID] = append(ds.Relations[r.ID], r)
			}
		}
	}
	return ds
}

func (s *sym) ways() osm.Ways {
	var ws osm.Ways
	for i, p := range s.c.H.Par {
		ts, com := s.stampsZ(p.T, 900000+i*2)
		w := &osm.Way{ID: parentID, Version: i + 1, ChangesetID: s.cs(p.Cs), Visible: p.Vis, Timestamp: ts, Committed: com}
		for _, r := range p.Refs {
			wn := osm.WayNode{ID: osm.NodeID(s.id(r.K))}
			if r.Pre {
				wn.Version, wn.ChangesetID, wn.Lat, wn.Lon = preVersion, preCs, preLat, preLon
			}
			w.Nodes = append(w.Nodes, wn)
		}
		ws = append(ws, w)
	}
	return ws
}

func (s *sym) relations() osm.Relations {
	var rs osm.Relations
	for i, p := range s.c.H.Par {
		ts, com := s.stampsZ(p.T, 900000+i*2)
		r := &osm.Relation{ID: parentID, Version: i + 1, ChangesetID: s.cs(p.Cs), Visible: p.Vis, Timestamp: ts, Committed: com}
		for j, ref := range p.Refs {
			m := osm.Member{Type: osmType(s.c.Kt[ref.K-1]), Ref: s.id(ref.K), Role: fmt.Sprintf("role%d", j)}
			if ref.Pre {
				m.Version, m.ChangesetID, m.Lat, m.Lon = preVersion, preCs, preLat, preLon
			}
			r.Members = append(r.Members, m)
		}
		rs = append(rs, r)
	}
	return rs
}

func (s *sym) options() []annotate.Option { return s.optionsFilt(s.c.O.Filt) }

func (s *sym) optionsFilt(filt int) []annotate.Option {
	o := s.c.O
	o.Filt = filt
	var opts []annotate.Option
	thr := time.Duration(o.Eps*s.c.Lay.Unit) * time.Second
	switch {
	case s.c.Lay.NoThr && !s.c.Lay.OptAll && o.Regime == "commit":
		// no Threshold option at all
	case s.c.Lay.OptAll || thr != 30*time.Minute: // 30 minutes is the documented default
		opts = append(opts, annotate.Threshold(thr))
	}
	if s.c.Lay.OptAll || o.IgI {
		opts = append(opts, annotate.IgnoreInconsistency(o.IgI))
	}
	if s.c.Lay.OptAll || o.IgM {
		opts = append(opts, annotate.IgnoreMissingChildren(o.IgM))
	}
	switch {
	case o.Filt == -1:
		opts = append(opts, annotate.ChildFilter(func(osm.FeatureID) bool { return false }))
	case o.Filt > 0:
		want := s.fid(o.Filt)
		opts = append(opts, annotate.ChildFilter(func(f osm.FeatureID) bool { return f == want }))
	}
	return opts
}

func reFilt(reann int) int {
	if reann == -2 {
		return 0
	}
	return reann
}

// ---- recording -------------------------------------------------------------------------

func errName(err error) string {
	switch err.(type) {
	case nil:
		return "nil"
	case *annotate.NoHistoryError:
		return "nohistory"
	case *annotate.NoVisibleChildError:
		return "novisible"
	case *annotate.UnsupportedMemberTypeError:
		return "unsupported"
	}
	return "other"
}

func (s *sym) ann(k int, ver int, cs osm.ChangesetID, lat, lon float64) Ann {
	return Ann{V: s.absVersion(k, ver), Cs: s.absCs(cs), Loc: s.absLoc(k, lat, lon)}
}

func (s *sym) updates(i int, us osm.Updates) []Upd {
	out := make([]Upd, 0, len(us))
	refs := s.c.H.Par[i].Refs
	for _, u := range us {
		x := Upd{Index: u.Index, V: unknown, T: s.absTime(u.Timestamp), Cs: s.absCs(u.ChangesetID), Loc: unknown}
		if u.Index >= 0 && u.Index < len(refs) {
			k := refs[u.Index].K
			x.V = s.absVersion(k, u.Version)
			x.Loc = s.absLoc(k, u.Lat, u.Lon)
		}
		out = append(out, x)
	}
	return out
}

func (s *sym) wayRefs(i int, w *osm.Way) []Ann {
	out := make([]Ann, len(w.Nodes))
	for j, n := range w.Nodes {
		k := unknownKid(s, i, j, int64(n.ID), "n")
		if k == 0 {
			out[j] = Ann{unknown, unknown, unknown}
			continue
		}
		out[j] = s.ann(k, n.Version, n.ChangesetID, n.Lat, n.Lon)
	}
	return out
}

func (s *sym) relRefs(i int, r *osm.Relation) []Ann {
	out := make([]Ann, len(r.Members))
	for j, m := range r.Members {
		kt := map[osm.Type]string{osm.TypeNode: "n", osm.TypeWay: "w", osm.TypeRelation: "r"}[m.Type]
		k := unknownKid(s, i, j, m.Ref, kt)
		if k == 0 {
			out[j] = Ann{unknown, unknown, unknown}
			continue
		}
		out[j] = s.ann(k, m.Version, m.ChangesetID, m.Lat, m.Lon)
	}
	return out
}

// unknownKid returns the abstract child at position j of parent i if the element there still is
// the one that was rendered (id and type unchanged), else 0.
func unknownKid(s *sym, i, j int, id int64, kt string) int {
	refs := s.c.H.Par[i].Refs
	if j >= len(refs) {
		return 0
	}
	k := refs[j].K
	if s.id(k) != id || s.c.Kt[k-1] != kt {
		return 0
	}
	return k
}

func copyWay(w *osm.Way) *osm.Way {
	c := *w
	c.Nodes = append(osm.WayNodes(nil), w.Nodes...)
	c.Updates = append(osm.Updates(nil), w.Updates...)
	return &c
}

func copyRelation(r *osm.Relation) *osm.Relation {
	c := *r
	c.Members = append(osm.Members(nil), r.Members...)
	c.Updates = append(osm.Updates(nil), r.Updates...)
	return &c
}

func bad(n int) []Ann {
	out := make([]Ann, n)
	for i := range out {
		out[i] = Ann{unknown, unknown, unknown}
	}
	return out
}

func runCase(c *Case) Got {
	s := newSym(c)
	var got Got
	ctx := context.Background()
	for r := 0; r < c.Lay.Runs; r++ {
		// a fresh rendering is a deep copy of the input
		ds := s.datasource()
		var run Run
		if c.Lay.Kind == "way" {
			ws := s.ways()
			if c.Lay.Huge != nil {
				for _, w := range ws {
					s.expandWay(w)
				}
			}
			err := annotate.Ways(ctx, ws, ds, s.options()...)
			if err == nil && c.Lay.ReAnn != 0 {
				// incremental re-annotation: the parents enter annotated and carrying Updates
				err = annotate.Ways(ctx, ws, ds, s.optionsFilt(reFilt(c.Lay.ReAnn))...)
			}
			run.Err = errName(err)
			if err == nil && c.Lay.Huge != nil {
				for _, w := range ws {
					s.projectWay(w)
				}
			}
			if err == nil {
				for i, w := range ws {
					run.Par = append(run.Par, ParOut{Refs: s.wayRefs(i, w), Upd: s.updates(i, w.Updates)})
				}
				if r == 0 {
					for i, w := range ws {
						var perT [][]Ann
						for t := 0; t <= s.hz; t++ {
							cp := copyWay(w)
							if e := cp.ApplyUpdatesUpTo(s.inZone(s.time(t), 500000+t)); e != nil {
								perT = append(perT, bad(len(w.Nodes)))
								continue
							}
							perT = append(perT, s.wayRefs(i, cp))
						}
						got.App = append(got.App, perT)
					}
				}
			}
		} else {
			rs := s.relations()
			if c.Lay.Huge != nil {
				for _, r := range rs {
					s.expandRelation(r)
				}
			}
			err := annotate.Relations(ctx, rs, ds, s.options()...)
			if err == nil && c.Lay.ReAnn != 0 {
				err = annotate.Relations(ctx, rs, ds, s.optionsFilt(reFilt(c.Lay.ReAnn))...)
			}
			run.Err = errName(err)
			if err == nil && c.Lay.Huge != nil {
				for _, r := range rs {
					s.projectRelation(r)
				}
			}
			if err == nil {
				for i, rel := range rs {
					run.Par = append(run.Par, ParOut{Refs: s.relRefs(i, rel), Upd: s.updates(i, rel.Updates)})
				}
				if r == 0 {
					for i, rel := range rs {
						var perT [][]Ann
						for t := 0; t <= s.hz; t++ {
							cp := copyRelation(rel)
							if e := cp.ApplyUpdatesUpTo(s.inZone(s.time(t), 500000+t)); e != nil {
								perT = append(perT, bad(len(rel.Members)))
								continue
							}
							perT = append(perT, s.relRefs(i, cp))
						}
						got.App = append(got.App, perT)
					}
				}
			}
		}
		if run.Par == nil {
			run.Par = []ParOut{}
		}
		got.Runs = append(got.Runs, run)
	}
	if got.App == nil {
		got.App = [][][]Ann{}
	}
	return got
}

// runCaseRecover: in the bulk mode (many cases in one process) a panic inside the library is an
// observation about that case ("crash"), not a reason to lose the batch.
func runCaseRecover(c *Case) (got Got) {
	defer func() {
		if r := recover(); r != nil {
			got = Got{Runs: []Run{{Err: "crash", Par: []ParOut{}}}, App: [][][]Ann{}}
		}
	}()
	return runCase(c)
}

// ---- random abstract histories (input vocabulary only) --------------------------------------

func randomHistory(rng *rand.Rand, nk, maxV, maxP, maxDt, ncs int) (Hist, Opt) {
	h := Hist{Kids: make([][]Ver, nk)}
	for k := range h.Kids {
		h.Kids[k] = []Ver{}
	}
	now := 0
	tick := func() {
		now += []int{0, 0, 0, 1, 1, 2, 3}[rng.Intn(7)] % (maxDt + 1)
	}
	last := func(k int) *Ver {
		if n := len(h.Kids[k]); n > 0 {
			return &h.Kids[k][n-1]
		}
		return nil
	}
	// most children exist before the parent does
	for k := 0; k < nk; k++ {
		if rng.Intn(12) != 0 {
			h.Kids[k] = append(h.Kids[k], Ver{now, true, 1 + rng.Intn(ncs)})
			if rng.Intn(3) == 0 {
				tick()
			}
		}
	}
	steps := 3 + rng.Intn(nk*maxV/2+2*maxP+1)
	for s := 0; s < steps && now < 24; s++ {
		tick()
		cs := 1 + rng.Intn(ncs)
		a := rng.Intn(100)
		switch {
		case a < 55: // child edit / undelete (also creates)
			k := rng.Intn(nk)
			if len(h.Kids[k]) < maxV {
				h.Kids[k] = append(h.Kids[k], Ver{now, true, cs})
			}
		case a < 62: // child delete
			k := rng.Intn(nk)
			if l := last(k); l != nil && l.Vis && len(h.Kids[k]) < maxV {
				h.Kids[k] = append(h.Kids[k], Ver{now, false, cs})
			}
		case a < 94: // parent edit
			if len(h.Par) >= maxP {
				continue
			}
			n := 1 + rng.Intn(8)
			refs := []Ref{}
			for j := 0; j < n; j++ {
				k := rng.Intn(nk)
				if l := last(k); (l == nil || !l.Vis) && rng.Intn(10) != 0 {
					continue // mostly reference children that are visible now
				}
				refs = append(refs, Ref{K: k + 1, Pre: rng.Intn(6) == 0})
			}
			if len(refs) == 0 {
				refs = append(refs, Ref{K: 1 + rng.Intn(nk)})
			}
			h.Par = append(h.Par, PVer{now, true, cs, refs})
		default: // parent delete
			if len(h.Par) == 0 || len(h.Par) >= maxP || !h.Par[len(h.Par)-1].Vis {
				continue
			}
			h.Par = append(h.Par, PVer{now, false, cs, h.Par[len(h.Par)-1].Refs})
		}
	}
	if len(h.Par) == 0 {
		h.Par = append(h.Par, PVer{now, true, 1, []Ref{{K: 1}}})
	}
	o := Opt{Regime: []string{"commit", "stamp", "mixed"}[rng.Intn(3)], Eps: rng.Intn(3), IgI: rng.Intn(3) == 0, IgM: rng.Intn(2) == 0}
	if o.Regime == "mixed" {
		o.Cut = 1 + rng.Intn(now+1)
	}
	switch rng.Intn(5) {
	case 0:
		o.Filt = -1
	case 1:
		o.Filt = 1 + rng.Intn(nk)
	}
	return h, o
}

// busyHistory: few children, each edited several times (often within one tick) between the
// early parent versions and a few times after the later ones: many updates per position on a
// parent version that is not the last one.
func busyHistory(rng *rand.Rand, nk, np, ncs int) (Hist, Opt) {
	h := Hist{Kids: make([][]Ver, nk)}
	now := 0
	for k := range h.Kids {
		h.Kids[k] = []Ver{{now, true, 1 + rng.Intn(ncs)}}
	}
	for p := 0; p < np; p++ {
		refs := []Ref{}
		for k := 0; k < nk; k++ {
			refs = append(refs, Ref{K: k + 1})
		}
		for j := rng.Intn(3); j > 0; j-- {
			refs = append(refs, Ref{K: 1 + rng.Intn(nk)})
		}
		rng.Shuffle(len(refs), func(a, b int) { refs[a], refs[b] = refs[b], refs[a] })
		now += rng.Intn(2)
		h.Par = append(h.Par, PVer{now, true, 1 + rng.Intn(ncs), refs})
		for k := 0; k < nk; k++ {
			n := rng.Intn(3)
			if p < np-1 && rng.Intn(4) != 0 {
				n = 3 + rng.Intn(4)
			}
			t := now
			for e := 0; e < n; e++ {
				t += rng.Intn(2)
				h.Kids[k] = append(h.Kids[k], Ver{t, true, 1 + rng.Intn(ncs)})
			}
		}
		for _, kl := range h.Kids {
			if t := kl[len(kl)-1].T; t > now {
				now = t
			}
		}
		now += 1 + rng.Intn(2)
	}
	// child versions of different children interleave in time but each list stays ordered
	o := Opt{Regime: []string{"commit", "stamp", "mixed"}[rng.Intn(3)], Eps: rng.Intn(2), IgI: rng.Intn(4) == 0}
	if o.Regime == "mixed" {
		o.Cut = 1 + rng.Intn(now+1)
	}
	return h, o
}

func main() {
	nRandom := flag.Int("random", 0, "print N random abstract histories instead of running cases")
	seed := flag.Int64("seed", 1, "seed for -random")
	kids := flag.Int("kids", 10, "children (for -random)")
	vers := flag.Int("vers", 6, "versions per child (for -random)")
	pars := flag.Int("pars", 4, "parent versions (for -random)")
	seq := flag.Bool("seq", false, "stdin lines are call sequences {steps:[case...]}: each is run in its own child process")
	seqChild := flag.Bool("seqchild", false, "(internal) run the one sequence on stdin, call after call, in this process")
	flag.Parse()

	if *seqChild {
		// one process = one call history; a single P and no GC so that nothing but the calls
		// themselves (and Go's map iteration order) decides what a later call sees
		lines := vio.ReadLines()
		var sq Seq
		vio.Must(json.Unmarshal(lines[0], &sq), "sequence")
		gots := make([]Got, 0, len(sq.Steps))
		for i := range sq.Steps {
			gots = append(gots, runCase(&sq.Steps[i]))
		}
		vio.Must(json.NewEncoder(os.Stdout).Encode(gots), "encode")
		return
	}

	if *seq {
		self, err := os.Executable()
		vio.Must(err, "executable")
		vio.Map(vio.ReadLines(), 0, func(i int, line []byte) interface{} {
			ctx, cancel := context.WithTimeout(context.Background(), 60*time.Second)
			defer cancel()
			cmd := exec.CommandContext(ctx, self, "-seqchild")
			cmd.Env = append(os.Environ(), "GOMAXPROCS=1", "GOGC=off")
			cmd.Stdin = bytes.NewReader(append(append([]byte(nil), line...), '\n'))
			out, err := cmd.Output()
			rec := SeqRec{Case: line, Got: []Got{}}
			if err != nil || json.Unmarshal(out, &rec.Got) != nil {
				// a panic inside the library (or a hang) is an observation, not a harness failure
				rec.Crash, rec.Got = true, []Got{}
			}
			return rec
		})
		return
	}

	if *nRandom > 0 {
		rng := rand.New(rand.NewSource(*seed))
		enc := json.NewEncoder(os.Stdout)
		for i := 0; i < *nRandom; i++ {
			nk := 1 + rng.Intn(*kids)
			var h Hist
			var o Opt
			if i%4 == 3 {
				h, o = busyHistory(rng, 1+rng.Intn(4), 2+rng.Intn(2), 3)
			} else {
				h, o = randomHistory(rng, nk, 1+rng.Intn(*vers), 1+rng.Intn(*pars), 3, 3)
			}
			vio.Must(enc.Encode(map[string]interface{}{"h": h, "o": o}), "encode")
		}
		return
	}

	vio.Map(vio.ReadLines(), 0, func(i int, line []byte) interface{} {
		var c Case
		vio.Must(json.Unmarshal(line, &c), "case")
		if len(c.Kt) != len(c.H.Kids) || c.Lay.Unit <= 0 || c.Lay.VStep <= 0 || c.Lay.Runs <= 0 {
			vio.Must(fmt.Errorf("bad layout in case %d", i), "case")
		}
		return Rec{Case: line, Got: runCaseRecover(&c)}
	})
}
