// c13: runs annotate.Change on abstract cases from AnnotateChange.tla.
//
// Neutral renderer/recorder: an abstract case (change elements per section and kind, histories in
// stored order, options) becomes an *osm.Change and an osm.HistoryDatasource; the returned diff or
// error is written back in the abstract vocabulary.  No expected values, no property logic.
//
// Symbol maps: abstract id i <-> concrete id through the id table named by the case (idTables below;
// table "base" is base+i with base from VERIF_IDBASE; a concrete id outside the table reads back as -1);
// mark m <-> ChangesetID markBase+m; timestamp ts <-> Timestamp (0 = zero time, n = timeBase + n minutes); versions and visible flags are themselves; option settings are
// rendered one to one into annotate.Option values.
package main

import (
	"context"
	"encoding/json"
	"errors"
	"fmt"
	"os"
	"strconv"
	"time"

	"github.com/paulmach/osm"
	"github.com/paulmach/osm/annotate"
	"verifharness/internal/vio"
)

type El struct {
	ID  int64 `json:"id"`
	V   int   `json:"v"`
	Vis bool  `json:"vis"`
	M   int64 `json:"m"`
	Ts  int64 `json:"ts"` // abstract timestamp: 0 = zero time.Time, n > 0 = timeBase + n minutes
}

type Cells struct {
	Node     []El `json:"node"`
	Way      []El `json:"way"`
	Relation []El `json:"relation"`
}

type Hist struct {
	K    string `json:"k"`
	ID   int64  `json:"id"`
	Fail string `json:"fail"` // "no", "other", "notfound"
	Vs   []El   `json:"vs"`
}

type Opt struct {
	Inc  string `json:"inc"`  // IgnoreInconsistency: "absent", "off", "on"
	Thr  bool   `json:"thr"`  // Threshold(d) present
	Cf   string `json:"cf"`   // ChildFilter: "absent", "all", "none"
	Ignx int    `json:"ignx"` // pattern number of the sequence below (informative)
	Imc  []bool `json:"imc"`  // the IgnoreMissingChildren(b) calls of the option list, in order
}

type Case struct {
	Ign  bool   `json:"ign"`
	Nile bool   `json:"nile"`
	Opt  Opt    `json:"opt"`
	Idp  string `json:"idp"`
	Ch   struct {
		Create Cells `json:"create"`
		Modify Cells `json:"modify"`
		Delete Cells `json:"delete"`
	} `json:"ch"`
	Hist []Hist `json:"hist"`
}

// observation vocabulary
type OutEl struct {
	K   string `json:"k"`
	ID  int64  `json:"id"`
	V   int    `json:"v"`
	Vis bool   `json:"vis"`
	M   int64  `json:"m"`
	Ts  int64  `json:"ts"`
}

type Act struct {
	T   string  `json:"t"`
	OSM []OutEl `json:"osm"`
	Old []OutEl `json:"old"`
	New []OutEl `json:"new"`
}

type Got struct {
	Err     string `json:"err"` // "none", the type name of a typed annotate error, "other", "panic"
	Ek      string `json:"ek"`  // kind named by the typed error ("" if none)
	Eid     int64  `json:"eid"` // id named by the typed error (0 if none)
	NoDiff  bool   `json:"nodiff"`
	Actions []Act  `json:"actions"`
}

type Rec struct {
	Case json.RawMessage `json:"case"`
	Got  Got             `json:"got"`
}

var (
	idBase   int64
	markBase int64 = 700000
)

// id symbol tables: abstract id (1, 2, 3) -> concrete id
var idTables = map[string][]int64{
	"zero":  {0, 5, 9},
	"zero2": {5, 0, 9},
	"zero3": {5, 9, 0},
	"big":   {1<<40 - 1, 0, 1 << 39},
	"neg":   {-1, 0, -1000000},
}

type idmap struct{ table []int64 }

func newIDMap(name string) idmap {
	if name == "base" || name == "" {
		return idmap{}
	}
	t, ok := idTables[name]
	if !ok {
		vio.Must(fmt.Errorf("unknown id table %q", name), "case")
	}
	return idmap{t}
}

func (m idmap) cid(a int64) int64 {
	if m.table == nil {
		return idBase + a
	}
	if a < 1 || int(a) > len(m.table) {
		vio.Must(fmt.Errorf("abstract id %d outside the id table", a), "case")
	}
	return m.table[a-1]
}

func (m idmap) aid(c int64) int64 {
	if m.table == nil {
		if a := c - idBase; a >= 1 && a <= 1000 {
			return a
		}
		return -1
	}
	for i, v := range m.table {
		if v == c {
			return int64(i + 1)
		}
	}
	return -1
}

// abstract timestamp <-> time.Time
var timeBase = time.Date(2012, 9, 12, 6, 0, 0, 0, time.UTC)

func ctime(a int64) time.Time {
	if a == 0 {
		return time.Time{}
	}
	return timeBase.Add(time.Duration(a) * time.Minute)
}

func atime(t time.Time) int64 {
	if t.IsZero() {
		return 0
	}
	d := t.Sub(timeBase)
	if a := int64(d / time.Minute); a >= 1 && a <= 100000 && d%time.Minute == 0 {
		return a
	}
	return -1
}

func amark(c osm.ChangesetID) int64 {
	if a := int64(c) - markBase; a >= 1 && a <= 100000 {
		return a
	}
	return -1
}

// errors of the fault-injecting datasource
var (
	errDatasource  = errors.New("c13 harness: datasource failure (i/o error, timeout, ...)") // NotFound(err) == false
	errOwnNotFound = errors.New("c13 harness: no such element")                              // NotFound(err) == true
)

type faultKey struct {
	kind string
	id   int64
}

// faultyDS is a fault-injecting osm.HistoryDatasourcer around the library's in-memory datasource: for the
// (kind, id) the case marks, the lookup fails with errDatasource (fault "other": not classified as not-found)
// or with errOwnNotFound (fault "notfound": an error of its own that its NotFound method classifies as
// not-found).  Everything else is answered by the wrapped osm.HistoryDatasource.
type faultyDS struct {
	*osm.HistoryDatasource
	fault map[faultKey]string
}

func (d *faultyDS) inject(kind string, id int64) error {
	switch d.fault[faultKey{kind, id}] {
	case "other":
		return errDatasource
	case "notfound":
		return errOwnNotFound
	}
	return nil
}

func (d *faultyDS) NodeHistory(ctx context.Context, id osm.NodeID) (osm.Nodes, error) {
	if err := d.inject("node", int64(id)); err != nil {
		return nil, err
	}
	return d.HistoryDatasource.NodeHistory(ctx, id)
}

func (d *faultyDS) WayHistory(ctx context.Context, id osm.WayID) (osm.Ways, error) {
	if err := d.inject("way", int64(id)); err != nil {
		return nil, err
	}
	return d.HistoryDatasource.WayHistory(ctx, id)
}

func (d *faultyDS) RelationHistory(ctx context.Context, id osm.RelationID) (osm.Relations, error) {
	if err := d.inject("relation", int64(id)); err != nil {
		return nil, err
	}
	return d.HistoryDatasource.RelationHistory(ctx, id)
}

func (d *faultyDS) NotFound(err error) bool {
	return err == errOwnNotFound || d.HistoryDatasource.NotFound(err)
}

func renderOSM(m idmap, c Cells, nile bool) *osm.OSM {
	if nile && len(c.Node)+len(c.Way)+len(c.Relation) == 0 {
		return nil
	}
	o := &osm.OSM{}
	for _, e := range c.Node {
		o.Nodes = append(o.Nodes, &osm.Node{ID: osm.NodeID(m.cid(e.ID)), Version: e.V, Visible: e.Vis, ChangesetID: osm.ChangesetID(markBase + e.M), Timestamp: ctime(e.Ts)})
	}
	for _, e := range c.Way {
		o.Ways = append(o.Ways, &osm.Way{ID: osm.WayID(m.cid(e.ID)), Version: e.V, Visible: e.Vis, ChangesetID: osm.ChangesetID(markBase + e.M), Timestamp: ctime(e.Ts)})
	}
	for _, e := range c.Relation {
		o.Relations = append(o.Relations, &osm.Relation{ID: osm.RelationID(m.cid(e.ID)), Version: e.V, Visible: e.Vis, ChangesetID: osm.ChangesetID(markBase + e.M), Timestamp: ctime(e.Ts)})
	}
	return o
}

func renderDS(m idmap, hs []Hist) osm.HistoryDatasourcer {
	ds := &osm.HistoryDatasource{}
	fault := map[faultKey]string{}
	for _, h := range hs {
		switch h.K {
		case "node":
			id := osm.NodeID(m.cid(h.ID))
			if h.Fail != "no" {
				fault[faultKey{h.K, int64(id)}] = h.Fail
			}
			if h.Fail == "notfound" {
				continue
			}
			if ds.Nodes == nil {
				ds.Nodes = map[osm.NodeID]osm.Nodes{}
			}
			l := osm.Nodes{}
			for _, e := range h.Vs {
				l = append(l, &osm.Node{ID: id, Version: e.V, Visible: e.Vis, ChangesetID: osm.ChangesetID(markBase + e.M), Timestamp: ctime(e.Ts)})
			}
			ds.Nodes[id] = l
		case "way":
			id := osm.WayID(m.cid(h.ID))
			if h.Fail != "no" {
				fault[faultKey{h.K, int64(id)}] = h.Fail
			}
			if h.Fail == "notfound" {
				continue
			}
			if ds.Ways == nil {
				ds.Ways = map[osm.WayID]osm.Ways{}
			}
			l := osm.Ways{}
			for _, e := range h.Vs {
				l = append(l, &osm.Way{ID: id, Version: e.V, Visible: e.Vis, ChangesetID: osm.ChangesetID(markBase + e.M), Timestamp: ctime(e.Ts)})
			}
			ds.Ways[id] = l
		case "relation":
			id := osm.RelationID(m.cid(h.ID))
			if h.Fail != "no" {
				fault[faultKey{h.K, int64(id)}] = h.Fail
			}
			if h.Fail == "notfound" {
				continue
			}
			if ds.Relations == nil {
				ds.Relations = map[osm.RelationID]osm.Relations{}
			}
			l := osm.Relations{}
			for _, e := range h.Vs {
				l = append(l, &osm.Relation{ID: id, Version: e.V, Visible: e.Vis, ChangesetID: osm.ChangesetID(markBase + e.M), Timestamp: ctime(e.Ts)})
			}
			ds.Relations[id] = l
		default:
			vio.Must(fmt.Errorf("unknown kind %q", h.K), "case")
		}
	}
	if len(fault) == 0 {
		return ds // the plain in-memory datasource of the library
	}
	return &faultyDS{HistoryDatasource: ds, fault: fault}
}

// recordOSM lists the elements of one part of an action: nodes, ways, relations in that order.
func recordOSM(m idmap, o *osm.OSM) []OutEl {
	out := []OutEl{}
	if o == nil {
		return out
	}
	for _, n := range o.Nodes {
		out = append(out, OutEl{"node", m.aid(int64(n.ID)), n.Version, n.Visible, amark(n.ChangesetID), atime(n.Timestamp)})
	}
	for _, w := range o.Ways {
		out = append(out, OutEl{"way", m.aid(int64(w.ID)), w.Version, w.Visible, amark(w.ChangesetID), atime(w.Timestamp)})
	}
	for _, r := range o.Relations {
		out = append(out, OutEl{"relation", m.aid(int64(r.ID)), r.Version, r.Visible, amark(r.ChangesetID), atime(r.Timestamp)})
	}
	return out
}

func recordErr(m idmap, err error, g *Got) {
	var fid osm.FeatureID
	switch e := err.(type) {
	case *annotate.NoVisibleChildError:
		g.Err, fid = "NoVisibleChildError", e.ID
	case *annotate.NoHistoryError:
		g.Err, fid = "NoHistoryError", e.ID
	case *annotate.UnsupportedMemberTypeError:
		g.Err = "UnsupportedMemberTypeError"
		return
	default:
		g.Err = "other"
		return
	}
	g.Ek = string(fid.Type())
	g.Eid = m.aid(fid.Ref())
}

func run(c Case) (g Got) {
	g = Got{Err: "none", Actions: []Act{}}
	defer func() {
		if r := recover(); r != nil {
			g = Got{Err: "panic", Actions: []Act{}, NoDiff: true}
		}
	}()
	m := newIDMap(c.Idp)
	change := &osm.Change{
		Create: renderOSM(m, c.Ch.Create, c.Nile),
		Modify: renderOSM(m, c.Ch.Modify, c.Nile),
		Delete: renderOSM(m, c.Ch.Delete, c.Nile),
	}
	ds := renderDS(m, c.Hist)
	var opts []annotate.Option
	// option list: first IgnoreMissingChildren setting, the other options, the remaining IgnoreMissingChildren settings
	if len(c.Opt.Imc) > 0 {
		opts = append(opts, annotate.IgnoreMissingChildren(c.Opt.Imc[0]))
	}
	switch c.Opt.Inc {
	case "on":
		opts = append(opts, annotate.IgnoreInconsistency(true))
	case "off":
		opts = append(opts, annotate.IgnoreInconsistency(false))
	}
	if c.Opt.Thr {
		opts = append(opts, annotate.Threshold(45*time.Minute))
	}
	switch c.Opt.Cf {
	case "all":
		opts = append(opts, annotate.ChildFilter(func(osm.FeatureID) bool { return true }))
	case "none":
		opts = append(opts, annotate.ChildFilter(func(osm.FeatureID) bool { return false }))
	}
	for i := 1; i < len(c.Opt.Imc); i++ {
		opts = append(opts, annotate.IgnoreMissingChildren(c.Opt.Imc[i]))
	}
	diff, err := annotate.Change(context.Background(), change, ds, opts...)
	if err != nil {
		recordErr(m, err, &g)
	}
	g.NoDiff = diff == nil
	if diff != nil {
		for _, a := range diff.Actions {
			g.Actions = append(g.Actions, Act{T: string(a.Type), OSM: recordOSM(m, a.OSM), Old: recordOSM(m, a.Old), New: recordOSM(m, a.New)})
		}
	}
	return g
}

func main() {
	if s := os.Getenv("VERIF_IDBASE"); s != "" {
		b, err := strconv.ParseInt(s, 10, 64)
		vio.Must(err, "VERIF_IDBASE")
		idBase = b
	}
	vio.Map(vio.ReadLines(), 0, func(i int, line []byte) interface{} {
		var c Case
		vio.Must(json.Unmarshal(line, &c), "case")
		return Rec{Case: line, Got: run(c)}
	})
}
