// c10: drives the real identifier API of github.com/paulmach/osm on abstract cases from
// PackedIdsSpace.tla and records what it returned.  Neutral renderer / recorder:
//   - a reference arrives as three limbs <<r2, r1, r0>> (8/16/16 bits) and is rendered as the int64
//     r2<<32 | r1<<16 | r0;
//   - every 64-bit value coming back is recorded as four 16-bit limbs, most significant first
//     (two's complement), so that TLC (32-bit integers) can judge it;
//   - texts arrive as token lists and are concatenated; printed texts are additionally split into
//     generic tokens (letter runs, digit runs with their numeric value in limbs, single other characters).
//
// No expected values, no layout constants, no property logic.
package main

import (
	"encoding/json"
	"fmt"
	"math/big"
	"math/rand"
	"strings"
	"unicode"

	"github.com/paulmach/osm"
	"verifharness/internal/vio"
)

type Triple struct {
	Kind string   `json:"kind"`
	R    [3]int64 `json:"r"`
	V    int      `json:"v"`
}

func (t Triple) ref() int64 { return t.R[0]<<32 | t.R[1]<<16 | t.R[2] }

type Case struct {
	T     string   `json:"t"`
	Kind  string   `json:"kind"`
	R     [3]int64 `json:"r"`
	V     int      `json:"v"`
	A     *Triple  `json:"a"`
	B     *Triple  `json:"b"`
	Items []Triple `json:"items"`
	Toks  []string `json:"toks"`
	// bigsort: digit vectors <<kind index, r4, r3, r2, r1, r0, vh, vl>>
	Kinds []string `json:"kinds"`
	Dom   [][]int  `json:"dom"`
	First []int    `json:"first"`
	Last  []int    `json:"last"`
	Order string   `json:"order"`
	Seed  int64    `json:"seed"`
}

type Limbs [4]int

func limbs(x int64) Limbs {
	u := uint64(x)
	return Limbs{int(u >> 48), int(u >> 32 & 0xFFFF), int(u >> 16 & 0xFFFF), int(u & 0xFFFF)}
}

// ---- observations -------------------------------------------------------------------------------

type IDObs struct {
	Of  string `json:"of"`  // obj | elem | feat
	How string `json:"how"` // which API path produced it
	ID  Limbs  `json:"id"`
}

type DecObs struct {
	Of   string `json:"of"`
	Type string `json:"type"` // result of Type(), "panic" if it panicked
	Ref  Limbs  `json:"ref"`
	Ver  int    `json:"ver"`
}

type TypedObs struct {
	Of  string `json:"of"`
	M   string `json:"m"`   // node | way | relation: which typed accessor (NodeID(), WayID(), RelationID())
	Out string `json:"out"` // ok | panic
	Ref Limbs  `json:"ref"`
}

type Tok struct {
	C   string `json:"c"` // alpha | digit | other
	S   string `json:"s"`
	Val *Limbs `json:"val,omitempty"` // digit runs only: numeric value
	Big *bool  `json:"big,omitempty"` // digit runs only: does not fit 64 bits
}

type TextObs struct {
	Of   string   `json:"of"`
	S    string   `json:"s"`
	Toks []Tok    `json:"toks"`
	P    ParseOut `json:"p"` // Parse*(S)
}

type ValGot struct {
	IDs   []IDObs    `json:"ids"`
	Dec   []DecObs   `json:"dec"`
	Typed []TypedObs `json:"typed"`
	Text  []TextObs  `json:"text"`
}

type CmpObs struct {
	Of string `json:"of"`
	Lt bool   `json:"lt"`
	Eq bool   `json:"eq"`
	Gt bool   `json:"gt"`
}

type PairGot struct {
	Cmp []CmpObs `json:"cmp"`
}

type ElemObs struct {
	Kind string `json:"kind"`
	Ref  Limbs  `json:"ref"`
	V    int    `json:"v"`
}

// an id of a sorted list: decoded by its own Type / Ref / Version, and raw
type SortedID struct {
	Dec Dec   `json:"dec"`
	ID  Limbs `json:"id"`
}

type SortGot struct {
	Elements []ElemObs  `json:"elements"` // Elements.Sort
	EIDs     []SortedID `json:"eids"`     // ElementIDs.Sort
	FIDs     []SortedID `json:"fids"`     // FeatureIDs.Sort
	OsmEIDs  []SortedID `json:"osmeids"`  // (*OSM).ElementIDs() then Sort
}

// what Type / Ref / Version of an id return ("panic" if Type panicked; Ver 0 for feature ids)
type Dec struct {
	Type string `json:"type"`
	Ref  Limbs  `json:"ref"`
	Ver  int    `json:"ver"`
}

type ParseOut struct {
	Err bool  `json:"err"`
	ID  Limbs `json:"id"`  // the returned id
	Dec Dec   `json:"dec"` // the returned id decoded (zero values when Err)
}

type TextGot struct {
	S    string   `json:"s"`
	Obj  ParseOut `json:"obj"`
	Elem ParseOut `json:"elem"`
	Feat ParseOut `json:"feat"`
}

type Rec struct {
	Case json.RawMessage `json:"case"`
	Got  interface{}     `json:"got"`
}

// ---- helpers ------------------------------------------------------------------------------------

func try(f func()) (out string) {
	defer func() {
		if r := recover(); r != nil {
			out = "panic"
		}
	}()
	f()
	return "ok"
}

func tokenize(s string) []Tok {
	var out []Tok
	rs := []rune(s)
	for i := 0; i < len(rs); {
		j := i + 1
		switch {
		case rs[i] >= '0' && rs[i] <= '9':
			for j < len(rs) && rs[j] >= '0' && rs[j] <= '9' {
				j++
			}
			t := Tok{C: "digit", S: string(rs[i:j])}
			n, _ := new(big.Int).SetString(t.S, 10)
			var val Limbs
			isBig := !n.IsUint64()
			if !isBig {
				val = limbs(int64(n.Uint64()))
			}
			t.Val, t.Big = &val, &isBig
			out = append(out, t)
		case unicode.IsLetter(rs[i]):
			for j < len(rs) && unicode.IsLetter(rs[j]) {
				j++
			}
			out = append(out, Tok{C: "alpha", S: string(rs[i:j])})
		default:
			out = append(out, Tok{C: "other", S: string(rs[i:j])})
		}
		i = j
	}
	if out == nil {
		out = []Tok{}
	}
	return out
}

func parseOut(id int64, err error, dec func() DecObs) ParseOut {
	p := ParseOut{Err: err != nil, ID: limbs(id)}
	if err == nil {
		d := dec()
		p.Dec = Dec{Type: d.Type, Ref: d.Ref, Ver: d.Ver}
	}
	return p
}

func parseObj(s string) ParseOut {
	id, err := osm.ParseObjectID(s)
	return parseOut(int64(id), err, func() DecObs { return decObj(id) })
}
func parseElem(s string) ParseOut {
	id, err := osm.ParseElementID(s)
	return parseOut(int64(id), err, func() DecObs { return decElem(id) })
}
func parseFeat(s string) ParseOut {
	id, err := osm.ParseFeatureID(s)
	return parseOut(int64(id), err, func() DecObs { return decFeat(id) })
}

func textObs(of, s string, p ParseOut) TextObs {
	return TextObs{Of: of, S: s, Toks: tokenize(s), P: p}
}

// ---- the three element kinds behind one face -----------------------------------------------------

type elemAPI struct {
	object   func(ref int64, v int) osm.ObjectID
	element  func(ref int64, v int) osm.ElementID
	feature  func(ref int64) osm.FeatureID
	value    func(ref int64, v int) osm.Element
	typ      osm.Type
	typedEID func(osm.ElementID) int64
	typedFID func(osm.FeatureID) int64
}

var elemKinds = map[string]elemAPI{
	"node": {
		object:   func(r int64, v int) osm.ObjectID { return osm.NodeID(r).ObjectID(v) },
		element:  func(r int64, v int) osm.ElementID { return osm.NodeID(r).ElementID(v) },
		feature:  func(r int64) osm.FeatureID { return osm.NodeID(r).FeatureID() },
		value:    func(r int64, v int) osm.Element { return &osm.Node{ID: osm.NodeID(r), Version: v} },
		typ:      osm.TypeNode,
		typedEID: func(id osm.ElementID) int64 { return int64(id.NodeID()) },
		typedFID: func(id osm.FeatureID) int64 { return int64(id.NodeID()) },
	},
	"way": {
		object:   func(r int64, v int) osm.ObjectID { return osm.WayID(r).ObjectID(v) },
		element:  func(r int64, v int) osm.ElementID { return osm.WayID(r).ElementID(v) },
		feature:  func(r int64) osm.FeatureID { return osm.WayID(r).FeatureID() },
		value:    func(r int64, v int) osm.Element { return &osm.Way{ID: osm.WayID(r), Version: v} },
		typ:      osm.TypeWay,
		typedEID: func(id osm.ElementID) int64 { return int64(id.WayID()) },
		typedFID: func(id osm.FeatureID) int64 { return int64(id.WayID()) },
	},
	"relation": {
		object:   func(r int64, v int) osm.ObjectID { return osm.RelationID(r).ObjectID(v) },
		element:  func(r int64, v int) osm.ElementID { return osm.RelationID(r).ElementID(v) },
		feature:  func(r int64) osm.FeatureID { return osm.RelationID(r).FeatureID() },
		value:    func(r int64, v int) osm.Element { return &osm.Relation{ID: osm.RelationID(r), Version: v} },
		typ:      osm.TypeRelation,
		typedEID: func(id osm.ElementID) int64 { return int64(id.RelationID()) },
		typedFID: func(id osm.FeatureID) int64 { return int64(id.RelationID()) },
	},
}

var kindOrder = []string{"node", "way", "relation"}

// object ids of the kinds that have no element id
func plainObject(kind string, ref int64) (byID osm.ObjectID, byValue osm.ObjectID) {
	switch kind {
	case "changeset":
		return osm.ChangesetID(ref).ObjectID(), (&osm.Changeset{ID: osm.ChangesetID(ref)}).ObjectID()
	case "note":
		return osm.NoteID(ref).ObjectID(), (&osm.Note{ID: osm.NoteID(ref)}).ObjectID()
	case "user":
		return osm.UserID(ref).ObjectID(), (&osm.User{ID: osm.UserID(ref)}).ObjectID()
	case "bounds":
		var nilBounds *osm.Bounds
		return nilBounds.ObjectID(), (&osm.Bounds{MinLat: 1, MaxLat: 2, MinLon: 3, MaxLon: 4}).ObjectID()
	}
	vio.Must(fmt.Errorf("unknown kind %q", kind), "case")
	return 0, 0
}

func decObj(id osm.ObjectID) DecObs {
	d := DecObs{Of: "obj", Ref: limbs(id.Ref()), Ver: id.Version()}
	if try(func() { d.Type = string(id.Type()) }) == "panic" {
		d.Type = "panic"
	}
	return d
}

func decElem(id osm.ElementID) DecObs {
	d := DecObs{Of: "elem", Ref: limbs(id.Ref()), Ver: id.Version()}
	if try(func() { d.Type = string(id.Type()) }) == "panic" {
		d.Type = "panic"
	}
	return d
}

func decFeat(id osm.FeatureID) DecObs {
	return DecObs{Of: "feat", Type: string(id.Type()), Ref: limbs(id.Ref())}
}

func stringOf(f func() string) string {
	s := "<panic>"
	try(func() { s = f() })
	return s
}

// ---- case families ------------------------------------------------------------------------------

func runVal(c Case) ValGot {
	t := Triple{Kind: c.Kind, R: c.R, V: c.V}
	ref, v := t.ref(), t.V
	g := ValGot{IDs: []IDObs{}, Dec: []DecObs{}, Typed: []TypedObs{}, Text: []TextObs{}}
	addID := func(of, how string, id int64) { g.IDs = append(g.IDs, IDObs{Of: of, How: how, ID: limbs(id)}) }

	api, isElem := elemKinds[c.Kind]
	if !isElem {
		a, b := plainObject(c.Kind, ref)
		addID("obj", "ID.ObjectID", int64(a))
		addID("obj", "value.ObjectID", int64(b))
		g.Dec = append(g.Dec, decObj(a))
		s := stringOf(a.String)
		g.Text = append(g.Text, textObs("obj", s, parseObj(s)))
		return g
	}

	oid, eid, fid := api.object(ref, v), api.element(ref, v), api.feature(ref)
	val := api.value(ref, v)
	addID("obj", "ID.ObjectID(v)", int64(oid))
	addID("obj", "value.ObjectID", int64(val.ObjectID()))
	addID("obj", "FeatureID.ObjectID(v)", int64(fid.ObjectID(v)))
	addID("obj", "ElementID.ObjectID", int64(eid.ObjectID()))
	addID("obj", "Objects.ObjectIDs", int64(osm.Objects{val}.ObjectIDs()[0]))
	addID("elem", "ID.ElementID(v)", int64(eid))
	addID("elem", "value.ElementID", int64(val.ElementID()))
	addID("elem", "FeatureID.ElementID(v)", int64(fid.ElementID(v)))
	addID("elem", "Elements.ElementIDs", int64(osm.Elements{val}.ElementIDs()[0]))
	addID("elem", "Member.ElementID", int64(osm.Member{Type: api.typ, Ref: ref, Version: v}.ElementID()))
	addID("feat", "ID.FeatureID", int64(fid))
	addID("feat", "value.FeatureID", int64(val.FeatureID()))
	addID("feat", "ElementID.FeatureID", int64(eid.FeatureID()))
	addID("feat", "Elements.FeatureIDs", int64(osm.Elements{val}.FeatureIDs()[0]))
	addID("feat", "Member.FeatureID", int64(osm.Member{Type: api.typ, Ref: ref, Version: v}.FeatureID()))
	if tf, err := api.typ.FeatureID(ref); err == nil {
		addID("feat", "Type.FeatureID", int64(tf))
	} else {
		addID("feat", "Type.FeatureID:error", 0)
	}
	if c.Kind == "node" {
		wn := osm.WayNode{ID: osm.NodeID(ref), Version: v}
		addID("elem", "WayNode.ElementID", int64(wn.ElementID()))
		addID("feat", "WayNode.FeatureID", int64(wn.FeatureID()))
	}

	g.Dec = append(g.Dec, decObj(oid), decElem(eid), decFeat(fid))

	for _, m := range kindOrder {
		m := m
		te := TypedObs{Of: "elem", M: m}
		te.Out = try(func() { te.Ref = limbs(elemKinds[m].typedEID(eid)) })
		tf := TypedObs{Of: "feat", M: m}
		tf.Out = try(func() { tf.Ref = limbs(elemKinds[m].typedFID(fid)) })
		g.Typed = append(g.Typed, te, tf)
	}

	so, se, sf := stringOf(oid.String), stringOf(eid.String), stringOf(fid.String)
	g.Text = append(g.Text, textObs("obj", so, parseObj(so)), textObs("elem", se, parseElem(se)), textObs("feat", sf, parseFeat(sf)))
	return g
}

func objectOf(t Triple) int64 {
	if api, ok := elemKinds[t.Kind]; ok {
		return int64(api.object(t.ref(), t.V))
	}
	a, _ := plainObject(t.Kind, t.ref())
	return int64(a)
}

func cmp(of string, a, b int64) CmpObs { return CmpObs{Of: of, Lt: a < b, Eq: a == b, Gt: a > b} }

func runPair(c Case) PairGot {
	g := PairGot{Cmp: []CmpObs{cmp("obj", objectOf(*c.A), objectOf(*c.B))}}
	aa, aok := elemKinds[c.A.Kind]
	ba, bok := elemKinds[c.B.Kind]
	if aok && bok {
		g.Cmp = append(g.Cmp,
			cmp("elem", int64(aa.element(c.A.ref(), c.A.V)), int64(ba.element(c.B.ref(), c.B.V))),
			cmp("feat", int64(aa.feature(c.A.ref())), int64(ba.feature(c.B.ref()))))
	}
	return g
}

func kindOfElement(e osm.Element) (string, int64, int) {
	switch x := e.(type) {
	case *osm.Node:
		return "node", int64(x.ID), x.Version
	case *osm.Way:
		return "way", int64(x.ID), x.Version
	case *osm.Relation:
		return "relation", int64(x.ID), x.Version
	}
	return "?", 0, 0
}

func runSort(c Case) SortGot {
	var es osm.Elements
	o := &osm.OSM{}
	for _, it := range c.Items {
		e := elemKinds[it.Kind].value(it.ref(), it.V)
		es = append(es, e)
		o.Append(e)
	}
	eids := es.ElementIDs() // input order
	fids := es.FeatureIDs()
	oeids := o.ElementIDs()
	es.Sort()
	eids.Sort()
	fids.Sort()
	oeids.Sort()
	g := SortGot{Elements: []ElemObs{}, EIDs: []SortedID{}, FIDs: []SortedID{}, OsmEIDs: []SortedID{}}
	sorted := func(d DecObs, id int64) SortedID {
		return SortedID{Dec: Dec{Type: d.Type, Ref: d.Ref, Ver: d.Ver}, ID: limbs(id)}
	}
	for _, e := range es {
		k, id, v := kindOfElement(e)
		g.Elements = append(g.Elements, ElemObs{Kind: k, Ref: limbs(id), V: v})
	}
	for _, id := range eids {
		g.EIDs = append(g.EIDs, sorted(decElem(id), int64(id)))
	}
	for _, id := range fids {
		g.FIDs = append(g.FIDs, sorted(decFeat(id), int64(id)))
	}
	for _, id := range oeids {
		g.OsmEIDs = append(g.OsmEIDs, sorted(decElem(id), int64(id)))
	}
	return g
}

// ---- bigsort: a digit-vector pattern expanded to a large list ------------------------------------

type BigGot struct {
	N        int     `json:"n"`
	Elements [][]int `json:"elements"` // Elements.Sort
	EIDs     [][]int `json:"eids"`     // ElementIDs.Sort
	FIDs     [][]int `json:"fids"`     // FeatureIDs.Sort
	ByIDVer  [][]int `json:"byidver"`  // Nodes/Ways/Relations.SortByIDVersion when the list has one kind only, else empty
}

// digits of (kind name, ref, version): index of the name in kinds (0 if absent), 5 ref bytes, 2 version bytes
func digitsOf(kinds []string, kind string, ref int64, ver int) []int {
	d := make([]int, 8)
	for i, k := range kinds {
		if k == kind {
			d[0] = i + 1
		}
	}
	for i := 0; i < 5; i++ {
		d[1+i] = int(uint64(ref) >> uint(8*(4-i)) & 0xFF)
	}
	if uint64(ref)>>40 != 0 { // does not fit 5 bytes: make it visible
		d[1] = -1
	}
	d[6], d[7] = ver>>8&0xFF, ver&0xFF
	if ver>>16 != 0 {
		d[6] = -1
	}
	return d
}

func runBig(c Case) BigGot {
	if len(c.Dom) != 8 || len(c.First) != 8 || len(c.Last) != 8 {
		vio.Must(fmt.Errorf("bigsort case needs 8 positions"), "case")
	}
	// expansion: first, the product of dom (odometer, last position fastest), last
	vecs := [][]int{c.First}
	idx := make([]int, 8)
	for {
		v := make([]int, 8)
		for j := range v {
			v[j] = c.Dom[j][idx[j]]
		}
		vecs = append(vecs, v)
		j := 7
		for ; j >= 0; j-- {
			idx[j]++
			if idx[j] < len(c.Dom[j]) {
				break
			}
			idx[j] = 0
		}
		if j < 0 {
			break
		}
	}
	vecs = append(vecs, c.Last)
	switch c.Order {
	case "desc":
		for i, j := 0, len(vecs)-1; i < j; i, j = i+1, j-1 {
			vecs[i], vecs[j] = vecs[j], vecs[i]
		}
	case "shuffle":
		r := rand.New(rand.NewSource(c.Seed))
		r.Shuffle(len(vecs), func(i, j int) { vecs[i], vecs[j] = vecs[j], vecs[i] })
	}

	var es osm.Elements
	var nodes osm.Nodes
	var ways osm.Ways
	var rels osm.Relations
	oneKind := true
	for _, v := range vecs {
		kind := c.Kinds[v[0]-1]
		var ref int64
		for i := 0; i < 5; i++ {
			ref = ref<<8 | int64(v[1+i])
		}
		ver := v[6]<<8 | v[7]
		e := elemKinds[kind].value(ref, ver)
		es = append(es, e)
		if v[0] != vecs[0][0] {
			oneKind = false
		}
		switch x := e.(type) {
		case *osm.Node:
			nodes = append(nodes, x)
		case *osm.Way:
			ways = append(ways, x)
		case *osm.Relation:
			rels = append(rels, x)
		}
	}
	eids, fids := es.ElementIDs(), es.FeatureIDs()
	es.Sort()
	eids.Sort()
	fids.Sort()
	g := BigGot{N: len(vecs), Elements: [][]int{}, EIDs: [][]int{}, FIDs: [][]int{}, ByIDVer: [][]int{}}
	for _, e := range es {
		k, id, v := kindOfElement(e)
		g.Elements = append(g.Elements, digitsOf(c.Kinds, k, id, v))
	}
	for _, id := range eids {
		d := decElem(id)
		g.EIDs = append(g.EIDs, digitsOf(c.Kinds, d.Type, int64(ValOf(d.Ref)), d.Ver))
	}
	for _, id := range fids {
		d := decFeat(id)
		g.FIDs = append(g.FIDs, digitsOf(c.Kinds, d.Type, int64(ValOf(d.Ref)), 0))
	}
	if oneKind {
		nodes.SortByIDVersion()
		ways.SortByIDVersion()
		rels.SortByIDVersion()
		for _, x := range nodes {
			g.ByIDVer = append(g.ByIDVer, digitsOf(c.Kinds, "node", int64(x.ID), x.Version))
		}
		for _, x := range ways {
			g.ByIDVer = append(g.ByIDVer, digitsOf(c.Kinds, "way", int64(x.ID), x.Version))
		}
		for _, x := range rels {
			g.ByIDVer = append(g.ByIDVer, digitsOf(c.Kinds, "relation", int64(x.ID), x.Version))
		}
	}
	return g
}

// ValOf is the inverse of limbs.
func ValOf(l Limbs) uint64 {
	return uint64(l[0])<<48 | uint64(l[1])<<32 | uint64(l[2])<<16 | uint64(l[3])
}

func runText(c Case) TextGot {
	s := strings.Join(c.Toks, "")
	return TextGot{S: s, Obj: parseObj(s), Elem: parseElem(s), Feat: parseFeat(s)}
}

func main() {
	vio.Map(vio.ReadLines(), 0, func(i int, line []byte) interface{} {
		var c Case
		vio.Must(json.Unmarshal(line, &c), "case")
		var got interface{}
		switch c.T {
		case "val":
			got = runVal(c)
		case "pair":
			got = runPair(c)
		case "sort":
			got = runSort(c)
		case "bigsort":
			got = runBig(c)
		case "text":
			got = runText(c)
		default:
			vio.Must(fmt.Errorf("unknown case family %q", c.T), "case")
		}
		return Rec{Case: line, Got: got}
	})
}
