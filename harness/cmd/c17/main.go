// c17: runs osmgeojson.Convert on abstract data sets from GeoJsonSpace.tla under every option set
// listed in the case and records the feature collections as generic abstract trees.
//
// Neutral renderer/recorder: symbol maps only (abstract id <-> concrete id, grid point <-> lon/lat,
// abstract meta value <-> concrete value, option name <-> option function).  No rule about which
// element yields which feature, no expected value, no comparison: the TLA+ Judge does all of that.
//
// Per option set the record holds
//
//	feats : the features of the first conversion, read back from the marshalled GeoJSON
//	h     : digests of the marshalled GeoJSON of (1) the first conversion, (2) a conversion of a
//	        second, independently rendered equal input, (3) a second conversion of the first input
//	in    : digests of a deep dump of the first input before, after the first and after the second conversion
package main

import (
	"bytes"
	"crypto/sha256"
	"encoding/hex"
	"encoding/json"
	"flag"
	"fmt"
	"hash/crc32"
	"reflect"
	"sort"
	"strconv"
	"strings"
	"time"

	"github.com/paulmach/orb"
	"github.com/paulmach/osm"
	"github.com/paulmach/osm/osmgeojson"
	"verifharness/internal/vio"
)

// ---------------------------------------------------------------- abstract case

type Meta struct {
	Timestamp int `json:"timestamp"`
	Version   int `json:"version"`
	Changeset int `json:"changeset"`
	User      int `json:"user"`
	UID       int `json:"uid"`
}

type Node struct {
	ID   int         `json:"id"`
	XY   [2]int      `json:"xy"`
	Tags [][2]string `json:"tags"`
	Meta Meta        `json:"meta"`
}

type Way struct {
	ID   int         `json:"id"`
	Refs [][3]int    `json:"refs"`
	Tags [][2]string `json:"tags"`
	Meta Meta        `json:"meta"`
}

type Member struct {
	T    string `json:"t"`
	Ref  int    `json:"ref"`
	Role string `json:"role"`
}

type Rel struct {
	ID      int         `json:"id"`
	Tags    [][2]string `json:"tags"`
	Members []Member    `json:"members"`
	Meta    Meta        `json:"meta"`
}

type Case struct {
	IDs   map[string]string `json:"ids"` // element type -> id class
	Nodes []Node            `json:"nodes"`
	Ways  []Way             `json:"ways"`
	Rels  []Rel             `json:"rels"`
	Opts  [][]string        `json:"opts"`
}

// ---------------------------------------------------------------- symbol maps (magnitude profiles)

type profile struct {
	ids           map[string]string // element type -> id class (from the case)
	sx, sy        float64           // grid -> degrees (same sign: orientation preserving)
	tbase         int64             // unix seconds of abstract time 0
	cbase, ubase  int64
	explicitFalse bool // pass Option(false) for the options that are not in the set
}

// id classes: abstract id k (1, 2, ...) of an element type <-> concrete id
var idClasses = map[string]struct {
	to   func(k int64) int64
	from func(v int64) int64
}{
	"small":  {func(k int64) int64 { return k }, func(v int64) int64 { return v }},
	"i31":    {func(k int64) int64 { return 1<<31 - 2 + k }, func(v int64) int64 { return v - (1<<31 - 2) }},         // 2^31-1, 2^31, ...
	"i32":    {func(k int64) int64 { return 1<<32 - 2 + k }, func(v int64) int64 { return v - (1<<32 - 2) }},         // 2^32-1, 2^32, ...
	"top40":  {func(k int64) int64 { return 1<<40 - k }, func(v int64) int64 { return 1<<40 - v }},                   // 2^40-1, 2^40-2, ...
	"neg":    {func(k int64) int64 { return -k }, func(v int64) int64 { return -v }},                                 // -1, -2, ...
	"at40":   {func(k int64) int64 { return 1<<40 + k - 1 }, func(v int64) int64 { return v - (1<<40 - 1) }},         // 2^40, 2^40+1, ...
	"over40": {func(k int64) int64 { return 1<<40 + 7 + k - 1 }, func(v int64) int64 { return v - (1<<40 + 7 - 1) }}, // 2^40+7, ...
}

var scales = [][2]float64{{1, 1}, {0.5, 0.25}, {-8, -4}, {16, 8}, {-0.125, -0.0625}}
var tbases = []int64{86400, 1347408000, 2208988800}

func profileFor(seed int64, line []byte, ids map[string]string) profile {
	h := int64(crc32.ChecksumIEEE(line)) + seed*7919
	if h < 0 {
		h = -h
	}
	for _, t := range []string{"node", "way", "relation"} {
		if _, ok := idClasses[ids[t]]; !ok {
			vio.Must(fmt.Errorf("unknown id class %q for %s", ids[t], t), "case")
		}
	}
	sc := scales[(h/3)%int64(len(scales))]
	return profile{
		ids:           ids,
		sx:            sc[0],
		sy:            sc[1],
		tbase:         tbases[(h/15)%int64(len(tbases))],
		cbase:         []int64{0, 1 << 32}[(h/45)%2],
		ubase:         []int64{0, 1 << 20}[(h/90)%2],
		explicitFalse: (h/180)%2 == 1,
	}
}

// id of the k-th element of type t; an unknown type (never produced by the specs) keeps the number
func (p profile) id(t string, k int) int64 {
	c, ok := idClasses[p.ids[t]]
	if !ok {
		return int64(k)
	}
	return c.to(int64(k))
}

func (p profile) tags(t [][2]string) osm.Tags {
	var out osm.Tags
	for _, kv := range t {
		out = append(out, osm.Tag{Key: kv[0], Value: kv[1]})
	}
	return out
}

func (p profile) ts(k int) time.Time {
	if k == 0 {
		return time.Time{}
	}
	return time.Unix(p.tbase+int64(k)*3600, 0).UTC()
}

func (p profile) cs(k int) osm.ChangesetID {
	if k == 0 {
		return 0
	}
	return osm.ChangesetID(p.cbase + int64(k))
}

func (p profile) uid(k int) osm.UserID {
	if k == 0 {
		return 0
	}
	return osm.UserID(p.ubase + int64(k))
}

func user(k int) string {
	if k == 0 {
		return ""
	}
	return "user" + strconv.Itoa(k)
}

func (p profile) render(c *Case) *osm.OSM {
	o := &osm.OSM{}
	for _, n := range c.Nodes {
		o.Nodes = append(o.Nodes, &osm.Node{
			ID: osm.NodeID(p.id("node", n.ID)), Lon: float64(n.XY[0]) * p.sx, Lat: float64(n.XY[1]) * p.sy,
			Tags: p.tags(n.Tags), Timestamp: p.ts(n.Meta.Timestamp), Version: n.Meta.Version,
			ChangesetID: p.cs(n.Meta.Changeset), User: user(n.Meta.User), UserID: p.uid(n.Meta.UID), Visible: true,
		})
	}
	for _, w := range c.Ways {
		ow := &osm.Way{
			ID: osm.WayID(p.id("way", w.ID)), Tags: p.tags(w.Tags), Timestamp: p.ts(w.Meta.Timestamp),
			Version: w.Meta.Version, ChangesetID: p.cs(w.Meta.Changeset), User: user(w.Meta.User), UserID: p.uid(w.Meta.UID), Visible: true,
		}
		for _, r := range w.Refs {
			ow.Nodes = append(ow.Nodes, osm.WayNode{ID: osm.NodeID(p.id("node", r[0])), Lon: float64(r[1]) * p.sx, Lat: float64(r[2]) * p.sy})
		}
		o.Ways = append(o.Ways, ow)
	}
	for _, r := range c.Rels {
		or := &osm.Relation{
			ID: osm.RelationID(p.id("relation", r.ID)), Tags: p.tags(r.Tags), Timestamp: p.ts(r.Meta.Timestamp),
			Version: r.Meta.Version, ChangesetID: p.cs(r.Meta.Changeset), User: user(r.Meta.User), UserID: p.uid(r.Meta.UID), Visible: true,
		}
		for _, m := range r.Members {
			or.Members = append(or.Members, osm.Member{Type: osm.Type(m.T), Ref: p.id(m.T, m.Ref), Role: m.Role})
		}
		o.Relations = append(o.Relations, or)
	}
	return o
}

var optionFuncs = map[string]func(bool) osmgeojson.Option{
	"NoID":   osmgeojson.NoID,
	"NoMeta": osmgeojson.NoMeta,
	"NoRM":   osmgeojson.NoRelationMembership,
	"IIP":    osmgeojson.IncludeInvalidPolygons,
}
var optionOrder = []string{"NoID", "NoMeta", "NoRM", "IIP"}

func (p profile) options(names []string) []osmgeojson.Option {
	in := map[string]bool{}
	for _, n := range names {
		if optionFuncs[n] == nil {
			vio.Must(fmt.Errorf("unknown option %q", n), "case")
		}
		in[n] = true
	}
	var out []osmgeojson.Option
	for _, n := range optionOrder {
		if in[n] {
			out = append(out, optionFuncs[n](true))
		} else if p.explicitFalse {
			out = append(out, optionFuncs[n](false))
		}
	}
	return out
}

// ---------------------------------------------------------------- back to symbols

func small(v int64) int {
	if v < -99 || v > 99 {
		return -1
	}
	return int(v)
}

func (p profile) unID(t string, v interface{}) int {
	n, ok := v.(json.Number)
	c, known := idClasses[p.ids[t]]
	if !ok || !known {
		return -1
	}
	i, err := n.Int64()
	if err != nil {
		return -1
	}
	if k := small(c.from(i)); k >= 1 {
		return k
	}
	return -1
}

func (p profile) unFID(v interface{}) string {
	s, ok := v.(string)
	if !ok {
		return ""
	}
	parts := strings.SplitN(s, "/", 2)
	if len(parts) == 2 {
		if i, err := strconv.ParseInt(parts[1], 10, 64); err == nil {
			if c, known := idClasses[p.ids[parts[0]]]; known {
				if k := small(c.from(i)); k >= 1 {
					return parts[0] + "/" + strconv.Itoa(k)
				}
			}
		}
	}
	return "?" // a feature id that is not "<type>/<id of an id class>"
}

func unGrid(v interface{}, s float64) int {
	n, ok := v.(json.Number)
	if !ok {
		return -999
	}
	f, err := n.Float64()
	if err != nil {
		return -999
	}
	g := f / s
	if g != float64(int(g)) || g < -50 || g > 50 {
		return -999
	}
	return int(g)
}

// coordinates of any nesting depth; a position is an array starting with a number; null -> []
func (p profile) unCoords(v interface{}) interface{} {
	a, ok := v.([]interface{})
	if !ok || a == nil {
		return []interface{}{}
	}
	if len(a) >= 2 {
		if _, isNum := a[0].(json.Number); isNum {
			return []int{unGrid(a[0], p.sx), unGrid(a[1], p.sy)}
		}
	}
	out := make([]interface{}, 0, len(a))
	for _, x := range a {
		out = append(out, p.unCoords(x))
	}
	return out
}

func unTags(v interface{}) ([][2]string, bool) {
	m, ok := v.(map[string]interface{})
	out := [][2]string{}
	if !ok {
		return out, false
	}
	for k, x := range m {
		s, _ := x.(string)
		out = append(out, [2]string{k, s})
	}
	sort.Slice(out, func(i, j int) bool { return out[i][0] < out[j][0] })
	return out, true
}

func num(v interface{}) (int64, bool) {
	n, ok := v.(json.Number)
	if !ok {
		return 0, false
	}
	i, err := n.Int64()
	return i, err == nil
}

type RelSummary struct {
	Keys []string    `json:"keys"` // keys present in the marshalled entry, sorted
	ID   int         `json:"id"`
	Role string      `json:"role"`
	Tags [][2]string `json:"tags"`
}

type Feat struct {
	FID     string       `json:"fid"`
	T       string       `json:"t"`
	ID      int          `json:"id"`
	G       string       `json:"g"`
	C       interface{}  `json:"c"`
	HasTags bool         `json:"hastags"`
	Tags    [][2]string  `json:"tags"`
	HasMeta bool         `json:"hasmeta"`
	Meta    Meta         `json:"meta"`
	HasRels bool         `json:"hasrels"`
	Rels    []RelSummary `json:"rels"`
	Tainted bool         `json:"tainted"`
	XKeys   []string     `json:"xkeys"`
}

func (p profile) unMeta(v interface{}, xkeys *[]string) (Meta, bool) {
	var m Meta
	mm, ok := v.(map[string]interface{})
	if !ok {
		return m, false
	}
	for k, x := range mm {
		switch k {
		case "timestamp":
			m.Timestamp = -1
			if s, ok := x.(string); ok {
				if t, err := time.Parse(time.RFC3339Nano, s); err == nil && (t.Unix()-p.tbase)%3600 == 0 && t.Nanosecond() == 0 {
					m.Timestamp = small((t.Unix() - p.tbase) / 3600)
				}
			}
		case "version":
			m.Version = -1
			if i, ok := num(x); ok {
				m.Version = small(i)
			}
		case "changeset":
			m.Changeset = -1
			if i, ok := num(x); ok {
				m.Changeset = small(i - p.cbase)
			}
		case "uid":
			m.UID = -1
			if i, ok := num(x); ok {
				m.UID = small(i - p.ubase)
			}
		case "user":
			m.User = -1
			if s, ok := x.(string); ok && strings.HasPrefix(s, "user") {
				if i, err := strconv.Atoi(s[4:]); err == nil {
					m.User = small(int64(i))
				}
			}
		default:
			*xkeys = append(*xkeys, "meta."+k)
		}
	}
	return m, true
}

func (p profile) abstract(gj []byte) []Feat {
	dec := json.NewDecoder(bytes.NewReader(gj))
	dec.UseNumber()
	var fc struct {
		Features []map[string]interface{} `json:"features"`
	}
	vio.Must(dec.Decode(&fc), "decode own geojson output")
	out := []Feat{}
	for _, raw := range fc.Features {
		f := Feat{FID: p.unFID(raw["id"]), ID: -1, C: []interface{}{}, Tags: [][2]string{}, Rels: []RelSummary{}, XKeys: []string{}}
		if g, ok := raw["geometry"].(map[string]interface{}); ok {
			f.G, _ = g["type"].(string)
			f.C = p.unCoords(g["coordinates"])
		}
		props, _ := raw["properties"].(map[string]interface{})
		for k, v := range props {
			switch k {
			case "type":
				f.T, _ = v.(string)
			case "id":
			case "tags":
				f.Tags, f.HasTags = unTags(v)
			case "meta":
				f.Meta, f.HasMeta = p.unMeta(v, &f.XKeys)
			case "relations":
				if arr, ok := v.([]interface{}); ok {
					f.HasRels = true
					for _, x := range arr {
						rs := RelSummary{ID: -1, Tags: [][2]string{}, Keys: []string{}}
						if m, ok := x.(map[string]interface{}); ok {
							for k := range m {
								rs.Keys = append(rs.Keys, k)
							}
							sort.Strings(rs.Keys)
							rs.ID = p.unID("relation", m["id"])
							rs.Role, _ = m["role"].(string)
							rs.Tags, _ = unTags(m["tags"])
						}
						f.Rels = append(f.Rels, rs)
					}
				}
			case "tainted":
				f.Tainted, _ = v.(bool)
			default:
				f.XKeys = append(f.XKeys, k)
			}
		}
		f.ID = p.unID(f.T, props["id"])
		sort.Strings(f.XKeys)
		out = append(out, f)
	}
	return out
}

// ---------------------------------------------------------------- deep dump (for the input digests)

func dump(w *bytes.Buffer, v reflect.Value) {
	switch v.Kind() {
	case reflect.Ptr, reflect.Interface:
		if v.IsNil() {
			w.WriteString("nil")
			return
		}
		w.WriteString("&")
		dump(w, v.Elem())
	case reflect.Struct:
		if t, ok := v.Interface().(time.Time); ok {
			fmt.Fprintf(w, "T(%d,%d)", t.Unix(), t.Nanosecond())
			return
		}
		w.WriteString(v.Type().Name() + "{")
		for i := 0; i < v.NumField(); i++ {
			if v.Type().Field(i).PkgPath != "" {
				continue
			}
			w.WriteString(v.Type().Field(i).Name + ":")
			dump(w, v.Field(i))
			w.WriteString(",")
		}
		w.WriteString("}")
	case reflect.Slice, reflect.Array:
		if v.Kind() == reflect.Slice && v.IsNil() {
			w.WriteString("nil[]")
			return
		}
		fmt.Fprintf(w, "[%d:", v.Len())
		for i := 0; i < v.Len(); i++ {
			dump(w, v.Index(i))
			w.WriteString(",")
		}
		w.WriteString("]")
	case reflect.Map:
		keys := v.MapKeys()
		sort.Slice(keys, func(i, j int) bool { return fmt.Sprint(keys[i]) < fmt.Sprint(keys[j]) })
		w.WriteString("map{")
		for _, k := range keys {
			dump(w, k)
			w.WriteString("=>")
			dump(w, v.MapIndex(k))
			w.WriteString(",")
		}
		w.WriteString("}")
	default:
		fmt.Fprintf(w, "%#v", v.Interface())
	}
}

func digest(b []byte) string {
	s := sha256.Sum256(b)
	return hex.EncodeToString(s[:6])
}

func inputDigest(o *osm.OSM) string {
	var w bytes.Buffer
	dump(&w, reflect.ValueOf(o))
	return digest(w.Bytes())
}

// ---------------------------------------------------------------- run

type Run struct {
	O     []string `json:"o"`
	Err   string   `json:"err"`
	Feats []Feat   `json:"feats"`
	H     []string `json:"h"`
	In    []string `json:"in"`
}

type Got struct {
	Runs []Run `json:"runs"`
}

type Rec struct {
	Case json.RawMessage `json:"case"`
	Got  Got             `json:"got"`
}

func convert(o *osm.OSM, opts []osmgeojson.Option) (gj []byte, errs string) {
	defer func() {
		if r := recover(); r != nil {
			gj, errs = []byte(`{"features":[]}`), fmt.Sprintf("panic: %v", r)
		}
	}()
	fc, err := osmgeojson.Convert(o, opts...)
	if err != nil {
		return []byte(`{"features":[]}`), "error: " + err.Error()
	}
	b, err := json.Marshal(fc)
	if err != nil {
		return []byte(`{"features":[]}`), "marshal: " + err.Error()
	}
	return b, ""
}

var _ = orb.Point{}

func main() {
	seed := flag.Int64("seed", 1, "selects the magnitude profile together with the case text")
	flag.Parse()
	vio.Map(vio.ReadLines(), 0, func(i int, line []byte) interface{} {
		var c Case
		vio.Must(json.Unmarshal(line, &c), "case")
		p := profileFor(*seed, line, c.IDs)
		got := Got{Runs: []Run{}}
		for _, names := range c.Opts {
			if names == nil {
				names = []string{}
			}
			a := p.render(&c)
			in0 := inputDigest(a)
			j1, e1 := convert(a, p.options(names))
			in1 := inputDigest(a)
			j3, e3 := convert(a, p.options(names))
			in2 := inputDigest(a)
			b := p.render(&c)
			j2, e2 := convert(b, p.options(names))
			errs := e1
			if errs == "" {
				errs = e2
			}
			if errs == "" {
				errs = e3
			}
			got.Runs = append(got.Runs, Run{
				O: names, Err: errs, Feats: p.abstract(j1),
				H: []string{digest(j1), digest(j2), digest(j3)}, In: []string{in0, in1, in2},
			})
		}
		return Rec{Case: line, Got: got}
	})
}
