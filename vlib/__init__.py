"""Core plumbing for the /verif checks.

Every property check is a small Python driver (props/cXX.py) that chains
  TLC (model checking of the spec)  ->  TLC (case generation)  ->
  Go harness (real code from /repo) ->  TLC (judge / trace validation)
and turns the result into exit status, VIOLATION / KNOWN-FINDING lines and
evidence/<id>.json.  Nothing here contains property logic or expected values:
those live in the TLA+ modules under spec/.
"""
import json, os, re, shutil, subprocess, sys, tempfile, time, hashlib

ROOT = os.path.dirname(os.path.dirname(os.path.abspath(__file__)))
SPEC = os.path.join(ROOT, "spec")
HARNESS = os.path.join(ROOT, "harness")
BIN = os.path.join(HARNESS, "bin")
EVID = os.path.join(ROOT, "evidence")
REPLAYS = os.path.join(EVID, "replays")
REPO = os.path.realpath(os.environ.get("VERIF_REPO", "/repo"))
if REPO != "/repo":   # self-test run against a scratch tree: never touch the real evidence
    EVID = os.path.join("/tmp/verif-alt-evidence", hashlib.sha1(REPO.encode()).hexdigest()[:8])
    REPLAYS = os.path.join(EVID, "replays")
TLA_CP = "/opt/veriftools/tla/tla2tools.jar:/opt/veriftools/tla/CommunityModules-deps.jar"
NCPU = os.cpu_count() or 4


class Infra(Exception):
    """Infrastructure failure: exit 2, never a violation."""


def goenv():
    e = dict(os.environ)
    e.update(GOFLAGS="-mod=mod", GOPROXY="off", GOSUMDB="off", GOTOOLCHAIN="local")
    return e


def log(*a):
    print(*a, flush=True)


# --------------------------------------------------------------------------
# Go harness
# --------------------------------------------------------------------------
def _modfile():
    """go.mod/go.sum used for the build.  Default: harness/go.mod (replace => /repo).  With VERIF_REPO set to
    a scratch worktree (mutant self-tests, never /repo itself) an alternate modfile is generated so that
    concurrent runs against different trees do not interfere."""
    hp = os.path.join(HARNESS, "go.sum")
    have = open(hp).read().splitlines() if os.path.exists(hp) else []
    s = set(have)
    add = [l for l in open(os.path.join(REPO, "go.sum")).read().splitlines() if l and l not in s]
    if REPO == "/repo":
        if add:
            with open(hp, "w") as f:
                f.write("\n".join(have + add) + "\n")
        return None, BIN
    tag = hashlib.sha1(REPO.encode()).hexdigest()[:8]
    d = os.path.join(HARNESS, "bin", "alt-" + tag)
    os.makedirs(d, exist_ok=True)
    mod = open(os.path.join(HARNESS, "go.mod")).read().replace("=> /repo", "=> " + REPO)
    with open(os.path.join(d, "go.mod"), "w") as f:
        f.write(mod)
    with open(os.path.join(d, "go.sum"), "w") as f:
        f.write("\n".join(have + add) + "\n")
    return os.path.join(d, "go.mod"), d


def go_build(name, race=False, tags="verif"):
    """Build harness/cmd/<name> against the current working tree of /repo (or $VERIF_REPO)."""
    os.makedirs(BIN, exist_ok=True)
    modfile, bindir = _modfile()
    out = os.path.join(bindir, name + ("-race" if race else ""))
    cmd = ["go", "build", "-tags", tags, "-o", out]
    if modfile:
        cmd.append("-modfile=" + modfile)
    if race:
        cmd.append("-race")
    cmd.append("./cmd/" + name)
    r = subprocess.run(cmd, cwd=HARNESS, env=goenv(), capture_output=True, text=True)
    if r.returncode != 0:
        raise Infra("go build %s failed:\n%s%s" % (name, r.stdout, r.stderr))
    return out


def run_go(binpath, args=(), stdin_lines=None, timeout=3600, env=None, check=True):
    """Run a harness binary; stdin/stdout are ndjson. Returns list of parsed records."""
    inp = None
    if stdin_lines is not None:
        inp = "".join(json.dumps(x, separators=(",", ":")) + "\n" for x in stdin_lines)
    e = goenv()
    if env:
        e.update(env)
    try:
        r = subprocess.run([binpath] + list(args), input=inp, capture_output=True, text=True, timeout=timeout, env=e)
    except subprocess.TimeoutExpired:
        raise Infra("harness %s timed out after %ss" % (binpath, timeout))
    if check and r.returncode != 0:
        raise Infra("harness %s exit %d:\n%s" % (binpath, r.returncode, r.stderr[-4000:]))
    recs = []
    for l in r.stdout.splitlines():
        if l.startswith("{"):
            recs.append(json.loads(l))
    return recs


# --------------------------------------------------------------------------
# TLC
# --------------------------------------------------------------------------
class TLCResult:
    def __init__(self):
        self.rc = None
        self.out = ""
        self.generated = 0
        self.distinct = 0
        self.prints = []      # parsed PrintT tuples (as raw text after <<)
        self.violation = None  # name of violated invariant/property, if any
        self.wall = 0.0

    def ok(self):
        return self.rc == 0


_unesc = re.compile(r'\\(.)')


def _tla_unescape(s):
    return _unesc.sub(lambda m: {"n": "\n", "t": "\t"}.get(m.group(1), m.group(1)), s)


def parse_print_json(out, tag):
    """PrintT(<<tag, ToJson(x)>>) lines -> list of parsed JSON values."""
    res = []
    pre = '<<"%s", "' % tag
    for l in out.splitlines():
        if l.startswith(pre) and l.endswith('">>'):
            res.append(json.loads(_tla_unescape(l[len(pre):-3])))
    return res


import threading
_copy_lock = threading.Lock()


class _Slots:
    """Machine-wide CPU budget for TLC processes (several checks may run side by side): a run with w workers
    holds w of NSLOTS lock files for its duration."""
    NSLOTS = max(8, NCPU + NCPU // 2)
    DIR = "/tmp/verif-slots"

    def __init__(self, want):
        self.want, self.held = max(1, min(want, self.NSLOTS)), []

    def __enter__(self):
        import fcntl
        os.makedirs(self.DIR, exist_ok=True)
        t0 = time.time()
        while True:
            for i in range(self.NSLOTS):
                if len(self.held) >= self.want:
                    break
                f = open(os.path.join(self.DIR, "slot%d" % i), "w")
                try:
                    fcntl.flock(f, fcntl.LOCK_EX | fcntl.LOCK_NB)
                    self.held.append(f)
                except OSError:
                    f.close()
            if len(self.held) >= self.want or (self.held and time.time() - t0 > 150):
                return self
            for f in self.held:
                f.close()
            self.held = []
            time.sleep(0.3 + 0.5 * (os.getpid() % 7) / 7.0)

    def __exit__(self, *a):
        for f in self.held:
            f.close()
        self.held = []


def tlc(module, cfg, scratch, env=None, workers=None, timeout=1800, args=(), heap="4g",
        files=None, deadlock=None):
    """Run TLC on spec/<module>.tla with spec/<cfg> inside a scratch copy of spec/.
    Returns TLCResult.  Raises Infra on timeout or a TLC/Java error that is not a
    property verdict (rc not in {0, 10, 11, 12, 13})."""
    wd = os.path.join(scratch, "spec")
    with _copy_lock:      # drivers call tlc() from several threads
        if not os.path.isdir(wd):
            tmp = wd + ".tmp%d" % time.time_ns()
            shutil.copytree(SPEC, tmp, ignore=shutil.ignore_patterns("states", ".tlacache"))
            os.rename(tmp, wd)
    if files:
        for k, v in files.items():
            with open(os.path.join(wd, k), "w") as f:
                f.write(v)
    meta = tempfile.mkdtemp(prefix="meta-", dir=scratch)
    e = dict(os.environ)
    e.pop("JAVA_TOOL_OPTIONS", None)
    if env:
        e.update({k: str(v) for k, v in env.items()})
    nw = workers or 1
    cmd = ["java", "-XX:+UseParallelGC", "-XX:ParallelGCThreads=%d" % max(1, min(4, nw)), "-XX:CICompilerCount=2",
           "-Xmx" + heap, "-Xss512m", "-cp", TLA_CP, "tlc2.TLC",
           "-metadir", meta, "-workers", str(workers or 1), "-config", cfg, "-noGenerateSpecTE"]
    if deadlock is False:
        cmd.append("-deadlock")
    cmd += list(args) + [module]
    try:
        with _Slots(nw):
            t0 = time.time()
            r = subprocess.run(cmd, cwd=wd, env=e, capture_output=True, text=True, timeout=timeout)
    except subprocess.TimeoutExpired:
        raise Infra("TLC %s/%s timed out after %ss" % (module, cfg, timeout))
    except NameError:
        raise
    finally:
        shutil.rmtree(meta, ignore_errors=True)
    res = TLCResult()
    res.rc, res.out, res.wall = r.returncode, r.stdout + r.stderr, time.time() - t0
    for m in re.finditer(r"(\d+) states generated, (\d+) distinct states found", res.out):
        res.generated, res.distinct = int(m.group(1)), int(m.group(2))
    m = re.search(r"Invariant (\S+) is violated", res.out) or re.search(r"Temporal properties were violated", res.out) \
        or re.search(r"Action property (\S+) is violated", res.out)
    if m:
        res.violation = m.group(1) if m.groups() else "temporal"
    if res.rc not in (0, 10, 11, 12, 13):
        raise Infra("TLC %s/%s failed rc=%s:\n%s" % (module, cfg, res.rc, res.out[-6000:]))
    return res


def tlc_model_check(ctx, module, cfg, expect_ok=True, **kw):
    """Design-level run: Model |= Judges.  A failure is a spec problem => Infra."""
    kw.setdefault("workers", min(NCPU, 8))
    r = tlc(module, cfg, ctx.scratch, **kw)
    ctx.states += r.distinct
    ctx.transitions += r.generated
    ctx.tlc_runs.append({"module": module, "cfg": cfg, "distinct": r.distinct, "generated": r.generated,
                         "wall_s": round(r.wall, 1), "rc": r.rc})
    if expect_ok and not r.ok():
        raise Infra("model check %s/%s did not pass (rc=%s, %s):\n%s" % (module, cfg, r.rc, r.violation, r.out[-5000:]))
    return r


def tlc_gen(ctx, module, cfg, env=None, timeout=1800, workers=None, count_states=True, **kw):
    """Case generation: the module writes ndjson to IOEnv.OUT (ndJsonSerialize) and/or prints
    PrintT(<<"CASE", ToJson(c)>>) lines.  Returns the list of abstract cases."""
    out = os.path.join(ctx.scratch, "gen-%s-%d.ndjson" % (module, time.time_ns() % 10**9))
    e = {"OUT": out}
    if env:
        e.update(env)
    r = tlc(module, cfg, ctx.scratch, env=e, timeout=timeout, workers=workers or 1, **kw)
    if r.rc != 0:
        raise Infra("generation %s/%s failed rc=%s (%s):\n%s" % (module, cfg, r.rc, r.violation, r.out[-5000:]))
    if count_states:
        ctx.states += r.distinct
        ctx.transitions += r.generated
    ctx.tlc_runs.append({"module": module, "cfg": cfg, "distinct": r.distinct, "generated": r.generated,
                         "wall_s": round(r.wall, 1), "rc": r.rc})
    cases = parse_print_json(r.out, "CASE")
    if os.path.exists(out):
        for l in open(out):
            l = l.strip()
            if l:
                cases.append(json.loads(l))
        os.remove(out)
    if not cases:
        raise Infra("generation %s/%s produced no cases:\n%s" % (module, cfg, r.out[-3000:]))
    return cases


def tlc_judge(ctx, module, cfg, records, env=None, shards=None, timeout=1800, recfile="rec.ndjson", files=None):
    """Evaluate a Judge module on recorded lines.  The module prints
    PrintT(<<"BAD", ToJson([i |-> i, why |-> ..., kf |-> ...])>>) for every failing line
    and PrintT(<<"JUDGED", n>>) at the end.  Records are sharded over parallel TLC
    processes.  Returns list of (index, why, kf)."""
    n = len(records)
    if n == 0:
        raise Infra("judge %s: no records" % module)
    shards = shards or max(1, min(NCPU // 2, n // 5000))
    per = (n + shards - 1) // shards
    procs = []
    import concurrent.futures as cf

    def one(k):
        lo, hi = k * per, min(n, (k + 1) * per)
        if lo >= hi:
            return []
        sc = os.path.join(ctx.scratch, "judge-%s-%d-%d" % (module, k, time.time_ns() % 10**9))
        os.makedirs(sc)
        p = os.path.join(sc, recfile)
        with open(p, "w") as f:
            for r in records[lo:hi]:
                f.write(json.dumps(r, separators=(",", ":")) + "\n")
        e = {"REC": p}
        if env:
            e.update(env)
        res = tlc(module, cfg, sc, env=e, workers=1, timeout=timeout, files=files)
        if res.rc != 0:
            raise Infra("judge %s failed rc=%s:\n%s" % (module, res.rc, res.out[-5000:]))
        judged = re.search(r'<<"JUDGED", (\d+)>>', res.out)
        if not judged or int(judged.group(1)) != hi - lo:
            raise Infra("judge %s: JUDGED count mismatch (%s vs %d):\n%s" % (module, judged and judged.group(1), hi - lo, res.out[-3000:]))
        bad = []
        for b in parse_print_json(res.out, "BAD"):
            bad.append((lo + int(b["i"]) - 1, b.get("why"), b.get("kf", [])))
        shutil.rmtree(sc, ignore_errors=True)
        return bad

    with cf.ThreadPoolExecutor(max_workers=shards) as ex:
        parts = list(ex.map(one, range(shards)))
    ctx.judged += n
    return [b for p in parts for b in p]


def judge_and_confirm(ctx, cases, recs, execute, judge, replay_extra=None, max_confirm=8):
    """Standard S->C verdict step.  judge(records) -> [(idx, why, kf)].  Failing cases are re-executed
    once from scratch (one batch) and judged again; only cases failing both times count.
    Known findings (kf predicate names evaluated by the TLA+ Judge) are separated out."""
    if len(recs) != len(cases):
        raise Infra("%s: %d cases but %d records" % (ctx.prop, len(cases), len(recs)))
    bad = judge(recs)
    if not bad:
        return []
    # known findings first: they need no confirmation run and produce no replay files
    unknown = []
    for i, why, kf in bad:
        k = ctx.known_match(kf)
        if k:
            ctx.known_hits[k["kf"]] = ctx.known_hits.get(k["kf"], 0) + 1
        else:
            unknown.append((i, why, kf))
    if not unknown:
        return []
    sel = unknown[:max_confirm]
    confirmed = []
    pending = list(sel)
    for attempt in range(4):          # a failure that depends on allocator / pool state may need more than one re-run
        if not pending:
            break
        again = execute([cases[i] for i, _, _ in pending])
        bad2 = {j for j, _, _ in judge(again)}
        still = []
        for j, (i, why, kf) in enumerate(pending):
            if j in bad2:
                rp = {"property": ctx.prop, "case": cases[i], "record": recs[i], "why": why, "kf": kf, "seed": ctx.seed}
                if replay_extra:
                    rp.update(replay_extra)
                ctx.report_bad(cases[i], why, kf, rp)
                confirmed.append(i)
            else:
                still.append((i, why, kf))
        pending = still
    if pending and len(cases) <= 60000:
        # state carried between cases inside one harness process (pools, caches) can matter: last attempt = the same batch again
        again = execute(cases)
        judged_again = judge(again)
        bad_all = {j for j, _, _ in judged_again}
        if pending and not (bad_all & {i for i, _, _ in pending}):
            # nondeterministic failure (different cases fail in each run of the batch): the same Judge clause failing again on
            # the same batch is the reproduction; report the failures of the second run
            whys = {json.dumps(w, sort_keys=True) for _, w, _ in pending}
            for j, w, kf in judged_again:
                if json.dumps(w, sort_keys=True) in whys and not ctx.known_match(kf) and len(confirmed) < 3:
                    rp = {"property": ctx.prop, "case": cases[j], "record": again[j], "why": w, "kf": kf, "seed": ctx.seed,
                          "note": "nondeterministic: fails on different cases of the batch in each run; same Judge clause both times"}
                    if replay_extra:
                        rp.update(replay_extra)
                    ctx.report_bad(cases[j], w, kf, rp)
                    confirmed.append(j)
            if confirmed:
                pending = []
        still = []
        for (i, why, kf) in pending:
            if i in bad_all:
                rp = {"property": ctx.prop, "case": cases[i], "record": recs[i], "why": why, "kf": kf, "seed": ctx.seed,
                      "note": "reproduces only when the whole batch is run in one process"}
                if replay_extra:
                    rp.update(replay_extra)
                ctx.report_bad(cases[i], why, kf, rp)
                confirmed.append(i)
            else:
                still.append((i, why, kf))
        pending = still
    for i, why, kf in pending:
        ctx.divergences += 1
        log("UNREPRODUCED %s case %d: failed once, passed on 4 re-runs and a re-run of the batch (not a verdict)" % (ctx.prop, i))
    ctx.extra["failing_cases_total"] = len(unknown)
    if unknown and not confirmed:
        raise Infra("%s: %d judge failures, none reproduced" % (ctx.prop, len(unknown)))
    return confirmed


# --------------------------------------------------------------------------
# Context, verdicts, evidence
# --------------------------------------------------------------------------
def load_known():
    p = os.path.join(ROOT, "known_findings.json")
    if not os.path.exists(p):
        return []
    return json.load(open(p))["findings"]


class Ctx:
    def __init__(self, prop, tier, seed, level="model_checking"):
        self.prop, self.tier, self.seed, self.level = prop, tier, seed, level
        self.t0 = time.time()
        self.scratch = tempfile.mkdtemp(prefix="verif-%s-" % prop, dir=os.environ.get("VERIF_SCRATCH", "/tmp"))
        self.states = 0
        self.transitions = 0
        self.tlc_runs = []
        self.judged = 0          # records judged by TLC
        self.evaluations = 0     # executions of real code
        self.traces = 0          # traces validated against impl
        self.distinct = set()
        self.samples = []
        self.violations = []     # (signature, replay path, text)
        self.known_hits = {}     # finding id -> count
        self.divergences = 0
        self.extra = {}
        self.assumptions = []
        self.rule = ""
        self.exhaustive = False
        self.checker_cmd = ""
        self.known = [k for k in load_known() if k["property"] == prop]

    def quick(self):
        return self.tier == "quick"

    def tick(self, name):
        """record the wall time of the stage that just ended"""
        now = time.time()
        self.extra.setdefault("stage_wall_s", {})[name] = round(now - getattr(self, "_tick", self.t0), 1)
        self._tick = now

    def cleanup(self):
        shutil.rmtree(self.scratch, ignore_errors=True)

    # ---- distinct / samples
    def note_case(self, key, nontrivial=True, sample=None):
        self.evaluations += 1
        if nontrivial:
            self.distinct.add(hashlib.sha1(json.dumps(key, sort_keys=True).encode()).hexdigest()[:16])
        if sample is not None and len(self.samples) < 5:
            self.samples.append(sample)

    # ---- verdicts
    def known_match(self, kfs):
        """kfs: list of known-finding predicate names that hold on a failing case."""
        for k in self.known:
            if k.get("status") == "known" and k["kf"] in (kfs or []):
                return k
        return None

    def report_bad(self, case, why, kfs, replay_obj):
        """A judge failure on real-code output (already re-confirmed by the caller)."""
        k = self.known_match(kfs)
        if k:
            self.known_hits[k["kf"]] = self.known_hits.get(k["kf"], 0) + 1
            return False
        os.makedirs(REPLAYS, exist_ok=True)
        h = hashlib.sha1(json.dumps(replay_obj, sort_keys=True).encode()).hexdigest()[:12]
        path = os.path.join(REPLAYS, "%s-%s.json" % (self.prop, h))
        with open(path, "w") as f:
            json.dump(replay_obj, f, indent=1, sort_keys=True)
        self.violations.append((why, path))
        return True

    def finish(self):
        """Print verdict lines, write evidence, return exit status."""
        for k in self.known:
            if k.get("status") == "known" and self.known_hits.get(k["kf"]):
                log("KNOWN-FINDING: property=%s %s (%s; %d cases this run)" % (self.prop, k["kf"], k["what"], self.known_hits[k["kf"]]))
        shown = set()
        for why, path in self.violations:
            if len(shown) < 20:
                log("VIOLATION property=%s replay=%s  # %s" % (self.prop, path, json.dumps(why)[:300]))
                shown.add(path)
        cov = {
            "states": self.states, "transitions": self.transitions,
            "traces_validated_against_impl": self.traces,
            "evaluations": self.evaluations, "distinct_nontrivial": len(self.distinct),
            "judged_by_tlc": self.judged,
            "rule": self.rule, "samples": self.samples[:5] or ["(none)"],
            "tlc_runs": self.tlc_runs, "divergences": self.divergences,
            "known_findings_hit": self.known_hits, "exhaustive": self.exhaustive,
            "checker_cmd": self.checker_cmd or "./check %s --tier %s" % (self.prop, self.tier),
        }
        cov.update(self.extra)
        ev = {"property_id": self.prop, "tier": self.tier, "seed": self.seed, "level": self.level,
              "coverage": cov, "assumptions": self.assumptions, "wall_s": round(time.time() - self.t0, 1),
              "violations": len(self.violations)}
        # checks beyond the listed properties (ids not of the form Cnn) keep their evidence apart from evidence/<property>.json
        evdir = EVID if self.prop.startswith("C") else os.path.join(EVID, "extra")
        os.makedirs(evdir, exist_ok=True)
        with open(os.path.join(evdir, self.prop + ".json"), "w") as f:
            json.dump(ev, f, indent=1)
        log("%s tier=%s seed=%d: states=%d evaluations=%d judged=%d traces=%d distinct=%d violations=%d known=%s wall=%.1fs" % (
            self.prop, self.tier, self.seed, self.states, self.evaluations, self.judged, self.traces, len(self.distinct),
            len(self.violations), self.known_hits, time.time() - self.t0))
        return 1 if self.violations else 0
