CONSTANT Wide = FALSE
SPECIFICATION TraceSpec
INVARIANTS TypeOK JudgeInv
CONSTRAINT HighWater
POSTCONDITION TraceAccepted
CHECK_DEADLOCK FALSE
