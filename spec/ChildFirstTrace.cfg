CONSTANTS
  N = 0
  VersionSets = {}
  ReqLists = {}
  BadSets = {}
  FlagSets = {}
SPECIFICATION TraceSpec
INVARIANTS EmittedOnce OnlyWithHistory ChildrenFirst AllRequestedEmitted StopEndsIteration NoLeak NoHang
CONSTRAINT HighWater
POSTCONDITION TraceAccepted
CHECK_DEADLOCK FALSE
