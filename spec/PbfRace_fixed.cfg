CONSTANTS
  Items = 3
  Fixed = TRUE
INIT Init
NEXT Next
INVARIANT NoConcurrentConflict
CHECK_DEADLOCK FALSE
