--------------------------- MODULE PbfOrderCore ---------------------------
(* The round-robin dispatch / collect core of the osmpbf pipeline (reader -> N  *)
(* decoders -> serializer) with block numbers as data, unbounded in the number  *)
(* of blocks.  Three uses:                                                       *)
(*  - PbfOrderInd.tla : its inductive invariant IndInv (which contains `ok`:     *)
(*    every emission so far was the next block of the file) is discharged by     *)
(*    Apalache, base and step, per (N, Cap): OrderInv for files of ANY length;   *)
(*  - PbfOrderRefine.tla : TLC checks that PbfPipeline.tla (the hook-level Model *)
(*    that recorded executions are validated against) refines this core under a  *)
(*    state mapping, so the unbounded argument is about the same design;         *)
(*  - it names the reason the order holds: decoder w only ever holds the blocks  *)
(*    congruent to w modulo N, oldest first (Pipe / First / Count below).        *)
EXTENDS Integers, Sequences

CONSTANTS
  \* @type: Int;
  N,      \* decoders
  \* @type: Int;
  Cap     \* capacity of each per-decoder queue (0 = unbuffered: rendezvous)

VARIABLES
  \* @type: Int;
  rnext,
  \* @type: Int -> Seq(Int);
  inq,
  \* @type: Int -> Int;
  wcur,
  \* @type: Int -> Seq(Int);
  outq,
  \* @type: Int;
  emitted,
  \* @type: Bool;
  ok

cvars == << rnext, inq, wcur, outq, emitted, ok >>

W == 0 .. (N - 1)
ri == (rnext - 1) % N      \* the reader's dispatch index and the serializer's collect index are functions of the counts
sj == emitted % N

Init ==
  /\ rnext = 1 /\ emitted = 0 /\ ok = TRUE
  /\ inq = [w \in W |-> << >>] /\ outq = [w \in W |-> << >>] /\ wcur = [w \in W |-> 0]

\* reader: block number rnext goes to decoder ri (buffered queue, or hand-off when unbuffered)
R_Send ==
  /\ Cap > 0 /\ Len(inq[ri]) < Cap
  /\ inq' = [inq EXCEPT ![ri] = Append(@, rnext)]
  /\ rnext' = rnext + 1
  /\ UNCHANGED << wcur, outq, emitted, ok >>
R_Hand ==
  /\ Cap = 0 /\ wcur[ri] = 0
  /\ wcur' = [wcur EXCEPT ![ri] = rnext]
  /\ rnext' = rnext + 1
  /\ UNCHANGED << inq, outq, emitted, ok >>
\* decoder w takes its next block / delivers the decoded block
W_Get(w) ==
  /\ wcur[w] = 0 /\ Len(inq[w]) > 0
  /\ wcur' = [wcur EXCEPT ![w] = Head(inq[w])] /\ inq' = [inq EXCEPT ![w] = Tail(@)]
  /\ UNCHANGED << rnext, outq, emitted, ok >>
W_Put(w) ==
  /\ Cap > 0 /\ wcur[w] # 0 /\ Len(outq[w]) < Cap
  /\ outq' = [outq EXCEPT ![w] = Append(@, wcur[w])] /\ wcur' = [wcur EXCEPT ![w] = 0]
  /\ UNCHANGED << rnext, inq, emitted, ok >>
\* serializer: receives from decoder sj only, then moves on
S_Take ==
  /\ Cap > 0 /\ Len(outq[sj]) > 0
  /\ ok' = (ok /\ Head(outq[sj]) = emitted + 1)
  /\ emitted' = emitted + 1
  /\ outq' = [outq EXCEPT ![sj] = Tail(@)]
  /\ UNCHANGED << rnext, inq, wcur >>
S_Hand ==
  /\ Cap = 0 /\ wcur[sj] # 0
  /\ ok' = (ok /\ wcur[sj] = emitted + 1)
  /\ emitted' = emitted + 1
  /\ wcur' = [wcur EXCEPT ![sj] = 0]
  /\ UNCHANGED << rnext, inq, outq >>

Next == R_Send \/ R_Hand \/ S_Take \/ S_Hand \/ \E w \in W : W_Get(w) \/ W_Put(w)
Spec == Init /\ [][Next]_cvars

(* ------------------------------ invariant ------------------------------ *)
\* what decoder w holds, oldest first
\* @type: (Int) => Seq(Int);
Pipe(w) == outq[w] \o (IF wcur[w] = 0 THEN << >> ELSE << wcur[w] >>) \o inq[w]
\* the oldest block not yet emitted that belongs to decoder w, and how many such blocks have been dispatched
First(w) == emitted + 1 + ((w - sj + N) % N)
Count(w) == IF rnext - 1 < First(w) THEN 0 ELSE ((rnext - 1 - First(w)) \div N) + 1

OrderInv == ok

IndInv ==
  /\ rnext >= 1 /\ emitted >= 0 /\ emitted < rnext
  /\ ok
  /\ DOMAIN inq = W /\ DOMAIN outq = W /\ DOMAIN wcur = W
  /\ \A w \in W :
       /\ Len(inq[w]) <= Cap /\ Len(outq[w]) <= Cap /\ wcur[w] >= 0
       /\ Len(Pipe(w)) = Count(w)
       /\ \A i \in 1 .. (2 * Cap + 1) : i <= Len(Pipe(w)) => Pipe(w)[i] = First(w) + (i - 1) * N

\* non-vacuity: an emission is reachable from Init (this "invariant" must be refuted within a few steps)
NothingEmitted == emitted = 0
=============================================================================
