CONSTANT Shapes <- S_One3
CONSTANT MaxPieces = 3
CONSTANT MaskMode = "basic"
CONSTANT Tasks = {}
CONSTANT Patterns = {"all"}
INIT Init
NEXT NextGen
CHECK_DEADLOCK FALSE
