\* every run of the algorithms terminates (no stuck state: deadlock checking is on, finished runs stutter explicitly)
CONSTANT Shapes <- S_Live
CONSTANT MaxPieces = 2
CONSTANT MaskMode = "basic"
CONSTANT Tasks = {"convert", "annotate"}
CONSTANT Patterns = {"of", "alt"}
SPECIFICATION FairSpec
PROPERTY Terminates
