---------------------------- MODULE OsmDocJudge ----------------------------
(* Judges for C03, C04, C05 evaluated by TLC on the lines recorded from the *)
(* real code (IOEnv.REC), selected by IOEnv.WHAT.  For every failing line   *)
(*   <<"BAD", ToJson([i, why |-> failing judges, kf |-> known findings])>>  *)
(* kf is non-empty only if the known-finding predicates that hold explain   *)
(* EVERY failing judge of that line.                                        *)
EXTENDS OsmDoc, IOUtils, Json

Lines == ndJsonDeserialize(IOEnv.REC)
What == IOEnv.WHAT
Crashed(g) == "crash" \in DOMAIN g

(* ------------------------------- C03 ------------------------------------ *)
\* decoding yields exactly what is written (whole document), ...
C03Whole(c, g) == g.werr = "" /\ g.whole = ExpectedWhole(c.doc)
\* ... the streaming scanner yields the objects in document order, ...
\* (the harness keeps every object the scanner hands out and reads them after the scan has ended; smut = an object
\* read differently at yield time and at the end, i.e. the scanner changed an object it had already yielded)
C03Stream(c, g) == g.serr = "" /\ ~g.smut /\ g.stream = ExpectedStream(c.doc)
\* ... and they are the same objects as the whole-document ones, per kind in order (recorded against recorded).
\* osmChange: per block kind, the stream cut at the document's block boundaries.
BlockStart(d, i) == LET RECURSIVE S(_) S(k) == IF k = 0 THEN 0 ELSE S(k - 1) + Len(d.blocks[k].items) IN S(i - 1)
StreamOfAction(d, stream, a) ==
  Cat([i \in 1 .. Len(d.blocks) |-> IF d.blocks[i].a = a THEN SubSeq(stream, BlockStart(d, i) + 1, BlockStart(d, i) + Len(d.blocks[i].items)) ELSE << >>])
C03Same(c, g) ==
  LET d == c.doc IN
  /\ Len(g.stream) = Len(DocItems(d))
  /\ CASE d.T = "OSM" -> \A kind \in ObjectKinds : StreamKind(g.stream, kind) = ValueKind("OSM", g.whole, kind)
       [] d.T = "Diff" -> \A kind \in ObjectKinds \ {"Bounds"} : StreamKind(g.stream, kind) = ValueKind("Diff", g.whole, kind)
       [] d.T = "Change" -> \A a \in {"Create", "Modify", "Delete"}, kind \in ObjectKinds \ {"Bounds"} :
                               StreamKind(StreamOfAction(d, g.stream, a), kind) = OptKind(g.whole[a], kind)
C03Fails(c, g) == IF Crashed(g) THEN {"crash"} ELSE
  (IF C03Whole(c, g) THEN {} ELSE {"whole"}) \cup (IF C03Stream(c, g) THEN {} ELSE {"stream"})
  \cup (IF g.werr = "" /\ g.serr = "" /\ ~C03Same(c, g) THEN {"stream-vs-whole"} ELSE {})

(* ------------------------------- C04 ------------------------------------ *)
\* the documented omission: a discussion without comments is not written
RECURSIVE Norm(_, _)
Norm(T, v) ==
  LET w == [g \in DOMAIN v |->
              LET r == RowOf(T, g) IN
              IF IsScalar(r) \/ r.mode = "none" THEN v[g]
              ELSE IF r.card = "one" THEN Norm(r.type, v[g])
              ELSE [i \in 1 .. Len(v[g]) |-> Norm(r.type, v[g][i])]]
  IN IF T = "Changeset" /\ w.Discussion # << >> /\ w.Discussion[1].Comments = << >> THEN [w EXCEPT !.Discussion = << >>] ELSE w
Want(c) == Norm(c.root, Fill(c.root, c.v))
\* an action's inlined element: Action.OSM is rebuilt from the one element, i.e. an OSM holding only that
C04Un(c, g) == g.merr = "" /\ g.uerr = "" /\ g.un # << >> /\ g.un[1] = Want(c)
C04Scan(c, g) == g.merr = "" /\ g.serr = "" /\ ~g.smut /\ \A kind \in ObjectKinds : StreamKind(g.scan, kind) = ValueKind(c.root, Want(c), kind)
C04Names(c, g) == g.tree # << >> /\ NamesOK(c.root, g.tree[1])

\* known finding #5: the top-level bounds of an OSM (also inside osmChange blocks and old/new) is written with the Go type
\* name as element name.  Everything else must be right: with the element renamed the names are the schema's, the
\* whole-document decoder returns the value minus exactly those bounds, the scanner (which lower-cases) sees everything.
RECURSIVE Renamed(_, _, _)
Renamed(t, from, to) == [t EXCEPT !.n = IF @ = from THEN to ELSE @, !.c = [i \in 1 .. Len(@) |-> Renamed(@[i], from, to)]]
DropOSMBounds(o) == IF o = << >> THEN o ELSE << [o[1] EXCEPT !.Bounds = << >>] >>
DropTopBounds(T, v) ==
  CASE T = "OSM" -> [v EXCEPT !.Bounds = << >>]
    [] T = "Change" -> [v EXCEPT !.Create = DropOSMBounds(@), !.Modify = DropOSMBounds(@), !.Delete = DropOSMBounds(@)]
    [] T = "Diff" -> [v EXCEPT !.Actions = [i \in 1 .. Len(@) |-> [@[i] EXCEPT !.Old = DropOSMBounds(@), !.New = DropOSMBounds(@)]]]
    [] OTHER -> v
KF_BoundsElementName(c, g) ==
  /\ g.merr = "" /\ g.uerr = "" /\ g.tree # << >> /\ g.un # << >>
  /\ "Bounds" \in ElementNames(g.tree[1])
  /\ NamesOK(c.root, Renamed(g.tree[1], "Bounds", RootName["Bounds"]))
  /\ g.un[1] = DropTopBounds(c.root, Want(c))
  /\ C04Scan(c, g)
\* "for every ... value": marshalling the value itself (not addressable) gives the same text as marshalling through a pointer
C04ByValue(c, g) == g.vmerr = "" /\ g.vsame
C04Fails(c, g) == IF Crashed(g) THEN {"crash"} ELSE
  (IF C04ByValue(c, g) THEN {} ELSE {"by-value"}) \cup
  (IF C04Un(c, g) THEN {} ELSE {"unmarshal"}) \cup (IF C04Scan(c, g) THEN {} ELSE {"scan"}) \cup (IF C04Names(c, g) THEN {} ELSE {"names"})
\* known findings that hold, each with the judges it explains: {<<name, {judges}>>}
C04Known(c, g) == IF ~Crashed(g) /\ KF_BoundsElementName(c, g) THEN {<<"KF_BoundsElementName", {"unmarshal", "names"}>>} ELSE {}

(* ------------------------------- C05 ------------------------------------ *)
\* g = [std |-> .., jit |-> .., jtop |-> ..]: the same case under the default codec, with json-iterator installed as
\* custom marshaler + unmarshaler, and with json-iterator also making the top-level call.
Cfgs(g) == DOMAIN g
RECURSIVE JCanon(_)
JCanon(t) == CASE t.j = "obj" -> [j |-> "obj", kv |-> {<<t.kv[i][1], JCanon(t.kv[i][2])>> : i \in 1 .. Len(t.kv)}]
               [] t.j = "arr" -> [j |-> "arr", e |-> [i \in 1 .. Len(t.e) |-> JCanon(t.e[i])]]
               [] OTHER -> t
\* the value a round trip must return: the filled value minus the way-node annotations
\* (an OSM nested in a Change loses them too)
RtWant(c) == Strip(c.root, Fill(c.root, c.v))
C05Shape(c, x) == x.merr = "" /\ x.tree # << >> /\ ShapeOK(c.root, x.tree[1], Fill(c.root, c.v))
\* (x.un holds the result of every repetition of the decode - all of them must be right)
C05Round(c, x) == x.merr = "" /\ x.uerr = "" /\ x.un # << >> /\ \A k \in 1 .. Len(x.un) : EqUpToTags(c.root, x.un[k], RtWant(c))
\* independently written document: version absent / number / string, unknown keys, any member order
DocWant(c) == Strip("OSM", WholeOSM([g \in DOMAIN c.hdr \cup {"Version"} |->
                                       IF g = "Version" THEN (IF c.ver = << >> THEN "s0" ELSE c.ver[1].v) ELSE c.hdr[g]], c.items))
C05Doc(c, x) == x.uerr = "" /\ x.un # << >> /\ \A k \in 1 .. Len(x.un) : EqUpToTags("OSM", x.un[k], DocWant(c))
SameAcross(c, g) ==
  \A a \in Cfgs(g), b \in Cfgs(g) :
     /\ (g[a].merr = "") = (g[b].merr = "") /\ (g[a].uerr = "") = (g[b].uerr = "")
     /\ (g[a].tree = << >>) = (g[b].tree = << >>)
     /\ g[a].tree # << >> /\ g[b].tree # << >> => JCanon(g[a].tree[1]) = JCanon(g[b].tree[1])
     /\ (g[a].un = << >>) = (g[b].un = << >>)
     \* after an error the partially filled value is unspecified
     /\ g[a].un # << >> /\ g[b].un # << >> /\ g[a].uerr = "" /\ g[b].uerr = "" => EqUpToTags(c.root, g[a].un[1], g[b].un[1])

\* known finding #6: an absent (empty) version comes back as the text <nil>
NilVersion(o) == IF o.Version = "s0" THEN [o EXCEPT !.Version = "=<nil>"] ELSE o
NilOpt(x) == IF x = << >> THEN x ELSE << NilVersion(x[1]) >>
WithNilVersions(T, v) ==
  CASE T = "OSM" -> NilVersion(v)
    [] T = "Change" -> [v EXCEPT !.Create = NilOpt(@), !.Modify = NilOpt(@), !.Delete = NilOpt(@)]
    [] OTHER -> v
KF_VersionNilText(c, x) ==
  LET want == IF c.kind = "rt" THEN RtWant(c) ELSE DocWant(c)
  IN x.uerr = "" /\ x.un # << >> /\ WithNilVersions(c.root, want) # want /\ EqUpToTags(c.root, x.un[1], WithNilVersions(c.root, want))
\* known finding #7: the top-level bounds of an OSM is put into `elements` as an object without a type, and the library
\* cannot unmarshal that output.  Apart from those entries the shape must be right.
NoUntyped(t) == [t EXCEPT !.kv = [i \in 1 .. Len(@) |->
                   IF @[i][1] = K("elements") /\ @[i][2].j = "arr"
                   THEN <<@[i][1], [@[i][2] EXCEPT !.e = SelectSeq(@, LAMBDA e : ~(e.j = "obj" /\ ~JHas(e, "type")))]>> ELSE @[i]]]
NoUntypedDeep(T, t) ==
  CASE T = "OSM" -> NoUntyped(t)
    [] T = "Change" -> [t EXCEPT !.kv = [i \in 1 .. Len(@) |-> IF @[i][2].j = "obj" /\ JHas(@[i][2], "elements") THEN <<@[i][1], NoUntyped(@[i][2])>> ELSE @[i]]]
    [] OTHER -> t
HasTopBounds(T, F) ==
  CASE T = "OSM" -> F.Bounds # << >>
    [] T = "Change" -> \E a \in {"Create", "Modify", "Delete"} : F[a] # << >> /\ F[a][1].Bounds # << >>
    [] OTHER -> FALSE
KF_BoundsInElements(c, x) ==
  /\ c.kind = "rt" /\ HasTopBounds(c.root, Fill(c.root, c.v))
  /\ x.merr = "" /\ x.tree # << >> /\ x.uerr # ""
  /\ ~ShapeOK(c.root, x.tree[1], Fill(c.root, c.v))
  /\ ShapeOK(c.root, NoUntypedDeep(c.root, x.tree[1]), Fill(c.root, c.v))

C05FailsOne(c, x) == IF Crashed(x) THEN {"crash"} ELSE
  IF c.kind = "rt" THEN (IF C05Shape(c, x) THEN {} ELSE {"shape"}) \cup (IF C05Round(c, x) THEN {} ELSE {"roundtrip"})
                        \* marshalling the value itself (not addressable) gives the same text as marshalling through a pointer
                        \cup (IF x.vmerr = "" /\ x.vsame THEN {} ELSE {"by-value"})
  ELSE (IF C05Doc(c, x) THEN {} ELSE {"document"})
C05KnownOne(c, x) ==
  IF Crashed(x) THEN {} ELSE
  (IF KF_VersionNilText(c, x) THEN {<<"KF_VersionNilText", {"roundtrip", "document"}>>} ELSE {})
  \cup (IF KF_BoundsInElements(c, x) THEN {<<"KF_BoundsInElements", {"shape", "roundtrip"}>>} ELSE {})

(* ------------------------------ driver ---------------------------------- *)
Explained(known) == UNION {p[2] : p \in known}
Names(known) == {p[1] : p \in known}
Verdict(ln) ==
  LET c == ln.case  g == ln.got IN
  CASE What = "c03" -> [f |-> C03Fails(c, g), kf |-> {}]
    [] What = "c04" -> LET f == C04Fails(c, g)  k == C04Known(c, g)
                       IN [f |-> f, kf |-> IF f # {} /\ f \subseteq Explained(k) THEN Names(k) ELSE {}]
    [] What = "c05" -> LET per == [x \in Cfgs(g) |-> C05FailsOne(c, g[x])]
                           kn  == [x \in Cfgs(g) |-> C05KnownOne(c, g[x])]
                           crash == \E x \in Cfgs(g) : Crashed(g[x])
                           diff == IF ~crash /\ ~SameAcross(c, g) THEN {"codecs-differ"} ELSE {}
                           f == UNION {per[x] : x \in Cfgs(g)} \cup diff
                       IN [f |-> f, kf |-> IF f # {} /\ diff = {} /\ \A x \in Cfgs(g) : per[x] \subseteq Explained(kn[x])
                                           THEN UNION {Names(kn[x]) : x \in Cfgs(g)} ELSE {}]
ASSUME \A i \in 1 .. Len(Lines) :
          LET v == Verdict(Lines[i]) IN
          v.f = {} \/ PrintT(<<"BAD", ToJson([i |-> i, why |-> v.f, kf |-> v.kf])>>)
ASSUME PrintT(<<"JUDGED", Len(Lines)>>)
VARIABLE jv
JInit == jv = 0
JNext == UNCHANGED jv
=============================================================================
