CONSTANT TraceDevSets <- FixPatches
SPECIFICATION TraceSpec
CONSTRAINT HighWater
INVARIANT Consumed
POSTCONDITION TraceAccepted
CHECK_DEADLOCK FALSE
