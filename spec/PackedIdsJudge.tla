---------------------------- MODULE PackedIdsJudge ----------------------------
(* Judge for C10.  Every recorded line is [case |-> c, got |-> g] where c is  *)
(* an abstract case of PackedIdsSpace (family c.t) and g what the real code   *)
(* returned (64-bit values as limb vectors).  Expected values come from       *)
(* PackedIdsSpace / PackedIdsLimbs / PackedIdsText only.                      *)
(*                                                                            *)
(* Mode = "property" - the listed statement, nothing more; in particular it   *)
(* does not prescribe the bit layout:                                         *)
(*  val  : all ways of constructing the object / element / feature id of      *)
(*         (kind, ref, version) give one and the same id per family;          *)
(*         Type/Ref/Version (and the matching typed accessor) return exactly  *)
(*         kind, ref, version; String() has the kind/ref[:version] shape with *)
(*         those values and Parse*(String()) returns the same id.             *)
(*  pair : identifiers are equal iff the inputs are equal; for kinds the      *)
(*         property orders (node < way < relation, or the same kind) integer  *)
(*         "<" is the (kind, ref, version) order.                             *)
(*  sort : Elements.Sort / ElementIDs.Sort / FeatureIDs.Sort return the       *)
(*         items in (kind, ref, version) order (ids compared after decoding   *)
(*         by their own Type/Ref/Version).                                    *)
(*  bigsort : the same sorts (and Nodes/Ways/Relations.SortByIDVersion for   *)
(*         one-kind lists) on lists of 258..1026 ids with structured byte     *)
(*         patterns; the expected result is computed position by position.    *)
(*  text : Conforms(Verdict(P, toks), outcome of parser P) for the 3 parsers. *)
(* Typed accessors of a different kind (NodeID() on a way ...) are recorded   *)
(* but not judged: the property does not mention them.                        *)
(*                                                                            *)
(* Mode = "layout" - Model conformance, NOT the property: the recorded ids    *)
(* are the limb vectors PackL(...) of the layout in PackedIds/PackedIdsLimbs  *)
(* (the one Apalache and TLC reason about).  A failure here with the property *)
(* pass clean is reported by the driver as a DIVERGENCE, not a violation.     *)
EXTENDS PackedIdsSpace, IOUtils, Json

CONSTANT Mode
Lines == ndJsonDeserialize(IOEnv.REC)

SeqAll(s, P(_)) == \A i \in 1 .. Len(s) : P(s[i])
SeqSome(s, P(_)) == \E i \in 1 .. Len(s) : P(s[i])

(* ---------------------------------- val ---------------------------------- *)
ExpectedId(c, of) == IF of = "feat" THEN FeatL(c) ELSE ObjL(c)
Families(c) == IF IsElemKind(c.kind) THEN {"obj", "elem", "feat"} ELSE {"obj"}
\* the id of a family as produced by the first recorded construction path
IdOf(g, f) == g.ids[CHOOSE i \in 1 .. Len(g.ids) : g.ids[i].of = f /\ \A j \in 1 .. i - 1 : g.ids[j].of # f].id

IdsOK(c, g) ==
  /\ \A f \in Families(c) : SeqSome(g.ids, LAMBDA o : o.of = f)
  /\ SeqAll(g.ids, LAMBDA o : o.of \in Families(c) /\ o.id = IdOf(g, o.of))
  \* ElementID.ObjectID is the same integer
  /\ IsElemKind(c.kind) => IdOf(g, "obj") = IdOf(g, "elem")

DecOK(c, g) ==
  /\ SeqAll(g.dec, LAMBDA d : /\ d.of \in Families(c)
                              /\ d.type = c.kind
                              /\ d.ref = Ref4(c)
                              /\ d.ver = (IF d.of = "feat" THEN 0 ELSE VerOf(c)))
  /\ \A f \in Families(c) : SeqSome(g.dec, LAMBDA d : d.of = f)

TypedOK(c, g) ==
  /\ SeqAll(g.typed, LAMBDA t : t.m = c.kind => (t.out = "ok" /\ t.ref = Ref4(c)))
  /\ IsElemKind(c.kind) => \A f \in {"elem", "feat"} : SeqSome(g.typed, LAMBDA t : t.of = f /\ t.m = c.kind)

\* the printed text: kind "/" ref [":" (version | "-")], generic tokens from the recorder.
\* Without a version part, or with "-", the version must be 0.
ShapeOK(c, x) ==
  LET tk == x.toks
      n  == Len(tk)
      num(t, val) == t.c = "digit" /\ ~t.big /\ t.val = val
  IN /\ n \in (IF x.of = "feat" THEN {3} ELSE {3, 5})
     /\ tk[1].c = "alpha" /\ tk[1].s = c.kind
     /\ tk[2].s = "/"
     /\ num(tk[3], Ref4(c))
     /\ (IF n = 5
         THEN /\ tk[4].s = ":"
              /\ \/ tk[5].s = "-" /\ VerOf(c) = 0
                 \/ num(tk[5], <<0, 0, 0, VerOf(c)>>)
         ELSE x.of = "feat" \/ VerOf(c) = 0)

TextOK(c, g) ==
  /\ SeqAll(g.text, LAMBDA x : /\ x.of \in Families(c)
                               /\ ShapeOK(c, x)
                               /\ ~x.p.err /\ x.p.id = IdOf(g, x.of))
  /\ \A f \in Families(c) : SeqSome(g.text, LAMBDA x : x.of = f)

ValWhy(c, g) ==
  IF ~IdsOK(c, g) THEN <<"construction paths disagree or are missing">>
  ELSE IF ~DecOK(c, g) THEN <<"decode", c.kind, Ref4(c), VerOf(c)>>
  ELSE IF ~TypedOK(c, g) THEN <<"typed accessor">>
  ELSE IF ~TextOK(c, g) THEN <<"text form / parse back">>
  ELSE << >>

ValLayoutWhy(c, g) ==
  IF SeqAll(g.ids, LAMBDA o : o.id = ExpectedId(c, o.of)) THEN << >> ELSE <<"layout", ObjL(c)>>

(* ---------------------------------- pair --------------------------------- *)
CmpOK(a, b, o) ==
  LET same == IF o.of = "feat" THEN a.kind = b.kind /\ a.r = b.r ELSE SameId(a, b)
      less == IF o.of = "feat" THEN FeatLessCase(a, b) ELSE LexLessCase(a, b)
      more == IF o.of = "feat" THEN FeatLessCase(b, a) ELSE LexLessCase(b, a)
  IN /\ o.eq <=> same
     /\ Comparable(a, b) => ((o.lt <=> less) /\ (o.gt <=> more))
PairWhy(c, g) ==
  IF /\ SeqAll(g.cmp, LAMBDA o : CmpOK(c.a, c.b, o))
     /\ SeqSome(g.cmp, LAMBDA o : o.of = "obj")
     /\ (IsElemKind(c.a.kind) /\ IsElemKind(c.b.kind)) => \A f \in {"elem", "feat"} : SeqSome(g.cmp, LAMBDA o : o.of = f)
  THEN << >> ELSE <<"order / distinctness", LexLessCase(c.a, c.b), SameId(c.a, c.b)>>

(* ---------------------------------- sort --------------------------------- *)
Sorted(c) == SortSeq(c.items, LexLessCase)
DecIs(s, e, withVer) == s.dec.type = e.kind /\ s.dec.ref = Ref4(e) /\ s.dec.ver = (IF withVer THEN e.v ELSE 0)
SortWhy(c, g) ==
  LET exp == Sorted(c)
      n   == Len(exp)
  IN IF ~(Len(g.elements) = n /\ \A i \in 1 .. n :
             g.elements[i].kind = exp[i].kind /\ g.elements[i].ref = Ref4(exp[i]) /\ g.elements[i].v = exp[i].v)
     THEN <<"Elements.Sort">>
     ELSE IF ~(Len(g.eids) = n /\ \A i \in 1 .. n : DecIs(g.eids[i], exp[i], TRUE)) THEN <<"ElementIDs.Sort">>
     ELSE IF ~(Len(g.osmeids) = n /\ \A i \in 1 .. n : DecIs(g.osmeids[i], exp[i], TRUE)) THEN <<"OSM.ElementIDs + Sort">>
     ELSE IF ~(Len(g.fids) = n /\ \A i \in 1 .. n : DecIs(g.fids[i], exp[i], FALSE)) THEN <<"FeatureIDs.Sort">>
     ELSE << >>
SortLayoutWhy(c, g) ==
  LET exp == Sorted(c)
      n   == Len(exp)
  IN IF /\ Len(g.eids) = n /\ Len(g.fids) = n
        /\ \A i \in 1 .. n : g.eids[i].id = ObjL(exp[i]) /\ g.fids[i].id = FeatL(exp[i])
     THEN << >> ELSE <<"layout of sorted ids">>

(* --------------------------------- bigsort ------------------------------- *)
\* a large structured list (PackedIdsSpace, "big sort cases"): every sort returns first, the product of dom
\* in lexicographic order, last; results are digit vectors decoded by the recorder from Type / Ref / Version
BigListOK(c, W, n, lst, withVer) ==
  /\ Len(lst) = n
  /\ \A i \in 1 .. n : \A j \in Pos :
        lst[i][j] = (IF ~withVer /\ j >= 7 THEN 0 ELSE BigDigit(c, W, n, i, j))
BigOneKind(c) == Len(c.dom[1]) = 1 /\ c.first[1] = c.dom[1][1] /\ c.last[1] = c.dom[1][1]
BigWhy(c, g) ==
  LET W == BigWeights(c)
      n == 2 + BigProd(c)
  IN IF ~BigOK(c) THEN <<"malformed big sort case">>
     ELSE IF g.n # n THEN <<"harness expanded a different number of ids", n>>
     ELSE IF ~BigListOK(c, W, n, g.elements, TRUE) THEN <<"Elements.Sort (large list)", n>>
     ELSE IF ~BigListOK(c, W, n, g.eids, TRUE) THEN <<"ElementIDs.Sort (large list)", n>>
     ELSE IF ~BigListOK(c, W, n, g.fids, FALSE) THEN <<"FeatureIDs.Sort (large list)", n>>
     ELSE IF BigOneKind(c) /\ ~BigListOK(c, W, n, g.byidver, TRUE) THEN <<"SortByIDVersion (large list)", n>>
     ELSE << >>

(* ---------------------------------- text --------------------------------- *)
OutcomeOf(g, P) == IF P = "obj" THEN g.obj ELSE IF P = "elem" THEN g.elem ELSE g.feat
TextWhyWith(c, g, Good(_, _)) ==
  LET toks == ToksOf(c.toks)
      badP == {P \in Parsers : ~Good(Verdict(P, toks), OutcomeOf(g, P))}
  IN IF g.s # Text(toks) THEN <<"harness rendered a different string">>
     ELSE IF badP = {} THEN << >>
     ELSE LET P == CHOOSE P \in badP : TRUE
              v == Verdict(P, toks)
          IN <<"parse", P, g.s, v.d, v.why, <<v.kind, v.ref, v.ver>>, OutcomeOf(g, P)>>
TextWhy(c, g) == TextWhyWith(c, g, Conforms)
TextLayoutWhy(c, g) == TextWhyWith(c, g, ConformsLayout)

(* -------------------------------- dispatch ------------------------------- *)
Why(ln) ==
  IF Mode = "property"
  THEN CASE ln.case.t = "val"  -> ValWhy(ln.case, ln.got)
         [] ln.case.t = "pair" -> PairWhy(ln.case, ln.got)
         [] ln.case.t = "sort" -> SortWhy(ln.case, ln.got)
         [] ln.case.t = "bigsort" -> BigWhy(ln.case, ln.got)
         [] ln.case.t = "text" -> TextWhy(ln.case, ln.got)
  ELSE CASE ln.case.t = "val"  -> ValLayoutWhy(ln.case, ln.got)
         [] ln.case.t = "pair" -> << >>
         [] ln.case.t = "sort" -> SortLayoutWhy(ln.case, ln.got)
         [] ln.case.t = "bigsort" -> << >>
         [] ln.case.t = "text" -> TextLayoutWhy(ln.case, ln.got)

\* no known findings for C10 on the pinned tree
ASSUME Mode \in {"property", "layout"}
ASSUME \A i \in 1 .. Len(Lines) :
          LET w == Why(Lines[i]) IN
          w = << >> \/ PrintT(<<"BAD", ToJson([i |-> i, why |-> w, kf |-> {}])>>)
ASSUME PrintT(<<"JUDGED", Len(Lines)>>)

VARIABLE dummy
JInit == dummy = 0
JNext == UNCHANGED dummy
=============================================================================
