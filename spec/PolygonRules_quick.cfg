CONSTANT FullPairs = FALSE
INIT Init
NEXT Next
INVARIANT OrderFree
CHECK_DEADLOCK FALSE
