CONSTANTS
  N = 4
  MaxMem = 1
  MaxReq = 3
  Family = "flat"
  FlagFamily = "stops"
  WithBad = FALSE
  CanonicalReqs = TRUE
  VersionSets <- MCVersions
  ReqLists <- MCReqs
  BadSets <- MCBad
  FlagSets <- MCFlags
SPECIFICATION ReducedSpec
INVARIANTS TypeOK EmittedOnce OnlyWithHistory ChildrenFirst AllRequestedEmitted StopEndsIteration EmitsPrefixOfRunOut RanToEndEmitsRunOut CompletedAtEnd VisitedIsEmittedOrSending
CHECK_DEADLOCK FALSE
