--------------------------- MODULE MultipolygonMC ---------------------------
(* Constant definitions (shape families) for model checking / generation of Multipolygon.tla. *)
EXTENDS Multipolygon

R(n, p) == [n |-> n, parent |-> p]

\* one outer ring
S_One3  == {<<R(3, 0)>>}
S_One4  == {<<R(4, 0)>>}
S_One5  == {<<R(5, 0)>>}
S_One   == S_One3 \cup S_One4 \cup S_One5
\* one outer with one hole
S_Hole33 == {<<R(3, 0), R(3, 1)>>}
S_Hole43 == {<<R(4, 0), R(3, 1)>>}
S_Hole34 == {<<R(3, 0), R(4, 1)>>}
S_Hole44 == {<<R(4, 0), R(4, 1)>>}
S_Hole53 == {<<R(5, 0), R(3, 1)>>}
S_Hole54 == {<<R(5, 0), R(4, 1)>>}
\* two outers
S_Two33  == {<<R(3, 0), R(3, 0)>>}
S_Two34  == {<<R(3, 0), R(4, 0)>>}
S_Two44  == {<<R(4, 0), R(4, 0)>>}
S_Two45  == {<<R(4, 0), R(5, 0)>>}
\* two outers, holes
S_Two33H1 == {<<R(3, 0), R(3, 0), R(3, 2)>>}          \* hole in the second outer only
S_Two33H2 == {<<R(3, 0), R(3, 0), R(3, 1), R(3, 2)>>}
S_Two43H2 == {<<R(4, 0), R(3, 0), R(3, 2), R(4, 1)>>} \* holes listed in the opposite order of their outers
S_One4HH  == {<<R(4, 0), R(3, 1), R(3, 1)>>}          \* two holes in one outer
S_Notch   == {<<R(4, 0), R(3, 0), R(4, 1)>>}          \* a second outer that can sit in the notch of a concave first outer
\* larger shapes for sampling (-simulate)
S_Big == {<<R(7, 0), R(5, 1)>>, <<R(8, 0), R(6, 0), R(5, 1), R(4, 2)>>, <<R(6, 0), R(5, 0), R(7, 0), R(4, 2), R(3, 2), R(5, 3)>>,
          <<R(9, 0), R(4, 1), R(5, 1), R(3, 1)>>, <<R(5, 0), R(6, 0), R(7, 0)>>, <<R(12, 0), R(9, 1)>>}

\* model-checking families
S_MCQ2  == S_Hole33
S_MCT2  == S_Hole33
S_MCT2b == S_Hole43 \cup S_Hole34
S_MCT3  == S_Two33 \cup S_Two34
S_MCT4  == S_Two33H1 \cup S_One4HH
S_SameQ == S_One3 \cup S_One4 \cup S_Hole33
S_SameT == S_One \cup S_Hole33
S_Live  == S_One \cup S_Hole33
S_LiveQ == S_One3 \cup S_One4
S_SpaceA == S_One3 \cup S_One4
S_SpaceB == S_Hole33 \cup S_Hole43
=============================================================================
