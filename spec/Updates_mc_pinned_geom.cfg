\* expected to FAIL: with the pinned loop exit the geometry-at-time law is violated at the design level
CONSTANTS
  MaxN = 2
  MaxL = 3
  MaxT = 2
  Kinds = {"way"}
  UnannChoices = {0}
  LocKinds = {"n"}
  BreakAtLate = TRUE
SPECIFICATION Spec
INVARIANTS GeomAt1 GeomAt2
CHECK_DEADLOCK FALSE
