-------------------------- MODULE PbfFormatBigJudge --------------------------
(* Judge for the large-block cases of C01 and C08 (records with run-length encoded elements): every run returned  *)
(* exactly the runs of DecodeFile / Filtered of the expanded file (PbfFormatBig!RunsOf), without error; C01 cases  *)
(* also the header, C08 cases also "no returned object modified afterwards".                                       *)
EXTENDS PbfFormatBig, IOUtils, Json
Lines == ndJsonDeserialize(IOEnv.REC)
IsFilterCase(c) == "skip" \in DOMAIN c
RunJudged(c, run) == IF IsFilterCase(c) THEN BigFilteredRunOK(c, run)
                     ELSE BigRunOK(c.file, IF run.hfirst THEN run ELSE [run EXCEPT !.herr = ""])
Expected(c) == IF IsFilterCase(c) THEN RunsOf(c.file, c.skip, c.inst, c.accmod) ELSE RunsOf(c.file, NoSkip3, NoSkip3, AllMod)
LineOK(ln) == /\ Len(ln.runs) >= 1
              /\ \A k \in 1 .. Len(ln.runs) : RunJudged(ln.case, ln.runs[k])
BadRun(ln) == IF Len(ln.runs) = 0 THEN <<"no run recorded">>
              ELSE LET k == CHOOSE k \in 1 .. Len(ln.runs) : ~RunJudged(ln.case, ln.runs[k]) IN BigWhy(Expected(ln.case), ln.runs[k])
ASSUME \A i \in 1 .. Len(Lines) :
          LineOK(Lines[i]) \/ PrintT(<<"BAD", ToJson([i |-> i, why |-> BadRun(Lines[i]), kf |-> {}])>>)
ASSUME PrintT(<<"JUDGED", Len(Lines)>>)
VARIABLE v
JInit == v = 0
JNext == UNCHANGED v
=============================================================================
