CONSTANT Shapes = {}
CONSTANT MaxPieces = 1
CONSTANT MaskMode = "basic"
CONSTANT Tasks = {}
CONSTANT Patterns = {"all"}
CONSTANT DocSpecs <- DS_Quick
INIT DInit
NEXT DNext
CHECK_DEADLOCK FALSE
