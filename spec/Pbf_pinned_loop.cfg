CONSTANT Configs <- CfgsPinnedLoop
INIT Init
NEXT Next
VIEW View
INVARIANTS ReadAheadInv
CHECK_DEADLOCK FALSE
