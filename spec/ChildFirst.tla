----------------------------- MODULE ChildFirst -----------------------------
(* C14 - annotate.ChildFirstOrdering (annotate/order.go).                    *)
(*                                                                           *)
(* Model : the producer goroutine (NewChildFirstOrdering's closure + walk)   *)
(*         as an explicit-stack post-order DFS, one action per walk entry /  *)
(*         visited member / emission; the unbuffered channel `out` as a      *)
(*         rendezvous with the consumer's Next; Err; Close (cancel + wait    *)
(*         for the goroutine); cancellation of the caller's context by an    *)
(*         independent process.                                              *)
(* Judge : the listed property, as operators over (hist, req, observed       *)
(*         sequence) - J_* - and as state predicates / temporal formulas     *)
(*         over the Model.                                                   *)
(* Input : relation histories over ids 1..N as a generating machine (one     *)
(*         action per relation history, one for the request list).           *)
(*                                                                           *)
(* Vocabulary.  hist[i] = sequence of versions of relation i; a version is   *)
(* its member list; a member is an integer: m > 0 = relation member with     *)
(* ref m, m < 0 = non-relation member (way / node) with ref -m.              *)
(* hist[i] = << >> : relation i has no history (datasource: NotFound).       *)
(* bad = ids for which the datasource fails with another error.              *)
EXTENDS Integers, Sequences, FiniteSets, TLC

CONSTANTS N,            \* relation ids are 1 .. N
          VersionSets,  \* the histories a relation may have (set of sequences of member lists)
          ReqLists,     \* the request lists
          BadSets,      \* the possible sets of ids with a failing datasource
          FlagSets      \* set of [close, cancel, err, senddone] records (see flags)

Ids == 1 .. N

VARIABLES
  gpc,        \* "hist" while the input is being generated, then "run"
  hist, req, bad,
  expect,     \* RunSt(hist, bad, req), computed once when the input is complete (Model sanity only, no Judge uses it)
  flags,      \* [close: how many Close calls the consumer may make, cancel: BOOLEAN external cancel possible,
              \*  err: how many Err calls, senddone: BOOLEAN - the send select has the ctx.Done alternative (order.go:160-164)]
  \* producer goroutine
  ppc,        \* "top" | "enter" | "members" | "check" | "send" | "exit" | "done"
  ri,         \* index into req of the id being walked (loop variable i + 1)
  stack,      \* call stack of walk: frames [id, rest]; rest = members still to look at
  visited,    \* o.visited
  perr,       \* o.err: "nil" | "canceled" | "dserr"
  completed,  \* o.CompletedIndex
  outClosed,  \* close(o.out) has run
  cancelled,  \* o.ctx is done
  \* the caller's context
  xpc,        \* "off" | "called" | "done"
  \* consumer (one thread calling Next / Err / Close)
  cpc,        \* "idle" | "n.called" | "n.recv" | "n.ret" | "c.called" | "c.wait" | "e.called" | "e.read2" | "e.ret"
  res,        \* result of the Next call in progress ("true" / "false")
  cur,        \* o.id
  eres,       \* result of the Err call in progress
  \* observation / history variables
  emitted,    \* sequence of RelationID() values after the Next calls that returned true
  lastNext,   \* "none" | "true" | "false": result of the last completed Next
  lastErr,    \* result of the last completed Err ("none" before)
  closes, errs, extra,  \* number of Close / Err calls made; Next calls made after a false result or a Close
  stopBefore  \* a Close or external cancel had returned before the Next call in progress was made

vars == << gpc, hist, req, bad, expect, flags, ppc, ri, stack, visited, perr, completed, outClosed, cancelled,
           xpc, cpc, res, cur, eres, emitted, lastNext, lastErr, closes, errs, extra, stopBefore >>

inputVars == << hist, req, bad, expect, flags >>
prodVars  == << ppc, ri, stack, visited, perr, completed, outClosed >>
consVars  == << cpc, res, cur, eres, emitted, lastNext, lastErr, closes, errs, extra, stopBefore >>

(* ------------------------------------------------------------------------ *)
(* helpers                                                                  *)
(* ------------------------------------------------------------------------ *)
InSeq(x, s) == \E i \in 1 .. Len(s) : s[i] = x
SeqSet(s)   == {s[i] : i \in 1 .. Len(s)}

RECURSIVE Flat(_)
Flat(vs) == IF vs = << >> THEN << >> ELSE Head(vs) \o Flat(Tail(vs))   \* for _, r := range relations { for _, m := range r.Members

HasHistIn(h, i) == i \in 1 .. Len(h) /\ h[i] # << >>

(* ------------------------------------------------------------------------ *)
(* Judge operators: the property over (h = histories, rq = request list,    *)
(* s = the observed sequence of emitted ids).  Nothing else is an oracle.   *)
(* ------------------------------------------------------------------------ *)
\* "never emits an id twice"
J_EmittedOnce(s) == \A i, j \in 1 .. Len(s) : i # j => s[i] # s[j]
\* "never emits ... an id without history"
J_OnlyWithHistory(h, s) == \A i \in 1 .. Len(s) : HasHistIn(h, s[i])
\* "emits every requested relation that has a history" (for an iteration that ran to its end)
J_AllRequestedEmitted(h, rq, s) == \A i \in 1 .. Len(rq) : HasHistIn(h, rq[i]) => InSeq(rq[i], s)

\* x references y: some version of x has a *relation* member y.  Adj(h)[x] = the relations x references
\* (a relation without history has no versions, hence references nothing)
Adj(h) == [x \in 1 .. Len(h) |-> {m \in SeqSet(Flat(h[x])) : m > 0 /\ m <= Len(h)}]
Edge(h, x, y) == x \in 1 .. Len(h) /\ y \in Adj(h)[x]
RECURSIVE ReachA(_, _, _)
ReachA(adj, S, n) == IF n = 0 THEN S
                     ELSE LET S2 == S \cup UNION {adj[x] : x \in S} IN
                          IF S2 = S THEN S ELSE ReachA(adj, S2, n - 1)
\* ReachTable(h)[x] = every relation reachable from x through one or more references
ReachTable(h) == LET adj == Adj(h) IN [x \in 1 .. Len(h) |-> ReachA(adj, adj[x], Len(h))]
ReachFrom(h, x) == ReachTable(h)[x]
AcyclicT(reach) == \A x \in DOMAIN reach : x \notin reach[x]
Acyclic(h) == AcyclicT(ReachTable(h))
\* "when the graph is acyclic each relation is emitted only after every relation reachable from it":
\* stated on a prefix, so it also judges iterations that were stopped early.  A reachable relation
\* without history can never be emitted (J_OnlyWithHistory), so it is not waited for.
\* (reach = ReachTable(h) is passed in so that a caller judging several runs of one case evaluates it once)
J_ChildrenFirstT(h, reach, s) ==
   AcyclicT(reach) => \A i \in 1 .. Len(s) : s[i] \in DOMAIN reach =>
                         \A y \in reach[s[i]] : HasHistIn(h, y) => \E j \in 1 .. i - 1 : s[j] = y
J_ChildrenFirst(h, s) == J_ChildrenFirstT(h, ReachTable(h), s)

\* ---- the same two graph judgements in a form that stays cheap on graphs with hundreds of relations
\* (deep chains / deep DAGs).  ChildFirstLemmas.tla has TLC check, for every graph of the small families and
\* every sequence over its ids, that they are equal to Acyclic / J_ChildrenFirst above.
\* Acyclic: peel off, round by round, the relations all of whose references are already peeled (Kahn); nothing
\* is left iff there is no cycle.  References that all point to larger ids cannot form a cycle (shortcut).
RECURSIVE Peel(_, _, _)
Peel(adj, rem, n) == LET free == {x \in rem : adj[x] \cap rem = {}} IN
                     IF free = {} \/ n = 0 THEN rem ELSE Peel(adj, rem \ free, n - 1)
AcyclicA(adj) == (\A x \in DOMAIN adj : \A y \in adj[x] : y > x) \/ Peel(adj, DOMAIN adj, Cardinality(DOMAIN adj)) = {}
AcyclicK(h) == AcyclicA(Adj(h))
\* ChildrenFirst through *direct* references only: if every emitted relation is preceded by each of its direct
\* references that has a history, then by induction along a reference path (every inner relation of a path has
\* a history, or it would reference nothing) it is preceded by every relation reachable from it - and conversely.
J_ChildrenFirstD(h, adj, acyc, s) ==
   acyc => \A i \in 1 .. Len(s) : s[i] \in DOMAIN adj =>
              \A y \in adj[s[i]] : HasHistIn(h, y) => \E j \in 1 .. i - 1 : s[j] = y

(* ------------------------------------------------------------------------ *)
(* The walk as a pure function (second, independent formulation; the Model  *)
(* below is checked to agree with it: EmitsPrefixOfRunOut).                 *)
(* ------------------------------------------------------------------------ *)
RECURSIVE Walk(_, _, _, _, _), WalkMembers(_, _, _, _, _)
\* st = [vis, out, err, idx]; WalkMembers adds cut = TRUE when walk(id) returned through the cycle cut
WalkMembers(h, b, ms, path, st) ==
  IF st.err THEN [st |-> st, cut |-> TRUE]
  ELSE IF ms = << >> THEN [st |-> st, cut |-> FALSE]
  ELSE LET m == Head(ms) IN
       IF m < 0 THEN WalkMembers(h, b, Tail(ms), path, st)
       ELSE IF InSeq(m, path) THEN [st |-> st, cut |-> TRUE]
       ELSE WalkMembers(h, b, Tail(ms), path, Walk(h, b, m, Append(path, m), st))
Walk(h, b, id, path, st) ==
  IF st.err \/ id \in st.vis THEN st
  ELSE IF id \in b THEN [st EXCEPT !.err = TRUE]
  ELSE IF ~HasHistIn(h, id) THEN st
  ELSE LET r == WalkMembers(h, b, Flat(h[id]), path, st) IN
       IF r.cut THEN r.st
       ELSE [r.st EXCEPT !.vis = @ \cup {id}, !.out = Append(@, id)]
RECURSIVE RunAll(_, _, _, _)
RunAll(h, b, ids, st) ==
  IF ids = << >> \/ st.err THEN st
  ELSE LET w == Walk(h, b, Head(ids), << >>, st) IN
       RunAll(h, b, Tail(ids), IF w.err THEN w ELSE [w EXCEPT !.idx = @ + 1])
RunSt(h, b, rq)  == RunAll(h, b, rq, [vis |-> {}, out |-> << >>, err |-> FALSE, idx |-> 0])
RunOut(h, b, rq) == RunSt(h, b, rq).out     \* what an undisturbed iteration emits
RunErr(h, b, rq) == RunSt(h, b, rq).err     \* ... and whether it ends in the datasource error
CompletedOf(st)  == IF st.idx = 0 THEN 0 ELSE st.idx - 1     \* o.CompletedIndex = i after the i-th (0-based) id

\* The walk looks at a history only through the concatenation of its versions' member lists and skips
\* non-relation members: a history behaves exactly like the one-version, relation-only history Proj(h)[i].
\* (Checked by TLC on the multi-version / mixed families - ProjectionLemma - so the exhaustive runs over the
\* "flat" families speak for every way of splitting the same references over versions and member types.)
RelOnly(ms) == SelectSeq(ms, LAMBDA m : m > 0)
Proj(h) == [i \in 1 .. Len(h) |-> IF h[i] = << >> THEN << >> ELSE << RelOnly(Flat(h[i])) >>]

IsPrefix(s, t) == Len(s) <= Len(t) /\ \A i \in 1 .. Len(s) : s[i] = t[i]

(* ------------------------------------------------------------------------ *)
(* Input generation                                                         *)
(* ------------------------------------------------------------------------ *)
G_AddHist == /\ gpc = "hist" /\ Len(hist) < N
             /\ \E v \in VersionSets : hist' = Append(hist, v)
             /\ UNCHANGED << gpc, req, bad, expect, flags, prodVars, cancelled, xpc, consVars >>
G_Start   == /\ gpc = "hist" /\ Len(hist) = N
             /\ \E r \in ReqLists, b \in BadSets, f \in FlagSets :
                   /\ req' = r /\ bad' = b /\ flags' = f /\ expect' = RunSt(hist, b, r)
                   /\ xpc' = (IF f.cancel THEN "called" ELSE "off")
             /\ gpc' = "run"
             /\ UNCHANGED << hist, prodVars, cancelled, consVars >>

InitRun == /\ ppc = "top" /\ ri = 1 /\ stack = << >> /\ visited = {} /\ perr = "nil" /\ completed = 0
           /\ outClosed = FALSE /\ cancelled = FALSE
           /\ cpc = "idle" /\ res = "none" /\ cur = 0 /\ eres = "none" /\ emitted = << >>
           /\ lastNext = "none" /\ lastErr = "none" /\ closes = 0 /\ errs = 0 /\ extra = 0 /\ stopBefore = FALSE
Init == /\ gpc = "hist" /\ hist = << >> /\ req = << >> /\ bad = {} /\ expect = RunSt(<< >>, {}, << >>)
        /\ flags = [close |-> 0, cancel |-> FALSE, err |-> 0, senddone |-> TRUE] /\ xpc = "off"
        /\ InitRun

(* ------------------------------------------------------------------------ *)
(* Producer goroutine                                                       *)
(* ------------------------------------------------------------------------ *)
Frame(id, rest) == [id |-> id, rest |-> rest]
Top      == stack[Len(stack)]
PathOf   == [k \in 1 .. Len(stack) - 1 |-> stack[k + 1].id]     \* walk(id, path) at the top level has path = [] (order.go:59-61)
SetRest(r) == [stack EXCEPT ![Len(stack)].rest = r]
\* walk returns nil: back in the caller's member loop, or in the goroutine's loop over ids
ReturnNil == LET st == SubSeq(stack, 1, Len(stack) - 1) IN
   /\ stack' = st
   /\ IF st = << >> THEN ppc' = "top" /\ completed' = ri - 1 /\ ri' = ri + 1      \* o.CompletedIndex = i
                    ELSE ppc' = "members" /\ UNCHANGED << completed, ri >>
\* walk returns an error: every caller returns it, the goroutine stores it and returns
ReturnErr(e) == stack' = << >> /\ perr' = e /\ ppc' = "exit" /\ UNCHANGED << completed, ri >>

P_Top == /\ gpc = "run" /\ ppc = "top"                         \* for i, id := range ids
         /\ IF ri > Len(req) THEN ppc' = "exit" /\ UNCHANGED stack
                             ELSE stack' = << Frame(req[ri], << >>) >> /\ ppc' = "enter"
         /\ UNCHANGED << ri, visited, perr, completed, outClosed, inputVars, gpc, cancelled, xpc, consVars >>

P_Enter == /\ ppc = "enter"                                    \* order.go:117-128
           /\ LET id == Top.id IN
              IF id \in visited THEN ReturnNil /\ UNCHANGED perr
              ELSE IF id \in bad THEN ReturnErr("dserr")
              ELSE IF ~HasHistIn(hist, id) THEN ReturnNil /\ UNCHANGED perr
              ELSE stack' = SetRest(Flat(hist[id])) /\ ppc' = "members" /\ UNCHANGED << perr, completed, ri >>
           /\ UNCHANGED << visited, outClosed, inputVars, gpc, cancelled, xpc, consVars >>

P_Member == /\ ppc = "members"                                 \* order.go:130-153, one member per step
            /\ LET f == Top IN
               IF f.rest = << >> THEN ppc' = "check" /\ UNCHANGED << stack, completed, ri >>
               ELSE LET m == Head(f.rest) IN
                    IF m < 0 THEN stack' = SetRest(Tail(f.rest)) /\ UNCHANGED << ppc, completed, ri >>   \* not a relation
                    ELSE IF InSeq(m, PathOf) THEN ReturnNil                                             \* cycle cut
                    ELSE stack' = Append(SetRest(Tail(f.rest)), Frame(m, << >>)) /\ ppc' = "enter"
                         /\ UNCHANGED << completed, ri >>
            /\ UNCHANGED << visited, perr, outClosed, inputVars, gpc, cancelled, xpc, consVars >>

P_Check == /\ ppc = "check"                                    \* order.go:155-159
           /\ IF cancelled THEN ReturnErr("canceled") /\ UNCHANGED visited
                           ELSE visited' = visited \cup {Top.id} /\ ppc' = "send" /\ UNCHANGED << stack, perr, completed, ri >>
           /\ UNCHANGED << outClosed, inputVars, gpc, cancelled, xpc, consVars >>

\* case o.out <- id  together with  case id := <-o.out  in Next (unbuffered channel)
Rendezvous == /\ ppc = "send" /\ cpc = "n.recv"
              /\ emitted' = Append(emitted, Top.id) /\ cur' = Top.id /\ res' = "true" /\ cpc' = "n.ret"
              /\ ReturnNil
              /\ UNCHANGED << visited, perr, outClosed, inputVars, gpc, cancelled, xpc,
                              eres, lastNext, lastErr, closes, errs, extra, stopBefore >>

P_SendCancelled == /\ ppc = "send" /\ cancelled /\ flags.senddone      \* case <-o.ctx.Done()
                   /\ ReturnErr("canceled")
                   /\ UNCHANGED << visited, outClosed, inputVars, gpc, cancelled, xpc, consVars >>

P_Exit == /\ ppc = "exit" /\ outClosed' = TRUE /\ ppc' = "done"       \* defer close(o.out); defer o.wg.Done()
          /\ UNCHANGED << ri, stack, visited, perr, completed, inputVars, gpc, cancelled, xpc, consVars >>

PNext == P_Top \/ P_Enter \/ P_Member \/ P_Check \/ P_SendCancelled \/ P_Exit

(* ------------------------------------------------------------------------ *)
(* The caller's context                                                     *)
(* ------------------------------------------------------------------------ *)
X_Call   == /\ gpc = "run" /\ xpc = "off" /\ xpc' = "called"          \* only used by the trace spec
            /\ UNCHANGED << inputVars, gpc, prodVars, cancelled, consVars >>
X_Cancel == /\ xpc = "called" /\ xpc' = "done" /\ cancelled' = TRUE
            /\ UNCHANGED << inputVars, gpc, prodVars, consVars >>

(* ------------------------------------------------------------------------ *)
(* Consumer: Next / Err / Close                                             *)
(* ------------------------------------------------------------------------ *)
Stopped == closes > 0 \/ xpc = "done"

C_NextCall == /\ gpc = "run" /\ cpc = "idle" /\ cpc' = "n.called"
              /\ stopBefore' = Stopped
              /\ extra' = (IF lastNext = "false" \/ closes > 0 THEN extra + 1 ELSE extra)
              /\ UNCHANGED << inputVars, gpc, prodVars, cancelled, xpc, res, cur, eres, emitted, lastNext, lastErr, closes, errs >>
C_Pre == /\ cpc = "n.called"                                           \* order.go:88-90
         /\ IF perr # "nil" \/ cancelled THEN res' = "false" /\ cpc' = "n.ret" ELSE cpc' = "n.recv" /\ UNCHANGED res
         /\ UNCHANGED << inputVars, gpc, prodVars, cancelled, xpc, cur, eres, emitted, lastNext, lastErr, closes, errs, extra, stopBefore >>
C_RecvClosed == /\ cpc = "n.recv" /\ outClosed /\ res' = "false" /\ cpc' = "n.ret"      \* id == 0
                /\ UNCHANGED << inputVars, gpc, prodVars, cancelled, xpc, cur, eres, emitted, lastNext, lastErr, closes, errs, extra, stopBefore >>
C_RecvDone   == /\ cpc = "n.recv" /\ cancelled /\ res' = "false" /\ cpc' = "n.ret"      \* case <-o.ctx.Done()
                /\ UNCHANGED << inputVars, gpc, prodVars, cancelled, xpc, cur, eres, emitted, lastNext, lastErr, closes, errs, extra, stopBefore >>
C_NextRet == /\ cpc = "n.ret" /\ cpc' = "idle" /\ lastNext' = res
             /\ UNCHANGED << inputVars, gpc, prodVars, cancelled, xpc, res, cur, eres, emitted, lastErr, closes, errs, extra, stopBefore >>

C_CloseCall   == /\ gpc = "run" /\ cpc = "idle" /\ cpc' = "c.called"
                 /\ UNCHANGED << inputVars, gpc, prodVars, cancelled, xpc, res, cur, eres, emitted, lastNext, lastErr, closes, errs, extra, stopBefore >>
C_CloseCancel == /\ cpc = "c.called" /\ cancelled' = TRUE /\ cpc' = "c.wait"           \* o.done()
                 /\ UNCHANGED << inputVars, gpc, prodVars, xpc, res, cur, eres, emitted, lastNext, lastErr, closes, errs, extra, stopBefore >>
C_CloseRet    == /\ cpc = "c.wait" /\ ppc = "done" /\ cpc' = "idle" /\ closes' = closes + 1  \* o.wg.Wait()
                 /\ UNCHANGED << inputVars, gpc, prodVars, cancelled, xpc, res, cur, eres, emitted, lastNext, lastErr, errs, extra, stopBefore >>

C_ErrCall  == /\ gpc = "run" /\ cpc = "idle" /\ cpc' = "e.called" /\ errs' = errs + 1
              /\ UNCHANGED << inputVars, gpc, prodVars, cancelled, xpc, res, cur, eres, emitted, lastNext, lastErr, closes, extra, stopBefore >>
C_ErrRead1 == /\ cpc = "e.called"                                                        \* order.go:77-79
              /\ IF perr # "nil" THEN eres' = perr /\ cpc' = "e.ret" ELSE cpc' = "e.read2" /\ UNCHANGED eres
              /\ UNCHANGED << inputVars, gpc, prodVars, cancelled, xpc, res, cur, emitted, lastNext, lastErr, closes, errs, extra, stopBefore >>
C_ErrRead2 == /\ cpc = "e.read2" /\ eres' = (IF cancelled THEN "canceled" ELSE "nil") /\ cpc' = "e.ret"   \* order.go:81
              /\ UNCHANGED << inputVars, gpc, prodVars, cancelled, xpc, res, cur, emitted, lastNext, lastErr, closes, errs, extra, stopBefore >>
C_ErrRet   == /\ cpc = "e.ret" /\ cpc' = "idle" /\ lastErr' = eres
              /\ UNCHANGED << inputVars, gpc, prodVars, cancelled, xpc, res, cur, eres, emitted, lastNext, closes, errs, extra, stopBefore >>

CInternal == C_Pre \/ C_RecvClosed \/ C_RecvDone \/ C_NextRet \/ C_CloseCancel \/ C_CloseRet \/ C_ErrRead1 \/ C_ErrRead2 \/ C_ErrRet

\* the consumer program explored by the model checker: `for o.Next() { }` that may call Close at any point,
\* may look at Err at any point, and makes at most MaxExtra further Next calls after a false result or a Close
MaxExtra == 1
MayNext  == (lastNext # "false" /\ closes = 0) \/ extra < MaxExtra
MayClose == closes < flags.close
MayErr   == errs < flags.err
CCalls == (MayNext /\ C_NextCall) \/ (MayClose /\ C_CloseCall) \/ (MayErr /\ C_ErrCall)
\* a consumer that has not seen the end keeps going (it calls Next again, or Close)
CKeepsGoing == ((lastNext # "false" /\ closes = 0) /\ C_NextCall) \/ (MayClose /\ C_CloseCall)

Gen  == G_AddHist \/ G_Start
Next == Gen \/ PNext \/ Rendezvous \/ X_Cancel \/ CInternal \/ CCalls
Spec == Init /\ [][Next]_vars

\* Reduced next-state relation for the large instances.  P_Top, P_Enter and P_Member read and write only
\* producer-local state (stack, ri, ppc, completed; visited/hist/req/bad are written by nobody else), are
\* never disabled by another process and are invisible to every Judge, so whenever one of them is enabled it
\* is explored alone (ample set = the producer's local step).  ReducedSpec is compared with Spec on the
\* small instances (same invariants, same liveness).
ProducerLocal == ppc \in {"top", "enter", "members"}
NextRed == IF gpc = "run" /\ ProducerLocal THEN PNext ELSE Next
ReducedSpec == Init /\ [][NextRed]_vars

\* Fairness: every goroutine that can take a step eventually does.  The consumer is NOT required to
\* keep calling (FairSpec); FairSpecGoing adds that it does not abandon the iteration half way.
FairSpec      == Spec /\ WF_vars(Gen) /\ WF_vars(PNext) /\ WF_vars(Rendezvous) /\ WF_vars(CInternal) /\ WF_vars(X_Cancel)
FairSpecGoing == FairSpec /\ WF_vars(CKeepsGoing)
FairRed       == ReducedSpec /\ WF_vars(Gen) /\ WF_vars(PNext) /\ WF_vars(Rendezvous) /\ WF_vars(CInternal) /\ WF_vars(X_Cancel)
FairRedGoing  == FairRed /\ WF_vars(CKeepsGoing)

(* ------------------------------------------------------------------------ *)
(* Judges over the Model                                                    *)
(* ------------------------------------------------------------------------ *)
EmittedOnce     == J_EmittedOnce(emitted)
OnlyWithHistory == J_OnlyWithHistory(hist, emitted)
\* (`emitted` only changes in Rendezvous, which leads to cpc = "n.ret" /\ res = "true"; evaluating the graph
\* judge in exactly those states is equivalent to evaluating it everywhere and 3 times cheaper)
ChildrenFirst   == (gpc = "run" /\ cpc = "n.ret" /\ res = "true") => J_ChildrenFirst(hist, emitted)
\* an iteration that ran to its end: Next returned false and nothing stopped it (no Close, no cancel,
\* no datasource failure - the property does not speak about failing datasources)
RanToEnd == lastNext = "false" /\ ~cancelled /\ perr = "nil"
AllRequestedEmitted == RanToEnd => J_AllRequestedEmitted(hist, req, emitted)
\* "Close or context cancellation ends the iteration": a Next call made after Close / cancel returned is false
StopEndsIteration == (cpc = "n.ret" /\ stopBefore) => res = "false"

\* liveness (FairSpec): Close and cancellation end the goroutine without the consumer's help; calls return
CancelEndsGoroutine == cancelled ~> (ppc = "done")
CloseReturns        == (cpc = "c.called") ~> (cpc = "idle")
NextReturns         == (cpc = "n.called") ~> (cpc = "idle")
\* liveness (FairSpecGoing): the iteration terminates on every graph: Next eventually returns false (or the
\* consumer closes) and the goroutine ends
Terminates          == <>(ppc = "done" /\ (lastNext = "false" \/ closes > 0))

(* Model sanity (not part of the property) *)
TypeOK == /\ ppc \in {"top", "enter", "members", "check", "send", "exit", "done"}
          /\ cpc \in {"idle", "n.called", "n.recv", "n.ret", "c.called", "c.wait", "e.called", "e.read2", "e.ret"}
          /\ perr \in {"nil", "canceled", "dserr"} /\ visited \subseteq Ids
          /\ Len(stack) <= N + 1
\* (evaluated where `emitted` / the end of the iteration becomes visible: RunOut is a recursive function)
EmitsPrefixOfRunOut == (gpc = "run" /\ cpc = "n.ret" /\ res = "true") => IsPrefix(emitted, expect.out)
RanToEndEmitsRunOut == (cpc = "n.ret" /\ res = "false" /\ ~cancelled) =>
                          /\ emitted = expect.out
                          /\ (perr = "dserr") = expect.err
ProjectionLemma == (gpc = "run" /\ ppc = "top" /\ ri = 1 /\ cpc = "idle") => expect = RunSt(Proj(hist), bad, req)
CompletedAtEnd == ppc = "done" => (perr = "canceled" \/ completed = CompletedOf(expect))
VisitedIsEmittedOrSending == visited = SeqSet(emitted) \cup (IF ppc = "send" THEN {Top.id} ELSE {})
                             \/ perr = "canceled"
=============================================================================
