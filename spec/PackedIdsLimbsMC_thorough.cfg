CONSTANTS FullVals = TRUE FullPool = TRUE AllPairs = FALSE
INIT Init
NEXT Next
INVARIANTS DecodeBackL OrderL
CHECK_DEADLOCK FALSE
