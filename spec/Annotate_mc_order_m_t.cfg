CONSTANTS
  NK = 3
  MaxV <- V211
  MaxP = 2
  MaxT = 2
  MaxDt = 1
  CsSet = {1}
  ParentCsFree = TRUE
  RefLists <- RefsTriple
  SameTimeParents = TRUE
  RefsMustExist = TRUE
  OptSet <- OptsOrderMixed
  PinnedSort = FALSE
INIT Init
NEXT Next
INVARIANTS TypeOK JudgesHold SortedInv Deterministic PartialInv
CHECK_DEADLOCK FALSE
