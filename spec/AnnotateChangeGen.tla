------------------------- MODULE AnnotateChangeGen -------------------------
(* Writes the abstract cases of C13: the static families followed by the   *)
(* random draws (reproducible through TLC's -seed).                        *)
EXTENDS AnnotateChange, IOUtils
ASSUME ndJsonSerialize(IOEnv.OUT, SetToSeq(StaticCases) \o RandomSeq)
GInit == phase = "gen" /\ inp = 0 /\ pos = 0 /\ acts = 0 /\ res = 0
GNext == UNCHANGED vars
=============================================================================
