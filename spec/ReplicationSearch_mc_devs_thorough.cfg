\* every subset of the pinned tree's deviations: a failing run is explained by the signature (KF_...) of a
\* deviation that is switched on, or by the findBound gap
CONSTANTS
  MaxSeq = 8
  Offsets = {998, 2007989}
  OffN = 4
  LongOffsets = {0}
  LongSizes = {40}
  LongRuns <- RunsQuick
  FullQueries = 41
  PauseSizes = {40}
  DevSets <- AllDevSets
SPECIFICATION MCSpec
INVARIANTS TypeOK KFCoverInv DiffersInv RunAgrees RequestBoundInv
CHECK_DEADLOCK FALSE
