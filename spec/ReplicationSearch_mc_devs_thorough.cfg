\* every subset of the pinned tree's deviations: a failing run is explained by the signature (KF_...) of a
\* deviation that is switched on, or by the findBound gap
CONSTANTS
  MaxSeq = 9
  Offsets = {998, 999997, 2007989}
  OffN = 5
  LongOffsets = {0, 999997}
  LongSizes = {40, 300}
  LongRuns <- RunsQuick
  FullQueries = 301
  DevSets <- AllDevSets
SPECIFICATION MCSpec
INVARIANTS TypeOK KFCoverInv DiffersInv RunAgrees RequestBoundInv
CHECK_DEADLOCK FALSE
