--------------------------- MODULE PbfFormatBigMC ---------------------------
(* Design-level check for PbfFormatBig: on small instances of the same file shapes, for every skip combination,    *)
(* every installed-filter combination and every modular predicate, the compactly computed runs denote exactly      *)
(* PbfFormat!Filtered of the expanded file and (when canonical) are what the recorder's run-length rule produces.  *)
EXTENDS PbfFormatBig
(* ---------------- design level: RunsOf is the specification -------------- *)
VARIABLES mfile, mskip, minst, mmod
MCInit == /\ \E s \in {3, 4} : \E k \in 1 .. 4 : mfile = BigFiles(s)[k]
          /\ mskip \in Bool3B /\ minst \in Bool3B /\ mmod \in Mods
MCNext == UNCHANGED <<mfile, mskip, minst, mmod>>
RunsAreTheSpec ==
  LET runs == RunsOf(mfile, mskip, minst, mmod)   spec == SpecElems(mfile, mskip, minst, mmod) IN
  /\ ExpandRuns(runs) = spec                                  \* always: the runs denote exactly the specified sequence
  /\ (Canonical(runs) => Compress(spec) = runs)               \* and, when canonical, are what the recorder's rule yields
  /\ ExpandRuns(Compress(spec)) = spec                        \* the recorder's rule is lossless
ASSUME \A s \in {3, 4} : \A k \in 1 .. 4 : ValidFile(ExpandFile(BigFiles(s)[k]))
=============================================================================
