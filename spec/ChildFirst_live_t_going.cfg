CONSTANTS
  N = 3
  MaxMem = 1
  MaxReq = 2
  Family = "flat"
  FlagFamily = "stops"
  WithBad = FALSE
  CanonicalReqs = TRUE
  VersionSets <- MCVersions
  ReqLists <- MCReqs
  BadSets <- MCBad
  FlagSets <- MCFlags
SPECIFICATION FairRedGoing
PROPERTIES Terminates
CHECK_DEADLOCK FALSE
