------------------------------ MODULE MC_Pbf ------------------------------
(* Constant definitions for the exhaustive PbfPipeline configurations.     *)
EXTENDS PbfPipeline
D(n) == [k |-> "data", n |-> n]
BAD == [k |-> "bad", n |-> 0]
TYP == [k |-> "type", n |-> 0]
B3 == <<D(2), D(0), D(1)>>
B4 == <<D(1), D(0), D(2), D(1)>>
B5 == <<D(1), D(1), D(0), D(1), D(1)>>
BBad == <<D(1), BAD, D(1)>>
BType == <<D(1), D(1), TYP>>
BBad1 == <<BAD, D(1)>>
CfgX(n, cap, b, e, h, stop, sep, ec, ac, acl, ah, me) ==
  [n |-> n, cap |-> cap, blocks |-> b, endkind |-> e, hdr |-> h, stopOnCancel |-> stop, sepErr |-> sep, eofCtx |-> ec,
   allowCancel |-> ac, allowClose |-> acl, allowHeader |-> ah, maxErr |-> me]
Cfg(n, cap, b, e, h, stop, sep, ac, acl, ah, me) == CfgX(n, cap, b, e, h, stop, sep, TRUE, ac, acl, ah, me)

\* no stop: order / completeness / offsets for many shapes at once
CfgsNoStop == { Cfg(n, cap, b, e, h, TRUE, TRUE, FALSE, FALSE, FALSE, 0) :
                 n \in {1, 2, 3}, cap \in {0, 1, 2}, b \in {B3, BBad, BType, BBad1}, e \in {"eof", "trunc"}, h \in {"ok", "none"} }
              \cup { Cfg(n, 1, B3, "eof", h, TRUE, TRUE, FALSE, FALSE, TRUE, 0) : n \in {1, 2}, h \in {"trunc", "feature", "empty"} }
B6 == <<D(1), D(1), D(0), D(2), D(1), D(1)>>
BBadMid == <<D(1), D(1), BAD, D(1), D(1)>>
BTypeMid == <<D(1), D(2), TYP, D(1)>>
CfgsNoStopBig == { Cfg(n, cap, b, e, h, TRUE, TRUE, FALSE, FALSE, FALSE, 0) :
                 n \in {2, 3, 4}, cap \in {0, 1, 2, 3}, b \in {B4, B5, B6, BBadMid, BTypeMid}, e \in {"eof", "trunc"}, h \in {"ok", "none"} }
\* Close and external cancel at every point, incl. liveness
CfgsStop == { Cfg(n, cap, b, "eof", h, TRUE, TRUE, ac, ~ac, FALSE, 0) : n \in {1, 2}, cap \in {0, 1}, b \in {B3}, h \in {"ok", "none"}, ac \in BOOLEAN }
CfgsStopQ == { Cfg(n, cap, B3, "eof", "ok", TRUE, TRUE, ac, ~ac, FALSE, 0) : n \in {1, 2}, cap \in {0, 1}, ac \in BOOLEAN }
CfgsStopBig == { Cfg(n, cap, b, e, h, TRUE, TRUE, ac, ~ac, FALSE, 0) : n \in {2, 3}, cap \in {0, 1, 2}, b \in {B3, B4, BBad, BType}, e \in {"eof", "trunc"}, h \in {"ok", "none"}, ac \in BOOLEAN }
\* Close and cancel both allowed in one run, Header() calls, header failures
CfgsStopBoth == { Cfg(n, 1, b, "eof", h, TRUE, TRUE, TRUE, TRUE, TRUE, 0) : n \in {1, 2}, b \in {B3, BBad1}, h \in {"ok", "none", "trunc", "feature", "empty"} }
\* history Judge against the Model (no VIEW: hist is part of the state)
CfgsHist == { Cfg(2, 1, b, "eof", "ok", TRUE, TRUE, ac, ~ac, FALSE, 1) : b \in {<<D(1), D(0), D(1)>>, <<D(1), BAD>>}, ac \in BOOLEAN }
            \cup { Cfg(1, 1, <<D(2)>>, "trunc", "none", TRUE, TRUE, ac, ~ac, FALSE, 1) : ac \in BOOLEAN }
CfgsHistBig == { Cfg(n, 1, b, e, h, TRUE, TRUE, ac, ~ac, FALSE, 1) : n \in {1, 2}, b \in {<<D(1), D(0), D(1)>>, <<D(1), BAD>>}, e \in {"eof", "trunc"}, h \in {"ok", "none"}, ac \in BOOLEAN }
\* the pinned deviations, each expected to violate one Judge
CfgsPinnedLoop == { Cfg(2, 1, B4, "eof", "ok", FALSE, TRUE, FALSE, TRUE, FALSE, 0) }
CfgsPinnedEof  == { CfgX(1, 1, <<D(1), D(1)>>, "eof", "ok", TRUE, TRUE, FALSE, TRUE, FALSE, FALSE, 0) }
CfgsPinnedErr  == { CfgX(2, 1, <<D(1), D(0), D(1)>>, "eof", "ok", TRUE, FALSE, FALSE, TRUE, FALSE, FALSE, 0) }

View == << cfg, started, cancelled, parentCancelled, rpc, ri, rpos, rerr, rpair, readsAfterStop,
           inq, inClosed, wpc, wcur, outq, outClosed, spc, sj, scur, tErr,
           serq, serClosed, cpc, cData, cIndex, pOff, cOff, sErr, closed, delivered, lastScan >>
=============================================================================
