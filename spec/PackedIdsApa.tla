----------------------------- MODULE PackedIdsApa -----------------------------
(* C10 - the design-level obligations at the REAL widths (16 version bits,   *)
(* 40 reference bits, 7-bit type field), discharged symbolically by Apalache *)
(* (apalache-mc check --init=Init --next=Next --length=0 --inv=<name>).       *)
(* Each invariant below is one obligation; Init leaves every variable free   *)
(* within its range, so "the invariant holds in every initial state" is the  *)
(* universally quantified statement.  TLC cannot run this module (64-bit).   *)
EXTENDS Integers, PackedIdsLimbs

VARIABLES
  \* @type: Int;
  c1,
  \* @type: Int;
  r1,
  \* @type: Int;
  v1,
  \* @type: Int;
  c2,
  \* @type: Int;
  r2,
  \* @type: Int;
  v2,
  \* @type: Int;
  h2,
  \* @type: Int;
  h1,
  \* @type: Int;
  h0,
  \* @type: <<Int, Int, Int, Int>>;
  x,
  \* @type: <<Int, Int, Int, Int>>;
  y

P == INSTANCE PackedIds WITH VB <- 65536, RB <- 1099511627776

\* @type: (Int, Int) => Bool;
Below(n, bound) == n \in Nat /\ n < bound

Init ==
  /\ c1 \in P!Codes /\ c2 \in P!Codes
  /\ Below(r1, 1099511627776) /\ Below(r2, 1099511627776)
  /\ Below(v1, 65536) /\ Below(v2, 65536)
  /\ Below(h2, 256) /\ Below(h1, L) /\ Below(h0, L)
  /\ \E a1 \in Nat, a2 \in Nat, a3 \in Nat, a4 \in Nat :
        /\ a1 < L /\ a2 < L /\ a3 < L /\ a4 < L /\ x = <<a1, a2, a3, a4>>
  /\ \E b1 \in Nat, b2 \in Nat, b3 \in Nat, b4 \in Nat :
        /\ b1 < L /\ b2 < L /\ b3 < L /\ b4 < L /\ y = <<b1, b2, b3, b4>>

Next == UNCHANGED <<c1, r1, v1, c2, r2, v2, h2, h1, h0, x, y>>

(* ------------------------- obligations over Int ------------------------- *)
RoundTrip == P!RoundTripAt(c1, r1, v1)
Injective == P!InjectiveAt(c1, r1, v1, c2, r2, v2)
OrderIso  == P!OrderIsoAt(c1, r1, v1, c2, r2, v2)
Fits      == P!FitsAt(c1, r1, v1) /\ P!Top = 9223372036854775807 + 1
Feature   == P!FeatureAt(c1, r1, v1) /\ P!FeatureOrderAt(c1, r1, c2, r2)
KindOrder == P!KindOrderIsNodeWayRelation

(* ------------- the limb formulation refines the Int layout -------------- *)
\* packing on limbs denotes the packed integer; every reference has limbs
LimbPack ==
  /\ ValL(PackL(c1, h2, h1, h0, v1)) = P!Pack(c1, RefVal(h2, h1, h0), v1)
  /\ Below(RefVal(h2, h1, h0), 1099511627776)
  /\ LET q2 == r1 \div (L * L)
         q1 == (r1 \div L) % L
         q0 == r1 % L
     IN RefVal(q2, q1, q0) = r1 /\ Below(q2, 256) /\ Below(q1, L) /\ Below(q0, L)

\* decoding on limbs = decoding the integer, for every non-negative 64-bit value
LimbDecode ==
  x[1] < Half =>
    /\ P!Code(ValL(x)) = CodeL(x)
    /\ P!Ref(ValL(x))  = RefVal(Ref2L(x), Ref1L(x), Ref0L(x))
    /\ P!Ver(ValL(x))  = VerL(x)
    /\ ValL(FeatureL(x)) = P!FeatureOf(ValL(x))
    /\ ValL(ElementL(FeatureL(x), v1)) = P!ElementOf(P!FeatureOf(ValL(x)), v1)
    /\ ValL(RefL(x)) = P!Ref(ValL(x))

\* limb order = integer order (unsigned on non-negative values, and the signed variant)
\* @type: (<<Int, Int, Int, Int>>) => Int;
SVal(l) == ValL(<<SignedTop(l[1]), l[2], l[3], l[4]>>)
LimbOrder ==
  /\ (x[1] < Half /\ y[1] < Half) => (LessL(x, y) <=> ValL(x) < ValL(y))
  /\ (x = y) <=> (ValL(x) = ValL(y))
  /\ SLessL(x, y) <=> SVal(x) < SVal(y)
  /\ (x[1] < Half) => SVal(x) = ValL(x)

(* ---- canaries: must be REFUTED by Apalache (guards against a vacuous Init) ---- *)
CanaryMaxUser        == P!Pack(c1, r1, v1) # P!Pack(96, 1099511627775, 65535) \* user/(2^40-1):65535, the largest id
CanaryNoBit39        == P!Pack(c1, r1, v1) # P!Pack(16, 549755813888, 0)    \* node with only reference bit 39 set
=============================================================================
