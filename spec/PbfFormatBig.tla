---------------------------- MODULE PbfFormatBig ----------------------------
(***************************************************************************)
(* Real-size blocks (more than 8 000 elements per block, several groups)   *)
(* for C01 and C08, described and judged compactly.                        *)
(*                                                                         *)
(* A RUN-LENGTH GROUP  [kind |-> "xdense" | "xways" | "xrels", n, step,    *)
(* base, (info, cols, kv for xdense)]  stands for the ordinary group whose *)
(* element i (1..n) is `base` with id, cs, ts advanced by (i-1)*step:      *)
(* ExpandFile(file) is the file it MEANS, and everything PbfFormat says    *)
(* about that file (DecodeFile, Filtered) is the specification.            *)
(*                                                                         *)
(* The recorder reports what the scanner returned losslessly run-length    *)
(* encoded (Compress below is the recorder's rule, pbfrec.Compress).       *)
(* RunsOf(file, skip, inst, accmod) computes, per group and without        *)
(* expanding it, the runs that Compress yields on                          *)
(*   Filtered(ExpandFile(file), skip, inst, positions p with p % m = r).   *)
(* That RunsOf really is Compress(Filtered(ExpandFile ...)) is checked by  *)
(* TLC on small instances of the same shapes (MCInit / RunsAreTheSpec,     *)
(* PbfFormatBig.cfg); Canonical(runs) are the side conditions (every run   *)
(* has >= 2 elements, adjacent runs do not merge) under which it holds and *)
(* which the generator asserts for every large case.                       *)
(***************************************************************************)
EXTENDS PbfFormat

(* ------------------------------ expansion ------------------------------- *)
ElemAt(g, i) == [g.base EXCEPT !.id = @ + (i - 1) * g.step.id, !.cs = @ + (i - 1) * g.step.cs, !.ts = @ + (i - 1) * g.step.ts]
ExpandGroup(g) ==
  CASE g.kind = "xdense" -> [kind |-> "dense", nodes |-> [i \in 1 .. g.n |-> ElemAt(g, i)], info |-> g.info, cols |-> g.cols, kv |-> g.kv]
    [] g.kind = "xways"  -> [kind |-> "ways", ways |-> [i \in 1 .. g.n |-> ElemAt(g, i)]]
    [] g.kind = "xrels"  -> [kind |-> "rels", rels |-> [i \in 1 .. g.n |-> ElemAt(g, i)]]
    [] OTHER             -> g
ExpandBlock(b) == [b EXCEPT !.groups = [k \in 1 .. Len(b.groups) |-> ExpandGroup(b.groups[k])]]
ExpandFile(f)  == [f EXCEPT !.blocks = [b \in 1 .. Len(f.blocks) |-> ExpandBlock(f.blocks[b])]]

(* --------------------- the recorder's run-length rule ------------------- *)
ZeroD == [id |-> 0, lat |-> 0, lon |-> 0, ver |-> 0, cs |-> 0, uid |-> 0, user |-> 0, ts |-> 0]
TsNum(e) == IF Len(e.ts) = 0 THEN 0 ELSE e.ts[1]
LatOf(e) == IF e.t = "node" THEN e.lat ELSE 0
LonOf(e) == IF e.t = "node" THEN e.lon ELSE 0
\* everything that is not one of the numeric fields
Shape(e) == CASE e.t = "node" -> <<e.t, e.vis, e.tags, Len(e.ts), << >> >>
              [] e.t = "way"  -> <<e.t, e.vis, e.tags, Len(e.ts), e.nodes>>
              [] OTHER        -> <<e.t, e.vis, e.tags, Len(e.ts), e.members>>
Diff(a, b) == [id |-> b.id - a.id, lat |-> LatOf(b) - LatOf(a), lon |-> LonOf(b) - LonOf(a), ver |-> b.ver - a.ver,
               cs |-> b.cs - a.cs, uid |-> b.uid - a.uid, user |-> b.user - a.user, ts |-> TsNum(b) - TsNum(a)]
Times(d, k) == [f \in DOMAIN d |-> k * d[f]]
\* e advanced by d
Advance(e, d) ==
  LET c == [e EXCEPT !.id = @ + d.id, !.ver = @ + d.ver, !.cs = @ + d.cs, !.uid = @ + d.uid, !.user = @ + d.user,
                     !.ts = IF Len(@) = 0 THEN @ ELSE <<@[1] + d.ts>>] IN
  IF e.t = "node" THEN [c EXCEPT !.lat = @ + d.lat, !.lon = @ + d.lon] ELSE c
LastOf(run) == Advance(run.first, Times(run.d, run.n - 1))

\* greedy from the left: a run of one element takes any next element of the same shape (that fixes d); a longer run
\* takes the next element iff it has the same shape and differs from the last one by exactly d
Compress(seq) ==
  LET F[i \in 0 .. Len(seq)] ==
        IF i = 0 THEN << >>
        ELSE LET prev == F[i - 1]  e == seq[i] IN
             IF Len(prev) = 0 THEN <<[first |-> e, n |-> 1, d |-> ZeroD]>>
             ELSE LET r == prev[Len(prev)]  last == seq[i - 1] IN
                  IF Shape(e) = Shape(last) /\ (r.n = 1 \/ Diff(last, e) = r.d)
                  THEN [prev EXCEPT ![Len(prev)] = [r EXCEPT !.n = @ + 1, !.d = Diff(last, e)]]
                  ELSE Append(prev, [first |-> e, n |-> 1, d |-> ZeroD])
  IN F[Len(seq)]
ExpandRuns(runs) == Concat([k \in 1 .. Len(runs) |-> [j \in 1 .. runs[k].n |-> Advance(runs[k].first, Times(runs[k].d, j - 1))]])

(* ------------------- expected runs, without expanding ------------------- *)
XType(g) == CASE g.kind = "xdense" -> "node" [] g.kind = "xways" -> "way" [] g.kind = "xrels" -> "relation"
GroupList(file) == Concat([b \in 1 .. Len(file.blocks) |-> [k \in 1 .. Len(file.blocks[b].groups) |-> <<b, k>>]])
GroupAt(file, bk) == file.blocks[bk[1]].groups[bk[2]]
XHas(g, c) == IF g.kind = "xdense" THEN g.info /\ InSeq(c, g.cols) ELSE MetaHas(g.base, c)
\* what advancing the element by `step` does to the decoded element
DStep(blk, g) == [ZeroD EXCEPT !.id = g.step.id,
                               !.cs = IF XHas(g, "changeset") THEN g.step.cs ELSE 0,
                               !.ts = IF XHas(g, "timestamp") THEN DateGranularity(blk) * g.step.ts ELSE 0]
DecodedAt(blk, g, j) == DecodeGroup(blk, ExpandGroup([g EXCEPT !.n = 1, !.base = ElemAt(g, j)]))[1]
\* accmod = <<m, r>>: the predicate accepts position p (file order, 1-based) iff p % m = r
MinOf(S) == CHOOSE x \in S : \A y \in S : x <= y
RunsOf(file, skip, inst, accmod) ==
  LET gs == GroupList(file)
      Off[k \in 0 .. Len(gs)] == IF k = 0 THEN 0 ELSE Off[k - 1] + GroupAt(file, gs[k]).n
      RunOfGroup(k) ==
        LET g == GroupAt(file, gs[k])  blk == file.blocks[gs[k][1]]  ti == TypeIdx(XType(g))  o == Off[k - 1] IN
        IF skip[ti] THEN << >>
        ELSE IF ~inst[ti] THEN <<[first |-> DecodedAt(blk, g, 1), n |-> g.n, d |-> IF g.n = 1 THEN ZeroD ELSE DStep(blk, g)]>>
        ELSE LET S == {j \in 1 .. g.n : (o + j) % accmod[1] = accmod[2]} IN
             IF S = {} THEN << >>
             ELSE <<[first |-> DecodedAt(blk, g, MinOf(S)), n |-> Cardinality(S),
                     d |-> IF Cardinality(S) = 1 THEN ZeroD ELSE Times(DStep(blk, g), accmod[1])]>>
  IN Concat([k \in 1 .. Len(gs) |-> RunOfGroup(k)])

\* side conditions under which the per-group runs are exactly what Compress produces
Canonical(runs) ==
  /\ \A k \in 1 .. Len(runs) : runs[k].n >= 2
  /\ \A k \in 1 .. Len(runs) - 1 :
        ~(Shape(LastOf(runs[k])) = Shape(runs[k + 1].first) /\ Diff(LastOf(runs[k]), runs[k + 1].first) = runs[k].d)

AcceptPositions(file, accmod) ==
  LET total == Len(DecodeFile(ExpandFile(file)))
      F[p \in 0 .. total] == IF p = 0 THEN << >> ELSE IF p % accmod[1] = accmod[2] THEN Append(F[p - 1], p) ELSE F[p - 1] IN F[total]
\* the specification of a large case, spelled out (only evaluated on small instances)
SpecElems(file, skip, inst, accmod) == Filtered(ExpandFile(file), skip, inst, AcceptPositions(file, accmod))

(* --------------------------------- Judges ------------------------------- *)
NoSkip3 == <<FALSE, FALSE, FALSE>>
AllMod  == <<1, 0>>
\* C01 on a large file: the recorded runs are the runs of DecodeFile(ExpandFile(file)); header as usual
BigRunOK(file, run) ==
  /\ run.err = "" /\ run.herr = ""
  /\ run.elems = RunsOf(file, NoSkip3, NoSkip3, AllMod)
  /\ HeaderOK(file, run)
\* C08 on a large file
BigFilteredRunOK(c, run) ==
  /\ run.err = ""
  /\ run.elems = RunsOf(c.file, c.skip, c.inst, c.accmod)
  /\ NoneMutated(run)
BigWhy(exp, run) ==
  IF run.err # "" THEN <<"error", run.procs, run.err, "reader", run.reader>>
  ELSE IF run.elems # exp
       THEN LET i == FirstDiff(exp, run.elems) IN
            <<"run", i, "procs", run.procs, "reader", run.reader, "expected", IF i <= Len(exp) THEN <<exp[i]>> ELSE << >>,
              "got", IF i <= Len(run.elems) THEN <<run.elems[i]>> ELSE << >> >>
       ELSE <<"header / mutated", run.procs>>

(* ------------------------------- the cases ------------------------------ *)
BigHeader == [bbox |-> << >>, req |-> <<"OsmSchema-V0.6", "DenseNodes">>, opt |-> << >>, prog |-> <<2>>, src |-> << >>,
              rts |-> << >>, rseq |-> << >>, rurl |-> << >>, zlib |-> TRUE, rev |-> FALSE, bh |-> 5]
BigSt == <<0, 3, 4, 5, 6, 2>>
Step1 == [id |-> 1, cs |-> 1, ts |-> 1]
XDense(b, g, n, cols, kv) ==
  [kind |-> "xdense", n |-> n, step |-> Step1, info |-> TRUE, cols |-> cols, kv |-> kv,
   base |-> [id |-> 1000000 * b + 100000 * g + 1, lat |-> 10 * b + g, lon |-> -(20 * b + g), ver |-> b + g, ts |-> 100 * g, cs |-> 1000 * g,
             uid |-> 7 + g, usid |-> 1 + (g % 4), vis |-> (g % 2 = 1), tags |-> IF g % 2 = 1 THEN << <<2, 3>> >> ELSE << >>]]
XWays(b, g, n) ==
  [kind |-> "xways", n |-> n, step |-> Step1,
   base |-> [id |-> 1000000 * b + 100000 * g + 1, tags |-> << <<1, 5>> >>, info |-> TRUE, fields |-> <<"version", "timestamp", "changeset">>,
             ver |-> 3, ts |-> 50, cs |-> 700, uid |-> 0, usid |-> 0, vis |-> TRUE,
             refs |-> <<11, 5, 17>>, loc |-> "none", lats |-> << >>, lons |-> << >>, ee |-> FALSE]]
XRels(b, g, n) ==
  [kind |-> "xrels", n |-> n, step |-> Step1,
   base |-> [id |-> 1000000 * b + 100000 * g + 1, tags |-> << >>, info |-> TRUE, fields |-> <<"changeset", "user_sid">>,
             ver |-> 0, ts |-> 0, cs |-> 900, uid |-> 0, usid |-> 4, vis |-> TRUE,
             mems |-> << <<1, 9, 2>>, <<0, 4, 0>> >>, ee |-> FALSE]]
\* date_granularity 1 keeps the (linearly rendered) timestamps of 9 000 consecutive elements in range
BigBlock(b, zlib, groups) == [gran |-> << >>, latoff |-> << >>, lonoff |-> << >>, dgran |-> <<1>>, zlib |-> zlib, rev |-> FALSE, bh |-> 1 + b, st |-> BigSt, groups |-> groups]
AllCols6 == <<"version", "timestamp", "changeset", "uid", "user_sid", "visible">>
\* sizes: s = 1 gives the real-size files (> 8 000 elements per block), small s the same shapes for the design-level check
BigFiles(s) ==
  LET N(x) == IF s = 1 THEN x ELSE 2 + (x % s) IN
  << [header |-> BigHeader, blocks |-> << BigBlock(1, TRUE, <<XWays(1, 1, N(60)), XDense(1, 2, N(5000), AllCols6, TRUE), XDense(1, 3, N(4000), <<"changeset">>, FALSE)>>) >>],
     [header |-> BigHeader, blocks |-> << BigBlock(1, FALSE, <<XDense(1, 1, N(5000), <<"version", "timestamp">>, TRUE), XWays(1, 2, N(60)), XDense(1, 3, N(4000), AllCols6, FALSE)>>) >>],
     [header |-> BigHeader, blocks |-> << BigBlock(1, TRUE, <<XRels(1, 1, N(50)), XDense(1, 2, N(8100), <<"changeset", "visible">>, TRUE)>>) >>],
     [header |-> BigHeader, blocks |-> << BigBlock(1, TRUE, <<XDense(1, 1, N(5000), AllCols6, FALSE), XDense(1, 2, N(4000), AllCols6, TRUE)>>),
                                          BigBlock(2, TRUE, <<XWays(2, 1, N(100)), XRels(2, 2, N(30)), XDense(2, 3, N(8000), <<"timestamp">>, TRUE)>>) >>] >>
Bool3B == {<<a, b, c>> : a \in BOOLEAN, b \in BOOLEAN, c \in BOOLEAN}
Mods == {<<1, 0>>, <<1, 1>>, <<2, 0>>, <<2, 1>>, <<3, 0>>}
BigCase(file, procs) == [fam |-> "big", rle |-> TRUE, procs |-> procs, file |-> file]
BigFCase(file, skip, inst, accmod, procs) == [rle |-> TRUE, file |-> file, skip |-> skip, inst |-> inst, accmod |-> accmod, accept |-> << >>, procs |-> procs]
BigC01Cases(full) == LET F == BigFiles(1) IN {BigCase(F[k], IF full THEN <<1, 2, 3>> ELSE <<1 + (k % 2)>>) : k \in 1 .. Len(F)}
BigC08Cases(full) ==
  LET F == BigFiles(1)   AllI == <<TRUE, TRUE, TRUE>> IN
  {BigFCase(F[k], sk, i, m, <<1 + ((k + m[1]) % 3)>>)
     : k \in 1 .. Len(F), sk \in Bool3B,
       i \in (IF full THEN Bool3B ELSE {AllI, NoSkip3}),
       m \in (IF full THEN Mods ELSE {<<2, 1>>, <<3, 0>>})}
\* a case is kept only if its expected runs are canonical (e.g. "reject all" leaves no run: trivially canonical)
CanonicalCase(c) == Canonical(IF "skip" \in DOMAIN c THEN RunsOf(c.file, c.skip, c.inst, c.accmod) ELSE RunsOf(c.file, NoSkip3, NoSkip3, AllMod))

=============================================================================
