---------------------------- MODULE ChildFirstMC ----------------------------
(* Model-checking instances of ChildFirst: definitions of the input families. *)
EXTENDS ChildFirst

CONSTANTS MaxMem,      \* members per version (single-version family)
          MaxReq,      \* request list length
          Family       \* "flat" | "versions" | "mixed" | "mixed1"

Rel   == Ids
Other == {0 - i : i \in Ids}
Mem(k, S) == UNION {[1 .. j -> S] : j \in 0 .. k}

NoHistory == << >>
\* one version, relation members only
Flat1 == {<<m>> : m \in Mem(MaxMem, Rel)}
\* two versions with (possibly) different members, each at most one member, relation or not
Two   == {<<m1, m2>> : m1 \in Mem(1, Rel \cup Other), m2 \in Mem(1, Rel \cup Other)}
\* one version mixing relation and non-relation members
Mixed == {<<m>> : m \in Mem(MaxMem, Rel \cup Other)}

MCVersions == {NoHistory} \cup
              (CASE Family = "flat"     -> Flat1
                 [] Family = "versions" -> Flat1 \cup Two
                 [] Family = "mixed"    -> Mixed \cup Two
                 [] Family = "mixed1"   -> {<<m>> : m \in Mem(1, Rel \cup Other)} \cup {<<m1, m2>> : m1 \in Mem(1, Rel), m2 \in Mem(1, Rel)})
Fl(c, x, e, sd) == [close |-> c, cancel |-> x, err |-> e, senddone |-> sd]
CONSTANTS FlagFamily, WithBad
MCFlags == CASE FlagFamily = "plain"   -> {Fl(0, FALSE, 0, TRUE)}                    \* undisturbed iteration
             [] FlagFamily = "stops"   -> {Fl(1, TRUE, 0, TRUE)}                     \* Close and cancel at any point
             [] FlagFamily = "all"     -> {Fl(2, TRUE, 1, TRUE)}                     \* + a second Close, an Err call
             [] FlagFamily = "nodone"  -> {Fl(1, TRUE, 0, FALSE)}                    \* deviation: send without ctx.Done
MCBad == IF WithBad THEN {{}} \cup {{i} : i \in Ids} ELSE {{}}
AllReqs == UNION {[1 .. k -> Ids] : k \in 0 .. MaxReq}
\* The Model uses ids only through equality, so every (graph, request list) is isomorphic to one whose
\* requested ids are numbered in order of first occurrence.  Graphs range over ALL labelled graphs, so with
\* CanonicalReqs the pairs still cover every isomorphism class (4.4 times fewer cases for N = 3).
Canonical(r) == \A i \in 1 .. Len(r) : r[i] <= 1 + Cardinality({r[j] : j \in 1 .. i - 1})
CONSTANT CanonicalReqs
MCReqs == IF CanonicalReqs THEN {r \in AllReqs : Canonical(r)} ELSE AllReqs
=============================================================================
