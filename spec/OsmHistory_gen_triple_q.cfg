CONSTANTS
  NK = 3
  MaxV <- V211
  MaxP = 2
  MaxT = 2
  MaxDt = 1
  CsSet = {1}
  ParentCsFree = TRUE
  RefLists <- RefsTriple
  SameTimeParents = TRUE
  RefsMustExist = TRUE
  GenOpts <- OptsOrder
  SampleMod = 1
INIT HInit
NEXT HNext
INVARIANTS HistoryOK GenInv
CHECK_DEADLOCK FALSE
