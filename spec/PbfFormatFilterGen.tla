------------------------ MODULE PbfFormatFilterGen ------------------------
(* C08 case generation: files x skip flags x installed filters x predicates x decoder counts. *)
EXTENDS PbfFormatSpace, IOUtils, Json, SequencesExt
CONSTANTS Full, Seed
Cases == FilterCases(Full, Seed)
ASSUME \A c \in Cases : ValidFile(c.file)
ASSUME ndJsonSerialize(IOEnv.OUT, SetToSeq(Cases))
ASSUME PrintT(<<"GENERATED", Cardinality(Cases)>>)
VARIABLE v
GInit == v = 0
GNext == UNCHANGED v
=============================================================================
