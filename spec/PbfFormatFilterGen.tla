------------------------ MODULE PbfFormatFilterGen ------------------------
(* C08 case generation: files x skip flags x installed filters x predicates x decoder counts. *)
EXTENDS PbfFormatSpace, IOUtils, Json, SequencesExt
CONSTANTS Full, Seed
Cases == FilterCases(Full, Seed)
\* (cs is bound once: TLC would rebuild the defined set at every reference)
ASSUME \E cs \in {SetToSeq(Cases)} :
          /\ \A i \in 1 .. Len(cs) : ValidFile(cs[i].file)
          /\ ndJsonSerialize(IOEnv.OUT, cs)
          /\ PrintT(<<"GENERATED", Len(cs)>>)
VARIABLE v
GInit == v = 0
GNext == UNCHANGED v
=============================================================================
