--------------------------- MODULE PackedIdsLimbsMC ---------------------------
(* Design-level check at the TRUE widths on limbs: for every boundary value   *)
(* case a the limb decoders invert PackL, and for every ordered pair (a, b)   *)
(* (a from the pool, or from all value cases when AllPairs) the limb order is *)
(* the (kind, reference, version) order.  (Apalache proves the same for all   *)
(* values via PackedIdsApa!LimbDecode / LimbOrder; this run exercises the     *)
(* very operators and case sets the Judge uses.)                              *)
EXTENDS PackedIdsSpace
CONSTANTS FullVals, FullPool, AllPairs
VARIABLES a, b, phase
Init == a \in ValCases(FullVals) /\ b = a /\ phase = 0
Next == phase = 0 /\ (AllPairs \/ a \in PairPool(FullPool)) /\ phase' = 1 /\ b' \in PairPool(FullPool) /\ UNCHANGED a

CodeRankAgrees == \A k1, k2 \in ElementKinds : (KindRank[k1] < KindRank[k2]) <=> (KindCode[k1] < KindCode[k2])

DecodeBackL ==
  LET id == ObjL(a) IN
  /\ CodeL(id) = KindCode[a.kind] /\ RefL(id) = Ref4(a) /\ VerL(id) = VerOf(a)
  /\ id[1] < Half
  /\ CodeL(FeatL(a)) = KindCode[a.kind] /\ RefL(FeatL(a)) = Ref4(a) /\ VerL(FeatL(a)) = 0
  /\ ElementL(FeatL(a), VerOf(a)) = id

OrderL ==
  /\ (ObjL(a) = ObjL(b)) <=> SameId(a, b)
  /\ Comparable(a, b) => /\ LessL(ObjL(a), ObjL(b)) <=> LexLessCase(a, b)
                         /\ SLessL(ObjL(a), ObjL(b)) <=> LexLessCase(a, b)
                         /\ LessL(FeatL(a), FeatL(b)) <=> FeatLessCase(a, b)
  \* for the remaining kinds the layout order is the type-field order
  /\ a.kind # b.kind => (LessL(ObjL(a), ObjL(b)) <=> KindCode[a.kind] < KindCode[b.kind])
  /\ CodeRankAgrees
=============================================================================
