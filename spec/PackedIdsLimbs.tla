---------------------------- MODULE PackedIdsLimbs ----------------------------
(* C10 - the same layout on four 16-bit limbs.                               *)
(*                                                                            *)
(* TLC integers are 32-bit, real identifiers are 64-bit.  A 64-bit value is   *)
(* therefore written <<l3, l2, l1, l0>> (most significant limb first, each in *)
(* [0, 65536)), a reference in [0, 2^40) as r2 (8 bits), r1, r0 (16 bits).    *)
(* With the real widths the fields fall on limb boundaries:                   *)
(*     l3 = type field * 256 + r2      l2 = r1      l1 = r0      l0 = version *)
(* This module is pure limb arithmetic, executable by TLC at the true widths  *)
(* (used by the Judge on values recorded from the real code) and typed for    *)
(* Apalache, which proves it equivalent to PackedIds over Int                 *)
(* (PackedIdsApa: LimbPack, LimbDecode, LimbOrder).                           *)
EXTENDS Integers

L    == 65536
Half == 32768      \* top limb >= Half <=> the int64 is negative

\* @type: (Int, Int, Int, Int, Int) => <<Int, Int, Int, Int>>;
PackL(c, r2, r1, r0, v) == <<c * 256 + r2, r1, r0, v>>

\* @type: (<<Int, Int, Int, Int>>) => Int;
CodeL(l) == l[1] \div 256
\* @type: (<<Int, Int, Int, Int>>) => Int;
Ref2L(l) == l[1] % 256
\* @type: (<<Int, Int, Int, Int>>) => Int;
Ref1L(l) == l[2]
\* @type: (<<Int, Int, Int, Int>>) => Int;
Ref0L(l) == l[3]
\* @type: (<<Int, Int, Int, Int>>) => Int;
VerL(l)  == l[4]

\* the reference as a 64-bit value in limbs (what Ref() returns)
\* @type: (<<Int, Int, Int, Int>>) => <<Int, Int, Int, Int>>;
RefL(l) == <<0, Ref2L(l), Ref1L(l), Ref0L(l)>>

\* @type: (<<Int, Int, Int, Int>>) => <<Int, Int, Int, Int>>;
FeatureL(l) == <<l[1], l[2], l[3], 0>>
\* @type: (<<Int, Int, Int, Int>>, Int) => <<Int, Int, Int, Int>>;
ElementL(f, v) == <<f[1], f[2], f[3], v>>

\* integer order of non-negative 64-bit values = lexicographic order of limbs
\* @type: (<<Int, Int, Int, Int>>, <<Int, Int, Int, Int>>) => Bool;
LessL(a, b) ==
  \/ a[1] < b[1]
  \/ a[1] = b[1] /\ a[2] < b[2]
  \/ a[1] = b[1] /\ a[2] = b[2] /\ a[3] < b[3]
  \/ a[1] = b[1] /\ a[2] = b[2] /\ a[3] = b[3] /\ a[4] < b[4]

\* signed (int64) order for arbitrary limb values, used on recorded values that
\* may be garbage: the top limb counts as two's complement
\* @type: (Int) => Int;
SignedTop(x) == IF x >= Half THEN x - L ELSE x
\* @type: (<<Int, Int, Int, Int>>, <<Int, Int, Int, Int>>) => Bool;
SLessL(a, b) == LessL(<<SignedTop(a[1]) + Half, a[2], a[3], a[4]>>, <<SignedTop(b[1]) + Half, b[2], b[3], b[4]>>)

\* the integer a limb vector denotes (only Apalache can evaluate this)
\* @type: (<<Int, Int, Int, Int>>) => Int;
ValL(l) == ((l[1] * L + l[2]) * L + l[3]) * L + l[4]
\* @type: (Int, Int, Int) => Int;
RefVal(r2, r1, r0) == (r2 * L + r1) * L + r0

\* limbs of a small non-negative integer (< 2^31, TLC-evaluable)
\* @type: (Int) => <<Int, Int, Int>>;
SmallRefLimbs(n) == <<0, n \div L, n % L>>
=============================================================================
