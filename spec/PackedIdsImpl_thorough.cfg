\* scaled widths: 3 version bits, 5 reference bits (865 triples, all ordered pairs)
CONSTANTS VBits = 3 RBits = 5 VB = 8 RB = 32
INIT Init
NEXT Next
INVARIANTS ImplIsPack DecodeBack Fits Injective OrderIso
CHECK_DEADLOCK FALSE
