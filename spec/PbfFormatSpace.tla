-------------------------- MODULE PbfFormatSpace --------------------------
(***************************************************************************)
(* The input space of C01 / C08: abstract PBF files built from "shapes"    *)
(* (which optional parts are present where) by a fixed value assignment in *)
(* which every element of every block carries different values, so that a  *)
(* value inherited from an earlier block / element is visible.             *)
(* Family(fam, full, seed) is the set of cases of family `fam`             *)
(* (= FamBuild over FamShapes); full = FALSE: covering subsets (quick      *)
(* tier), TRUE: full products.                                             *)
(***************************************************************************)
EXTENDS PbfFormat

AllCols == <<"version", "timestamp", "changeset", "uid", "user_sid", "visible">>
ColSet  == {AllCols[i] : i \in 1 .. 6}
ColSeq(S) == SelectSeq(AllCols, LAMBDA c : c \in S)

(* ---------------------------- value assignment -------------------------- *)
\* string table of block b: index 0 blank, six pool symbols rotated with b, and the empty string again at index 7
NStr == 7
St(b) == <<0>> \o [i \in 1 .. 6 |-> ((i + 2 * b) % 9) + 1] \o <<0>>
P6 == <<3, 1, 4, 2, 6, 5>>
Sgn(i) == IF i % 3 = 0 THEN -1 ELSE 1
SIdx(x) == (x % NStr) + 1
\* every third tag has string-table index 0 as its VALUE (the reserved blank entry: an empty value such as note=""; in
\* keys_vals only a KEY index 0 is the delimiter)
TagList(n, b, i) == [j \in 1 .. n |-> <<SIdx(b + i + j), IF (b + i + j) % 3 = 0 THEN 0 ELSE SIdx(b + 2 * i + 3 * j)>>]

NodeAt(b, g, i, ntags) ==
  [id  |-> Sgn(i) * (100 * b + 10 * g + P6[i]),
   lat |-> ((7 * b + 3 * g + 11 * i) % 89) - 44,
   lon |-> ((5 * b + 13 * g + 17 * i) % 179) - 89,
   ver |-> b + i, ts |-> 10 * b + g + ((7 * i) % 5), cs |-> 20 * b + g + ((3 * i) % 4),
   uid |-> 3 * b + ((2 * i) % 3), usid |-> SIdx(b + g + i), vis |-> ((b + i) % 2 = 0),
   tags |-> TagList(ntags, b, i)]

\* o = [tc, info, fields (a set), nrefs, loc, ee]
WayAt(b, g, i, o) ==
  [id |-> Sgn(i + 1) * (100 * b + 10 * g + P6[i]), tags |-> TagList(o.tc, b, i + 1),
   info |-> o.info, fields |-> ColSeq(o.fields),
   ver |-> b + i + 1, ts |-> 11 * b + g + ((3 * i) % 5), cs |-> 21 * b + g + i,
   uid |-> 4 * b + i, usid |-> SIdx(b + 2 * g + i), vis |-> ((b + i) % 2 = 1),
   refs |-> [j \in 1 .. o.nrefs |-> 50 * b + ((7 * j + i) % 11)],
   loc  |-> o.loc,
   lats |-> IF o.loc \in {"both", "lat"} THEN [j \in 1 .. o.nrefs |-> ((3 * b + 5 * i + 7 * j) % 89) - 44] ELSE << >>,
   lons |-> IF o.loc \in {"both", "lon"} THEN [j \in 1 .. o.nrefs |-> ((5 * b + 3 * i + 11 * j) % 179) - 89] ELSE << >>,
   ee   |-> o.ee]

\* o = [tc, info, fields, nm, ee]
RelAt(b, g, i, o) ==
  [id |-> Sgn(i + 2) * (100 * b + 10 * g + P6[i]), tags |-> TagList(o.tc, b, i + 2),
   info |-> o.info, fields |-> ColSeq(o.fields),
   ver |-> b + i + 2, ts |-> 12 * b + g + ((4 * i) % 5), cs |-> 22 * b + g + i,
   uid |-> 5 * b + i, usid |-> SIdx(b + 3 * g + i), vis |-> ((b + i) % 2 = 0),
   mems |-> [j \in 1 .. o.nm |-> <<(j + i) % 3, 60 * b + ((5 * j + i) % 7), SIdx(b + j)>>],
   ee   |-> o.ee]

\* ch = [info, cols (a set), kv];  tcs = tag counts of the nodes
DenseG(b, g, ch, tcs) == [kind |-> "dense", nodes |-> [i \in 1 .. Len(tcs) |-> NodeAt(b, g, i, tcs[i])],
                          info |-> ch.info, cols |-> ColSeq(ch.cols), kv |-> ch.kv]
WaysG(b, g, os)  == [kind |-> "ways", ways |-> [i \in 1 .. Len(os) |-> WayAt(b, g, i, os[i])]]
RelsG(b, g, os)  == [kind |-> "rels", rels |-> [i \in 1 .. Len(os) |-> RelAt(b, g, i, os[i])]]
EmptyG == [kind |-> "empty"]

Grans  == {<< >>, <<1>>, <<1000>>}
LatOs  == {<< >>, <<7>>, <<-13>>}
LonOs  == {<< >>, <<-5>>, <<11>>}
DGrans == {<< >>, <<1>>, <<2500>>}
ParamSets == [gran : Grans, latoff : LatOs, lonoff : LonOs, dgran : DGrans]        \* 81
DefaultParams == [gran |-> << >>, latoff |-> << >>, lonoff |-> << >>, dgran |-> << >>]
ParamList == <<DefaultParams,
               [gran |-> <<1>>, latoff |-> <<7>>, lonoff |-> << >>, dgran |-> <<2500>>],
               [gran |-> <<1000>>, latoff |-> << >>, lonoff |-> <<11>>, dgran |-> <<1>>],
               [gran |-> << >>, latoff |-> <<-13>>, lonoff |-> <<-5>>, dgran |-> << >>],
               [gran |-> <<1000>>, latoff |-> <<7>>, lonoff |-> <<-5>>, dgran |-> <<2500>>]>>
SeedParams(seed) == ParamList[(seed % 5) + 1]

\* bh: which optional parts the BlobHeader of the file block carries (0 none, 1-3 indexdata of several lengths / contents,
\* 4 unknown fields, 5 both) - like zlib and rev a layout choice of the writer, irrelevant for the content
BHOf(b, zlib, rev) == (b + (IF zlib THEN 2 ELSE 0) + (IF rev THEN 3 ELSE 0)) % 6
Block(b, p, zlib, rev, groups) ==
  [gran |-> p.gran, latoff |-> p.latoff, lonoff |-> p.lonoff, dgran |-> p.dgran,
   zlib |-> zlib, rev |-> rev, bh |-> BHOf(b, zlib, rev), st |-> St(b), groups |-> groups]

DefaultHeader == [bbox |-> << >>, req |-> <<"OsmSchema-V0.6", "DenseNodes">>, opt |-> << >>, prog |-> << >>, src |-> << >>,
                  rts |-> << >>, rseq |-> << >>, rurl |-> << >>, zlib |-> TRUE, rev |-> FALSE, bh |-> 0]
File(h, blocks) == [header |-> h, blocks |-> blocks]
Case(fam, procs, file) == [fam |-> fam, procs |-> procs, file |-> file]

(* --------------------------- presence lattices -------------------------- *)
DenseChoices == {[info |-> FALSE, cols |-> {}, kv |-> k] : k \in BOOLEAN}
           \cup {[info |-> TRUE, cols |-> c, kv |-> k] : c \in SUBSET ColSet, k \in BOOLEAN}        \* 130
EdgeCols == {{}, ColSet} \cup {{c} : c \in ColSet} \cup {ColSet \ {c} : c \in ColSet}              \* 14
DenseEdge == {[info |-> FALSE, cols |-> {}, kv |-> k] : k \in BOOLEAN}
        \cup {[info |-> TRUE, cols |-> c, kv |-> k] : c \in EdgeCols, k \in BOOLEAN}                \* 30
DenseEdgeB == {[info |-> FALSE, cols |-> {}, kv |-> k] : k \in BOOLEAN}
         \cup {[info |-> TRUE, cols |-> c, kv |-> FALSE] : c \in EdgeCols}
         \cup {[info |-> TRUE, cols |-> ColSet, kv |-> TRUE]}                                       \* 17
DenseEdgeC == {[info |-> FALSE, cols |-> {}, kv |-> k] : k \in BOOLEAN}
         \cup {[info |-> TRUE, cols |-> c, kv |-> FALSE] : c \in {{}, ColSet} \cup {ColSet \ {c} : c \in ColSet}}
         \cup {[info |-> TRUE, cols |-> ColSet, kv |-> TRUE]}                                       \* 11
InfoChoices == {[info |-> FALSE, fields |-> {}]} \cup {[info |-> TRUE, fields |-> c] : c \in SUBSET ColSet}   \* 65
InfoEdge    == {[info |-> FALSE, fields |-> {}]} \cup {[info |-> TRUE, fields |-> c] : c \in EdgeCols}        \* 15

T3 == <<1, 0, 2>>

(* -------------------------------- families ------------------------------ *)
(* A family is a set of small SHAPES (FamShapes) and a builder (FamBuild) from a shape to a case.  TLC enumerates   *)
(* the shapes (cheap to normalise) and builds one file per shape; it never has to sort a set of whole files.        *)
WayO(ic, tc, nrefs, loc, ee) == [tc |-> tc, info |-> ic.info, fields |-> ic.fields, nrefs |-> nrefs, loc |-> loc, ee |-> ee]
RelO(ic, tc, nm, ee)         == [tc |-> tc, info |-> ic.info, fields |-> ic.fields, nm |-> nm, ee |-> ee]
AllInfo == [info |-> TRUE, fields |-> ColSet]
NoInfo  == [info |-> FALSE, fields |-> {}]
InfoPairs(full) == IF full THEN InfoChoices \X InfoChoices
                   ELSE (InfoEdge \X {NoInfo, [info |-> TRUE, fields |-> {}], AllInfo}) \cup ({AllInfo} \X InfoEdge)
Layouts == {"group", "groups", "blocks"}
TwoIn(layout, P, z, mk(_, _, _), a, b) ==
  CASE layout = "group"  -> << Block(1, P, z, FALSE, <<mk(1, 1, <<a, b>>)>>) >>
    [] layout = "groups" -> << Block(1, P, z, TRUE, <<mk(1, 1, <<a>>), mk(1, 2, <<b>>)>>) >>
    [] layout = "blocks" -> << Block(1, P, z, FALSE, <<mk(1, 1, <<a>>)>>), Block(2, P, ~z, FALSE, <<mk(2, 1, <<b>>)>>) >>
WayBodies == {WayO(ic, tc, nr, loc, ee) : ic \in {AllInfo, NoInfo}, tc \in {0, 1, 3}, nr \in {0, 1, 4}, loc \in {"none", "both", "lat", "lon"}, ee \in BOOLEAN}  \* 144
RelBodies == {RelO(ic, tc, nm, ee) : ic \in {AllInfo, NoInfo}, tc \in {0, 2}, nm \in {0, 1, 3}, ee \in BOOLEAN}   \* 24
MixedGroups(b) == << DenseG(b, 1, [info |-> TRUE, cols |-> ColSet, kv |-> TRUE], T3),
                     WaysG(b, 2, <<WayO(AllInfo, 1, 3, "both", FALSE), WayO(AllInfo, 0, 2, "lat", FALSE)>>),
                     RelsG(b, 3, <<RelO(AllInfo, 1, 2, FALSE)>>) >>
GroupOf(kind, b, g) ==
  CASE kind = "dense" -> DenseG(b, g, [info |-> TRUE, cols |-> {"version", "user_sid", "visible"}, kv |-> (g % 2 = 1)], <<1, 2>>)
    [] kind = "ways"  -> WaysG(b, g, <<WayO([info |-> TRUE, fields |-> {"timestamp", "uid"}], 1, 2, "none", FALSE), WayO(NoInfo, 0, 0, "none", FALSE)>>)
    [] kind = "rels"  -> RelsG(b, g, <<RelO([info |-> TRUE, fields |-> {"changeset", "visible"}], 0, 2, FALSE)>>)
    [] OTHER          -> EmptyG
Kinds == {"dense", "ways", "rels", "empty"}
KindSeqs(maxg) == UNION {[1 .. n -> Kinds] : n \in 0 .. maxg}          \* 5, 21, 85 group sequences for maxg = 1, 2, 3

\* files that are NOT sorted by type (the format does not ask for it) with more blocks than the decoding pipeline can
\* hold in flight (about 10 + 2 * procs): ways / relations before and between many small node blocks
NUnsorted == 45
UnsortedBlockKinds(k) ==
  CASE k = 1 -> [i \in 1 .. NUnsorted |-> IF i = 1 THEN "ways" ELSE "dense"]
    [] k = 2 -> [i \in 1 .. NUnsorted |-> IF i = 2 THEN "rels" ELSE "dense"]
    [] k = 3 -> [i \in 1 .. NUnsorted |-> IF i = 1 THEN "mixed" ELSE "dense"]
    [] k = 4 -> [i \in 1 .. NUnsorted |-> IF i % 4 = 2 THEN "ways" ELSE IF i % 4 = 0 THEN "rels" ELSE "dense"]
    [] k = 5 -> [i \in 1 .. NUnsorted |-> IF i \in {1, 2, 3} THEN "rels" ELSE IF i \in {4, 5} THEN "ways" ELSE "dense"]
UnsortedBlock(b, kind, seed) ==
  LET d(g) == DenseG(b, g, [info |-> TRUE, cols |-> {"version", "changeset"}, kv |-> TRUE], <<1, 0>>)
      w(g) == WaysG(b, g, <<WayO([info |-> TRUE, fields |-> {"changeset", "uid"}], 1, 2, "none", FALSE)>>)
      r(g) == RelsG(b, g, <<RelO(NoInfo, 0, 1, FALSE)>>) IN
  Block(b, DefaultParams, (b + seed) % 3 # 0, FALSE,
        CASE kind = "dense" -> <<d(1)>> [] kind = "ways" -> <<w(1)>> [] kind = "rels" -> <<r(1)>> [] kind = "mixed" -> <<d(1), w(2), d(3)>>)
UnsortedFile(k, seed) == File(DefaultHeader, [b \in 1 .. NUnsorted |-> UnsortedBlock(b, UnsortedBlockKinds(k)[b], seed)])

FamShapes(fam, full, seed) ==
  CASE \* two consecutive dense blocks on the same decoder: (A, B) over the DenseInfo-column / keys_vals lattice;
       \* quick: every A against every "edge" B (nothing / one column / all but one / all)
       fam = "densepair"   -> IF full THEN DenseChoices \X DenseChoices ELSE DenseChoices \X DenseEdgeB
       \* the same inside one block: two consecutive dense groups (same cached iterators whatever the decoder count)
    [] fam = "densegroups" -> IF full THEN DenseChoices \X DenseChoices ELSE DenseEdgeB \X DenseEdgeB
       \* A and B on the same decoder of 2 resp. 3: filler blocks in between
    [] fam = "spaced"      -> LET S == IF full THEN DenseEdge ELSE DenseEdgeC IN {<<n, ab[1], ab[2]>> : n \in {2, 3}, ab \in S \X S}
       \* consecutive ways / relations over the Info-field lattice, in one group, two groups, two blocks; the two elements
       \* also differ in their other optional parts (variant 1: rich then poor, variant 2: poor-ish then rich)
    [] fam \in {"waypair", "relpair"} ->
         {<<1, ab[1], ab[2], l>> : ab \in InfoPairs(full), l \in Layouts} \cup {<<2, ab[1], ab[2], l>> : ab \in InfoPairs(FALSE), l \in Layouts}
       \* bodies: tags / refs / locations / members present or not, empty ways and relations, explicit empty fields
    [] fam = "bodies"      ->
         LET richW == WayO(AllInfo, 3, 4, "both", FALSE)   poorW == WayO(NoInfo, 0, 0, "none", FALSE)
             WB1 == {b \in WayBodies : b.info}   WB2 == {b \in WayBodies : ~b.info}
             wp == IF full THEN (WB1 \X WB2) \cup (WB2 \X WB1) ELSE ({richW} \X WayBodies) \cup (WayBodies \X {poorW}) \cup ({poorW} \X WayBodies)
             richR == RelO(AllInfo, 2, 3, FALSE)   poorR == RelO(NoInfo, 0, 0, FALSE)
             rp == IF full THEN RelBodies \X RelBodies ELSE ({richR} \X RelBodies) \cup (RelBodies \X {poorR}) \cup ({poorR} \X RelBodies) IN
         {<<1, ab[1], ab[2]>> : ab \in wp} \cup {<<2, ab[1], ab[2]>> : ab \in rp}
       \* block parameters: every combination, both blob encodings, both field orders, followed / preceded by a default block
    [] fam = "params"      -> {<<p, z, r, first>> : p \in ParamSets, z \in BOOLEAN, r \in (IF full THEN BOOLEAN ELSE {seed % 2 = 0}), first \in BOOLEAN}
       \* 0-5 blocks x 0-3 groups of every kind (incl. empty groups and blocks), every decoder count
    [] fam = "shapes"      ->
         LET k1 == KindSeqs(1)   k2 == KindSeqs(2)   k3 == KindSeqs(3)
             five == {x \in k2 \X k1 \X k2 : Len(x[1]) = 1 /\ x[1][1] \in {"dense", "ways"} /\ Len(x[2]) = 1 /\ Len(x[3]) = 2 /\ x[3][1] # x[3][2]} IN
         {<<0>>} \cup {<<1, s>> : s \in k3} \cup {<<2, s[1], s[2]>> : s \in (IF full THEN k2 \X k2 ELSE k1 \X k2)}
         \cup {<<5, s[1], s[2], s[3]>> : s \in five}
         \cup (IF full THEN {<<3, s[1], s[2], s[3]>> : s \in k2 \X k1 \X k2} ELSE {})
       \* header block: every subset of its optional fields
    [] fam = "header"      -> {<<f, z, r, FALSE>> : f \in [1 .. 8 -> BOOLEAN], z \in (IF full THEN BOOLEAN ELSE {seed % 2 = 0}), r \in (IF full THEN BOOLEAN ELSE {seed % 2 = 1})}
                              \* and the header block without any field at all (a zero-length message), raw and zlib
                              \cup {<<[i \in 1 .. 8 |-> FALSE], z, FALSE, TRUE>> : z \in BOOLEAN}
       \* unsorted files with many blocks
    [] fam = "unsorted"    -> {<<k>> : k \in 1 .. 5}
       \* a small family on which every Bug variant of PbfFormatCache must violate NoInherit (non-vacuity probes)
    [] fam = "probe"       -> {<<1, ab[1], ab[2]>> : ab \in DenseEdgeC \X DenseEdgeC} \cup {<<2, k, 0>> : k \in 1 .. 4}

FamBuild(fam, full, seed, x) ==
  CASE fam = "densepair" ->
         LET P == SeedParams(seed)   z == (seed % 2 = 0) IN
         Case("densepair", <<1>>, File(DefaultHeader,
              << Block(1, P, z, FALSE, <<DenseG(1, 1, x[1], T3)>>), Block(2, P, ~z, FALSE, <<DenseG(2, 1, x[2], T3)>>) >>))
    [] fam = "densegroups" ->
         Case("densegroups", IF full THEN <<1>> ELSE <<1, 2>>, File(DefaultHeader,
              << Block(1, SeedParams(seed + 1), TRUE, (seed % 2 = 1), <<DenseG(1, 1, x[1], T3), DenseG(1, 2, x[2], <<0, 3>>)>>) >>))
    [] fam = "spaced" ->
         LET F(b) == Block(b, DefaultParams, TRUE, FALSE, <<DenseG(b, 1, [info |-> TRUE, cols |-> ColSet, kv |-> TRUE], <<1, 1>>)>>) IN
         IF x[1] = 2
         THEN Case("spaced2", <<2>>, File(DefaultHeader,
                   << Block(1, DefaultParams, TRUE, FALSE, <<DenseG(1, 1, x[2], T3)>>), F(2),
                      Block(3, DefaultParams, FALSE, FALSE, <<DenseG(3, 1, x[3], T3)>>) >>))
         ELSE Case("spaced3", <<3>>, File(DefaultHeader,
                   << Block(1, DefaultParams, FALSE, FALSE, <<DenseG(1, 1, x[2], T3)>>), F(2), F(3),
                      Block(4, DefaultParams, TRUE, FALSE, <<DenseG(4, 1, x[3], T3)>>) >>))
    [] fam = "waypair" ->
         LET P == SeedParams(seed + 2)  z == (seed % 2 = 1) IN
         Case("waypair", <<1>>, File(DefaultHeader,
              IF x[1] = 1 THEN TwoIn(x[4], P, z, WaysG, WayO(x[2], 2, 3, "both", FALSE), WayO(x[3], 0, 0, "none", FALSE))
                          ELSE TwoIn(x[4], P, z, WaysG, WayO(x[2], 0, 2, "none", TRUE), WayO(x[3], 1, 4, "both", FALSE))))
    [] fam = "relpair" ->
         LET P == SeedParams(seed + 3)  z == (seed % 2 = 0) IN
         Case("relpair", <<1>>, File(DefaultHeader,
              IF x[1] = 1 THEN TwoIn(x[4], P, z, RelsG, RelO(x[2], 2, 3, FALSE), RelO(x[3], 0, 0, FALSE))
                          ELSE TwoIn(x[4], P, z, RelsG, RelO(x[2], 0, 1, TRUE), RelO(x[3], 1, 4, FALSE))))
    [] fam = "bodies" ->
         LET P == SeedParams(seed + 4) IN
         IF x[1] = 1 THEN Case("waybody", <<1>>, File(DefaultHeader, << Block(1, P, TRUE, FALSE, <<WaysG(1, 1, <<x[2], x[3]>>)>>) >>))
                     ELSE Case("relbody", <<1>>, File(DefaultHeader, << Block(1, P, FALSE, FALSE, <<RelsG(1, 1, <<x[2], x[3]>>)>>) >>))
    [] fam = "params" ->
         LET p == x[1]  z == x[2]  r == x[3] IN
         Case("params", <<1>>, File(DefaultHeader,
              IF x[4] THEN << Block(1, p, z, r, MixedGroups(1)), Block(2, DefaultParams, ~z, FALSE, MixedGroups(2)) >>
                      ELSE << Block(1, DefaultParams, ~z, FALSE, MixedGroups(1)), Block(2, p, z, r, MixedGroups(2)) >>))
    [] fam = "shapes" ->
         LET B(b, s) == Block(b, IF b = 2 THEN SeedParams(seed) ELSE DefaultParams, (b + seed) % 2 = 0, b = 3, [g \in 1 .. Len(s) |-> GroupOf(s[g], b, g)])
             all == <<1, 2, 3, 16>> IN
         (CASE x[1] = 0 -> Case("shapes", all, File(DefaultHeader, << >>))
           [] x[1] = 1 -> Case("shapes", IF full THEN all ELSE <<1, 3>>, File(DefaultHeader, <<B(1, x[2])>>))
           [] x[1] = 2 -> Case("shapes", IF full THEN all ELSE <<1, 2>>, File(DefaultHeader, <<B(1, x[2]), B(2, x[3])>>))
           [] x[1] = 5 -> Case("shapes", all, File(DefaultHeader, <<B(1, x[2]), B(2, x[3]), B(3, x[4]), B(4, x[2]), B(5, x[4])>>))
           [] x[1] = 3 -> Case("shapes", all, File(DefaultHeader, <<B(1, x[2]), B(2, x[3]), B(3, x[4])>>)))
    [] fam = "header" ->
         LET f == x[1]   OptF(b, v) == IF b THEN <<v>> ELSE << >> IN
         Case("header", <<1, 2>>, File(
            \* <<left, right, top, bottom>>: also a box crossing the antimeridian (left > right) and one with bottom > top -
            \* Header() must report the corners as written
            [bbox |-> IF ~f[1] THEN << >>
                      ELSE IF f[2] /\ f[5] THEN <<177, -178, -20, 20>>
                      ELSE IF f[2] THEN <<177, -178, 10, -10>>
                      ELSE IF f[5] THEN <<-10, 10, -20, 20>>
                      ELSE <<-170, 175, 85, -80>>,
             req  |-> IF f[2] THEN <<"OsmSchema-V0.6", "DenseNodes", "HistoricalInformation">> ELSE (IF f[3] \/ x[4] THEN << >> ELSE <<"DenseNodes">>),
             opt  |-> IF f[3] THEN <<4, 2>> ELSE (IF f[2] THEN <<5>> ELSE << >>),
             prog |-> OptF(f[4], 3), src |-> OptF(f[5], IF f[4] THEN 0 ELSE 6),
             rts  |-> OptF(f[6], IF f[7] THEN 0 ELSE 9), rseq |-> OptF(f[7], IF f[6] THEN 12 ELSE 0), rurl |-> OptF(f[8], 7),
             zlib |-> x[2], rev |-> x[3], bh |-> Cardinality({i \in 1 .. 8 : f[i]}) % 6],
            << Block(1, DefaultParams, TRUE, FALSE, <<DenseG(1, 1, [info |-> FALSE, cols |-> {}, kv |-> FALSE], <<0>>)>>) >>))
    [] fam = "unsorted" -> Case("unsorted", <<1, 2, 3, 16>>, UnsortedFile(x[1], seed))
    [] fam = "probe" ->
         IF x[1] = 1
         THEN Case("probe", <<1>>, File(DefaultHeader,
                   << Block(1, DefaultParams, TRUE, FALSE, <<DenseG(1, 1, x[2], T3), DenseG(1, 2, x[3], <<0, 3>>)>>) >>))
         ELSE Case("probe", <<1>>, File(DefaultHeader,
                   CASE x[2] = 1 -> TwoIn("group", DefaultParams, TRUE, WaysG, WayO(AllInfo, 2, 3, "both", FALSE), WayO(NoInfo, 0, 0, "none", FALSE))
                     [] x[2] = 2 -> TwoIn("group", DefaultParams, TRUE, RelsG, RelO(AllInfo, 2, 3, FALSE), RelO(NoInfo, 0, 0, FALSE))
                     [] x[2] = 3 -> TwoIn("group", DefaultParams, TRUE, RelsG, RelO(AllInfo, 2, 3, FALSE), RelO(NoInfo, 0, 2, FALSE))
                     [] x[2] = 4 -> << Block(1, ParamList[5], TRUE, FALSE, MixedGroups(1)), Block(2, DefaultParams, TRUE, FALSE, MixedGroups(2)) >>))

FamilyNames == {"densepair", "densegroups", "spaced", "waypair", "relpair", "bodies", "params", "shapes", "header", "unsorted"}
Family(fam, full, seed) == {FamBuild(fam, full, seed, x) : x \in FamShapes(fam, full, seed)}

(* --------------------------- C08: filter cases -------------------------- *)
\* files whose consecutive elements differ in the optional parts they carry; <= 6 elements for the full subset lattice
FInfoA == [info |-> TRUE, fields |-> {"version", "user_sid", "visible", "timestamp"}]
FInfoB == [info |-> TRUE, fields |-> {"changeset", "uid"}]
FWays(b, g, k) == WaysG(b, g, SubSeq(<< WayO(FInfoA, 2, 3, "both", FALSE), WayO(NoInfo, 0, 0, "none", FALSE), WayO(FInfoB, 1, 1, "none", FALSE),
                                        WayO(NoInfo, 0, 2, "lat", FALSE), WayO(FInfoA, 3, 0, "none", TRUE), WayO(FInfoB, 0, 4, "both", FALSE) >>, 1, k))
FRels(b, g, k) == RelsG(b, g, SubSeq(<< RelO(FInfoA, 2, 3, FALSE), RelO(NoInfo, 0, 0, FALSE), RelO(FInfoB, 1, 1, FALSE),
                                        RelO(NoInfo, 0, 2, FALSE), RelO(FInfoA, 3, 0, TRUE), RelO(FInfoB, 0, 4, FALSE) >>, 1, k))
FDense(b, g, tcs) == DenseG(b, g, [info |-> TRUE, cols |-> ColSet, kv |-> TRUE], tcs)
FilterFiles(seed) ==
  LET P == SeedParams(seed)  z == (seed % 2 = 0) IN
  << File(DefaultHeader, << Block(1, P, z, FALSE, <<FDense(1, 1, <<2, 0, 1, 3, 0, 1>>)>>) >>),
     File(DefaultHeader, << Block(1, P, z, FALSE, <<FWays(1, 1, 6)>>) >>),
     File(DefaultHeader, << Block(1, P, ~z, FALSE, <<FRels(1, 1, 6)>>) >>),
     File(DefaultHeader, << Block(1, P, z, FALSE, <<FDense(1, 1, <<3, 0>>), FWays(1, 2, 2), FRels(1, 3, 2)>>) >>),
     File(DefaultHeader, << Block(1, P, z, FALSE, <<FDense(1, 1, <<0, 2, 1>>)>>), Block(2, DefaultParams, ~z, FALSE, <<FDense(2, 1, <<1, 0, 2>>)>>) >>),
     File(DefaultHeader, << Block(1, P, z, FALSE, <<FWays(1, 1, 3)>>), Block(2, P, z, TRUE, <<FWays(2, 1, 3)>>) >>) >>
\* larger files for the named predicates
BigFilterFiles(seed) ==
  LET P == SeedParams(seed + 1) IN
  << File(DefaultHeader, << Block(1, P, TRUE, FALSE, <<FDense(1, 1, <<2, 0, 1, 3, 0, 1>>), FWays(1, 2, 6), FRels(1, 3, 6)>>),
                            Block(2, DefaultParams, FALSE, FALSE, <<FRels(2, 1, 4), FDense(2, 2, <<0, 3, 0, 1>>), FWays(2, 3, 5)>>),
                            Block(3, P, TRUE, TRUE, <<FWays(3, 1, 6), FDense(3, 2, <<1, 1, 0, 0, 2, 2>>)>>) >>),
     File(DefaultHeader, << Block(1, DefaultParams, TRUE, FALSE, <<FDense(1, 1, <<0, 0, 4, 0, 1, 0>>), FDense(1, 2, <<3, 0, 0, 1>>)>>),
                            Block(2, P, TRUE, FALSE, <<FWays(2, 1, 6), FWays(2, 2, 4)>>),
                            Block(3, P, FALSE, FALSE, <<FRels(3, 1, 6), FRels(3, 2, 3)>>),
                            Block(4, P, TRUE, FALSE, <<FDense(4, 1, <<1, 2, 0>>), FWays(4, 2, 3), FRels(4, 3, 3)>>) >>) >>

Bool3 == {<<a, b, c>> : a \in BOOLEAN, b \in BOOLEAN, c \in BOOLEAN}
MaxPos == 200
SetSeq(S) == LET F[k \in 0 .. MaxPos] == IF k = 0 THEN << >> ELSE IF k \in S THEN Append(F[k - 1], k) ELSE F[k - 1] IN F[MaxPos]
NamedPreds(n) == { SetSeq(1 .. n), << >>, SetSeq({i \in 1 .. n : i % 2 = 1}), SetSeq({i \in 1 .. n : i % 2 = 0}),
                   <<1>>, <<n>>, SetSeq({i \in 1 .. n : i % 3 = 0}), SetSeq({i \in 1 .. n : i % 3 # 0}) }
FCase(file, skip, inst, accept, procs) == [file |-> file, skip |-> skip, inst |-> inst, accept |-> accept, procs |-> procs]
\* stateful filter kinds: "alt" (verdicts alternate per call), "firstN" (true for the first fn calls), "seen" (true only
\* on the first call for an element); the Judge uses the recorded verdicts
SCase(file, skip, inst, fkind, procs) == [file |-> file, skip |-> skip, inst |-> inst, accept |-> << >>, fkind |-> fkind, fn |-> 3, procs |-> procs]
FKinds == {"alt", "firstN", "seen"}
AllInst == <<TRUE, TRUE, TRUE>>
NoSkip  == <<FALSE, FALSE, FALSE>>
\* every pattern of optional parts over a short group x every predicate: the accept/reject pattern decides whose memory is
\* reused, the optional parts of the NEXT element decide whether something stale can show
SeqsOver(S, n) == [1 .. n -> S]
PatternCases(full, seed) ==
  LET P == SeedParams(seed + 2)
      nd == IF full THEN 4 ELSE 4      tcs == IF full THEN {0, 1, 2, 3, 4} ELSE {0, 2, 3}    \* (a kept node after a rejected one with more, fewer, as many tags)
      nw == 3
      WB == {WayO(ic, tc, nr, "none", FALSE) : ic \in {FInfoA, NoInfo}, tc \in {0, 2}, nr \in {0, 2}}       \* 8
      RB == {RelO(ic, tc, nm, FALSE) : ic \in {FInfoB, NoInfo}, tc \in {0, 1}, nm \in {0, 2}}               \* 8
      WBq == {WayO(ic, tc, nr, "none", FALSE) : ic \in {FInfoA}, tc \in {0, 2}, nr \in {0, 2}} \cup {WayO(NoInfo, 0, 0, "none", FALSE)}
      RBq == {RelO(ic, tc, nm, FALSE) : ic \in {FInfoB}, tc \in {0, 1}, nm \in {0, 2}} \cup {RelO(NoInfo, 0, 0, FALSE)}
      pr == IF full THEN <<1, 2>> ELSE <<1>> IN
  {FCase(File(DefaultHeader, << Block(1, P, TRUE, FALSE, <<FDense(1, 1, t)>>) >>), NoSkip, AllInst, SetSeq(S), pr)
      : t \in SeqsOver(tcs, nd), S \in SUBSET (1 .. nd)}
  \cup {FCase(File(DefaultHeader, << Block(1, P, FALSE, FALSE, <<WaysG(1, 1, o)>>) >>), NoSkip, AllInst, SetSeq(S), pr)
      : o \in SeqsOver(IF full THEN WB ELSE WBq, nw), S \in SUBSET (1 .. nw)}
  \cup {FCase(File(DefaultHeader, << Block(1, P, TRUE, FALSE, <<RelsG(1, 1, o)>>) >>), NoSkip, AllInst, SetSeq(S), pr)
      : o \in SeqsOver(IF full THEN RB ELSE RBq, nw), S \in SUBSET (1 .. nw)}

FilterCases(full, seed) ==
  LET ff == FilterFiles(seed)  bf == BigFilterFiles(seed) IN
  \* every predicate on <= 6 elements
  UNION {{FCase(ff[k], NoSkip, AllInst, SetSeq(S), <<1, 2, 3>>) : S \in SUBSET (1 .. Len(DecodeFile(ff[k])))} : k \in 1 .. Len(ff)}
  \* 8 skip combinations x installed-filter combinations x named predicates
  \cup UNION {{FCase(ff[k], s, i, a, IF full THEN <<1, 2, 3>> ELSE <<1 + (k % 3)>>)
                 : s \in Bool3, i \in (IF full THEN Bool3 ELSE {AllInst, <<TRUE, FALSE, TRUE>>, <<FALSE, TRUE, FALSE>>}),
                   a \in (IF full THEN NamedPreds(Len(DecodeFile(ff[k]))) ELSE {SetSeq({j \in 1 .. 6 : j % 2 = 0}), <<1, 2, 5>>})}
              : k \in {4, 5, 6}}
  \cup UNION {{FCase(bf[k], s, i, a, <<1, 2, 3>>)
                 : s \in Bool3, i \in (IF full THEN Bool3 ELSE {AllInst, <<FALSE, FALSE, FALSE>>}), a \in NamedPreds(Len(DecodeFile(bf[k])))}
              : k \in 1 .. Len(bf)}
  \cup PatternCases(full, seed)
  \* stateful filters on small files, larger multi-block files and an unsorted many-block file
  \cup UNION {{SCase(ff[k], sk, i, fk, <<1, 2, 3>>)
                 : sk \in (IF full THEN Bool3 ELSE {NoSkip, <<TRUE, FALSE, FALSE>>, <<FALSE, TRUE, TRUE>>}),
                   i \in (IF full THEN Bool3 \ {<<FALSE, FALSE, FALSE>>} ELSE {AllInst, <<TRUE, FALSE, TRUE>>}), fk \in FKinds}
              : k \in 1 .. Len(ff)}
  \cup UNION {{SCase(bf[k], sk, i, fk, <<1, 2, 3>>)
                 : sk \in (IF full THEN Bool3 ELSE {NoSkip, <<FALSE, FALSE, TRUE>>}), i \in {AllInst, <<FALSE, TRUE, TRUE>>}, fk \in FKinds}
              : k \in 1 .. Len(bf)}
  \cup {SCase(UnsortedFile(k, seed), sk, AllInst, fk, <<1, 2, 3>>)
         : k \in (IF full THEN 1 .. 5 ELSE {4}), sk \in {NoSkip, <<FALSE, TRUE, TRUE>>, <<TRUE, FALSE, FALSE>>}, fk \in FKinds}
  \* unsorted many-block files under every skip combination (nodes after ways / relations must still be delivered)
  \cup {FCase(UnsortedFile(k, seed), sk, i, a, <<1, 2, 3>>)
         : k \in (IF full THEN 1 .. 5 ELSE {1, 3, 4}), sk \in Bool3, i \in {AllInst, <<FALSE, FALSE, FALSE>>},
           a \in {SetSeq(1 .. MaxPos), SetSeq({j \in 1 .. MaxPos : j % 2 = 0})}}
=============================================================================
