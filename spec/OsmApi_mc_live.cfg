CONSTANT Wide = FALSE
SPECIFICATION FairSpec
INVARIANTS TypeOK
PROPERTY Terminates
CHECK_DEADLOCK FALSE
