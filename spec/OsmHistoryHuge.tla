--------------------------- MODULE OsmHistoryHuge ---------------------------
(* Parents with more references than fit into 16 bits.  TLC chooses the shape: *)
(* a parent version with N references of which positions k and 2^16 + k hold   *)
(* two different children A, B with different later versions; every other      *)
(* position holds the filler child F.  The case carries the history projected   *)
(* onto the positions <<k, k+1, 2^16+k, N-1>> (children A, F, B, F); the        *)
(* harness expands it to the N references, annotates, and projects the result   *)
(* back, so the ordinary Judges apply to the positions of interest.             *)
EXTENDS Integers, Sequences, FiniteSets, TLC, Json, IOUtils, SequencesExt, AnnotateSets

V(t) == [t |-> t, vis |-> TRUE, cs |-> 1]
KidA == <<V(0), V(1)>>
KidF == <<V(0)>>
KidB(m) == <<V(0)>> \o [a \in 1 .. m |-> V(1)]
Hist(m, two) ==
  [kids |-> <<KidA, KidF, KidB(m)>>,
   par  |-> <<[t |-> 0, vis |-> TRUE, cs |-> 1, refs |-> <<Rf(1, FALSE), Rf(2, FALSE), Rf(3, FALSE), Rf(2, FALSE)>>]>> \o
            (IF two THEN <<[t |-> 2, vis |-> TRUE, cs |-> 1, refs |-> <<Rf(1, FALSE), Rf(2, FALSE), Rf(3, FALSE), Rf(2, FALSE)>>]>> ELSE <<>>)]
HugeCases == {[h |-> Hist(m, two), n |-> 65540, pos |-> <<k, k + 1, 65536 + k, 65539>>, fill |-> 2] :
                k \in {0, 2}, m \in {1, 2}, two \in BOOLEAN}
ASSUME ndJsonSerialize(IOEnv.OUT, SetToSeq(HugeCases))
VARIABLE dummy
FInit == dummy = 0
FNext == UNCHANGED dummy
=============================================================================
