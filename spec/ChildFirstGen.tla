---------------------------- MODULE ChildFirstGen ----------------------------
(* S->C case generation for C14: (histories, request list, failing ids, call plans).  *)
(* A plan = make k Next calls (or iterate to the end: stop = "none"), then Close /      *)
(* cancel the caller's context / nothing; the harness then makes one more Next call,    *)
(* reads Err, observes the goroutine, and finally calls Close.                          *)
EXTENDS ChildFirstMC, IOUtils, Json, SequencesExt, Randomization

CONSTANTS Slice, Slices,   \* this process writes the cases whose first history has index = Slice (mod Slices)
          Sample           \* 0: every history assignment of the family; k > 0: a random subset of k of them (TLC -seed)

VSeq   == SetToSeq(MCVersions)
First  == {VSeq[i] : i \in {j \in 1 .. Len(VSeq) : j % Slices = Slice}}
Hists  == IF Sample > 0 THEN RandomSubset(Sample, [1 .. N -> MCVersions])
          ELSE {<<v>> \o t : v \in First, t \in [1 .. N - 1 -> MCVersions]}

\* stop after k Next calls for every k up to one call past the end of the undisturbed iteration
Plans(h, b, r) == LET n == Len(RunOut(h, b, r)) IN
   << [k |-> 0, stop |-> "none"] >> \o SetToSeq({[k |-> k, stop |-> s] : k \in 0 .. n + 1, s \in {"close", "cancel"}})

Cases == {[hist |-> h, req |-> r, bad |-> b, plans |-> Plans(h, b, r)] : h \in Hists, r \in MCReqs, b \in MCBad}

ASSUME ndJsonSerialize(IOEnv.OUT, SetToSeq(Cases))
ASSUME PrintT(<<"NCASES", Cardinality(Cases)>>)
GNext == UNCHANGED vars     \* nothing to explore: the cases are written by the ASSUME above
=============================================================================
