\* Model |= Judges: the search as it should be (no deviations), every directory of the families, every query time
CONSTANTS
  MaxSeq = 8
  Offsets = {998, 99997, 999997, 2007989}
  OffN = 4
  LongOffsets = {0}
  LongSizes = {40, 300}
  LongRuns <- RunsQuick
  FullQueries = 41
  PauseSizes = {300}
  DevSets <- OnlyFixed
SPECIFICATION MCFairSpec
INVARIANTS TypeOK ResultInv PlanetLayoutOK RequestBoundInv BracketInv KFCoverInv RunAgrees
PROPERTY Terminates
CHECK_DEADLOCK FALSE
