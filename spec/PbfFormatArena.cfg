CONSTANT Bug = "none"
CONSTANT N = 3
CONSTANT MaxTags = 2
CONSTANT MaxRefs = 1
SPECIFICATION Spec
INVARIANT NoSharedArray
INVARIANT Unmodified
INVARIANT Selected
CHECK_DEADLOCK FALSE
