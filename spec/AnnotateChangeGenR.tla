------------------------- MODULE AnnotateChangeGenR ------------------------
(* Writes only the random draws of C13 (NRandom cases, reproducible through *)
(* TLC's -seed); used to spread the thorough tier over several processes.   *)
EXTENDS AnnotateChange, IOUtils
ASSUME ndJsonSerialize(IOEnv.OUT, RandomSeq)
GInit == phase = "gen" /\ inp = 0 /\ pos = 0 /\ acts = 0 /\ res = 0
GNext == UNCHANGED vars
=============================================================================
