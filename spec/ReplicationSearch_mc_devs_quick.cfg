\* the four trees reachable with fixes/C19-*.diff (thorough: every subset of the deviations): a failing run is explained by the signature (KF_...) of a
\* deviation that is switched on, or by the findBound gap
CONSTANTS
  MaxSeq = 6
  Offsets = {2007989}
  OffN = 4
  LongOffsets = {0}
  LongSizes = {40}
  LongRuns <- RunsQuick
  FullQueries = 13
  PauseSizes = {40}
  DevSets <- FixPatches
SPECIFICATION MCSpec
INVARIANTS TypeOK KFCoverInv DiffersInv RunAgrees RequestBoundInv
CHECK_DEADLOCK FALSE
