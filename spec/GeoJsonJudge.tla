--------------------------- MODULE GeoJsonJudge ---------------------------
(* Judge for C17.  Every recorded line is                                  *)
(*   [case |-> data set (+ the option sets), got |-> [runs |-> <<run>>]]   *)
(*   run = [o |-> option names, err, feats |-> abstract features of the    *)
(*          real osmgeojson.Convert, h |-> 3 output digests, in |-> 3      *)
(*          input digests]                                                 *)
(* The J_* operators of GeoJson.tla are evaluated on the real features of  *)
(* every option set.  Separately (not a verdict) the real features are     *)
(* compared with the Model's Conv(ds, O) (the variant with fix 626c4a8): a  *)
(* difference is a divergence.                                              *)
EXTENDS GeoJson, IOUtils, Json

Lines == ndJsonDeserialize(IOEnv.REC)

\* "conversion of equal input gives equal output": the same input object converted twice and an
\* independently built equal input all give byte-identical GeoJSON
Deterministic(run) == run.h[1] = run.h[2] /\ run.h[1] = run.h[3]
\* "the input data is never modified": deep dump before = after the first = after the second conversion
InputUnmodified(run) == run.in[1] = run.in[2] /\ run.in[1] = run.in[3]

Flag(ok, name, o) == IF ok THEN {} ELSE {<<name, o>>}

RunOf(ln, O) == ln.got.runs[CHOOSE k \in DOMAIN ln.got.runs : ToSet(ln.got.runs[k].o) = O]

\* judges that look at everything an option may touch: evaluated on the result of every option set
PerRun(ds, run) ==
  LET O == ToSet(run.o)
      F == run.feats
  IN Flag(run.err = "", "ConvertFailed", run.o)
     \cup Flag(J_Carries(ds, O, F), "CarriesTypeIdTags", run.o)
     \cup Flag(J_MetaMembership(ds, O, F), "MetaAndMembership", run.o)
     \cup Flag(Deterministic(run), "Deterministic", run.o)
     \cup Flag(InputUnmodified(run), "InputUnmodified", run.o)
\* judges that only read type, id and geometry of the features.  Strip leaves those untouched, so
\* once J_Options holds (R[O] = Strip(O, R[O \cap {IIP}]) for all 16 O) they hold for every option set
\* iff they hold for {} and {IIP}; they are evaluated on all 16 only when J_Options fails.
Shape(ds, run) ==
  LET F == run.feats
  IN Flag(J_AtMostOne(ds, F), "AtMostOnePerElement", run.o)
     \cup Flag(J_NodeRule(ds, F), "NodeRule", run.o)
     \cup Flag(J_WayGeometry(ds, F), "WayGeometry", run.o)
     \cup Flag(J_Route(ds, F), "RoutePreservesSegments", run.o)

Fails(ln) ==
  LET ds == ln.case
      runs == ln.got.runs
      optok == J_Options(ds, [O \in OptSets |-> RunOf(ln, O).feats])
      shaped == IF optok THEN {k \in DOMAIN runs : ToSet(runs[k].o) \subseteq {"IIP"}} ELSE DOMAIN runs
  IN UNION {PerRun(ds, runs[k]) : k \in DOMAIN runs}
     \cup UNION {Shape(ds, runs[k]) : k \in shaped}
     \cup Flag(optok, "OptionOnlyItsEffect", << >>)

\* known findings: a failure is "known" only if the named predicate holds on the data set and nothing else is wrong.
\* For the two findings about ids that do not fit osm.FeatureID "nothing else is wrong" means: under every option
\* set the real features are exactly those of the Model of the tree before fixes b715ff7 / 51b669e (ConvFormer
\* reproduces both defects and nothing else; GeoJsonMC checks that it coincides with the ideal variant wherever
\* neither predicate holds, and that the ideal variant satisfies every Judge).
KFidNames(ds) == (IF KF_PolygonIdentityViaFeatureID(ds) THEN {"KF_PolygonIdentityViaFeatureID"} ELSE {})
                 \cup (IF KF_NegativeIdsShareMembershipKey(ds) THEN {"KF_NegativeIdsShareMembershipKey"} ELSE {})
KF(ln, fails) ==
  IF /\ KF_SharedOldStyleOuter(ln.case)
     /\ fails # {} /\ \A x \in fails : x[1] = "AtMostOnePerElement"
     /\ \A k \in DOMAIN ln.got.runs : OnlySharedOuterDuplicates(ln.case, ln.got.runs[k].feats)
  THEN {"KF_SharedOldStyleOuter"}
  ELSE IF /\ fails # {} /\ KFidNames(ln.case) # {}
          /\ \A x \in fails : x[1] \in {"AtMostOnePerElement", "CarriesTypeIdTags", "MetaAndMembership", "NodeRule", "OptionOnlyItsEffect"}
          /\ \A k \in DOMAIN ln.got.runs : FeatsEq(ln.got.runs[k].feats, ConvFormer(ln.case, ToSet(ln.got.runs[k].o)))
  THEN KFidNames(ln.case) ELSE {}

\* Model vs. real code (divergence, not a verdict): the real features differ from the Model of the tree as it is.
\* (the Model satisfies J_Options - OptionsInv of GeoJsonMC - so when the real results do too, comparing
\*  the results for {}, {IIP} and all four options is as good as comparing all 16)
Diverging(ln, all) == {ln.got.runs[k].o : k \in {k \in DOMAIN ln.got.runs :
                     /\ (all \/ ToSet(ln.got.runs[k].o) \in {{}, {"IIP"}, Options})
                     /\ ~FeatsEq(ln.got.runs[k].feats, Conv(ln.case, ToSet(ln.got.runs[k].o)))}}

Report(i) ==
  LET ln == Lines[i]
      fails == Fails(ln)
      div == Diverging(ln, <<"OptionOnlyItsEffect", << >> >> \in fails)
  IN (fails = {} /\ div = {})
     \/ PrintT(<<"BAD", ToJson([i |-> i, why |-> [fails |-> fails, diverges |-> div], kf |-> KF(ln, fails)])>>)

ASSUME \A i \in 1 .. Len(Lines) : Report(i)
ASSUME PrintT(<<"JUDGED", Len(Lines)>>)
VARIABLE j
JInit == j = 0
JNext == UNCHANGED j
=============================================================================
