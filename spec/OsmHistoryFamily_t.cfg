CONSTANTS
  NSet = {1, 2, 3, 5, 7, 9}
  MSet = {2, 3, 4, 5}
  TailMSet = {4, 5, 6, 7}
  RSet = {1, 2, 3}
  FamOpts <- OptsOrder
INIT FInit
NEXT FNext
CHECK_DEADLOCK FALSE
