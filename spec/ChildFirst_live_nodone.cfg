\* deviation: send without the ctx.Done alternative - TLC MUST report CancelEndsGoroutine violated (guards against a vacuous liveness check)
CONSTANTS
  N = 2
  MaxMem = 1
  MaxReq = 1
  Family = "flat"
  FlagFamily = "nodone"
  WithBad = FALSE
  CanonicalReqs = TRUE
  VersionSets <- MCVersions
  ReqLists <- MCReqs
  BadSets <- MCBad
  FlagSets <- MCFlags
SPECIFICATION FairRed
PROPERTIES CancelEndsGoroutine
CHECK_DEADLOCK FALSE
