----------------------- MODULE MC_ReplicationSearch -----------------------
(* Model-checking instance of ReplicationSearch: Model |= Judges for all    *)
(* directories of the families below and all query times.                   *)
EXTENDS ReplicationSearch
CONSTANTS MaxSeq,        \* dense family: every non-empty subset of 1 .. MaxSeq
          Offsets, OffN, \* offset family: every non-empty subset of b+1 .. b+OffN, b \in Offsets (long missing prefix)
          LongOffsets, LongSizes, LongRuns,   \* long family: o+1 .. o+m minus one run o+a .. o+b
          PauseSizes,    \* pause family: (nearly) complete directories 1 .. m, queries around the pauses
          DevSets,       \* sets of deviations to explore
          FullQueries    \* directories spanning fewer sequence numbers get every query time, longer ones SelectedQueries
\* values for the cfg files (TLC's cfg syntax has no tuples)
RunsQuick    == {<<2, 2>>, <<1, 7>>, <<10, 19>>, <<20, 20>>, <<17, 33>>, <<30, 38>>, <<150, 151>>, <<100, 250>>}
RunsThorough == RunsQuick \cup {<<1, 1>>, <<3, 4>>, <<19, 21>>, <<2, 39>>, <<64, 128>>, <<129, 255>>, <<500, 900>>, <<1000, 1022>>}
MCDirs   == DenseDirs(MaxSeq) \cup OffsetDirs(Offsets, OffN) \cup LongDirs(LongOffsets, LongSizes, LongRuns)
MCInit   == Init(MCDirs, DevSets, FullQueries) \/ PauseInit(PauseSizes, DevSets)
MCSpec   == MCInit /\ [][Next]_vars
MCFairSpec == MCSpec /\ WF_vars(Next)
=============================================================================
