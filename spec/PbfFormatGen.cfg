CONSTANT Fams = {"header", "params"}
CONSTANT Full = FALSE
CONSTANT Seed = 1
INIT GInit
NEXT GNext
CHECK_DEADLOCK FALSE
