\* the clauses comparing runs (both coordinate sources, with / without orientation, every mask),
\* evaluated at every completed member list
CONSTANT Shapes <- S_SameT
CONSTANT MaxPieces = 2
CONSTANT MaskMode = "all"
CONSTANT Tasks = {}
CONSTANT Patterns = {"of", "alt"}
INIT Init
NEXT NextGen
INVARIANT SameForBothCoordinateSources
INVARIANT SameWithOrWithoutOrientation
CHECK_DEADLOCK FALSE
