\* scaled widths: 2 version bits, 3 reference bits (121 triples, all ordered pairs)
CONSTANTS VBits = 2 RBits = 3 VB = 4 RB = 8
INIT Init
NEXT Next
INVARIANTS ImplIsPack DecodeBack Fits Injective OrderIso
CHECK_DEADLOCK FALSE
