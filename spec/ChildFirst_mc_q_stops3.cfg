\* every graph on 3 ids with <= 1 relation member each, every request list <= 3 (canonical), Close + cancel anywhere
CONSTANTS
  N = 3
  MaxMem = 1
  MaxReq = 3
  Family = "flat"
  FlagFamily = "stops"
  WithBad = FALSE
  CanonicalReqs = TRUE
  VersionSets <- MCVersions
  ReqLists <- MCReqs
  BadSets <- MCBad
  FlagSets <- MCFlags
SPECIFICATION ReducedSpec
INVARIANTS TypeOK EmittedOnce OnlyWithHistory ChildrenFirst AllRequestedEmitted StopEndsIteration EmitsPrefixOfRunOut RanToEndEmitsRunOut CompletedAtEnd VisitedIsEmittedOrSending
CHECK_DEADLOCK FALSE
