CONSTANTS
  N = 2
  MaxMem = 2
  MaxReq = 2
  Family = "mixed"
  FlagFamily = "stops"
  WithBad = FALSE
  CanonicalReqs = TRUE
  VersionSets <- MCVersions
  ReqLists <- MCReqs
  BadSets <- MCBad
  FlagSets <- MCFlags
SPECIFICATION ReducedSpec
INVARIANTS ProjectionLemma TypeOK EmittedOnce OnlyWithHistory ChildrenFirst AllRequestedEmitted StopEndsIteration EmitsPrefixOfRunOut RanToEndEmitsRunOut CompletedAtEnd VisitedIsEmittedOrSending
CHECK_DEADLOCK FALSE
