----------------------- MODULE ReplicationSearchTrace -----------------------
(* Trace validation for C19: the requests the real search made (recorded by  *)
(* the test server) are replayed against the Model's actions.  One file holds *)
(* many runs:                                                                  *)
(*   {"e":"case", kind, skew, style, prefix, present, first, cur, q}           *)
(*   {"e":"req", "path": ..., "status": 200|404}      one per HTTP request     *)
(*   {"e":"ret", "seq": n}  |  {"e":"hang"}           how the call ended       *)
(* A request is accepted only if it is the request the Model makes next (exact *)
(* URL string) and the answer is the one the directory gives; the returned     *)
(* sequence number has to be the Model's result.  The set of deviations of the *)
(* tree under test is not known in advance: it is chosen once, in TInit, from  *)
(* TraceDevSets, and has to explain every run of the file.  The probe order is *)
(* not part of property C19, so a rejected trace is a DIVERGENCE of the        *)
(* binding, not a violation.                                                   *)
EXTENDS ReplicationSearch, IOUtils, Json, TLCExt
CONSTANT TraceDevSets
VARIABLES l, rp, tdev
tvars == <<cs, st, l, rp, tdev>>

Lines == ndJsonDeserialize(IOEnv.REC)
Ev    == Lines[l]
IsEvent(e) == l <= Len(Lines) /\ Ev.e = e /\ l' = l + 1

Idle  == [InitState EXCEPT !.pc = "done"]
TInit == /\ l = 1 /\ tdev \in TraceDevSets /\ st = Idle
         /\ cs = CaseWith([present |-> {1}, first |-> 1, cur |-> 1], 0, tdev, 0)
         /\ rp = [kind |-> "minute", skew |-> 0, style |-> 0, prefix |-> ""]

\* next recorded run (TraceReset): the previous one has ended
TCase == /\ IsEvent("case") /\ st.pc = "done"
         /\ LET d == [present |-> {Ev.present[i] : i \in 1 .. Len(Ev.present)}, first |-> Ev.first, cur |-> Ev.cur] IN
              cs' = CaseWith(d, Ev.q, tdev, RequestBound(d))
         /\ st' = InitState
         /\ rp' = [kind |-> Ev.kind, skew |-> Ev.skew, style |-> Ev.style, prefix |-> Ev.prefix]
         /\ UNCHANGED tdev
\* one HTTP request = one Model action
TReq  == /\ IsEvent("req") /\ st.pc # "done"
         /\ Ev.path = NextURL(rp) /\ Ev.status = NextStatus
         /\ Next
         /\ UNCHANGED <<rp, tdev>>
\* the call returned state Ev.seq
TRet  == /\ IsEvent("ret") /\ st.pc = "done" /\ st.res = Ev.seq /\ Ev.seq >= 1
         /\ UNCHANGED <<cs, st, rp, tdev>>
\* the test server gave up after Cap requests: the Model is still searching as well
THang == /\ IsEvent("hang") /\ st.pc # "done" /\ st.nreq >= Cap(cs)
         /\ st' = [st EXCEPT !.pc = "done", !.res = 0]
         /\ UNCHANGED <<cs, rp, tdev>>
TNext == TCase \/ TReq \/ TRet \/ THang
TraceSpec == TInit /\ [][TNext]_tvars

\* acceptance: some choice of tdev consumes every line.  Register 1 = high-water mark of l (workers = 1).
ASSUME TLCSet(1, 0)
HighWater == TLCSet(1, IF TLCGet(1) < l THEN l ELSE TLCGet(1))
Consumed  == l = Len(Lines) + 1 => PrintT(<<"ACCEPTED", ToJson([dev |-> tdev, lines |-> Len(Lines)])>>)
TraceAccepted == \/ TLCGet(1) = Len(Lines) + 1
                 \/ PrintT(<<"REJECTED", ToJson([line |-> TLCGet(1), lines |-> Len(Lines)])>>) /\ FALSE
=============================================================================
