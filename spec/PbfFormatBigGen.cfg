CONSTANT Full = FALSE
CONSTANT ForFilter = FALSE
CONSTANT Seed = 1
INIT GInit
NEXT GNext
CHECK_DEADLOCK FALSE
