CONSTANT Configs <- CfgsStopBoth
SPECIFICATION FairSpec
VIEW View
INVARIANTS TypeOK OrderInv CompleteInv OffsetInv ReadAheadInv ErrPrecedenceInv
PROPERTIES CloseReturns AllExit ScanEnds LaterScansFalse
CHECK_DEADLOCK FALSE
