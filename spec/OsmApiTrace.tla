---------------------------- MODULE OsmApiTrace ----------------------------
(* Trace validation for C20: the events recorded from real osmapi calls      *)
(* ("cfg" line = the call, then wait / get / resp / ret as they happened)    *)
(* must be a behaviour of the Model in OsmApi.tla.  Many calls are           *)
(* concatenated; a "cfg" line starts the next call and is only accepted when *)
(* the previous call has returned.  Acceptance = every line consumed         *)
(* (high-water mark, checked by the POSTCONDITION).                          *)
EXTENDS OsmApi, IOUtils, Json, TLCExt

TraceLog == ndJsonDeserialize(IOEnv.TRACE)

VARIABLE l
tvars == <<vars, l>>

Ev == TraceLog[l]
IsEvent(e) == l <= Len(TraceLog) /\ Ev.e = e /\ l' = l + 1

Begin(cc) == c' = cc /\ pc' = BeginPc(cc) /\ pend' = BeginPend(cc) /\ log' = << >>

TraceInit == /\ l = 2 /\ TraceLog[1].e = "cfg"
             /\ c = CallOf(TraceLog[1]) /\ pc = BeginPc(c) /\ pend = BeginPend(c) /\ log = << >>

SameGet(a, b) == a.method = b.method /\ a.host = b.host /\ a.path = b.path /\ BagEq(a.query, b.query)

TraceNext ==
  \/ IsEvent("cfg")  /\ pc = "done" /\ Begin(CallOf(Ev))
  \/ IsEvent("wait") /\ Wait(Ev.ok)
  \/ IsEvent("get")  /\ Get /\ SameGet(GetEv(c), ObsEv(c, Ev))
  \/ IsEvent("resp") /\ Respond(Ev.status, Ev.body)
  \/ IsEvent("ret")  /\ Return /\ RetEv(pend) = ObsEv(c, Ev) /\ ZeroOnError(ClassOf(Ev), Ev.zero)
  \/ IsEvent("end")  /\ pc = "done" /\ UNCHANGED vars

TraceSpec == TraceInit /\ [][TraceNext]_tvars

\* acceptance: every line was consumed
HighWater == TLCSet(1, IF TLCGet(1) < l THEN l ELSE TLCGet(1))
TraceAccepted == PrintT(<<"HIGHWATER", TLCGet(1), Len(TraceLog)>>) /\ TLCGet(1) = Len(TraceLog) + 1
ASSUME TLCSet(1, 0)
=============================================================================
