\* one Tags value: appends with duplicate keys and empty values, SortByKeyValue
CONSTANTS
  Ids = {1}
  Vers = {1}
  Kinds = {}
  Targets = {}
  VisVals = {}
  Families = {"tagadd", "tagsort"}
  MaxOps = 4
  TagKeys = {"highway", "name", "source"}
  TagVals = {"", "a", "b"}
  RefKinds = {}
  RefVers = {}
  Coords = {}
SPECIFICATION Spec
INVARIANTS JudgeQueriesHold TagsFirstLast SortsOK
PROPERTIES JudgeStepsHold Frame
CHECK_DEADLOCK FALSE
