CONSTANT Configs <- CfgsStopBig
INIT Init
NEXT Next
VIEW View
INVARIANTS TypeOK OrderInv CompleteInv OffsetInv ReadAheadInv ErrPrecedenceInv
CHECK_DEADLOCK FALSE
