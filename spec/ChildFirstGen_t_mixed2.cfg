\* 2 ids: versions / non-relation members / <= 2 members, every request list <= 3
CONSTANTS
  N = 2
  MaxMem = 2
  MaxReq = 3
  Family = "mixed"
  FlagFamily = "plain"
  WithBad = FALSE
  CanonicalReqs = FALSE
  VersionSets <- MCVersions
  ReqLists <- MCReqs
  BadSets <- MCBad
  FlagSets <- MCFlags
  Slice = 0
  Slices = 1
  Sample = 0
INIT Init
NEXT GNext
CHECK_DEADLOCK FALSE
