CONSTANT Mode = "layout"
INIT JInit
NEXT JNext
CHECK_DEADLOCK FALSE
