---------------------------- MODULE UpdatesJudge ----------------------------
(* Judge for C15.  Every recorded line is [case |-> c, got |-> g] with       *)
(*   c = [kind, children, updates, t1, t2, tmax, ts, com]  (the abstract case) *)
(*   g.a1  = element after ApplyUpdatesUpTo(t1)           [err, erridx, children, pending] *)
(*   g.a12 = the same element after a further ApplyUpdatesUpTo(t2)            *)
(*   g.a2  = a fresh copy after ApplyUpdatesUpTo(t2)                          *)
(*   g.g1 / g.g2 = [at |-> LineStringAt(t) on a fresh copy,                   *)
(*                  applied |-> LineString() of the copy behind a1 / a2,      *)
(*                  state |-> the way after LineStringAt, crash]              *)
(*   g.ls0, g.upto1, g.upto2, g.byts, g.byidx  (LineString, UpTo, sorts)      *)
(*   g.own = the element's own [Timestamp, Committed] after the calls        *)
(* c.ts / c.com (the element's own time) are rendered but appear in no Judge: *)
(* the property does not mention them, so no answer may depend on them.      *)
(*                                                                           *)
(* Lines of kind "group" (a sequence of queries on the case's way) carry       *)
(*   g.answers[i] = [line (op lsat), outer, inner (op group: segments          *)
(*        [idx, ori, rev, line]), tainted, crash, aerr / applied               *)
(*        (ApplyUpdatesUpTo(t) on a copy taken before the sequence, its LineString())] *)
(*   g.state = the way after the last query, g.own                             *)
(*                                                                           *)
(* Failed(ln) evaluates the Judge operators of Updates.tla (the property as  *)
(* stated).  Diverged(ln) compares everything recorded with the Model; it is *)
(* reported only when the Judge holds and is a divergence, not a verdict.    *)
EXTENDS Updates, IOUtils, Json

Lines == ndJsonDeserialize(IOEnv.REC)

F(name, ok) == IF ok THEN {} ELSE {name}

\* kind "group": g = [answers |-> one per query, state |-> the way after the last query, own]
FailedGroup(ln) ==
  LET c == ln.case  g == ln.got  chs == c.children  ups == c.updates IN
     F("Query", /\ Len(g.answers) = Len(c.queries)
                /\ \A i \in 1 .. Len(c.queries) :
                      /\ QueryJ(chs, ups, c.members, c.queries[i], g.answers[i])
                      /\ (GeomHyp("way", chs, ups, c.queries[i].t) => (~g.answers[i].crash /\ g.answers[i].aerr = "none")))
  \cup F("QueryPure", QueryPureJ(chs, ups, g.state))
DivergedGroup(ln) ==
  LET c == ln.case  g == ln.got  chs == c.children  ups == c.updates  ms == c.members
      OkAns(i) == LET q == c.queries[i]  a == g.answers[i] IN
                  /\ ~a.crash
                  /\ a.applied = LineString(Apply("way", chs, ups, q.t).children)
                  /\ (IF q.op = "lsat" THEN a.line = LsAt(chs, ups, q.t, FALSE)
                      ELSE /\ a.outer = GroupSegs(chs, ups, q.t, ms, "outer", FALSE)
                           /\ a.inner = GroupSegs(chs, ups, q.t, ms, "inner", FALSE)
                           /\ a.tainted = GroupTainted(chs, ups, q.t, ms, FALSE)) IN
     F("M_query", \A i \in 1 .. Len(c.queries) : OkAns(i))
  \cup F("M_own", g.own = <<c.ts, c.com>>)

FailedElem(ln) ==
  LET c == ln.case  g == ln.got  k == c.kind  chs == c.children  ups == c.updates IN
     F("Exact1", ExactJ(k, chs, ups, c.t1, g.a1))
  \cup F("Exact2", ExactJ(k, chs, ups, c.t2, g.a2))
  \cup F("Pending1", PendingJ(chs, ups, c.t1, g.a1))
  \cup F("Pending2", PendingJ(chs, ups, c.t2, g.a2))
  \cup F("IndexErr1", IndexErrJ(chs, ups, c.t1, g.a1))
  \cup F("IndexErr2", IndexErrJ(chs, ups, c.t2, g.a2))
     \* the second call is a call on the element the first one left behind
  \cup F("Exact12", g.a1.err = "none" => ExactJ(k, g.a1.children, g.a1.pending, c.t2, g.a12))
  \cup F("Pending12", g.a1.err = "none" => PendingJ(g.a1.children, g.a1.pending, c.t2, g.a12))
  \cup F("IndexErr12", g.a1.err = "none" => IndexErrJ(g.a1.children, g.a1.pending, c.t2, g.a12))
  \cup F("Compose", ComposeJ(chs, ups, c.t1, c.t2, g.a12, g.a2))
     \* a query that panics has no geometry to compare (only where GeomJ says anything at all)
     \* at0 = the query before, at = after ApplyUpdatesUpTo(t) ran on a copy of the element (own child list, same
     \* update list): "equals the geometry obtained by applying the updates up to t on a copy"
  \cup F("GeomAt1", /\ GeomJ(k, chs, ups, c.t1, g.g1.at, g.g1.applied) /\ GeomJ(k, chs, ups, c.t1, g.g1.at0, g.g1.applied)
                     /\ (GeomHyp(k, chs, ups, c.t1) => ~g.g1.crash))
  \cup F("GeomAt2", /\ GeomJ(k, chs, ups, c.t2, g.g2.at, g.g2.applied) /\ GeomJ(k, chs, ups, c.t2, g.g2.at0, g.g2.applied)
                     /\ (GeomHyp(k, chs, ups, c.t2) => ~g.g2.crash))

\* known findings that explain *all* failures of the line
KnownFor(ln, failed) ==
  LET c == ln.case  g == ln.got IN
  IF /\ c.kind # "group"
     /\ failed # {} /\ failed \subseteq {"GeomAt1", "GeomAt2"}
     /\ ~g.g1.crash /\ ~g.g2.crash
     /\ ("GeomAt1" \in failed => KF_LineStringAtBreak(c.children, c.updates, c.t1, g.g1.at))
     /\ ("GeomAt2" \in failed => KF_LineStringAtBreak(c.children, c.updates, c.t2, g.g2.at))
  THEN {"KF_LineStringAtBreak"} ELSE {}

SameElems(a, b) == /\ Len(a) = Len(b)
                   /\ \A i \in 1 .. Len(a) :
                        Cardinality({j \in 1 .. Len(a) : a[j] = a[i]}) = Cardinality({j \in 1 .. Len(b) : b[j] = a[i]})

Failed(ln) == IF ln.case.kind = "group" THEN FailedGroup(ln) ELSE FailedElem(ln)

DivergedElem(ln) ==
  LET c == ln.case  g == ln.got  k == c.kind  chs == c.children  ups == c.updates
      st0 == [children |-> chs, pending |-> ups] IN
     F("M_a1", g.a1 = Apply(k, chs, ups, c.t1))
  \cup F("M_a2", g.a2 = Apply(k, chs, ups, c.t2))
  \cup F("M_a12", g.a1.err \in {"none", "index"} => g.a12 = Apply(k, g.a1.children, g.a1.pending, c.t2))
  \cup F("M_upto", g.upto1 = UpTo(ups, c.t1) /\ g.upto2 = UpTo(ups, c.t2))
  \cup F("M_byts", SameElems(g.byts, ups) /\ SortedByTime(g.byts))
  \cup F("M_byidx", SameElems(g.byidx, ups) /\ SortedByIndex(g.byidx))
     \* no call touches the element's own time
  \cup F("M_own", \A i \in 1 .. Len(g.own) : g.own[i] = <<c.ts, c.com>>)
  \cup (IF k # "way" THEN {} ELSE
           F("M_ls0", g.ls0 = LineString(chs))
      \cup F("M_lsapplied", g.g1.applied = LineString(g.a1.children) /\ g.g2.applied = LineString(g.a2.children))
           \* either variant of the loop exit (BreakAtLate) is the Model; which one is decided by GeomJ
      \cup F("M_lsat", /\ g.g1.at \in {LsAt(chs, ups, c.t1, FALSE), LsAt(chs, ups, c.t1, TRUE)}
                       /\ g.g2.at \in {LsAt(chs, ups, c.t2, FALSE), LsAt(chs, ups, c.t2, TRUE)})
      \cup F("M_lsat0", g.g1.at0 = g.g1.at /\ g.g2.at0 = g.g2.at)
      \cup F("M_nocrash", ~g.g1.crash /\ ~g.g2.crash))
     \* the element itself is untouched by the queries and by the calls on its copies
  \cup F("M_pure", g.g1.state = st0 /\ g.g2.state = st0)

Diverged(ln) == IF ln.case.kind = "group" THEN DivergedGroup(ln) ELSE DivergedElem(ln)

Report(i) ==
  LET ln == Lines[i]  failed == Failed(ln) IN
  IF failed # {}
  THEN PrintT(<<"BAD", ToJson([i |-> i, why |-> failed, kf |-> KnownFor(ln, failed)])>>)
  ELSE LET dv == Diverged(ln) IN
       dv = {} \/ PrintT(<<"BAD", ToJson([i |-> i, why |-> dv, kf |-> {"__DIVERGENCE__"}])>>)

ASSUME \A i \in 1 .. Len(Lines) : Report(i)
ASSUME PrintT(<<"JUDGED", Len(Lines)>>)
JInit == pc = "judge" /\ kind = "" /\ ch = <<>> /\ us = <<>> /\ t1 = 0 /\ t2 = 0 /\ w = Nil /\ out = NoOut
JNext == UNCHANGED vars
=============================================================================
