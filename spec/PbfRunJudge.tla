--------------------------- MODULE PbfRunJudge ---------------------------
(* Judge for C02 / C06 / C07 / C09: API-level histories recorded from the real scanner *)
(* (one record per run: [case, run |-> [cfg, H, reads, rem, outcome]]) evaluated with  *)
(* PbfPipeline!RunOK.                                                                   *)
EXTENDS PbfPipeline, Json, IOUtils
Lines == ndJsonDeserialize(IOEnv.REC)
Norm(r) == [cfg |-> [blocks |-> [i \in 1 .. Len(r.cfg.blocks) |-> [k |-> r.cfg.blocks[i].k, n |-> r.cfg.blocks[i].n]],
                     endkind |-> r.cfg.endkind, hdr |-> r.cfg.hdr],
            H |-> r.H, reads |-> r.reads, rem |-> r.rem, outcome |-> r.outcome,
            resume |-> (IF "resume" \in DOMAIN r THEN r.resume ELSE << >>)]
\* forced replay of a Model behaviour: the real run must deliver what the Model delivered (a mismatch is a divergence
\* of the Model from the code, reported as such; the verdict comes from RunOK alone)
Agree(ln, r) == ln.case.kind = "forced" =>
                  /\ ObjsOf(TrueRets(r.H, Len(r.H) + 1)) = [i \in 1 .. Len(ln.case.expect.delivered) |->
                                                              <<ln.case.expect.delivered[i][1], ln.case.expect.delivered[i][2]>>]
                  /\ \A i \in Idx(r.H, {"err"}) : i < StopBegin(r.H) => ErrCls(r.H[i].class) = ln.case.expect.err
Why(ln, r) == RunWhy(r) \cup (IF Agree(ln, r) THEN {} ELSE {"diverge: forced replay delivered something else than the Model"})
ASSUME \A i \in 1 .. Len(Lines) :
          LET r == Norm(Lines[i].run) IN
          Why(Lines[i], r) = {} \/ PrintT(<<"BAD", ToJson([i |-> i, why |-> Why(Lines[i], r), kf |-> {}])>>)
ASSUME PrintT(<<"JUDGED", Len(Lines)>>)
JInit == /\ cfg = 0 /\ started = 0 /\ cancelled = 0 /\ parentCancelled = 0 /\ rpc = 0 /\ ri = 0 /\ rpos = 0 /\ rerr = 0 /\ rpair = 0
         /\ readsAfterStop = 0 /\ inq = 0 /\ inClosed = 0 /\ wpc = 0 /\ wcur = 0 /\ outq = 0 /\ outClosed = 0 /\ spc = 0 /\ sj = 0
         /\ scur = 0 /\ tErr = 0 /\ serq = 0 /\ serClosed = 0 /\ cpc = 0 /\ cData = 0 /\ cIndex = 0 /\ pOff = 0 /\ cOff = 0 /\ sErr = 0
         /\ closed = 0 /\ delivered = 0 /\ lastScan = 0 /\ hist = 0
JNext == UNCHANGED vars
=============================================================================
