\* every call sequence of length 3 over two ids, one version, nodes and ways, the OSM value and one sub-document of the Change
CONSTANTS
  Mode = "all"
  SeqLen = 3
  Ids = {1, 2}
  Vers = {1}
  Kinds = {"node", "way"}
  Targets = {"doc", "delete"}
  VisVals = {TRUE}
  Families = {"append", "reappend", "sort", "docds", "chgds"}
  MaxOps = 3
  TagKeys = {}
  TagVals = {}
  RefKinds = {}
  RefVers = {}
  Coords = {}
SPECIFICATION GSpec
INVARIANT Emit
CHECK_DEADLOCK FALSE
