---------------------------- MODULE PackedIdsTextMC ----------------------------
(* Design-level check for the textual form: the token-level transcription of  *)
(* Go's three parsers (Model, PackedIdsText!I_Parse) satisfies the Judge      *)
(* (Verdict / Conforms) on EVERY token string up to MaxLen tokens over the    *)
(* alphabet below.  A generating machine (one action appends one token) so    *)
(* that TLC explores it breadth-first with all workers.                       *)
EXTENDS PackedIdsText

CONSTANTS MaxLen, AlphabetName

Alphabet ==
  IF AlphabetName = "core"
  THEN {TokOf(s) : s \in {"node", "changeset", "zzz", "/", ":", "-", "+", "7", "0", " "}}
  ELSE {TokOf(s) : s \in {"node", "way", "bounds", "user", "nod", "e", "/", ":", "-", "+", "0", "7", "00", "65536",
                          "1099511627775", "1099511627776", "9223372036854775808", "."}}

VARIABLE toks
Init == toks = << >>
Next == Len(toks) < MaxLen /\ \E t \in Alphabet : toks' = Append(toks, t)

TextConforms == TextConformsAt(toks)

\* non-vacuity (checked by hand by asserting the negation as an invariant; TLC then shows a witness):
\* obj/accept "node/0:-", feat/accept "node/0", elem/ifok accepted "node/0", obj/silent accepted "node/-7"
Witness(P, d) == Verdict(P, toks).d = d
=============================================================================
