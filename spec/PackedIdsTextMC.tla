---------------------------- MODULE PackedIdsTextMC ----------------------------
(* Design-level check for the textual form: the token-level transcription of  *)
(* Go's three parsers (Model, PackedIdsText!I_Parse) satisfies the Judge      *)
(* (Verdict / Conforms) on EVERY token string up to MaxLen tokens over the    *)
(* alphabet below.  A generating machine (one action appends one token) so    *)
(* that TLC explores it breadth-first with all workers.                       *)
EXTENDS PackedIdsText

CONSTANTS MaxLen, AlphabetName

Alphabet ==
  IF AlphabetName = "core"
  THEN {TokOf(s) : s \in {"node", "changeset", "zzz", "/", ":", "-", "+", "7", "0", " "}}
  ELSE {TokOf(s) : s \in {"node", "way", "bounds", "user", "nod", "e", "/", ":", "-", "+", "0", "7", "00", "65536",
                          "1099511627775", "1099511627776", "9223372036854775808", "."}}

VARIABLE toks
Init == toks = << >>
Next == Len(toks) < MaxLen /\ \E t \in Alphabet : toks' = Append(toks, t)

TextConforms == TextConformsAt(toks)

\* non-vacuity: all four verdict classes, and accepting as well as rejecting outcomes, occur in the explored space
\* (checked as "violated" properties by hand during development; here as reachability witnesses counted by the driver)
Witness(P, d) == Verdict(P, toks).d = d
=============================================================================
