------------------------------ MODULE OsmDocGen ------------------------------
(* Writes the abstract cases of OsmDocCases as ndjson (IOEnv.OUT), selected by IOEnv.WHAT:              *)
(*   docs   C03 documents with their generic XML trees                                                  *)
(*   vals   C04 values (standalone objects, OSM / Change / Diff containers)                             *)
(*   json   C05 cases: round-trip values and independently written osmjson documents                    *)
EXTENDS OsmDocCases, IOUtils, Json
Out(S) == ndJsonSerialize(IOEnv.OUT, SetToSeq(S))
ASSUME IOEnv.WHAT = "docs" => Out({DocCase(d) : d \in Docs})
ASSUME IOEnv.WHAT = "vals" => Out({ValueCase(o) : o \in Values})
ASSUME IOEnv.WHAT = "json" => Out(JsonCases)
GInit == case = 0
=============================================================================
