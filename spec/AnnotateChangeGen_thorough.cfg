\* case generation, thorough tier: static families (HMax 5, both input flags, all pair versions);
\* the random draws are generated by separate TLC processes with AnnotateChangeGen_random.cfg
CONSTANTS
  HMax = 5
  BothVis = TRUE
  PairVers = {1, 2, 3, 4}
  NRandom = 0
  BuildMax = 0
  BuildIds = {}
INIT GInit
NEXT GNext
CHECK_DEADLOCK FALSE
