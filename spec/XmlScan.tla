------------------------------ MODULE XmlScan ------------------------------
(* The streaming OSM XML scanner (osmxml.Scanner) as a call-level state     *)
(* machine.  Used by C03 (stream = document order) and - for the XML half   *)
(* of its call histories - by C07.                                          *)
(*                                                                          *)
(* Input: a token sequence.  Token kinds:                                   *)
(*   "obj"    start of an element of one of the seven object kinds; the     *)
(*            scanner decodes the whole element and delivers it  (id = its  *)
(*            identity)                                                     *)
(*   "badobj" the same, but decoding the element fails                      *)
(*   "skip"   any other token (root / block start and end tags, unknown     *)
(*            elements, comments, white space)                              *)
(*   "bad"    not well-formed: the tokenizer fails here                     *)
(* after the last token the tokenizer reports end of input.                 *)
(*                                                                          *)
(* Model (shaped like the code): Scan is a loop                             *)
(*   check : stored error? -> false.  context done? -> false                *)
(*   token : read one token; error / end -> store it, false; obj -> true;   *)
(*           skip -> back to check                                          *)
(* Close (between calls) sets closed and cancels the scanner's context;     *)
(* Cancel (the caller's context, possibly from another goroutine, hence at  *)
(* any point of the loop) makes the context done.  Err: stored error that   *)
(* is not end-of-input, else nil after end of input, else closed, else the  *)
(* context's error.                                                         *)
(*                                                                          *)
(* Interface for other modules (documented in notes/C03.md):                *)
(*   state      vars == <<toks, pos, err, closed, cancelled, pc, nxt, hist,  *)
(*                       after>>   (after = tokens begun after a stop)     *)
(*   actions    CallScan, LoopCheck, LoopToken, CallClose, CallErr, Cancel  *)
(*   history    hist = sequence of [op, ret, id, stopped, st] call records  *)
(*   Judges     StreamInv, CompleteInv, LaterScansFalse, ErrPrecedence,     *)
(*              ReadAheadInv (Model) / ReadAheadOK(events) (recorded runs)  *)
(*   RecHist    call records rebuilt from a recorded event log, so that the  *)
(*              Judges can be evaluated on the real scanner's behaviour     *)
(*   XmlScanTrace.tla validates recorded event logs against the actions.    *)
EXTENDS Integers, Sequences, FiniteSets, TLC, SequencesExt

Tok(k, id) == [k |-> k, id |-> id]
ObjIds(ts) == LET s == SelectSeq(ts, LAMBDA t : t.k = "obj") IN [i \in 1 .. Len(s) |-> s[i].id]

VARIABLES toks,        \* the input (fixed per behaviour)
          pos,         \* tokens consumed
          err,         \* "none" | "eof" | "err"      (the sticky s.err)
          closed, cancelled,
          pc,          \* "idle" | "check" | "token"
          nxt,         \* id of the object last decoded ("nil" = none)
          hist,        \* call records, see Rec
          after        \* history: tokens the scanner began to read after Close / cancellation had taken effect
vars == <<toks, pos, err, closed, cancelled, pc, nxt, hist, after>>

CtxDone == closed \/ cancelled            \* the scanner's own context is a child of the caller's
Stopped == err # "none" \/ CtxDone
\* st: what had happened when the call returned (the Judges are stated over it)
St == [err |-> err, closed |-> closed, cancelled |-> cancelled]
Rec(op, ret, id, stopped, st) == [op |-> op, ret |-> ret, id |-> id, stopped |-> stopped, st |-> st]

InitWith(ts) == /\ toks = ts /\ pos = 0 /\ err = "none" /\ closed = FALSE /\ cancelled = FALSE
                /\ pc = "idle" /\ nxt = "nil" /\ hist = << >> /\ after = 0

\* hist's last entry while a Scan is in progress is the open call [op |-> "Scan", ret |-> "pending", stopped |-> at call time]
Return(ret, id, e) == hist' = [hist EXCEPT ![Len(hist)] = Rec("Scan", ret, id, @.stopped, [St EXCEPT !.err = e])]

CallScan == /\ pc = "idle"
            /\ hist' = Append(hist, Rec("Scan", "pending", "nil", Stopped, St))
            /\ pc' = "check"
            /\ UNCHANGED <<toks, pos, err, closed, cancelled, nxt, after>>
LoopCheck == /\ pc = "check"
             /\ IF err # "none" \/ CtxDone
                THEN pc' = "idle" /\ Return("false", "nil", err)
                ELSE pc' = "token" /\ UNCHANGED hist
             /\ UNCHANGED <<toks, pos, err, closed, cancelled, nxt, after>>
LoopToken ==
  /\ pc = "token"
  /\ IF pos = Len(toks)
     THEN err' = "eof" /\ pc' = "idle" /\ Return("false", "nil", "eof") /\ UNCHANGED <<pos, nxt>>
     ELSE LET t == toks[pos + 1] IN
          CASE t.k = "bad"    -> err' = "err" /\ pc' = "idle" /\ Return("false", "nil", "err") /\ UNCHANGED <<pos, nxt>>
            [] t.k = "skip"   -> pos' = pos + 1 /\ pc' = "check" /\ UNCHANGED <<err, nxt, hist>>
            [] t.k = "obj"    -> pos' = pos + 1 /\ nxt' = t.id /\ pc' = "idle" /\ Return("true", t.id, err) /\ UNCHANGED err
            [] t.k = "badobj" -> pos' = pos + 1 /\ nxt' = t.id /\ err' = "err" /\ pc' = "idle" /\ Return("false", "nil", "err")
  /\ after' = (IF CtxDone /\ pos < Len(toks) THEN after + 1 ELSE after)
  /\ UNCHANGED <<toks, closed, cancelled>>
CallClose == /\ pc = "idle"
             /\ closed' = TRUE
             /\ hist' = Append(hist, Rec("Close", "nil", "nil", Stopped, [St EXCEPT !.closed = TRUE]))
             /\ UNCHANGED <<toks, pos, err, cancelled, pc, nxt, after>>
ErrValue == IF err = "eof" THEN "nil" ELSE IF err = "err" THEN "err" ELSE IF closed THEN "closed" ELSE IF cancelled THEN "ctx" ELSE "nil"
CallErr == /\ pc = "idle"
           /\ hist' = Append(hist, Rec("Err", ErrValue, "nil", Stopped, St))
           /\ UNCHANGED <<toks, pos, err, closed, cancelled, pc, nxt, after>>
\* the caller's context: any time, also in the middle of a Scan (another goroutine)
Cancel == /\ ~cancelled
          /\ cancelled' = TRUE
          /\ UNCHANGED <<toks, pos, err, closed, pc, nxt, hist, after>>

CONSTANTS MaxCalls, TokenSeqs
Init == \E ts \in TokenSeqs : InitWith(ts)
Next == \/ (Len(hist) < MaxCalls /\ (CallScan \/ CallClose \/ CallErr))
        \/ LoopCheck \/ LoopToken \/ Cancel
Spec == Init /\ [][Next]_vars /\ WF_vars(LoopCheck \/ LoopToken)

(* ------------------------------- Judges --------------------------------- *)
Done(h) == SelectSeq(h, LAMBDA r : r.ret # "pending")
Delivered(h) == LET s == SelectSeq(h, LAMBDA r : r.op = "Scan" /\ r.ret = "true") IN [i \in 1 .. Len(s) |-> s[i].id]
\* C03: the stream is the document-order sequence of the objects (a prefix of it while scanning / after a stop) ...
StreamOK(ts, h) == IsPrefix(Delivered(h), ObjIds(ts))
\* ... and all of it once the end of the input has been reported
CompleteOK(ts, h) == \A i \in 1 .. Len(h) : (h[i].ret # "pending" /\ h[i].st.err = "eof") => Delivered(SubSeq(h, 1, i)) = ObjIds(ts)
\* C07: after Close / cancellation / an error every later Scan returns false
LaterScansFalseOK(h) == \A i \in 1 .. Len(h) : (h[i].op = "Scan" /\ h[i].stopped) => h[i].ret \in {"false", "pending"}
\* C07: Err = the error recorded earlier if there is one; otherwise closed after Close / the context's error after a
\* cancellation; nil only after a complete scan - and a recorded clean end (end of input reached) stays nil whatever happens later.
\* Where the sentence leaves a choice (Close and cancellation both, no clean end) every reading is accepted.  Before anything happened the property says nothing.
AllowedErr(st) ==
  IF st.err = "err" THEN {"err"}
  ELSE IF st.err = "eof" THEN {"nil"}     \* a recorded clean end wins over a later Close / cancellation (documented: Err is nil at io.EOF)
  ELSE (IF st.closed THEN {"closed"} ELSE {}) \cup (IF st.cancelled THEN {"ctx"} ELSE {})
ErrPrecedenceOK(h) == \A i \in 1 .. Len(h) : (h[i].op = "Err" /\ AllowedErr(h[i].st) # {}) => h[i].ret \in AllowedErr(h[i].st)
\* a Scan that returns false has a reason
FalseHasReason(h) == \A i \in 1 .. Len(h) : (h[i].op = "Scan" /\ h[i].ret = "false") => (h[i].st.err # "none" \/ h[i].st.closed \/ h[i].st.cancelled)

\* C07: "the call returns without consuming the rest of the input".  The Model begins at most ONE more token after a stop
\* (the one it was about to read when a concurrent cancellation took effect; none after Close or a cancellation between
\* calls).  On recorded runs the clause is judged with slack: what is read after the stop must be bounded by a small
\* constant, not by the length of what is left - at most ReadAheadSlack tokens are begun after the first stop event.
ReadAheadInv == after <= 1
ReadAheadSlack == 8
IsStopEvent(x) == x.e \in {"fired", "cancel"} \/ (x.e = "ret" /\ x.op = "Close")
ReadAheadOK(ev) ==
  \A i \in 1 .. Len(ev) :
     (IsStopEvent(ev[i]) /\ \A k \in 1 .. i - 1 : ~IsStopEvent(ev[k])) =>
        Cardinality({k \in i + 1 .. Len(ev) : ev[k].e = "tok"}) <= ReadAheadSlack
StreamInv == StreamOK(toks, hist)
CompleteInv == CompleteOK(toks, hist)
LaterScansFalse == LaterScansFalseOK(hist)
ErrPrecedence == ErrPrecedenceOK(hist)
FalseReasonInv == FalseHasReason(hist)
\* every Scan call returns (the loop consumes a token or stops)
ScanReturns == [](pc # "idle" => <>(pc = "idle"))
TypeOK == /\ pos \in 0 .. Len(toks) /\ err \in {"none", "eof", "err"} /\ pc \in {"idle", "check", "token"}
          /\ closed \in BOOLEAN /\ cancelled \in BOOLEAN

(* ------------- histories reconstructed from recorded events -------------- *)
\* The harness logs, per run, the events
\*   [e |-> "call", op]            a call begins (Scan only; Close and Err are logged by their return)
\*   [e |-> "tok", j]              the reader hands out the first byte of token j (one byte per read, so this is the
\*                                 moment the tokenizer starts on token j)         [e |-> "eof"] end of input reported
\*   [e |-> "fired", j]            the caller's context was cancelled by the reader hook just before "tok" j / "eof"
\*   [e |-> "cancel"]              the caller's context was cancelled between two calls
\*   [e |-> "ret", op, ret, id]    return of Scan ("true" / "false", id of Object()), Err ("nil" | "closed" | "ctx" | "err"), Close
\* every event record has all of the fields e, op, j, ret, id ("" / 0 when unused).
\* RecHist rebuilds the call records (with the recorded facts: which tokens were read, Close / cancel seen) so that the
\* Judges can be evaluated on what the real scanner did, independently of the Model.
ErrAfterTok(ts, j) == IF j > Len(ts) THEN "eof" ELSE IF ts[j].k \in {"bad", "badobj"} THEN "err" ELSE "none"
RECURSIVE RecFrom(_, _, _, _, _)
RecFrom(ts, ev, i, s, callStopped) ==
  IF i > Len(ev) THEN << >>
  ELSE LET x == ev[i] IN
       CASE x.e = "call"   -> RecFrom(ts, ev, i + 1, s, s.err # "none" \/ s.closed \/ s.cancelled)
         [] x.e = "tok"    -> RecFrom(ts, ev, i + 1, [s EXCEPT !.err = IF @ = "none" THEN ErrAfterTok(ts, x.j) ELSE @], callStopped)
         [] x.e = "eof"    -> RecFrom(ts, ev, i + 1, [s EXCEPT !.err = IF @ = "none" THEN "eof" ELSE @], callStopped)
         [] x.e \in {"fired", "cancel"} -> RecFrom(ts, ev, i + 1, [s EXCEPT !.cancelled = TRUE], callStopped)
         [] x.e = "ret" /\ x.op = "Scan"  -> <<Rec("Scan", x.ret, x.id, callStopped, s)>> \o RecFrom(ts, ev, i + 1, s, callStopped)
         [] x.e = "ret" /\ x.op = "Close" -> <<Rec("Close", x.ret, "nil", s.err # "none" \/ s.closed \/ s.cancelled, [s EXCEPT !.closed = TRUE])>>
                                              \o RecFrom(ts, ev, i + 1, [s EXCEPT !.closed = TRUE], callStopped)
         [] x.e = "ret" /\ x.op = "Err"   -> <<Rec("Err", x.ret, "nil", s.err # "none" \/ s.closed \/ s.cancelled, s)>> \o RecFrom(ts, ev, i + 1, s, callStopped)
         [] OTHER -> RecFrom(ts, ev, i + 1, s, callStopped)
RecHist(ts, ev) == RecFrom(ts, ev, 1, [err |-> "none", closed |-> FALSE, cancelled |-> FALSE], FALSE)
=============================================================================
