CONSTANTS
  Tier = "thorough"
  SampleN = 30000
INIT GInit
NEXT GNext
CHECK_DEADLOCK FALSE
