CONSTANTS
  Tier = "thorough"
  SampleN = 24000
INIT GInit
NEXT GNext
CHECK_DEADLOCK FALSE
