---------------------------- MODULE XmlScanTrace ----------------------------
(* Trace validation: event logs recorded from the real osmxml.Scanner       *)
(* (IOEnv.REC, one JSON object per line; a {"e":"run","toks":..} line starts *)
(* a new run) are replayed against the actions of XmlScan.  The only        *)
(* unlogged step is the loop's context check (LoopCheck).  All Judges of    *)
(* XmlScan are checked as invariants on the way; the log is accepted when   *)
(* every line has been consumed (POSTCONDITION TraceAccepted).              *)
EXTENDS XmlScan, IOUtils, Json
TraceLog == ndJsonDeserialize(IOEnv.REC)
VARIABLE l
tvars == <<toks, pos, err, closed, cancelled, pc, nxt, hist, after, l>>
Ev == TraceLog[l]
IsEvent(e) == l <= Len(TraceLog) /\ Ev.e = e /\ l' = l + 1
LastRec == hist'[Len(hist')]
TraceInit == l = 1 /\ InitWith(<< >>)
TraceReset == /\ IsEvent("run") /\ pc = "idle"
              /\ toks' = Ev.toks /\ pos' = 0 /\ err' = "none" /\ closed' = FALSE /\ cancelled' = FALSE
              /\ pc' = "idle" /\ nxt' = "nil" /\ hist' = << >> /\ after' = 0
TraceNext ==
  \/ TraceReset
  \/ IsEvent("call") /\ Ev.op = "Scan" /\ CallScan
  \/ IsEvent("tok") /\ pos < Len(toks) /\ Ev.j = pos + 1 /\ LoopToken
  \/ IsEvent("eof") /\ pos = Len(toks) /\ LoopToken
  \/ IsEvent("fired") /\ pc = "token" /\ Ev.j = pos + 1 /\ Cancel
  \/ IsEvent("cancel") /\ pc = "idle" /\ Cancel
  \/ IsEvent("ret") /\ Ev.op = "Scan" /\ pc = "idle" /\ hist # << >> /\ hist[Len(hist)].op = "Scan"
        /\ hist[Len(hist)].ret = Ev.ret /\ hist[Len(hist)].id = Ev.id /\ UNCHANGED vars
  \/ IsEvent("ret") /\ Ev.op = "Close" /\ CallClose /\ LastRec.ret = Ev.ret
  \/ IsEvent("ret") /\ Ev.op = "Err" /\ CallErr /\ LastRec.ret = Ev.ret
  \/ (LoopCheck /\ UNCHANGED l)
TraceSpec == TraceInit /\ [][TraceNext]_tvars
HighWater == TLCSet(1, IF TLCGet(1) < l THEN l ELSE TLCGet(1))
TraceAccepted == TLCGet(1) = Len(TraceLog) + 1 \/ (PrintT(<<"STUCK", TLCGet(1)>>) /\ FALSE)
ASSUME TLCSet(1, 0)
=============================================================================
