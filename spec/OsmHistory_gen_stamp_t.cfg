CONSTANTS
  NK = 1
  MaxV <- V3
  MaxP = 2
  MaxT = 5
  MaxDt = 3
  CsSet = {1, 2}
  ParentCsFree = FALSE
  RefLists <- RefsOne
  SameTimeParents = FALSE
  RefsMustExist = TRUE
  GenOpts <- OptsStamp012
  SampleMod = 1
INIT HInit
NEXT HNext
INVARIANTS HistoryOK GenInv
CHECK_DEADLOCK FALSE
