CONSTANT Configs <- CfgsHistBig
INIT Init
NEXT Next
INVARIANTS HistInv
CHECK_DEADLOCK FALSE
