CONSTANTS
  NK = 2
  MaxV <- V21
  MaxP = 2
  MaxT = 4
  MaxDt = 2
  CsSet = {1, 2}
  ParentCsFree = FALSE
  RefLists <- RefsSmall
  SameTimeParents = FALSE
  RefsMustExist = TRUE
  GenOpts <- OptsStamp012
  SampleMod = 1
INIT HInit
NEXT HNext
INVARIANTS HistoryOK GenInv
CHECK_DEADLOCK FALSE
