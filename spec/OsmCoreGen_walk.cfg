CONSTANTS
  Mode = "walk"
  SeqLen = 0
  Ids = {1, 2, 3}
  Vers = {1, 2, 3}
  Kinds = {"node", "way", "relation", "changeset", "note", "user", "bounds"}
  Targets = {"doc", "create", "modify", "delete"}
  VisVals = {TRUE, FALSE}
  Families = {}
  MaxOps = 0
  TagKeys = {"created_by", "highway", "name", "source"}
  TagVals = {"", "a", "b"}
  RefKinds = {"node", "way", "relation"}
  RefVers = {0, 1, 2}
  Coords <- CoordsAll
SPECIFICATION GSpec
INVARIANT Emit
CHECK_DEADLOCK FALSE
