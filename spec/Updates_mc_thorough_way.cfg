\* design level, thorough, ways: <= 3 fully annotated nodes, every stored list of <= 4 updates over
\* index 0..n (n = beyond the list) and times 1..2, every t1 <= t2 in 0..2
CONSTANTS
  MaxN = 3
  MaxL = 4
  MaxT = 2
  Kinds = {"way"}
  UnannChoices = {0}
  LocKinds = {"n"}
  BreakAtLate = FALSE
SPECIFICATION Spec
INVARIANTS Exact1 Exact2 Pending1 Pending2 IndexErr1 IndexErr2 Compose GeomAt1 GeomAt2 FoldsAgree UpToSplit KFExact
CHECK_DEADLOCK FALSE
