CONSTANTS
  RN = 2
  RCap = 1
  RBlocks = 3
  Configs <- RConfigs
INIT Init
NEXT Next
VIEW RView
PROPERTIES RefinesBad
CHECK_DEADLOCK FALSE
