\* design level: Model |= Judges over every cut / reversal / member order of the shapes
CONSTANT Shapes <- S_MCT2b
CONSTANT MaxPieces = 2
CONSTANT MaskMode = "basic"
CONSTANT Tasks = {"convert", "annotate"}
CONSTANT Patterns = {"of", "alt"}
INIT Init
NEXT Next
INVARIANT ConvertRecovers
INVARIANT AnnotateMarks
INVARIANT Deterministic
INVARIANT RemoveIsRemoveAt
INVARIANT NoJoinReversalWhenAnnotated
INVARIANT JoinEmitsRings
