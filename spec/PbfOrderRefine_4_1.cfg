CONSTANTS
  RN = 4
  RCap = 1
  RBlocks = 6
  Configs <- RConfigs
INIT Init
NEXT Next
VIEW RView
INVARIANTS TypeOK OrderInv CoreIndInv
PROPERTIES RefinesCore
CHECK_DEADLOCK FALSE
