------------------------------- MODULE OsmCore -------------------------------
(* X01 - the in-memory containers of package osm as a state machine.         *)
(*                                                                           *)
(* State   : a heap of objects (the Go values behind *Node, *Way, ...; a     *)
(*           "serial" is the identity of one pointer), the containers that   *)
(*           hold pointers to them (one osm.OSM `doc`, one osm.Change `chg`  *)
(*           with its three optional sub-documents), the last                *)
(*           osm.HistoryDatasource that was built (`ds`), one osm.Tags value *)
(*           (`tags`) and one list of references (`refs`: the Members of a   *)
(*           probe relation; its node references are the WayNodes of a probe *)
(*           way).                                                           *)
(* Actions : one per mutating call of the public API (Do* below).            *)
(* Queries : derived operators, collected in MQ (per state) and MPure        *)
(*           (state independent).  They are written the way the code works   *)
(*           (loops as folds, sort.Sort on <= 12 elements as the insertion   *)
(*           sort it is); the invariants further down say declaratively what *)
(*           they amount to.                                                 *)
(* Judge   : J_Step / J_Queries / J_Pure - what the doc comments of the      *)
(*           package promise, stated over *observations* (projected state    *)
(*           and query results as recorded from the real code, or as         *)
(*           projected from the Model) and nothing else.  Where the comments *)
(*           are silent (order of Objects(), which duplicate key Find/Map    *)
(*           take, stability of the sorts, order of a history built from an  *)
(*           OSM, Visible being forced by Change.HistoryDatasource, ...) the *)
(*           Judge is silent and only the Model describes the code.          *)
EXTENDS Integers, Sequences, FiniteSets, TLC, SequencesExt

CONSTANTS
  Ids,       \* ids of appended objects (positive integers)
  Vers,      \* versions of appended elements (positive integers)
  Kinds,     \* kinds Append is tried with: subset of AllKinds
  Targets,   \* containers Append / Sort are tried on: subset of {"doc","create","modify","delete"}
  VisVals,   \* Visible of a new element: subset of BOOLEAN
  Families,  \* enabled action families: subset of {"append","reappend","sort","docds","chgds","tagadd","tagsort","refadd"}
  MaxOps,    \* length of the explored call sequences
  TagKeys, TagVals,            \* subsets of the elements of AllTagKeys / AllTagVals
  RefKinds, RefVers, Coords    \* references: kinds, versions (0 = not annotated), abstract coordinates (subset of -1..1)

(* ------------------------------ vocabulary -------------------------------- *)
AllKinds   == {"node", "way", "relation", "changeset", "note", "user", "bounds"}
ElemKinds  == <<"node", "way", "relation">>
ElemKindSet == {"node", "way", "relation"}
SliceKinds == {"node", "way", "relation", "changeset", "note", "user"}
Containers == {"doc", "create", "modify", "delete"}
IsElem(k)  == k \in ElemKindSet
\* order of the type bits of the packed ids (feature.go: boundsMask < nodeMask < wayMask < relationMask < changesetMask < noteMask < userMask)
KindRank(k) == CASE k = "bounds" -> 0 [] k = "node" -> 1 [] k = "way" -> 2 [] k = "relation" -> 3
                 [] k = "changeset" -> 4 [] k = "note" -> 5 [] k = "user" -> 6
\* strings cannot be compared in TLC: the byte order of the tag keys / values used is tabulated here
AllTagKeys == <<"created_by", "highway", "name", "source">>
AllTagVals == <<"", "a", "b">>
RankIn(seq, x) == CHOOSE i \in 1 .. Len(seq) : seq[i] = x
KeyRank(k) == RankIn(AllTagKeys, k)
ValRank(v) == RankIn(AllTagVals, v)
\* var UninterestingTags (tag.go)
Uninteresting == {"source", "source_ref", "source:ref", "history", "attribution", "created_by",
                  "tiger:county", "tiger:tlid", "tiger:upload_uuid"}
GridVals == <<-2, -1, 0, 1, 2>>          \* probe positions for Bounds.ContainsNode
CoordsAll == {-1, 0, 1}                  \* (a cfg file cannot write negative numbers)
CoordsPos == {0, 1}
QIds == 0 .. 3                           \* ids the histories are asked for (0 is never appended)
SortedQIds == <<0, 1, 2, 3>>
ASSUME Ids \subseteq 1 .. 3

MapSeq(s, f(_)) == [i \in 1 .. Len(s) |-> f(s[i])]
Count(s, x) == Cardinality({i \in 1 .. Len(s) : s[i] = x})
SameBag(s, t) == Len(s) = Len(t) /\ \A x \in ToSet(s) \cup ToSet(t) : Count(s, x) = Count(t, x)
Min2(a, b) == IF a < b THEN a ELSE b
Max2(a, b) == IF a > b THEN a ELSE b

(* =============================== MODEL ==================================== *)
VARIABLES heap,   \* Seq of [k, id, v, vis]: the objects ever created; index = serial
          doc,    \* the osm.OSM value
          chg,    \* the osm.Change value: [create, modify, delete], each an OSM value or nil
          ds,     \* the osm.HistoryDatasource built last (nil before the first)
          tags,   \* osm.Tags: Seq of <<key, value>>
          refs,   \* Seq of [k, id, v, lat, lon]
          last,   \* the call that led to this state
          n       \* number of calls so far
vars == <<heap, doc, chg, ds, tags, refs, last, n>>

NilOSM   == [nil |-> TRUE, bounds |-> 0, node |-> << >>, way |-> << >>, relation |-> << >>,
             changeset |-> << >>, note |-> << >>, user |-> << >>]
EmptyOSM == [NilOSM EXCEPT !.nil = FALSE]
EmptyMap == [i \in QIds |-> << >>]
NilDs    == [nil |-> TRUE, node |-> EmptyMap, way |-> EmptyMap, relation |-> EmptyMap]
Obj(k, id, v, vis) == [k |-> k, id |-> id, v |-> v, vis |-> vis]

Init == /\ heap = << >> /\ doc = EmptyOSM
        /\ chg = [create |-> NilOSM, modify |-> NilOSM, delete |-> NilOSM]
        /\ ds = NilDs /\ tags = << >> /\ refs = << >>
        /\ last = [op |-> "reset"] /\ n = 0

Cont(c) == IF c = "doc" THEN doc ELSE chg[c]
SetCont(c, val) == IF c = "doc" THEN doc' = val /\ UNCHANGED chg
                   ELSE chg' = [chg EXCEPT ![c] = val] /\ UNCHANGED doc

(* ---- OSM.Append / Change.AppendCreate, AppendModify, AppendDelete (osm.go:43, change.go:25-50) ---- *)
\* the type switch of Append: one slice per kind, appended at the end; a Bounds replaces the bounds pointer;
\* AppendX first allocates the sub-document when it is nil
OsmAppend(o, s, k) == IF k = "bounds" THEN [o EXCEPT !.nil = FALSE, !.bounds = s]
                      ELSE [o EXCEPT !.nil = FALSE, ![k] = Append(@, s)]
\* o.s = Len(heap) + 1: a new object [o.k, o.id, o.v, o.vis] is allocated; o.s <= Len(heap): the same pointer again
DoAppend(o) ==
  /\ o.s \in 1 .. Len(heap) + 1
  /\ LET h2 == IF o.s = Len(heap) + 1 THEN Append(heap, Obj(o.k, o.id, o.v, o.vis)) ELSE heap IN
       /\ heap' = h2
       /\ SetCont(o.to, OsmAppend(Cont(o.to), o.s, h2[o.s].k))
  /\ UNCHANGED <<ds, tags, refs>>

(* ---- Nodes / Ways / Relations .SortByIDVersion (sort.Sort; insertion sort up to 12 elements) ---- *)
RECURSIVE Ins(_, _, _)
Ins(s, x, key) == IF s = << >> THEN <<x>>
                  ELSE IF key[x] < key[s[Len(s)]] THEN Append(Ins(Front(s), x, key), Last(s))
                  ELSE Append(s, x)
ISort(s, key) == FoldLeft(LAMBDA acc, x : Ins(acc, x, key), << >>, s)
IdVerKey(h)  == [s \in 1 .. Len(h) |-> h[s].id * 1000 + h[s].v]                                   \* nodesSort.Less
ElemKey(h)   == [s \in 1 .. Len(h) |-> KindRank(h[s].k) * 1000000 + h[s].id * 1000 + h[s].v]     \* ElementID order
FeatKey(h)   == [s \in 1 .. Len(h) |-> KindRank(h[s].k) * 1000000 + h[s].id * 1000]              \* FeatureID order
DoSort(o) ==
  /\ ~Cont(o.to).nil                      \* the caller cannot reach the slice of a nil sub-document
  /\ SetCont(o.to, [Cont(o.to) EXCEPT ![o.k] = ISort(@, IdVerKey(heap))])
  /\ UNCHANGED <<heap, ds, tags, refs>>

(* ---- HistoryDatasource.add, OSM.HistoryDatasource, Change.HistoryDatasource (datasource.go:27, osm.go:177, change.go:55) ---- *)
AddSlice(m, slice, h) == FoldLeft(LAMBDA acc, s : [acc EXCEPT ![h[s].id] = Append(@, s)], m, slice)
DsAdd(d, o, h) == [nil |-> FALSE, node |-> AddSlice(d.node, o.node, h), way |-> AddSlice(d.way, o.way, h),
                   relation |-> AddSlice(d.relation, o.relation, h)]
\* add(o, visible): every node, way, relation of o gets Visible = visible (the objects themselves are written)
ElemsOf(o) == o.node \o o.way \o o.relation
SetVis(h, o, b) == [s \in DOMAIN h |-> IF s \in ToSet(ElemsOf(o)) THEN [h[s] EXCEPT !.vis = b] ELSE h[s]]
DoDocDs ==
  /\ ds' = DsAdd(NilDs, doc, heap)
  /\ UNCHANGED <<heap, doc, chg, tags, refs>>
DoChgDs ==
  /\ ds' = DsAdd(DsAdd(DsAdd(NilDs, chg.create, heap), chg.modify, heap), chg.delete, heap)
  /\ heap' = SetVis(SetVis(SetVis(heap, chg.create, TRUE), chg.modify, TRUE), chg.delete, FALSE)
  /\ UNCHANGED <<doc, chg, tags, refs>>

(* ---- Tags: append by the caller, Tags.SortByKeyValue ---- *)
TagKey(ts) == [t \in ToSet(ts) |-> KeyRank(t[1]) * 10 + ValRank(t[2])]                            \* tagsSort.Less
DoTagAdd(o)  == tags' = Append(tags, <<o.key, o.val>>) /\ UNCHANGED <<heap, doc, chg, ds, refs>>
DoTagSort    == tags' = ISort(tags, TagKey(tags)) /\ UNCHANGED <<heap, doc, chg, ds, refs>>
(* ---- references: appended by the caller ---- *)
DoRefAdd(o)  == refs' = Append(refs, [k |-> o.k, id |-> o.id, v |-> o.v, lat |-> o.lat, lon |-> o.lon])
                /\ UNCHANGED <<heap, doc, chg, ds, tags>>

Do(o) ==
  /\ last' = o /\ n' = n + 1
  /\ CASE o.op = "append"  -> DoAppend(o)
       [] o.op = "sort"    -> DoSort(o)
       [] o.op = "docds"   -> DoDocDs
       [] o.op = "chgds"   -> DoChgDs
       [] o.op = "tagadd"  -> DoTagAdd(o)
       [] o.op = "tagsort" -> DoTagSort
       [] o.op = "refadd"  -> DoRefAdd(o)

(* ---- the calls explored ---- *)
VerOf(k) == IF IsElem(k) THEN Vers ELSE {0}
IdOf(k)  == IF k = "bounds" THEN {0} ELSE Ids
VisOf(k) == IF IsElem(k) THEN VisVals ELSE {FALSE}
NewOps == IF "append" \notin Families THEN {} ELSE
  UNION {UNION {{[op |-> "append", to |-> t, s |-> Len(heap) + 1, k |-> k, id |-> i, v |-> v, vis |-> b] :
                    i \in IdOf(k), v \in VerOf(k), b \in VisOf(k)} : k \in Kinds} : t \in Targets}
ReOps == IF "reappend" \notin Families THEN {} ELSE
  {[op |-> "append", to |-> t, s |-> s, k |-> heap[s].k, id |-> heap[s].id, v |-> heap[s].v, vis |-> heap[s].vis] :
      t \in Targets, s \in 1 .. Len(heap)}
SortOps == IF "sort" \notin Families THEN {} ELSE
  {[op |-> "sort", to |-> t, k |-> k] : t \in {c \in Targets : ~Cont(c).nil}, k \in ElemKindSet \cap Kinds}
DsOps == {[op |-> f] : f \in Families \cap {"docds", "chgds"}}
TagOps == (IF "tagadd" \in Families THEN {[op |-> "tagadd", key |-> k, val |-> v] : k \in TagKeys, v \in TagVals} ELSE {})
          \cup {[op |-> f] : f \in Families \cap {"tagsort"}}
RefOps == IF "refadd" \notin Families THEN {} ELSE
  {[op |-> "refadd", k |-> k, id |-> i, v |-> v, lat |-> la, lon |-> lo] :
      k \in RefKinds, i \in Ids, v \in RefVers, la \in Coords, lo \in Coords}

Next == /\ n < MaxOps
        /\ \/ \E o \in NewOps : Do(o)
           \/ \E o \in ReOps : Do(o)
           \/ \E o \in SortOps : Do(o)
           \/ \E o \in DsOps : Do(o)
           \/ \E o \in TagOps : Do(o)
           \/ \E o \in RefOps : Do(o)
Spec == Init /\ [][Next]_vars

(* ============================== QUERIES =================================== *)
\* OSM.Objects (osm.go:88): bounds first, then the slices in the order nodes, ways, relations, changesets, users, notes
Objects(o)  == (IF o.bounds = 0 THEN << >> ELSE <<o.bounds>>) \o o.node \o o.way \o o.relation \o o.changeset \o o.user \o o.note
Elements(o) == o.node \o o.way \o o.relation                  \* OSM.Elements, and the loops of OSM.FeatureIDs / ElementIDs
FID(h, s) == <<h[s].k, h[s].id>>
EID(h, s) == <<h[s].k, h[s].id, h[s].v>>                      \* also the ObjectID: v = 0 for changesets, notes, users, bounds
IDof(h, s) == h[s].id
Fids(h, ss) == MapSeq(ss, LAMBDA s : FID(h, s))
Eids(h, ss) == MapSeq(ss, LAMBDA s : EID(h, s))
IdsOf(h, ss) == MapSeq(ss, LAMBDA s : IDof(h, s))
CountKinds(h, ss) == [j \in 1 .. 3 |-> Cardinality({i \in 1 .. Len(ss) : h[ss[i]].k = ElemKinds[j]})]

\* NodeHistory / WayHistory / RelationHistory: <<kind, id, 1, history>> or <<kind, id, 0, <<>>>> (an error err with NotFound(err))
HistEntry(k, i) == IF ds[k][i] = << >> THEN <<k, i, 0, << >>>> ELSE <<k, i, 1, ds[k][i]>>
Hist == IF ds.nil THEN << >>
        ELSE FlattenSeq([ki \in 1 .. 3 |-> [j \in 1 .. Len(SortedQIds) |-> HistEntry(ElemKinds[ki], SortedQIds[j])]])

\* Tags.Find / FindTag / HasTag: the first tag with the key; Tags.Map: later tags overwrite earlier ones
FirstIdx(ts, k) == SelectInSeq(ts, LAMBDA t : t[1] = k)
LastIdx(ts, k)  == SelectLastInSeq(ts, LAMBDA t : t[1] = k)
Find(ts, k)     == IF FirstIdx(ts, k) = 0 THEN "" ELSE ts[FirstIdx(ts, k)][2]
FindTag(ts, k)  == IF FirstIdx(ts, k) = 0 THEN <<k, FALSE, "">> ELSE <<k, TRUE, ts[FirstIdx(ts, k)][2]>>
TagMap(ts)      == LET ks == SelectSeq(AllTagKeys, LAMBDA k : LastIdx(ts, k) # 0) IN
                   [j \in 1 .. Len(ks) |-> <<ks[j], ts[LastIdx(ts, ks[j])][2]>>]
AnyInteresting(ts) == \E i \in 1 .. Len(ts) : ts[i][1] \notin Uninteresting

\* WayNodes of the probe way = the node references
WN(rs) == SelectSeq(rs, LAMBDA r : r.k = "node")
\* WayNodes.Bounds: running min / max from (+MaxFloat64, -MaxFloat64); <<empty, minlat, maxlat, minlon, maxlon>>
WnBounds(w) == IF w = << >> THEN <<TRUE, 0, 0, 0, 0>>
               ELSE <<FALSE, FoldLeft(LAMBDA a, r : Min2(a, r.lat), w[1].lat, w), FoldLeft(LAMBDA a, r : Max2(a, r.lat), w[1].lat, w),
                             FoldLeft(LAMBDA a, r : Min2(a, r.lon), w[1].lon, w), FoldLeft(LAMBDA a, r : Max2(a, r.lon), w[1].lon, w)>>
\* Way.LineString: the nodes with a version or a non-zero coordinate
LineString(w) == MapSeq(SelectSeq(w, LAMBDA r : r.v # 0 \/ r.lon # 0 \/ r.lat # 0), LAMBDA r : <<r.lon, r.lat>>)
\* Bounds.ContainsNode for the grid positions, bounds = WayNodes.Bounds() (nothing is inside the bounds of no nodes)
Grid == FlattenSeq([a \in 1 .. Len(GridVals) |-> [b \in 1 .. Len(GridVals) |-> <<GridVals[a], GridVals[b]>>]])
Inside(b, p) == ~b[1] /\ b[2] <= p[1] /\ p[1] <= b[3] /\ b[4] <= p[2] /\ p[2] <= b[5]
ContainedGrid(w) == SelectSeq(Grid, LAMBDA p : Inside(WnBounds(w), p))

\* everything that is asked after every call
MQ ==
  [ objs |-> Objects(doc), elems |-> Elements(doc),
    fids |-> Fids(heap, Elements(doc)), eids |-> Eids(heap, Elements(doc)),
    oids |-> Eids(heap, Objects(doc)),                                       \* Objects().ObjectIDs()
    e_eids |-> Eids(heap, Elements(doc)), e_fids |-> Fids(heap, Elements(doc)),   \* Elements().ElementIDs() / FeatureIDs()
    k_ids  |-> [node |-> IdsOf(heap, doc.node), way |-> IdsOf(heap, doc.way), relation |-> IdsOf(heap, doc.relation),
                changeset |-> IdsOf(heap, doc.changeset)],
    k_fids |-> [node |-> Fids(heap, doc.node), way |-> Fids(heap, doc.way), relation |-> Fids(heap, doc.relation)],
    k_eids |-> [node |-> Eids(heap, doc.node), way |-> Eids(heap, doc.way), relation |-> Eids(heap, doc.relation)],
    s_elems |-> ISort(Elements(doc), ElemKey(heap)),                          \* es := Elements(); es.Sort()
    s_eids  |-> Eids(heap, ISort(Elements(doc), ElemKey(heap))),              \* ids := ElementIDs(); ids.Sort()
    s_fids  |-> Fids(heap, ISort(Elements(doc), FeatKey(heap))),              \* ids := FeatureIDs(); ids.Sort()
    cnt_e |-> CountKinds(heap, Elements(doc)), cnt_f |-> CountKinds(heap, Elements(doc)),
    cobjs |-> [create |-> Objects(chg.create), modify |-> Objects(chg.modify), delete |-> Objects(chg.delete)],
    hist |-> Hist,
    find    |-> MapSeq(AllTagKeys, LAMBDA k : <<k, Find(tags, k)>>),
    findtag |-> MapSeq(AllTagKeys, LAMBDA k : FindTag(tags, k)),
    has     |-> MapSeq(AllTagKeys, LAMBDA k : <<k, FirstIdx(tags, k) # 0>>),
    tmap |-> TagMap(tags), interesting |-> AnyInteresting(tags),
    m_fids |-> MapSeq(refs, LAMBDA r : <<r.k, r.id>>), m_eids |-> MapSeq(refs, LAMBDA r : <<r.k, r.id, r.v>>),
    wn_ids |-> MapSeq(WN(refs), LAMBDA r : r.id), wn_fids |-> MapSeq(WN(refs), LAMBDA r : <<"node", r.id>>),
    wn_eids |-> MapSeq(WN(refs), LAMBDA r : <<"node", r.id, r.v>>),
    wn_bounds |-> WnBounds(WN(refs)), ls |-> LineString(WN(refs)), contains |-> ContainedGrid(WN(refs)) ]

(* ---- state independent ---- *)
Pow2(z) == IF z = 0 THEN 1 ELSE IF z = 1 THEN 2 ELSE 4
\* latitudes (x 10000, rounded) of the tile row edges of the web mercator pyramid at zoom 0, 1, 2
LatEdges == << <<850511, -850511>>, <<850511, 0, -850511>>, <<850511, 665133, 0, -665133, -850511>> >>
\* NewBoundsFromTile(x, y, z): <<z, x, y, err, minlon, maxlon, minlat, maxlat>>, degrees x 10000
TileRow(z, x, y) == IF x >= Pow2(z) \/ y >= Pow2(z) THEN <<z, x, y, TRUE, 0, 0, 0, 0>>
                    ELSE <<z, x, y, FALSE, ((x * 360) \div Pow2(z) - 180) * 10000, (((x + 1) * 360) \div Pow2(z) - 180) * 10000,
                           LatEdges[z + 1][y + 2], LatEdges[z + 1][y + 1]>>
Tiles == FlattenSeq(FlattenSeq([z \in 1 .. 3 |-> [x \in 1 .. 5 |-> [y \in 1 .. 5 |-> TileRow(z - 1, x - 1, y - 1)]]]))
\* HistoryDatasource.NotFound(err) for err = nil, an unrelated error, the not-found error wrapped with %w, the error of a failed
\* lookup in this datasource, the error of a failed lookup in another datasource (one package level sentinel, compared with ==)
NotFoundTable == <<FALSE, FALSE, FALSE, TRUE, TRUE>>
MPure == [tiles |-> Tiles, nf |-> NotFoundTable]

(* ============================ PROJECTION ================================== *)
MapProj(m) == LET ids == SelectSeq(SortedQIds, LAMBDA i : m[i] # << >>) IN [j \in 1 .. Len(ids) |-> <<ids[j], m[ids[j]]>>]
Proj == [ heap |-> heap, doc |-> doc, create |-> chg.create, modify |-> chg.modify, delete |-> chg.delete,
          ds |-> [nil |-> ds.nil, node |-> MapProj(ds.node), way |-> MapProj(ds.way), relation |-> MapProj(ds.relation)],
          tags |-> tags, refs |-> refs ]

(* =============================== JUDGE ==================================== *)
(* Over observations only: p, c = projected states (shape of Proj), o = the call, q = query results (shape of MQ). *)
SlicesOf(o)   == o.node \o o.way \o o.relation \o o.changeset \o o.note \o o.user
NoBounds(h, ss) == SelectSeq(ss, LAMBDA s : s \in 1 .. Len(h) /\ h[s].k # "bounds")
ObsCont(st, c) == st[c]
SortedBy(ss, key) == \A i \in 1 .. Len(ss) - 1 : key[ss[i]] <= key[ss[i + 1]]
OthersSame(p, c, except) == \A t \in Containers \ except : c[t] = p[t]

\* "Append will add the given object to the OSM object." / "AppendCreate will append the object to the Create OSM object."
J_Append(p, o, c) ==
  LET pc == ObsCont(p, o.to)  cc == ObsCont(c, o.to) IN
  /\ o.s <= Len(c.heap)
  /\ \A i \in 1 .. Len(p.heap) : c.heap[i] = p.heap[i]                 \* appending does not write to any object
  /\ (o.s = Len(p.heap) + 1 => c.heap[o.s] = Obj(o.k, o.id, o.v, o.vis))
  /\ ~cc.nil
  /\ LET k == c.heap[o.s].k IN
     IF k = "bounds" THEN cc.bounds = o.s /\ \A f \in SliceKinds : cc[f] = pc[f]
     ELSE cc[k] = Append(pc[k], o.s) /\ cc.bounds = pc.bounds /\ \A f \in SliceKinds \ {k} : cc[f] = pc[f]
  /\ OthersSame(p, c, {o.to})

\* "SortByIDVersion will sort the set of nodes first by id and then version in ascending order."
J_Sort(p, o, c) ==
  LET pc == ObsCont(p, o.to)  cc == ObsCont(c, o.to) IN
  /\ c.heap = p.heap
  /\ SameBag(cc[o.k], pc[o.k])
  /\ SortedBy(cc[o.k], IdVerKey(c.heap))
  /\ cc.bounds = pc.bounds /\ cc.nil = pc.nil /\ \A f \in SliceKinds \ {o.k} : cc[f] = pc[f]
  /\ OthersSame(p, c, {o.to})

HistOf(dsobs, k, i) == LET j == SelectInSeq(dsobs[k], LAMBDA e : e[1] = i) IN IF j = 0 THEN << >> ELSE dsobs[k][j][2]
WithId(h, ss, i) == SelectSeq(ss, LAMBDA s : h[s].id = i)
IdsIn(h) == {h[s].id : s \in 1 .. Len(h)} \cup {0}
\* "HistoryDatasource converts the osm object to a datasource accessible by the feature id." (no order is promised)
J_DocDs(p, c) ==
  /\ ~c.ds.nil
  /\ \A k \in ElemKindSet : \A i \in IdsIn(p.heap) : SameBag(HistOf(c.ds, k, i), WithId(p.heap, p.doc[k], i))
  /\ \A k \in ElemKindSet : \A j \in 1 .. Len(c.ds[k]) : c.ds[k][j][1] \in IdsIn(p.heap)
\* "... converts the change object to a datasource accessible by feature id. All the creates, modifies and deletes will be
\*  added in that order."
J_ChgDs(p, c) ==
  /\ ~c.ds.nil
  /\ \A k \in ElemKindSet : \A i \in IdsIn(p.heap) :
       LET hc == WithId(p.heap, p.create[k], i)  hm == WithId(p.heap, p.modify[k], i)  hd == WithId(p.heap, p.delete[k], i)
           got == HistOf(c.ds, k, i) IN
       /\ Len(got) = Len(hc) + Len(hm) + Len(hd)
       /\ SameBag(SubSeq(got, 1, Len(hc)), hc)
       /\ SameBag(SubSeq(got, Len(hc) + 1, Len(hc) + Len(hm)), hm)
       /\ SameBag(SubSeq(got, Len(hc) + Len(hm) + 1, Len(got)), hd)
  /\ \A k \in ElemKindSet : \A j \in 1 .. Len(c.ds[k]) : c.ds[k][j][1] \in IdsIn(p.heap)
\* "SortByKeyValue will do an inplace sort of the tags."
J_TagSort(p, c) ==
  /\ SameBag(c.tags, p.tags)
  /\ \A i \in 1 .. Len(c.tags) - 1 :
        KeyRank(c.tags[i][1]) * 10 + ValRank(c.tags[i][2]) <= KeyRank(c.tags[i + 1][1]) * 10 + ValRank(c.tags[i + 1][2])

J_Step(p, o, c) ==
  CASE o.op = "append"  -> J_Append(p, o, c)
    [] o.op = "sort"    -> J_Sort(p, o, c)
    [] o.op = "docds"   -> J_DocDs(p, c)
    [] o.op = "chgds"   -> J_ChgDs(p, c)
    [] o.op = "tagsort" -> J_TagSort(p, c)
    [] OTHER -> TRUE            \* tagadd / refadd are the caller's own appends; reset

ValidSerials(h, ss) == \A i \in 1 .. Len(ss) : ss[i] \in 1 .. Len(h)
ElemRank(t)  == KindRank(t[1]) * 1000000 + t[2] * 1000 + t[3]
FeatRank(t)  == KindRank(t[1]) * 1000000 + t[2] * 1000
ValuesOf(ts, k) == {ts[i][2] : i \in {j \in 1 .. Len(ts) : ts[j][1] = k}}
KeysOf(ts) == {ts[i][1] : i \in 1 .. Len(ts)}

\* containers
J_QDoc(st, q) ==
  LET h == st.heap  d == st.doc IN
  /\ ValidSerials(h, q.objs) /\ ValidSerials(h, q.elems) /\ ValidSerials(h, q.s_elems)
  \* "Objects returns an array of objects containing any nodes, ways, relations, changesets, notes and users." (bounds: silent)
  /\ SameBag(NoBounds(h, q.objs), SlicesOf(d))
  \* "Elements returns all the nodes, ways and relations as a single slice of Elements."
  /\ SameBag(q.elems, ElemsOf(d))
  \* "FeatureIDs / ElementIDs returns the slice of feature / element ids for all the nodes, ways and relations."
  /\ SameBag(q.fids, Fids(h, ElemsOf(d))) /\ SameBag(q.eids, Eids(h, ElemsOf(d)))
  \* helpers on slices: "returns a slice of the object ids of the osm objects" etc. - the ids of the elements, position by position
  /\ q.oids = Eids(h, q.objs) /\ q.e_eids = Eids(h, q.elems) /\ q.e_fids = Fids(h, q.elems)
  /\ \A k \in {"node", "way", "relation", "changeset"} : q.k_ids[k] = IdsOf(h, d[k])
  /\ \A k \in ElemKindSet : q.k_fids[k] = Fids(h, d[k]) /\ q.k_eids[k] = Eids(h, d[k])
  \* "Sort will order the elements by type, node, way, relation, changeset, then id and lastly the version."
  /\ SameBag(q.s_elems, q.elems) /\ SortedBy(q.s_elems, ElemKey(h))
  \* "Sort will order the ids by type, node, way, relation, changeset, and then id."
  /\ SameBag(q.s_eids, q.eids) /\ \A i \in 1 .. Len(q.s_eids) - 1 : FeatRank(q.s_eids[i]) <= FeatRank(q.s_eids[i + 1])
  /\ SameBag(q.s_fids, q.fids) /\ \A i \in 1 .. Len(q.s_fids) - 1 : FeatRank(q.s_fids[i]) <= FeatRank(q.s_fids[i + 1])
  \* "Counts returns the number of each type of element / feature in the set of ids."
  /\ q.cnt_e = [j \in 1 .. 3 |-> Cardinality({i \in 1 .. Len(q.eids) : q.eids[i][1] = ElemKinds[j]})]
  /\ q.cnt_f = [j \in 1 .. 3 |-> Cardinality({i \in 1 .. Len(q.fids) : q.fids[i][1] = ElemKinds[j]})]
  /\ \A t \in {"create", "modify", "delete"} :
        ValidSerials(h, q.cobjs[t]) /\ SameBag(NoBounds(h, q.cobjs[t]), SlicesOf(st[t]))

\* "NodeHistory returns the history for the given id from the map." / "NotFound returns true if the error returned is a not
\* found error": an id without history gives such an error, an id with a history gives that history
J_QHist(st, q) ==
  IF st.ds.nil THEN q.hist = << >>
  ELSE \A j \in 1 .. Len(q.hist) :
         LET e == q.hist[j]  have == HistOf(st.ds, e[1], e[2]) IN
         IF have = << >> THEN e[3] = 0 ELSE e[3] = 1 /\ e[4] = have

J_QTags(st, q) ==
  LET ts == st.tags IN
  /\ \A j \in 1 .. Len(q.find) :            \* "Find will return the value for the key. Will return an empty string if not found."
       LET k == q.find[j][1] IN IF k \in KeysOf(ts) THEN q.find[j][2] \in ValuesOf(ts, k) ELSE q.find[j][2] = ""
  /\ \A j \in 1 .. Len(q.findtag) :         \* "FindTag will return the Tag for the given key. ... Returns nil if not found."
       LET k == q.findtag[j][1] IN
       IF k \in KeysOf(ts) THEN q.findtag[j][2] /\ q.findtag[j][3] \in ValuesOf(ts, k) ELSE ~q.findtag[j][2]
  /\ \A j \in 1 .. Len(q.has) : q.has[j][2] = (q.has[j][1] \in KeysOf(ts))     \* "true if a tag exists for the given key"
  \* "Map returns the tags as a key/value map."
  /\ {q.tmap[j][1] : j \in 1 .. Len(q.tmap)} = KeysOf(ts) /\ Len(q.tmap) = Cardinality(KeysOf(ts))
  /\ \A j \in 1 .. Len(q.tmap) : q.tmap[j][2] \in ValuesOf(ts, q.tmap[j][1])
  \* "AnyInteresting will return true if there is at last one interesting tag." (UninterestingTags)
  /\ q.interesting = AnyInteresting(ts)

J_QRefs(st, q) ==
  LET rs == st.refs  w == WN(st.refs) IN
  /\ q.m_fids = MapSeq(rs, LAMBDA r : <<r.k, r.id>>) /\ q.m_eids = MapSeq(rs, LAMBDA r : <<r.k, r.id, r.v>>)
  /\ q.wn_ids = MapSeq(w, LAMBDA r : r.id) /\ q.wn_fids = MapSeq(w, LAMBDA r : <<"node", r.id>>)
  /\ q.wn_eids = MapSeq(w, LAMBDA r : <<"node", r.id, r.v>>)
  /\ (w # << >> => q.wn_bounds = WnBounds(w))           \* "Bounds computes the bounds for the given way nodes." (no nodes: silent)
  \* "LineString will convert the annotated nodes into a LineString": said only for ways whose nodes all carry a version
  /\ ((\A i \in 1 .. Len(w) : w[i].v # 0) => q.ls = MapSeq(w, LAMBDA r : <<r.lon, r.lat>>))
  \* "ContainsNode returns true if the node is within the bound. Uses inclusive intervals"
  /\ q.contains = SelectSeq(Grid, LAMBDA g : Inside(q.wn_bounds, g))

J_Queries(st, q) == J_QDoc(st, q) /\ J_QHist(st, q) /\ J_QTags(st, q) /\ J_QRefs(st, q)

\* "NewBoundsFromTile creates a bound given an online map tile index." (errors: index out of range for this zoom);
\* NotFound: nil and unrelated errors are not, the error of a failed lookup is; a wrapped error / another instance: silent
J_Pure(pu) == /\ pu.tiles = Tiles
              /\ pu.nf[1] = FALSE /\ pu.nf[2] = FALSE /\ pu.nf[4] = TRUE

(* ===================== DESIGN LEVEL: Model |= Judge ======================= *)
JudgeQueriesHold == J_Queries(Proj, MQ) /\ J_Pure(MPure)
JudgeStepsHold   == [][J_Step(Proj, last', Proj')]_vars

(* ============ what the code does beyond the comments (Model) ============== *)
ObjRank(k) == CASE k = "bounds" -> 0 [] k = "node" -> 1 [] k = "way" -> 2 [] k = "relation" -> 3
                [] k = "changeset" -> 4 [] k = "user" -> 5 [] k = "note" -> 6
\* Objects: grouped by kind in the order bounds, node, way, relation, changeset, user, note; within a kind the slice
ObjectsOrder ==
  LET os == Objects(doc) IN
  /\ \A i \in 1 .. Len(os) - 1 : ObjRank(heap[os[i]].k) <= ObjRank(heap[os[i + 1]].k)
  /\ \A k \in SliceKinds : SelectSeq(os, LAMBDA s : heap[s].k = k) = doc[k]
  /\ (doc.bounds # 0 <=> (os # << >> /\ heap[os[1]].k = "bounds"))
\* Elements, FeatureIDs, ElementIDs all enumerate Objects() restricted to nodes, ways, relations
IdsAgree ==
  LET os == Objects(doc)  es == Elements(doc)  ei == Eids(heap, Elements(doc))  fi == Fids(heap, Elements(doc)) IN
  /\ es = SelectSeq(os, LAMBDA s : IsElem(heap[s].k))
  /\ fi = MapSeq(ei, LAMBDA t : <<t[1], t[2]>>)
  /\ Len(ei) = Len(es) /\ \A i \in 1 .. Len(es) : ei[i] = <<heap[es[i]].k, heap[es[i]].id, heap[es[i]].v>>
\* every slice holds objects of its kind only
WellTyped == \A c \in Containers : /\ \A k \in SliceKinds : \A i \in 1 .. Len(Cont(c)[k]) : heap[Cont(c)[k][i]].k = k
                                   /\ (Cont(c).bounds # 0 => heap[Cont(c).bounds].k = "bounds")
                                   /\ (Cont(c).nil => Cont(c) = NilOSM)
\* the sorts are stable permutations, ordered by their key, and idempotent
StableBy(ss, orig, key) == \A kv \in {key[x] : x \in ToSet(orig)} :
                              SelectSeq(ss, LAMBDA x : key[x] = kv) = SelectSeq(orig, LAMBDA x : key[x] = kv)
SortsOK ==
  LET es == Elements(doc)  se == ISort(Elements(doc), ElemKey(heap))  si == Eids(heap, ISort(Elements(doc), ElemKey(heap))) IN
  /\ SameBag(se, es) /\ SortedBy(se, ElemKey(heap)) /\ StableBy(se, es, ElemKey(heap))
  /\ ISort(se, ElemKey(heap)) = se
  /\ \A i \in 1 .. Len(si) - 1 : ElemRank(si[i]) <= ElemRank(si[i + 1])
  /\ (last.op = "sort" => LET s == Cont(last.to)[last.k] IN SortedBy(s, IdVerKey(heap)) /\ ISort(s, IdVerKey(heap)) = s)
  /\ (last.op = "tagsort" => ISort(tags, TagKey(tags)) = tags)
\* a datasource is a snapshot: a history built from an OSM is the slice restricted to the id, in slice order; built from a
\* Change it is creates, then modifies, then deletes, each in slice order, and the elements are made visible / invisible
DsContents ==
  /\ (last.op = "docds" => \A k \in ElemKindSet : \A i \in QIds : ds[k][i] = WithId(heap, doc[k], i))
  /\ (last.op = "chgds" =>
        /\ \A k \in ElemKindSet : \A i \in QIds :
              ds[k][i] = WithId(heap, chg.create[k], i) \o WithId(heap, chg.modify[k], i) \o WithId(heap, chg.delete[k], i)
        /\ \A s \in ToSet(ElemsOf(chg.delete)) : ~heap[s].vis
        /\ \A s \in (ToSet(ElemsOf(chg.create)) \cup ToSet(ElemsOf(chg.modify))) \ ToSet(ElemsOf(chg.delete)) : heap[s].vis)
  /\ \A k \in ElemKindSet : \A i \in QIds : \A j \in 1 .. Len(ds[k][i]) : heap[ds[k][i][j]].k = k /\ heap[ds[k][i][j]].id = i
  /\ (ds.nil => ds = NilDs)
\* only the datasource constructors touch the datasource, only Change.HistoryDatasource writes to objects, and only Visible
Frame == [][ last'.op = "reset" \/       \* (trace validation starts the next sequence on fresh containers)
             /\ (ds' # ds => last'.op \in {"docds", "chgds"})
             /\ ((\E s \in 1 .. Len(heap) : heap'[s] # heap[s]) => last'.op = "chgds")
             /\ \A s \in 1 .. Len(heap) : heap'[s].k = heap[s].k /\ heap'[s].id = heap[s].id /\ heap'[s].v = heap[s].v
             /\ (last'.op \in {"docds", "chgds", "sort"} => Len(heap') = Len(heap)) ]_vars
\* Find / FindTag take the first tag with the key, Map the last; an empty value and an absent key look the same to Find only
TagsFirstLast ==
  LET tm == TagMap(tags) IN
  \A k \in ToSet(AllTagKeys) :
     /\ (k \in KeysOf(tags) => /\ Find(tags, k) = tags[CHOOSE i \in 1 .. Len(tags) : tags[i][1] = k /\ \A j \in 1 .. i - 1 : tags[j][1] # k][2]
                               /\ \E j \in 1 .. Len(tm) : tm[j] = <<k, tags[CHOOSE i \in 1 .. Len(tags) : tags[i][1] = k /\ \A m \in i + 1 .. Len(tags) : tags[m][1] # k][2]>>)
     /\ (k \notin KeysOf(tags) => Find(tags, k) = "" /\ ~FindTag(tags, k)[2])
     /\ (last.op = "tagsort" /\ k \in KeysOf(tags) => \A v \in ValuesOf(tags, k) : ValRank(Find(tags, k)) <= ValRank(v))
RefsOK ==
  LET w == WN(refs)  b == WnBounds(w) IN
  /\ Len(LineString(w)) <= Len(w)
  /\ (w # << >> => /\ \A i \in 1 .. Len(w) : Inside(b, <<w[i].lat, w[i].lon>>)
                   /\ \E i \in 1 .. Len(w) : w[i].lat = b[2]
                   /\ \E i \in 1 .. Len(w) : w[i].lon = b[5])
  /\ (w = << >> => ContainedGrid(w) = << >>)
=============================================================================
