CONSTANTS
  NK = 1
  MaxV <- V3
  MaxP = 2
  MaxT = 4
  MaxDt = 2
  CsSet = {1, 2}
  ParentCsFree = FALSE
  RefLists <- RefsOne
  SameTimeParents = FALSE
  RefsMustExist = TRUE
  OptSet <- OptsMixed
  PinnedSort = FALSE
INIT Init
NEXT Next
INVARIANTS TypeOK JudgesHold SortedInv Deterministic PartialInv
CHECK_DEADLOCK FALSE
