CONSTANTS
  N = 2
  MaxMem = 1
  MaxReq = 1
  Family = "flat"
  FlagFamily = "all"
  WithBad = TRUE
  CanonicalReqs = TRUE
  VersionSets <- MCVersions
  ReqLists <- MCReqs
  BadSets <- MCBad
  FlagSets <- MCFlags
SPECIFICATION FairSpec
PROPERTIES CancelEndsGoroutine CloseReturns NextReturns
CHECK_DEADLOCK FALSE
