\* design level, zero field values: a way or relation with one child, every stored list of <= 2 updates, every location
\* symbol out of ordinary / changeset 0 / version 0 / both 0 on the child and on every update, every t1 <= t2
CONSTANTS
  MaxN = 1
  MaxL = 2
  MaxT = 2
  Kinds = {"way", "relation"}
  UnannChoices = {0}
  LocKinds = {"n", "c0", "v0", "cv0"}
  BreakAtLate = FALSE
SPECIFICATION Spec
INVARIANTS Exact1 Exact2 Pending1 Pending2 IndexErr1 IndexErr2 Compose GeomAt1 GeomAt2 FoldsAgree KFExact
CHECK_DEADLOCK FALSE
