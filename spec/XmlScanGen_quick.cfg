CONSTANT Big = FALSE
CONSTANT MaxCalls = 0
CONSTANT TokenSeqs = {}
INIT GInit
NEXT GNext
CHECK_DEADLOCK FALSE
