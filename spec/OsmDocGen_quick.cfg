CONSTANT Big = FALSE
INIT GInit
NEXT Next
CHECK_DEADLOCK FALSE
