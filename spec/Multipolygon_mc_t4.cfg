\* design level: Model |= Judges over every cut / reversal / member order of the shapes
CONSTANT Shapes <- S_MCT4
CONSTANT MaxPieces = 1
CONSTANT MaskMode = "lean"
CONSTANT Tasks = {"convert", "annotate"}
CONSTANT Patterns = {"all"}
INIT Init
NEXT Next
INVARIANT ConvertRecovers
INVARIANT AnnotateMarks
INVARIANT Deterministic
INVARIANT RemoveIsRemoveAt
INVARIANT NoJoinReversalWhenAnnotated
INVARIANT JoinEmitsRings
