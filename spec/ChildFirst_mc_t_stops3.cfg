CONSTANTS
  N = 3
  MaxMem = 2
  MaxReq = 2
  Family = "flat"
  FlagFamily = "stops"
  WithBad = FALSE
  CanonicalReqs = TRUE
  VersionSets <- MCVersions
  ReqLists <- MCReqs
  BadSets <- MCBad
  FlagSets <- MCFlags
SPECIFICATION ReducedSpec
INVARIANTS TypeOK EmittedOnce OnlyWithHistory ChildrenFirst AllRequestedEmitted StopEndsIteration EmitsPrefixOfRunOut RanToEndEmitsRunOut CompletedAtEnd VisitedIsEmittedOrSending
CHECK_DEADLOCK FALSE
