--------------------------- MODULE PbfBigJudge ---------------------------
(* C02 on real-size blocks (thousands of elements per block): for every decoder count the scan delivers as many    *)
(* objects as the file holds, the same sequence as the single-decoder scan (order-sensitive digest of id, location, *)
(* version -- the property's own formulation), the probe positions hold the objects of those positions, no error,   *)
(* and objects the consumer retained are unchanged.                                                                 *)
EXTENDS Integers, Sequences, FiniteSets, TLC, Json, IOUtils
VARIABLE v
Lines == ndJsonDeserialize(IOEnv.REC)
RECURSIVE Sum(_, _)
Sum(bl, k) == IF k > Len(bl) THEN 0 ELSE (IF bl[k].k = "data" THEN bl[k].n ELSE 0) + Sum(bl, k + 1)
Why(b) ==
  LET total == Sum(b.blocks, 1)
      one == CHOOSE s \in {b.scans[i] : i \in 1 .. Len(b.scans)} : s.n = 1 IN
  UNION { (IF s.count = total THEN {} ELSE {"order: wrong number of objects with " \o ToString(s.n) \o " decoders"}) \cup
          (IF s.digest = one.digest THEN {} ELSE {"order: sequence differs from the single-decoder scan with " \o ToString(s.n) \o " decoders"}) \cup
          (IF \A i \in 1 .. Len(s.probes) : s.probes[i] = (i - 1) * 4099 THEN {} ELSE {"order: object at a probe position is not the object of that position"}) \cup
          (IF s.err = "nil" THEN {} ELSE {"complete: error on an intact file"}) \cup
          (IF s.stable THEN {} ELSE {"order: a retained object was modified"})
          : s \in {b.scans[i] : i \in 1 .. Len(b.scans)} }
ASSUME \A i \in 1 .. Len(Lines) : Why(Lines[i].big) = {} \/ PrintT(<<"BAD", ToJson([i |-> i, why |-> Why(Lines[i].big), kf |-> {}])>>)
ASSUME PrintT(<<"JUDGED", Len(Lines)>>)
JInit == v = 0
JNext == UNCHANGED v
=============================================================================
