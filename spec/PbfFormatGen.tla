--------------------------- MODULE PbfFormatGen ---------------------------
(* C01 case generation: writes the cases of one family of PbfFormatSpace as ndjson.      *)
(* Constants (set by props/c01.py in a generated cfg): Fam, Full, Seed.                  *)
EXTENDS PbfFormatSpace, IOUtils, Json, SequencesExt
CONSTANTS Fam, Full, Seed
ShapeSeq == SetToSeq(FamShapes(Fam, Full, Seed))
Cases == [i \in 1 .. Len(ShapeSeq) |-> FamBuild(Fam, Full, Seed, ShapeSeq[i])]      \* one file per shape
ASSUME \A i \in 1 .. Len(Cases) : ValidFile(Cases[i].file)          \* the space stays inside C01's quantifier
ASSUME ndJsonSerialize(IOEnv.OUT, Cases)
ASSUME PrintT(<<"GENERATED", Fam, Len(Cases)>>)
VARIABLE v
GInit == v = 0
GNext == UNCHANGED v
=============================================================================
