--------------------------- MODULE PbfFormatGen ---------------------------
(* C01 case generation: writes the cases of the families in Fams (PbfFormatSpace) as ndjson, one file per shape.  *)
(* Constants (set by props/c01.py in a generated cfg): Fams, Full, Seed.                                           *)
EXTENDS PbfFormatSpace, IOUtils, Json, SequencesExt
CONSTANTS Fams, Full, Seed
FamSeq == SetToSeq(Fams)
CasesOf(fam) == LET sh == SetToSeq(FamShapes(fam, Full, Seed)) IN [i \in 1 .. Len(sh) |-> FamBuild(fam, Full, Seed, sh[i])]
Cases == Concat([k \in 1 .. Len(FamSeq) |-> CasesOf(FamSeq[k])])
ASSUME \A i \in 1 .. Len(Cases) : ValidFile(Cases[i].file)          \* the space stays inside C01's quantifier
ASSUME ndJsonSerialize(IOEnv.OUT, Cases)
ASSUME PrintT(<<"GENERATED", Fams, Len(Cases)>>)
VARIABLE v
GInit == v = 0
GNext == UNCHANGED v
=============================================================================
