--------------------------- MODULE PbfFormatGen ---------------------------
(* C01 case generation: writes the cases of the families in Fams (PbfFormatSpace) as ndjson, one file per shape.  *)
(* Constants (set by props/c01.py in a generated cfg): Fams, Full, Seed.                                           *)
EXTENDS PbfFormatSpace, IOUtils, Json, SequencesExt
CONSTANTS Fams, Full, Seed
FamSeq == SetToSeq(Fams)
CasesOf(fam) == LET sh == SetToSeq(FamShapes(fam, Full, Seed)) IN [i \in 1 .. Len(sh) |-> FamBuild(fam, Full, Seed, sh[i])]
Cases == Concat([k \in 1 .. Len(FamSeq) |-> CasesOf(FamSeq[k])])
\* (cs is bound once: TLC would rebuild a defined sequence at every reference)
ASSUME \E cs \in {Cases} :
          /\ \A i \in 1 .. Len(cs) : ValidFile(cs[i].file)          \* the space stays inside C01's quantifier
          /\ ndJsonSerialize(IOEnv.OUT, cs)
          /\ PrintT(<<"GENERATED", Fams, Len(cs)>>)
VARIABLE v
GInit == v = 0
GNext == UNCHANGED v
=============================================================================
