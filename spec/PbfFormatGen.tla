--------------------------- MODULE PbfFormatGen ---------------------------
(* C01 case generation: writes the cases of one family of PbfFormatSpace as ndjson.      *)
(* Constants (set by props/c01.py in a generated cfg): Fam, Full, Seed.                  *)
EXTENDS PbfFormatSpace, IOUtils, Json, SequencesExt
CONSTANTS Fam, Full, Seed
Cases == Family(Fam, Full, Seed)
ASSUME \A c \in Cases : ValidFile(c.file)          \* the space stays inside C01's quantifier
ASSUME ndJsonSerialize(IOEnv.OUT, SetToSeq(Cases))
ASSUME PrintT(<<"GENERATED", Fam, Cardinality(Cases)>>)
VARIABLE v
GInit == v = 0
GNext == UNCHANGED v
=============================================================================
