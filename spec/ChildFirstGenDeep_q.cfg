CONSTANTS
  N = 0
  VersionSets = {}
  ReqLists = {}
  BadSets = {}
  FlagSets = {}
  DeepTier = "quick"
INIT Init
NEXT GNext
CHECK_DEADLOCK FALSE
