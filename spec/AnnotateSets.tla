---------------------------- MODULE AnnotateSets ----------------------------
(* Named constant values for the configurations of OsmHistory / Annotate      *)
(* (TLC cfg files cannot contain tuples or records).  Pure definitions.       *)
EXTENDS Integers, Sequences, FiniteSets

V2 == <<2>>
V3 == <<3>>
V4 == <<4>>
V21 == <<2, 1>>
V22 == <<2, 2>>
V31 == <<3, 1>>
V32 == <<3, 2>>
V33 == <<3, 3>>
V211 == <<2, 1, 1>>
V221 == <<2, 2, 1>>
V222 == <<2, 2, 2>>
V322 == <<3, 2, 2>>

Rf(k, pre) == [k |-> k, pre |-> pre]
R1(a) == <<Rf(a, FALSE)>>
R2(a, b) == <<Rf(a, FALSE), Rf(b, FALSE)>>
R3(a, b, c) == <<Rf(a, FALSE), Rf(b, FALSE), Rf(c, FALSE)>>

\* one child; one child, alone or repeated; two children (a child entering / leaving);
\* three children (every visiting order of the child map); already annotated references
RefsSingle == {R1(1)}
RefsOne == {R1(1), R2(1, 1)}
RefsPair == {R1(1), R2(1, 2)}
RefsSmall == {R1(1), R2(1, 1), R2(1, 2), R1(2)}
RefsTriple == {R2(1, 2), R3(1, 2, 1), R3(1, 2, 3), R2(3, 1)}
RefsPre == {<<Rf(1, TRUE)>>, <<Rf(1, TRUE), Rf(2, FALSE)>>, <<Rf(1, FALSE), Rf(1, TRUE)>>, <<Rf(2, TRUE), Rf(1, TRUE)>>}

O(regime, eps, igI, igM, filt) == [regime |-> regime, cut |-> 0, eps |-> eps, igI |-> igI, igM |-> igM, filt |-> filt]
OM(cut, eps, igI) == [regime |-> "mixed", cut |-> cut, eps |-> eps, igI |-> igI, igM |-> FALSE, filt |-> 0]
OptsMixed1 == {OM(2, 1, i) : i \in BOOLEAN}
OptsMixedQ == {OM(cu, e, FALSE) : cu \in {1, 2}, e \in {0, 1}}
OptsMixed == {OM(cu, e, i) : cu \in {1, 2, 3}, e \in {0, 1}, i \in BOOLEAN}
OptsCommit == {O("commit", 0, i, m, 0) : i, m \in BOOLEAN}
OptsCommitE == {O("commit", e, i, m, 0) : e \in {0, 1, 2}, i, m \in BOOLEAN}
OptsStamp1 == {O("stamp", 1, i, FALSE, 0) : i \in BOOLEAN}
OptsStamp01 == {O("stamp", e, i, FALSE, 0) : e \in {0, 1}, i \in BOOLEAN}
OptsStamp012 == {O("stamp", e, i, m, 0) : e \in {0, 1, 2}, i, m \in BOOLEAN}
OptsStamp2 == {O("stamp", 2, i, FALSE, 0) : i \in BOOLEAN}
OptsFilter == {O(r, 1, i, FALSE, f) : r \in {"commit", "stamp"}, i \in BOOLEAN, f \in {0, -1, 1}}
OptsOrder == {O("commit", 0, FALSE, FALSE, 0), O("commit", 0, TRUE, TRUE, 0), O("stamp", 1, FALSE, FALSE, 0)}
OptsOrderMixed == {OM(1, 1, FALSE), OM(2, 0, TRUE)}
OptsOrderM == OptsOrder \cup OptsOrderMixed
OptsBoth == OptsCommitE \cup OptsStamp012
=============================================================================
