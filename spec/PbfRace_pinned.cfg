CONSTANTS
  Items = 3
  Fixed = FALSE
INIT Init
NEXT Next
INVARIANT NoConcurrentConflict
CHECK_DEADLOCK FALSE
