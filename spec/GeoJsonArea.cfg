CONSTANTS
  Tier = "quick"
  SampleN = 0
INIT AInit
NEXT ANext
CHECK_DEADLOCK FALSE
