---------------------------- MODULE PbfTrace ----------------------------
(* Trace validation: executions of the real osmpbf scanner, recorded through the    *)
(* `verif` hooks under the deterministic scheduler, must be behaviours of           *)
(* PbfPipeline (intended design).  One completion event per Model action, with its  *)
(* logged arguments bound to the primed variables; API observations (c.ret, c.err)  *)
(* must agree with the Model's state.  Many runs are concatenated: a "cfg" line     *)
(* starts the next run.  Accepted iff every line is consumed (high-water mark).     *)
EXTENDS PbfPipeline, Json, IOUtils, TLCExt

TraceLog == ndJsonDeserialize(IOEnv.TRACE)

VARIABLE l
tvars == << vars, l >>

Blk(b) == [k |-> b.k, n |-> b.n]
CfgOf(t) == [n |-> t.n, cap |-> t.cap, blocks |-> [i \in 1 .. Len(t.blocks) |-> Blk(t.blocks[i])], endkind |-> t.endkind,
             hdr |-> t.hdr, stopOnCancel |-> TRUE, sepErr |-> TRUE, eofCtx |-> TRUE,
             allowCancel |-> TRUE, allowClose |-> TRUE, allowHeader |-> TRUE, maxErr |-> 1000000]

TraceInit == /\ l = 2 /\ TraceLog[1].e = "cfg" /\ cfg = CfgOf(TraceLog[1]) /\ InitRest

Ev == TraceLog[l]
IsEvent(e) == l <= Len(TraceLog) /\ Ev.e = e /\ l' = l + 1

\* error class of a pair as the hooks log it
ECls(e) == CASE e = Nil -> "nil" [] e = "eof" -> "eof" [] e = "trunc" -> "trunc" [] e = "canceled" -> "canceled" [] OTHER -> "other"

\* start of the next recorded run: re-initialise everything from its cfg line
TraceReset ==
  /\ IsEvent("cfg")
  /\ cfg' = CfgOf(Ev)
  /\ LET W == 0 .. Ev.n - 1 IN
     /\ started' = FALSE /\ cancelled' = FALSE /\ parentCancelled' = FALSE
     /\ rpc' = "off" /\ ri' = 0 /\ rpos' = 1 /\ rerr' = Nil /\ rpair' = [blk |-> 0, err |-> Nil]
     /\ readsAfterStop' = 0
     /\ inq' = [w \in W |-> << >>] /\ inClosed' = FALSE
     /\ wpc' = [w \in W |-> "off"] /\ wcur' = [w \in W |-> ZeroPair]
     /\ outq' = [w \in W |-> << >>] /\ outClosed' = [w \in W |-> FALSE]
     /\ spc' = "off" /\ sj' = 0 /\ scur' = ZeroPair /\ tErr' = Nil
     /\ serq' = << >> /\ serClosed' = FALSE
     /\ cpc' = "idle" /\ cData' = ZeroPair /\ cIndex' = 0
     /\ pOff' = 0 /\ cOff' = 0 /\ sErr' = Nil /\ closed' = FALSE /\ delivered' = << >>
     /\ lastScan' = "none" /\ hist' = << >>

Skip(e) == IsEvent(e) /\ UNCHANGED vars

TraceNext ==
  \/ TraceReset
  \/ IsEvent("r.firstsent") /\ R_First
  \/ IsEvent("r.read") /\ R_Read
       /\ (IF rpair'.err = "type" THEN Ev.err = "nil" /\ Ev.blk = rpos      \* the hook fires before the block type is checked
                                  ELSE rpair'.blk = Ev.blk /\ ECls(rpair'.err) = Ev.err)
  \/ IsEvent("r.loopexit") /\ R_Exit
  \/ IsEvent("r.sent") /\ ri = Ev.who /\ R_Sent
  \/ IsEvent("r.dropped") /\ ri = Ev.who /\ R_Dropped
  \/ IsEvent("w.got") /\ Ev.who \in Workers /\ W_Got(Ev.who) /\ ECls(Head(inq[Ev.who]).err) = Ev.err
  \/ IsEvent("w.inclosed") /\ Ev.who \in Workers /\ W_InClosed(Ev.who)
  \/ IsEvent("w.sent") /\ Ev.who \in Workers /\ W_Sent(Ev.who) /\ ECls(wcur[Ev.who].err) = Ev.err
  \/ IsEvent("w.dropped") /\ Ev.who \in Workers /\ W_Dropped(Ev.who)
  \/ IsEvent("s.got") /\ sj = Ev.who /\ S_Got /\ scur'.off = Ev.off /\ Len(scur'.objs) = Ev.nobj /\ ECls(scur'.err) = Ev.err
  \/ (IsEvent("s.done1") /\ spc = "recv" /\ S_Done)
  \/ (IsEvent("s.done2") /\ spc = "send" /\ S_Done)
  \/ IsEvent("s.sent") /\ sj = Ev.who /\ S_Sent
  \/ IsEvent("s.exit") /\ S_Exit
  \/ IsEvent("c.scan") /\ C_Call
  \/ IsEvent("c.header") /\ (IF started THEN UNCHANGED vars ELSE C_Header)
  \/ IsEvent("c.hdrret") /\ UNCHANGED vars /\ ECls(sErr) = Ev.class
  \/ IsEvent("c.got") /\ C_Got
  \/ IsEvent("c.ret") /\ UNCHANGED vars /\ cpc = "idle" /\ lastScan = (IF Ev.ok THEN "true" ELSE "false")
       /\ (Ev.ok => delivered[Len(delivered)] = <<Ev.blk, Ev.idx>>)
       /\ cOff = Ev.cur /\ pOff = Ev.prev
  \/ IsEvent("c.err") /\ C_Err /\ ErrCls(ErrClass) = Ev.class
  \/ IsEvent("c.close") /\ (IF ~closed THEN C_Close
                             ELSE /\ cpc = "idle" /\ cpc' = "wait" /\ hist' = Append(hist, [op |-> "close"])     \* closing twice: waits again, nothing else
                                  /\ UNCHANGED << cfg, started, cancelled, parentCancelled, pipeVars, cData, cIndex, pOff, cOff, sErr, closed, delivered, lastScan >>)
  \/ IsEvent("c.waited") /\ C_Waited
  \/ IsEvent("x.cancel") /\ (IF parentCancelled THEN UNCHANGED vars ELSE Cancel)    \* cancelling twice is a no-op
  \/ (IsEvent("start") /\ UNCHANGED vars /\ started /\ Ev.n = N /\ Ev.cap = Cap)
  \/ IsEvent("c.offs") /\ UNCHANGED vars /\ cOff = Ev.cur /\ pOff = Ev.prev
  \/ Skip("s.errexit") \/ Skip("r.exit") \/ Skip("w.exit") \/ Skip("c.closed")

TraceSpec == TraceInit /\ [][TraceNext]_tvars

\* acceptance: every line was consumed
HighWater == TLCSet(1, IF TLCGet(1) < l THEN l ELSE TLCGet(1))
TraceConstraint == HighWater
TraceAccepted == PrintT(<<"HIGHWATER", TLCGet(1), Len(TraceLog)>>) /\ TLCGet(1) = Len(TraceLog) + 1
ASSUME TLCSet(1, 0)
=============================================================================
