--------------------------- MODULE PbfOrderRefine ---------------------------
(* PbfPipeline (the hook-level Model of the osmpbf pipeline) REFINES            *)
(* PbfOrderCore (the round-robin core whose inductive invariant Apalache        *)
(* discharges for files of any length), for scans that are not stopped: every   *)
(* step of the Model is a step of the core or leaves the core's variables       *)
(* unchanged, under the state mapping below.  Checked exhaustively by TLC for   *)
(* each (RN, RCap) with RBlocks intact blocks (some of them empty), clean and   *)
(* truncated ends.  The mapped IndInv is checked as an invariant of the Model   *)
(* as well.  Data pairs are told from end-of-input / error pairs by err = Nil;  *)
(* with a header, the abstract offset of data block k is k.                     *)
EXTENDS PbfPipeline

CONSTANTS RN, RCap, RBlocks

RD(n) == [k |-> "data", n |-> n]
RConfigs == { [n |-> RN, cap |-> RCap, blocks |-> [i \in 1 .. RBlocks |-> RD(i % 3)], endkind |-> e, hdr |-> "ok",
               stopOnCancel |-> TRUE, sepErr |-> TRUE, eofCtx |-> TRUE,
               allowCancel |-> FALSE, allowClose |-> FALSE, allowHeader |-> h, maxErr |-> 0] : e \in {"eof", "trunc"}, h \in BOOLEAN }

IsData(p) == p.err = Nil
InBlks(q)  == LET d == SelectSeq(q, IsData) IN [i \in 1 .. Len(d) |-> d[i].blk]
OutBlks(q) == LET d == SelectSeq(q, IsData) IN [i \in 1 .. Len(d) |-> d[i].off]
Holding(w) == IF wpc[w] = "send" /\ IsData(wcur[w]) THEN wcur[w].off ELSE 0

rnextBar == IF rpc = "send" /\ IsData(rpair) THEN rpos - 1 ELSE rpos
inqBar  == [w \in Workers |-> InBlks(inq[w])]
outqBar == [w \in Workers |-> OutBlks(outq[w])]
wcurBar == [w \in Workers |-> Holding(w)]
\* the last block the serializer has received (scur keeps it until the next receive); after the end pair: all of them
emittedBar == IF IsData(scur) /\ scur.off > 0 THEN scur.off ELSE IF ~IsData(scur) THEN RBlocks ELSE 0

\* The Model splits a rendezvous on an unbuffered channel (RCap = 0) into "pair placed while the receiver is parked" and
\* "receiver takes it": in between the sender is already free.  That is a one-slot queue whose send has a stronger guard,
\* so the unbuffered Model is mapped onto the core with capacity 1 (the core's own Cap = 0 actions are the atomic hand-off).
CoreCap == IF RCap = 0 THEN 1 ELSE RCap
Core == INSTANCE PbfOrderCore WITH N <- RN, Cap <- CoreCap, rnext <- rnextBar, inq <- inqBar, wcur <- wcurBar,
                                   outq <- outqBar, emitted <- emittedBar, ok <- TRUE

RefinesCore == Core!Spec
\* canary: a mapping that ignores the pair the reader holds is NOT a refinement mapping (TLC must refute this)
CoreBad == INSTANCE PbfOrderCore WITH N <- RN, Cap <- CoreCap, rnext <- rpos, inq <- inqBar, wcur <- wcurBar,
                                      outq <- outqBar, emitted <- emittedBar, ok <- TRUE
RefinesBad == CoreBad!Spec
CoreIndInv == Core!IndInv

RView == << cfg, started, cancelled, parentCancelled, rpc, ri, rpos, rerr, rpair, readsAfterStop,
            inq, inClosed, wpc, wcur, outq, outClosed, spc, sj, scur, tErr,
            serq, serClosed, cpc, cData, cIndex, pOff, cOff, sErr, closed, delivered, lastScan >>
=============================================================================
