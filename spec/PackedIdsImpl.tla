----------------------------- MODULE PackedIdsImpl -----------------------------
(* C10 - Model: the Go code's mask-and-shift construction and decoding of    *)
(* identifiers, transcribed operator by operator (feature.go, object.go,     *)
(* element.go, node.go, way.go, relation.go, changeset.go, note.go, user.go, *)
(* bounds.go), with the bit widths as constants.  TLC checks exhaustively    *)
(* for scaled widths - every (kind, ref, version) and every ordered pair -   *)
(* that this Model satisfies the Judges of PackedIds (arithmetic layout).    *)
(* Bit operations come from the community module Bitwise (defined on Nat).   *)
EXTENDS PackedIds, Bitwise, TLC

CONSTANTS VBits, RBits
ASSUME VB = 2^VBits /\ RB = 2^RBits

(* ---- feature.go:61-75 ---- *)
versionBits == VBits
versionMask == VB - 1
refMask     == (RB - 1) * VB
typeMask    == (TB - 1) * Unit
featureMask == typeMask + refMask           \* 0x7FFFFFFFFFFF0000: everything but version and sign
MaskOf(c)   == c * Unit                     \* boundsMask, nodeMask, ... userMask

Shl(x, n) == x * 2^n                        \* x << n (no overflow inside the stated ranges)

(* ---- constructors ---- *)
I_FeatureID(c, ref)     == MaskOf(c) | Shl(ref, versionBits)      \* node.go:21 way.go:22 relation.go:21
I_FeatElementID(fid, v) == fid | (versionMask & v)                \* feature.go:110
I_FeatObjectID(fid, v)  == I_FeatElementID(fid, v)                \* feature.go:105
I_ElementID(c, ref, v)  == I_FeatElementID(I_FeatureID(c, ref), v) \* node.go:26 way.go:27 relation.go:26
I_ObjectID(c, ref, v) ==
  IF c \in ElementCodes THEN I_ElementID(c, ref, v)               \* node.go:16 way.go:17 relation.go:16
  ELSE IF c = CodeBounds THEN MaskOf(CodeBounds)                  \* bounds.go:53
  ELSE MaskOf(c) | Shl(ref, versionBits)                          \* changeset.go:13 note.go:13 user.go:13

(* ---- decoders; -1 stands for the panic / empty-type outcome ---- *)
I_ObjType(id) ==                                                  \* object.go:14-33
  LET t == id & typeMask IN IF \E c \in Codes : t = MaskOf(c) THEN t \div Unit ELSE -1
I_ElemType(id) ==                                                 \* element.go:22-33, feature.go:85-96
  LET t == id & typeMask IN IF \E c \in ElementCodes : t = MaskOf(c) THEN t \div Unit ELSE -1
I_Ref(id)     == shiftR(id & refMask, versionBits)                \* object.go:36 element.go:36 feature.go:99
I_Version(id) == id & versionMask                                 \* object.go:42 element.go:41
I_ElemFeatureID(id) == id & featureMask                           \* element.go:51
I_ElemObjectID(id)  == id                                         \* element.go:46
\* typed accessors: panic unless the kind bits are set (element.go:56-82, feature.go:115-141)
I_TypedRef(id, c) == IF (id & MaskOf(c)) # MaskOf(c) THEN -1 ELSE I_Ref(id)

(* ---- the enumerated space: every triple, every ordered pair ---- *)
Triples ==
  {[c |-> c, r |-> r, v |-> v] : c \in ElementCodes, r \in 0 .. RB - 1, v \in 0 .. VB - 1}
  \cup {[c |-> c, r |-> r, v |-> 0] : c \in {CodeChangeset, CodeNote, CodeUser}, r \in 0 .. RB - 1}
  \cup {[c |-> CodeBounds, r |-> 0, v |-> 0]}

VARIABLES a, b, phase
vars == <<a, b, phase>>
Init == a \in Triples /\ b = a /\ phase = 0
Next == phase = 0 /\ phase' = 1 /\ b' \in Triples /\ UNCHANGED a
Spec == Init /\ [][Next]_vars

IsElem(t) == t.c \in ElementCodes
Obj(t)  == I_ObjectID(t.c, t.r, t.v)
Elem(t) == I_ElementID(t.c, t.r, t.v)
Feat(t) == I_FeatureID(t.c, t.r)

(* ---- Model |= Judges ---- *)
\* the bit-level construction is the arithmetic layout
ImplIsPack ==
  /\ Obj(a) = Pack(a.c, a.r, a.v)
  /\ IsElem(a) => /\ Elem(a) = Pack(a.c, a.r, a.v)
                  /\ Feat(a) = Pack(a.c, a.r, 0)
                  /\ I_FeatObjectID(Feat(a), a.v) = Obj(a)
                  /\ I_ElemFeatureID(Elem(a)) = FeatureOf(Elem(a))
                  /\ I_ElemFeatureID(Elem(a)) = Feat(a)
                  /\ I_ElemObjectID(Elem(a)) = Obj(a)

\* decoders of the Model return exactly the inputs, and agree with the arithmetic decoders
DecodeBack ==
  /\ I_ObjType(Obj(a)) = a.c /\ I_Ref(Obj(a)) = a.r /\ I_Version(Obj(a)) = a.v
  /\ RoundTripAt(a.c, a.r, a.v)
  /\ I_ObjType(Obj(a)) = Code(Obj(a)) /\ I_Ref(Obj(a)) = Ref(Obj(a)) /\ I_Version(Obj(a)) = Ver(Obj(a))
  /\ IsElem(a) => /\ I_ElemType(Elem(a)) = a.c /\ I_Ref(Elem(a)) = a.r /\ I_Version(Elem(a)) = a.v
                  /\ I_ElemType(Feat(a)) = a.c /\ I_Ref(Feat(a)) = a.r
                  /\ I_TypedRef(Elem(a), a.c) = a.r /\ I_TypedRef(Feat(a), a.c) = a.r
                  /\ FeatureAt(a.c, a.r, a.v)

Fits == FitsAt(a.c, a.r, a.v) /\ Obj(a) < Top

Injective ==
  /\ (Obj(a) = Obj(b)) <=> (a = b)
  /\ InjectiveAt(a.c, a.r, a.v, b.c, b.r, b.v)
  /\ (IsElem(a) /\ IsElem(b)) => ((Feat(a) = Feat(b)) <=> (a.c = b.c /\ a.r = b.r))

OrderIso ==
  /\ (Obj(a) < Obj(b)) <=> LexLess(a.c, a.r, a.v, b.c, b.r, b.v)
  /\ OrderIsoAt(a.c, a.r, a.v, b.c, b.r, b.v)
  /\ (IsElem(a) /\ IsElem(b)) => /\ (Elem(a) < Elem(b)) <=> LexLess(a.c, a.r, a.v, b.c, b.r, b.v)
                                 /\ (Feat(a) < Feat(b)) <=> LexLess(a.c, a.r, 0, b.c, b.r, 0)
                                 /\ FeatureOrderAt(a.c, a.r, b.c, b.r)
  /\ KindOrderIsNodeWayRelation

\* sort.Sort with Less = integer "<" yields a sequence that is non-decreasing in the integer;
\* by OrderIso that is the (kind, ref, version) order - nothing more to model.
=============================================================================
