-------------------------- MODULE ChildFirstGenDeep --------------------------
(* S->C cases for C14 with DEEP nestings: chains and DAGs with hundreds of relations on one DFS path.          *)
(* TLC chooses the shape parameters and expands them here (Expand), so the harness gets ordinary cases          *)
(* (hist, req, bad, plans) and the Judge reads the very graph TLC built - no expansion logic outside TLA+.      *)
(*                                                                                                              *)
(* shape = [d, b, skip, w, ver, order]:                                                                          *)
(*   d     relations 1 .. d form the chain i -> i + 1 (depth of the nesting)                                     *)
(*   b     the bottom relation d references b further leaf relations d + 1 .. d + b (branching at the bottom)   *)
(*   skip  0: chain only; 1: i also references i + 2, after i + 1; 2: i + 2 before i + 1 (DAG, several paths)    *)
(*   w     1: every member list starts with a non-relation member                                                *)
(*   ver   1: one version; 2: two versions (the relation references are in the second one)                       *)
(*   order request list: "anc" = 1 .. n (ancestors first), "child" = n .. 1, "shuf" = a fixed permutation,       *)
(*         "root" = only relation 1                                                                              *)
EXTENDS ChildFirst, IOUtils, Json, SequencesExt

CONSTANT DeepTier      \* "quick" | "thorough"

Sh(d, b, skip, w, ver, order) == [d |-> d, b |-> b, skip |-> skip, w |-> w, ver |-> ver, order |-> order]

Refs(sh, i) ==
  IF i < sh.d THEN (IF sh.skip = 0 \/ i + 2 > sh.d THEN <<i + 1>>
                    ELSE IF sh.skip = 1 THEN <<i + 1, i + 2>> ELSE <<i + 2, i + 1>>)
  ELSE IF i = sh.d THEN [k \in 1 .. sh.b |-> sh.d + k]
  ELSE << >>
Hist(sh, i) == LET wm == IF sh.w = 1 THEN <<0 - i>> ELSE << >> IN
               IF sh.ver = 1 THEN << wm \o Refs(sh, i) >> ELSE << wm, Refs(sh, i) >>
Size(sh) == sh.d + sh.b

GCD(a, b) == CHOOSE g \in 1 .. a : a % g = 0 /\ b % g = 0 /\ \A k \in g + 1 .. a : ~(a % k = 0 /\ b % k = 0)
Mult(n) == CHOOSE a \in {37, 41, 43, 47, 53} : GCD(a, n) = 1        \* five primes: one of them does not divide n
Req(sh) == LET n == Size(sh) IN
  CASE sh.order = "anc"   -> [j \in 1 .. n |-> j]
    [] sh.order = "child" -> [j \in 1 .. n |-> n + 1 - j]
    [] sh.order = "shuf"  -> [j \in 1 .. n |-> ((Mult(n) * j) % n) + 1]
    [] sh.order = "root"  -> <<1>>

\* undisturbed iteration; Close after the first emission; cancel half way down
Plans(sh) == << [k |-> 0, stop |-> "none"], [k |-> 1, stop |-> "close"], [k |-> Size(sh) \div 2, stop |-> "cancel"] >>

Expand(sh) == [shape |-> sh, hist |-> [i \in 1 .. Size(sh) |-> Hist(sh, i)], req |-> Req(sh), bad |-> << >>, plans |-> Plans(sh)]

Orders == {"anc", "child", "shuf", "root"}
QDepths == {8, 64, 99, 100, 101, 102, 103, 128, 250}
TDepths == QDepths \cup {3, 16, 32, 65, 127, 129, 200, 256, 300}
Shapes ==
  IF DeepTier = "quick"
  THEN {Sh(d, 0, 0, 1, 1, o) : d \in QDepths, o \in Orders}
       \cup {Sh(d, 2, 1, 0, 2, o) : d \in {102, 250}, o \in {"anc", "shuf"}}
  ELSE {Sh(d, b, k, wv[1], wv[2], o) : d \in TDepths, b \in {0, 2}, k \in {0, 1, 2}, wv \in {<<1, 1>>, <<0, 2>>}, o \in Orders}

Cases == {Expand(sh) : sh \in Shapes}
\* every expanded graph is acyclic by construction (all references point to larger ids) - checked, not assumed
ASSUME \A c \in Cases : \A i \in 1 .. Len(c.hist) : \A y \in Adj(c.hist)[i] : y > i
ASSUME ndJsonSerialize(IOEnv.OUT, SetToSeq(Cases))
ASSUME PrintT(<<"NCASES", Cardinality(Cases)>>)
GNext == UNCHANGED vars
=============================================================================
