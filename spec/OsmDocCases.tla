---------------------------- MODULE OsmDocCases ----------------------------
(* Input space for C03 / C04 / C05: (partial) abstract values of every      *)
(* schema type, abstract documents (osm, osmChange, augmented diff) and     *)
(* Go-shaped container values, all built from the tables of OsmDoc.tla.     *)
(* Presence of optional parts follows a pairwise covering family of field   *)
(* subsets: everything, nothing, every single field dropped, every single   *)
(* field alone, and the bit patterns of the field index with their          *)
(* complements (any two fields of a type therefore occur in all four        *)
(* present/absent combinations; the same pattern is applied to the nested   *)
(* types).                                                                   *)
EXTENDS OsmDoc

CONSTANT Big        \* FALSE = quick tier, TRUE = thorough tier

(* ---- symbols ---- *)
LitVals == [Member |-> [Type |-> <<"=node", "=way", "=relation">>],
            Action |-> [Type |-> <<"=create", "=modify", "=delete">>],
            Note   |-> [Status |-> <<"=open", "=closed", "=hidden">>],
            NoteComment |-> [Action |-> <<"=opened", "=commented", "=closed", "=reopened", "=hidden">>]]
Sym(T, r, k) ==
  CASE r.type = "str"   -> "s" \o ToString(1 + (k % 6))
    [] r.type = "lit"   -> LitVals[T][r.go][1 + (k % Len(LitVals[T][r.go]))]
    [] r.type = "int"   -> "i" \o ToString(1 + (k % 9))
    [] r.type = "int8"  -> <<"#1", "#-1">>[1 + (k % 2)]
    [] r.type = "float" -> "f" \o ToString(1 + (k % 14))
    [] r.type = "bool"  -> "b1"
    [] r.type = "time"  -> "t" \o ToString(1 + (k % 5))
    [] r.type = "date"  -> "t" \o ToString(1 + (k % 3))      \* note dates: whole seconds (the notes layout has no fraction)

(* ---- presence patterns ---- *)
Pat(kind, j) == [kind |-> kind, j |-> j]
Bit(i, j) == (i \div (2 ^ j)) % 2
Keep(p, i, top) ==
  CASE p.kind = "all"   -> TRUE
    [] p.kind = "none"  -> FALSE
    [] p.kind = "bit"   -> Bit(i, p.j) = 1
    [] p.kind = "cobit" -> Bit(i, p.j) = 0
    [] p.kind = "drop"  -> ~top \/ i # p.j
    [] p.kind = "only"  -> ~top \/ i = p.j
Nested(p) == IF p.kind \in {"drop", "only"} THEN Pat("all", 0) ELSE p
XFields(T) == SelectSeq(Rows(T), LAMBDA r : r.mode # "none")
Patterns(T) ==
  LET n == Len(XFields(T)) IN
  {Pat("all", 0), Pat("none", 0)} \cup {Pat("drop", i) : i \in 1 .. n} \cup {Pat("only", i) : i \in 1 .. n}
  \cup {Pat(b, j) : b \in {"bit", "cobit"}, j \in 0 .. 3}

\* partial value of type T: symbols start at k, lists have n items, fields kept by pattern p
RECURSIVE Gen(_, _, _, _, _)
GenField(T, r, k, n, p) ==
  LET one(j) == IF IsScalar(r) THEN Sym(T, r, k + 2 * j) ELSE Gen(r.type, k + 2 * j, n, Nested(p), FALSE)
  IN CASE r.card = "one" -> one(0)
       [] r.card = "opt" -> (IF r.type = "OSM" THEN << >> ELSE << one(0) >>)
       [] OTHER          -> [j \in 1 .. n |-> one(j)]
Gen(T, k, n, p, top) ==
  LET F == XFields(T) IN
  [g \in {F[i].go : i \in {x \in 1 .. Len(F) : Keep(p, x, top)}} |->
     LET i == CHOOSE x \in 1 .. Len(F) : F[x].go = g IN GenField(T, F[i], k + i, n, p)]

Obj(T, f) == [T |-> T, f |-> f]
\* objects of kind T: every pattern with 1-item lists; the full value with 0 and 2 item lists; all fields present but zero
Objs(T) ==
  {Obj(T, Gen(T, 1, 1, p, TRUE)) : p \in Patterns(T)}
  \* thorough tier: every pattern again with other symbols and two-item lists
  \cup (IF Big THEN {Obj(T, Gen(T, 4, 2, p, TRUE)) : p \in Patterns(T)} ELSE {})
  \cup {Obj(T, Gen(T, 3, n, Pat("all", 0), TRUE)) : n \in {0, 2}}
  \cup {Obj(T, Gen(T, 2, 2, Pat(b, 1), TRUE)) : b \in {"bit", "cobit"}}
  \cup {Obj(T, Fill(T, << >>))}
Kinds == <<"Bounds", "Node", "Way", "Relation", "Changeset", "Note", "User">>
Elems == <<"Node", "Way", "Relation">>
Full(T, k) == Obj(T, Gen(T, k, 1, Pat("all", 0), TRUE))
Mini(T, k) == Obj(T, [ID |-> "i" \o ToString(1 + ((k - 1) % 9))])                 \* an element with nothing but its id
Small(T, k) == Obj(T, Gen(T, k, 1, Pat("bit", 0), TRUE))

(* ---- headers ---- *)
HdrAll == Gen("OSM", 0, 0, Pat("all", 0), TRUE)
Hdr(S) == [g \in S |-> HdrAll[g]]
HdrNames == {r.go : r \in {q \in RowSet("OSM") : q.mode = "attr"}}
NoHdr == Hdr({})
Hdrs == {Hdr(HdrNames), NoHdr} \cup {Hdr({g}) : g \in HdrNames} \cup {Hdr(HdrNames \ {g}) : g \in HdrNames}

(* ---- documents (C03) ---- *)
OsmDocOf(hdr, items) == [T |-> "OSM", hdr |-> hdr, items |-> items]
ChangeDocOf(hdr, blocks) == [T |-> "Change", hdr |-> hdr, blocks |-> blocks]
DiffDocOf(actions, cs) == [T |-> "Diff", actions |-> actions, changesets |-> cs]
Block(a, items) == [a |-> a, items |-> items]
Act(type, bare, old, new) == [type |-> type, bare |-> bare, old |-> old, new |-> new]

AllKindsDoc(k) == [i \in 1 .. 7 |-> Full(Kinds[i], k + i)]
Scrambled == <<4, 2, 7, 1, 3, 6, 5>>
OsmDocs ==
  {OsmDocOf(Hdr({"Version", "Generator"}), <<o>>) : o \in UNION {Objs(Kinds[i]) : i \in 1 .. 7}}
  \cup {OsmDocOf(h, <<Small("Node", 1)>>) : h \in Hdrs}
  \cup {OsmDocOf(NoHdr, << >>), OsmDocOf(Hdr(HdrNames), AllKindsDoc(0)),
        OsmDocOf(NoHdr, [i \in 1 .. 7 |-> AllKindsDoc(3)[Scrambled[i]]]),
        \* several of each kind, interleaved: per-kind order must be document order
        OsmDocOf(NoHdr, <<Mini("Node", 1), Mini("Way", 2), Mini("Node", 3), Mini("Relation", 4), Mini("Way", 5), Mini("Node", 6),
                          Small("Changeset", 7), Small("Note", 8), Small("User", 9), Small("Changeset", 1), Mini("Relation", 2)>>)}

\* consecutive objects of one kind whose lists have 1, 2, 4, 8 items (the sizes at which an append-grown slice is exactly
\* full) followed by another object of that kind with different items: nothing decoded later may show up in an earlier object
IdSym(k) == "i" \o ToString(1 + (k % 9))
StrSym(k) == "s" \o ToString(1 + (k % 6))
NdWay(k, n) == Obj("Way", [ID |-> IdSym(k), Nodes |-> [j \in 1 .. n |-> [ID |-> IdSym(k + 2 * j)]]])
MemRel(k, n) == Obj("Relation", [ID |-> IdSym(k), Members |-> [j \in 1 .. n |-> [Type |-> "=node", Ref |-> IdSym(k + 2 * j), Role |-> StrSym(k + j)]]])
TagNode(k, n) == Obj("Node", [ID |-> IdSym(k), Tags |-> [j \in 1 .. n |-> [Key |-> StrSym(k + j), Value |-> StrSym(k + j + 1)]]])
ListPairDocs ==
  {OsmDocOf(NoHdr, <<NdWay(1, n), NdWay(4, m)>>) : n \in {1, 2, 4}, m \in {1, 3}}
  \cup {OsmDocOf(NoHdr, <<MemRel(1, n), MemRel(4, m)>>) : n \in {1, 2, 4}, m \in {1, 3}}
  \cup {OsmDocOf(NoHdr, <<TagNode(1, n), TagNode(3, m)>>) : n \in {1, 2, 4}, m \in {1, 3}}
  \cup {OsmDocOf(NoHdr, <<NdWay(1, 1), NdWay(2, 2), NdWay(3, 4), NdWay(4, 8), NdWay(5, 3), MemRel(1, 1), MemRel(2, 2), MemRel(3, 4), MemRel(6, 2)>>),
        ChangeDocOf(NoHdr, <<Block("Create", <<NdWay(1, 2)>>), Block("Modify", <<NdWay(5, 2), NdWay(7, 1)>>)>>)}

Acts3 == {"Create", "Modify", "Delete"}
ActSeqs(n) == UNION {[1 .. m -> Acts3] : m \in 0 .. n}
\* block i of a sequence holds a node and (every second block) a way, ids by position so that order is observable
BlockItemsAt(i) == IF i % 2 = 1 THEN <<Mini("Node", 2 * i - 1), Small("Way", 2 * i)>> ELSE <<Small("Node", 2 * i - 1)>>
ChangeDocs ==
  {ChangeDocOf(Hdr({"Version"}), [i \in 1 .. Len(s) |-> Block(s[i], BlockItemsAt(i))]) : s \in ActSeqs(IF Big THEN 4 ELSE 3)}
  \cup {ChangeDocOf(h, <<Block("Modify", <<Mini("Node", 1)>>)>>) : h \in Hdrs}
  \* every kind inside every block kind, empty blocks, bounds inside a block
  \cup {ChangeDocOf(NoHdr, <<Block(a, AllKindsDoc(2))>>) : a \in Acts3}
  \cup {ChangeDocOf(NoHdr, <<Block(a, << >>)>>) : a \in Acts3}
  \cup {ChangeDocOf(NoHdr, <<Block("Create", <<Full("Bounds", 1), Full("Node", 1)>>), Block("Delete", <<Full("Way", 2)>>),
                             Block("Create", <<Full("Relation", 3)>>), Block("Delete", <<Full("Bounds", 4), Mini("Node", 5)>>)>>)}

\* augmented diff actions: create = the element itself; modify / delete = old and new
ActCreate(o) == Act("=create", <<o>>, << >>, << >>)
ActModify(o, n) == Act("=modify", << >>, << <<o>> >>, << <<n>> >>)
ActDelete(o, n) == Act("=delete", << >>, << <<o>> >>, << <<n>> >>)
DiffActs(T, k) == <<ActCreate(Full(T, k)), ActModify(Full(T, k + 1), Small(T, k + 2)), ActDelete(Small(T, k + 3), Mini(T, k + 4))>>
DiffDocs ==
  UNION {{DiffDocOf(<<DiffActs(Elems[e], k)[i]>>, << >>) : i \in 1 .. 3} : e \in 1 .. 3, k \in {1, 4}}
  \cup {DiffDocOf([i \in 1 .. Len(s) |-> DiffActs(Elems[1 + (i % 3)], 2 * i)[s[i]]], << >>) :
           s \in UNION {[1 .. m -> 1 .. 3] : m \in 0 .. (IF Big THEN 3 ELSE 2)}}
  \cup {DiffDocOf(<<ActCreate(o)>>, << >>) : o \in UNION {{Obj(Elems[e], Gen(Elems[e], 1, 1, p, TRUE)) : p \in {Pat(b, j) : b \in {"bit", "cobit"}, j \in 0 .. 3}} : e \in 1 .. 3}}
  \* every combination of inlined element / old / new being absent, empty or filled
  \cup {DiffDocOf(<<Act("=modify", bare, old, new)>>, << >>) :
           bare \in {<< >>, <<Mini("Way", 1)>>}, old \in {<< >>, << << >> >>, << <<Small("Node", 2)>> >>},
           new \in {<< >>, << << >> >>, << <<Small("Relation", 3), Mini("Node", 4)>> >>}}
  \* an old / new part with several elements, an action with only old, trailing changesets
  \cup {DiffDocOf(<<Act("=modify", << >>, << <<Mini("Node", 1), Mini("Way", 2), Mini("Node", 3)>> >>, << <<Mini("Way", 4), Mini("Relation", 5)>> >>),
                    Act("=delete", << >>, << <<Full("Relation", 6)>> >>, << >>)>>, <<Small("Changeset", 7), Full("Changeset", 8)>>)}

\* Several objects of one document that AGREE in one metadata field and differ in all others (the same uid under another
\* user name, the same user with another uid, the same changeset / version / timestamp / id on different elements), for every
\* pair of kinds carrying the field: what is decoded for one object must not depend on what an earlier object with the same
\* key looked like.
MetaKinds == {"Node", "Way", "Relation", "Changeset"}
SharedFields == {"ID", "User", "UserID", "Version", "ChangesetID", "Timestamp"}
WithField(o, f, x) == Obj(o.T, [o.f EXCEPT ![f] = x])
SharedTriple(f, Ta, Tb) == <<Full(Ta, 1), WithField(Full(Tb, 4), f, Full(Ta, 1).f[f]), WithField(Full(Ta, 6), f, Full(Ta, 1).f[f])>>
SharedChoices == {c \in SharedFields \X MetaKinds \X MetaKinds : c[1] \in GoFields(c[2]) /\ c[1] \in GoFields(c[3])}
SharedFieldDocs ==
  {OsmDocOf(NoHdr, SharedTriple(c[1], c[2], c[3])) : c \in SharedChoices}
  \cup {ChangeDocOf(NoHdr, <<Block("Create", <<SharedTriple(f, "Node", "Way")[1]>>), Block("Modify", <<SharedTriple(f, "Node", "Way")[2]>>),
                             Block("Delete", <<SharedTriple(f, "Node", "Way")[3]>>)>>) : f \in SharedFields}
\* Every place a coordinate can occur (node, way node in ways and in members, member, update, bounds of the document and
\* of an element, changeset box, note, user home) carrying every value around zero and one: f9..f14 = -0.1246254, 0.9999999,
\* -0.0000001, -1, 1, -0.9999999 (and f6 = 0.0000001, f1 = 1.5).  SetFloats rewrites all float leaves of a value, the
\* s-th document giving the i-th float row the (i+s)-th special value, so neighbours (lat / lon) differ.
SpecialFloats == <<"f9", "f10", "f11", "f12", "f13", "f14", "f6", "f1">>
RowIndex(T, g) == CHOOSE i \in 1 .. Len(Rows(T)) : Rows(T)[i].go = g
RECURSIVE SetFloats(_, _, _)
SetFloats(T, v, s) ==
  [g \in DOMAIN v |->
     LET r == RowOf(T, g) IN
     IF r.type = "float" THEN SpecialFloats[1 + ((RowIndex(T, g) + s) % Len(SpecialFloats))]
     ELSE IF IsScalar(r) \/ r.mode = "none" THEN v[g]
     ELSE IF r.card = "one" THEN SetFloats(r.type, v[g], s)
     ELSE [i \in 1 .. Len(v[g]) |-> SetFloats(r.type, v[g][i], s + i)]]
CoordObjs == UNION {{Obj(Kinds[t], SetFloats(Kinds[t], Gen(Kinds[t], s + t, 2, Pat("all", 0), TRUE), s)) : t \in 1 .. 7} : s \in 0 .. 7}
CoordDocs == {OsmDocOf(NoHdr, <<o>>) : o \in CoordObjs}
\* Sub-second instants (t4 = milliseconds, t5 = nanoseconds) on EVERY time-typed field of a kind at once: element timestamps,
\* committed, update timestamps, changeset created / closed, discussion comment dates, user account creation.  withDates also
\* rewrites the note dates (date_created, date_closed, comment dates): only JSON can carry their fraction - the notes XML
\* layout `2006-01-02 15:04:05 UTC` has none, so the XML value spaces keep them at whole seconds.
SubSecond == <<"t4", "t5">>
RECURSIVE SetTimes(_, _, _, _)
SetTimes(T, v, s, withDates) ==
  [g \in DOMAIN v |->
     LET r == RowOf(T, g)
         x == SubSecond[1 + ((RowIndex(T, g) + s) % 2)] IN
     IF r.type = "time" \/ (withDates /\ r.type = "date") THEN (IF r.card = "one" THEN x ELSE [i \in 1 .. Len(v[g]) |-> x])
     ELSE IF IsScalar(r) \/ r.mode = "none" THEN v[g]
     ELSE IF r.card = "one" THEN SetTimes(r.type, v[g], s, withDates)
     ELSE [i \in 1 .. Len(v[g]) |-> SetTimes(r.type, v[g][i], s + i, withDates)]]
TimeObjs(withDates) == UNION {{Obj(Kinds[t], SetTimes(Kinds[t], Gen(Kinds[t], s + t, 2, Pat("all", 0), TRUE), s, withDates)) : t \in 2 .. 7} : s \in 0 .. 1}
TimeDocs == {OsmDocOf(NoHdr, <<o>>) : o \in TimeObjs(FALSE)}
\* Member annotation subsets: every subset of the optional member fields (version, changeset, lat, lon, orientation, nested
\* nodes) present on the members of a relation, independently - incl. orientation only, with both orientation values - with plain
\* and pool roles.  (All members of one relation carry the same subset; the base fields type / ref / role are always there.)
MemberOpt == {"Version", "ChangesetID", "Lat", "Lon", "Orientation", "Nodes"}
MemberWith(m, j, role) ==
  [g \in {"Type", "Ref", "Role"} \cup m |->
     CASE g = "Type" -> <<"=way", "=node", "=relation">>[j]
       [] g = "Ref" -> IdSym(j)
       [] g = "Role" -> role
       [] g = "Version" -> IdSym(j + 3)
       [] g = "ChangesetID" -> IdSym(j + 5)
       [] g = "Lat" -> "f" \o ToString(j)
       [] g = "Lon" -> "f" \o ToString(j + 8)
       [] g = "Orientation" -> <<"#1", "#-1", "#1">>[j]
       [] g = "Nodes" -> <<[ID |-> IdSym(j + 6)]>>]
MaskRelations ==
  {Obj("Relation", [ID |-> "i4", Members |-> <<MemberWith(m, 1, r[1]), MemberWith(m, 2, r[2]), MemberWith(m, 3, r[1])>>]) :
      m \in SUBSET MemberOpt, r \in {<<"=outer", "s0">>, <<"s2", "=inner ring">>}}
MaskDocs == {OsmDocOf(NoHdr, <<o>>) : o \in MaskRelations}
\* augmented-diff actions whose old / new parts are full documents (bounds, every element kind, changesets, notes, users)
FullPartDiffDocs ==
  {DiffDocOf(<<Act("=modify", << >>, << AllKindsDoc(1) >>, << AllKindsDoc(4) >>)>>, << >>),
   DiffDocOf(<<Act("=delete", << >>, << [i \in 1 .. 7 |-> AllKindsDoc(2)[Scrambled[i]]] >>, << >>),
               Act("=create", <<Full("Way", 3)>>, << >>, << <<Full("Bounds", 5), Small("Changeset", 6), Small("Note", 7), Small("User", 8)>> >>)>>, << >>)}
Docs == OsmDocs \cup ChangeDocs \cup DiffDocs \cup ListPairDocs \cup SharedFieldDocs \cup CoordDocs \cup FullPartDiffDocs \cup TimeDocs \cup MaskDocs
DocCase(d) == [doc |-> d, tree |-> DocTree(d), unk |-> <<UnknownAttr, UnknownElem>>]

(* ---- Go-shaped values (C04 / C05) ---- *)
\* the Go-shaped (partial) value of a document: what decoding it yields, restricted to the non-empty parts
ValueOf(d) == ExpectedWhole(d)
\* standalone objects, containers holding every pattern of every kind, and containers decoded from the documents above
OSMWith(hdr, items) == WholeOSM(hdr, items)
Standalone == UNION {Objs(Kinds[i]) : i \in 1 .. 7} \cup MaskRelations
ContainerValues ==
  {Obj(d.T, ValueOf(d)) : d \in Docs}
  \* every subset of create / modify / delete present, one of them empty, with and without bounds
  \cup {Obj("Change", ExpectedWhole(ChangeDocOf(Hdr({"Generator"}),
            [i \in 1 .. Len(s) |-> Block(s[i], IF i = 2 THEN << >> ELSE <<Full("Bounds", i), Full("Node", i), Small("Way", i + 1)>>)]))) :
        s \in {<< >>, <<"Create">>, <<"Modify">>, <<"Delete">>, <<"Create", "Modify">>, <<"Delete", "Create">>, <<"Modify", "Delete">>,
               <<"Create", "Modify", "Delete">>, <<"Delete", "Modify", "Create">>}}
  \cup {Obj("OSM", OSMWith(NoHdr, <<Full("Bounds", k)>> \o tail)) : k \in 1 .. 3, tail \in {<< >>, <<Full("Node", 1)>>}}
\* a changeset whose discussion is present but empty (documented to be omitted on output)
EmptyDiscussion == Obj("Changeset", [Gen("Changeset", 1, 1, Pat("all", 0), TRUE) EXCEPT !.Discussion = << [Comments |-> << >>] >>])
Values == Standalone \cup ContainerValues \cup {EmptyDiscussion}
ValueCase(o) == [root |-> o.T, v |-> o.f]

(* ---- osmjson cases (C05) ---- *)
RECURSIVE TagsUnique(_, _)
TagsUnique(T, v) ==
  \A g \in DOMAIN v :
     LET r == RowOf(T, g) IN
     IF r.jmode = "tags" THEN \A i, j \in 1 .. Len(v[g]) : i # j => v[g][i].Key # v[g][j].Key
     ELSE IF IsScalar(r) \/ r.mode = "none" THEN TRUE
     ELSE IF r.card = "one" THEN TagsUnique(r.type, v[g])
     ELSE \A i \in 1 .. Len(v[g]) : TagsUnique(r.type, v[g][i])
JsonRoots == {"OSM", "Change", "Node", "Way", "Relation", "Changeset", "Note", "User", "Bounds"}
RtCases == {[kind |-> "rt", root |-> o.T, v |-> o.f] : o \in {x \in Values : x.T \in JsonRoots /\ TagsUnique(x.T, Fill(x.T, x.f))}}
\* version: absent, a number (Overpass), a string (API); as number also an integer
Vers == << << >>, << [j |-> "num", v |-> "=0.6"] >>, << [j |-> "str", v |-> "=0.6"] >>, << [j |-> "num", v |-> "=1"] >>, << [j |-> "str", v |-> "s2"] >> >>
JDoc(ver, hdr, items) == [kind |-> "doc", root |-> "OSM", ver |-> ver, hdr |-> hdr, items |-> items,
                          jtree |-> JsonDoc(ver, hdr, items), unk |-> UnknownKey]
JsonKinds == <<"Node", "Way", "Relation", "Changeset", "Note", "User">>
JsonObjs == UNION {{o \in Objs(JsonKinds[i]) : TagsUnique(o.T, Fill(o.T, o.f))} : i \in 1 .. 6}
JHdrs == {NoHdr, Hdr({"Generator"}), Hdr(HdrNames \ {"Version"})}
JsonDocCases ==
  {JDoc(Vers[i], NoHdr, <<o>>) : o \in JsonObjs, i \in {1, 3}}
  \cup {JDoc(Vers[i], h, <<Small("Node", i), Full("Way", i + 1), Small("Relation", i + 2)>>) : i \in 1 .. 5, h \in JHdrs}
  \cup {JDoc(Vers[i], NoHdr, << >>) : i \in 1 .. 5}
  \cup {JDoc(Vers[1 + (i % 5)], Hdr({"Generator"}), [k \in 1 .. 6 |-> Full(JsonKinds[1 + ((k + i) % 6)], k + i)]) : i \in 1 .. 6}
  \cup {JDoc(Vers[2], NoHdr, <<Mini("Node", 1), Mini("Way", 2), Mini("Node", 3), Mini("Relation", 4), Mini("Way", 5), Mini("Node", 6)>>)}
\* Strings only JSON can carry (symbols s7..s11 of the harness: ASCII control characters other than \b \f \n \r \t, DEL,
\* an unprintable code point above U+FFFF).  C05 only - the XML value spaces stay XML-representable.  They appear as tag
\* key, as tag value and in one other string field of each kind, standalone, inside an OSM, and in independent documents.
JsonOnly == <<"s7", "s8", "s9", "s10", "s11">>
CtlTags(i) == << [Key |-> JsonOnly[i], Value |-> "s1"], [Key |-> "s2", Value |-> JsonOnly[1 + (i % 5)]] >>
CtlObjs ==
  UNION {{ Obj("Node", [Full("Node", i).f EXCEPT !.Tags = CtlTags(i), !.User = JsonOnly[1 + ((i + 1) % 5)]]),
           Obj("Way", [Full("Way", i).f EXCEPT !.Tags = CtlTags(i)]),
           Obj("Relation", [Full("Relation", i).f EXCEPT !.Tags = CtlTags(i), !.Members = << [@[1] EXCEPT !.Role = JsonOnly[i]] >>]),
           Obj("Changeset", [Full("Changeset", i).f EXCEPT !.Tags = CtlTags(i),
                               !.Discussion = << [Comments |-> << [@[1].Comments[1] EXCEPT !.Text = JsonOnly[i]] >>] >>]),
           Obj("Note", [Full("Note", i).f EXCEPT !.Comments = << [@[1] EXCEPT !.Text = JsonOnly[i], !.User = JsonOnly[1 + (i % 5)]] >>]),
           Obj("User", [Full("User", i).f EXCEPT !.Name = JsonOnly[i], !.Languages = <<JsonOnly[1 + (i % 5)]>>]) } : i \in 1 .. 5}
JsonCtlCases ==
  {[kind |-> "rt", root |-> o.T, v |-> o.f] : o \in CtlObjs}
  \cup {[kind |-> "rt", root |-> "OSM", v |-> WholeOSM(Hdr({"Generator"}), <<o>>)] : o \in CtlObjs}
  \cup {JDoc(Vers[3], NoHdr, <<o>>) : o \in CtlObjs}
\* Element ids outside what the library's packed ids can hold (symbols i10..i14: -1, -5000000000, 2^40, 2^40+7, 2^62-3),
\* for every element kind, as id and as way-node / member reference; standalone, inside an OSM, in independent documents.
ExtIds == <<"i10", "i11", "i12", "i13", "i14">>
IdObjs ==
  UNION {{Obj(JsonKinds[t], [Full(JsonKinds[t], i + t).f EXCEPT !.ID = ExtIds[i]]) : t \in 1 .. 6} : i \in 1 .. 5}
  \cup {Obj("Way", [ID |-> ExtIds[i], Nodes |-> <<[ID |-> ExtIds[1 + (i % 5)]], [ID |-> "i2"]>>]) : i \in 1 .. 5}
  \cup {Obj("Relation", [ID |-> "i3", Members |-> <<[Type |-> "=way", Ref |-> ExtIds[i], Role |-> "s1"]>>]) : i \in 1 .. 5}
JsonIdCases ==
  {[kind |-> "rt", root |-> o.T, v |-> o.f] : o \in IdObjs}
  \cup {[kind |-> "rt", root |-> "OSM", v |-> WholeOSM(NoHdr, <<o>>)] : o \in IdObjs}
  \cup {JDoc(Vers[2], NoHdr, <<o>>) : o \in IdObjs}
\* A changeset element that embeds a change (create / modify / delete are OSM documents again, so the OSM JSON decoder is
\* re-entered while the outer document is being read): at index 0, 1, 2 of the outer elements, followed by further elements,
\* inner documents of 2..5 elements whose ids differ from the outer ones.  Each is decoded `reps` times in a row.
InnerItems(n) == [j \in 1 .. n |-> Mini(Elems[1 + (j % 3)], 4 + j)]
CsChange(a, n) == Obj("Changeset", [ID |-> "i3", User |-> "s1", Change |-> << [g \in {a} |-> << WholeOSM(<< >>, InnerItems(n)) >>] >>])
CsItems(i, a, n) == SubSeq(<<Mini("Node", 1), Mini("Way", 2)>>, 1, i) \o <<CsChange(a, n)>> \o <<Mini("User", 4), Mini("Note", 4), Mini("User", 1)>>
WithReps(c) == [g \in DOMAIN c \cup {"reps"} |-> IF g = "reps" THEN 8 ELSE c[g]]
JsonNestedCases ==
  UNION {{WithReps([kind |-> "rt", root |-> "OSM", v |-> WholeOSM(Hdr({"Generator"}), CsItems(i, a, n))]),
          WithReps(JDoc(Vers[3], NoHdr, CsItems(i, a, n)))} : i \in 0 .. 2, a \in Acts3, n \in {2, 3, 4, 5}}
\* Decoding must not depend on what the process decoded before - in particular not on documents that were REJECTED.
\* Every case below decodes one or two ill-typed documents first (same goroutine, result discarded; the property says nothing
\* about them) and then a valid document / the library's own output, eight times over; the valid one is judged as usual.
\* An ill-typed document = a valid one with one member replaced by a value of the wrong JSON type, after at least one
\* well-formed entry at the same place.
JSetKey(t, name, x) == [t EXCEPT !.kv = [i \in 1 .. Len(@) |-> IF @[i][1] = K(name) THEN <<@[i][1], x>> ELSE @[i]]]
JNum(l) == [j |-> "num", v |-> l]
JStr(l) == [j |-> "str", v |-> l]
GoodNodeTree == JsonOf("Node", Full("Node", 5).f)
GoodWayTree == JsonOf("Way", Full("Way", 5).f)
GoodRelTree == JsonOf("Relation", Full("Relation", 5).f)
BadTagMaps == { [j |-> "map", kv |-> << <<"=phantom", JStr("s5")>>, <<"=capacity", JNum("#12")>> >>],
                [j |-> "map", kv |-> << <<"=phantom", JStr("s5")>>, <<"=nested", JObj(<< <<"=a", JStr("s1")>> >>)>> >>],
                [j |-> "map", kv |-> << <<"=phantom", JStr("s5")>>, <<"=flag", [j |-> "bool", v |-> "b1"]>>, <<"=other", JStr("s6")>> >>],
                JArr(<<JStr("s5")>>) }
BadElems ==
  {JSetKey(t, "tags", m) : t \in {GoodNodeTree, GoodWayTree, GoodRelTree}, m \in BadTagMaps}
  \cup {JSetKey(GoodWayTree, "nodes", JArr(<<JNum("i1"), JStr("s5"), JNum("i3")>>)),
        JSetKey(GoodRelTree, "members", JArr(<<JObj(<< <<K("type"), JStr("=node")>>, <<K("ref"), JStr("s5")>>, <<K("role"), JStr("s1")>> >>)>>)),
        JSetKey(GoodNodeTree, "id", JStr("s5")), JSetKey(GoodNodeTree, "timestamp", JNum("#12")), JSetKey(GoodNodeTree, "lat", JStr("s5")),
        JSetKey(GoodNodeTree, "type", JStr("=area")), JSetKey(GoodWayTree, "user", JNum("#12"))}
BadDocOf(e) == JObj(<< <<K("version"), JStr("=0.6")>>, <<K("elements"), JArr(<<GoodNodeTree, e, GoodWayTree>>)>> >>)
AfterItems == <<Full("Node", 1), Full("Way", 2), Full("Relation", 3), Small("Changeset", 4)>>
WithPre(c, pre) == [g \in DOMAIN c \cup {"reps", "pre"} |-> IF g = "reps" THEN 8 ELSE IF g = "pre" THEN pre ELSE c[g]]
JsonAfterRejectCases ==
  {WithPre(JDoc(Vers[3], NoHdr, AfterItems), <<BadDocOf(e)>>) : e \in BadElems}
  \cup {WithPre([kind |-> "rt", root |-> "OSM", v |-> WholeOSM(Hdr({"Generator"}), AfterItems)], <<BadDocOf(e)>>) : e \in BadElems}
  \cup {WithPre(JDoc(Vers[2], NoHdr, <<Mini("Node", 1), Full("Node", 2)>>), <<BadDocOf(e), JObj(<< <<K("elements"), JStr("s1")>> >>)>>) : e \in BadElems}
\* osmjson carries every instant as an RFC 3339 string with its fraction: all time AND date fields sub-second, both directions
JsonTimeCases ==
  {[kind |-> "rt", root |-> o.T, v |-> o.f] : o \in TimeObjs(TRUE)}
  \cup {[kind |-> "rt", root |-> "OSM", v |-> WholeOSM(NoHdr, <<o>>)] : o \in TimeObjs(TRUE)}
  \cup {JDoc(Vers[3], NoHdr, <<o>>) : o \in TimeObjs(TRUE)}
JsonMaskDocCases == {JDoc(Vers[3], NoHdr, <<o>>) : o \in MaskRelations}
JsonCases == JsonMaskDocCases \cup RtCases \cup JsonDocCases \cup JsonCtlCases \cup JsonIdCases \cup JsonNestedCases \cup JsonAfterRejectCases \cup JsonTimeCases

VARIABLE case
DInit == case \in {DocCase(d) : d \in Docs}
VInit == case \in {ValueCase(o) : o \in Values}
Next == UNCHANGED case

(* ---- design-level theorems, checked by TLC on every enumerated document / value ---- *)
\* the writer and the decoding semantics are inverse up to zero-filling, and the doc-level accumulation is what
\* the schema-directed decoding of the tree yields
DecodeIsWhole == Decode(case.doc.T, case.tree) = ExpectedWhole(case.doc)
TreeNamesOK == NamesOK(case.doc.T, case.tree)
\* unknown attributes on every element and unknown empty children change neither
RECURSIVE Polluted(_)
Polluted(t) == IF t.t # << >> THEN t ELSE
                 [t EXCEPT !.a = << <<UnknownAttr, "s1">> >> \o @, !.c = <<El(UnknownElem, << >>, << >>)>> \o Map(@, Polluted) \o <<El(UnknownElem, << >>, << >>)>>]
UnknownIgnored == Decode(case.doc.T, Polluted(case.tree)) = ExpectedWhole(case.doc)
\* streaming = whole document, per kind (and per block kind for osmChange)
StreamIsWhole ==
  \A kind \in ObjectKinds : StreamKind(ExpectedStream(case.doc), kind) = ValueKind(case.doc.T, ExpectedWhole(case.doc), kind)
     \/ (kind = "Bounds" /\ case.doc.T # "OSM")     \* several blocks may each carry bounds; the whole keeps one per block kind
     \/ case.doc.T = "Change"                        \* compared per block kind below
ChangeStreamIsWhole ==
  case.doc.T = "Change" =>
    \A a \in Acts3, kind \in ObjectKinds \ {"Bounds"} :
       StreamKind(Map(BlockItems(case.doc, a), FillObj), kind) = OptKind(ExpectedWhole(case.doc)[a], kind)
\* values: the canonical tree of a value decodes to the filled value and uses schema names only
ValueRoundTrip == Decode(case.root, XmlTree(case.root, case.v)) = Fill(case.root, case.v)
                  \/ (case.root = "Diff")        \* an action's inlined element list is not a schema-directed list (see Action)
ValueNamesOK == NamesOK(case.root, XmlTree(case.root, case.v))

(* ---- osmjson: the independent writer, the shape Judge and the round-trip relation agree (design level) ---- *)
JInitC == case \in JsonCases
RECURSIVE Parsed(_)        \* a written tree as a parser sees it: every object is an "obj"
Parsed(t) == CASE t.j \in {"obj", "map"} -> [j |-> "obj", kv |-> [i \in 1 .. Len(t.kv) |-> <<t.kv[i][1], Parsed(t.kv[i][2])>>]]
               [] t.j = "arr" -> [j |-> "arr", e |-> [i \in 1 .. Len(t.e) |-> Parsed(t.e[i])]]
               [] OTHER -> t
\* what the writer produces for a document has the shape the Judge demands of the library's output, for that value
JsonWriterShape ==
  \* (for the fully written value: a document may leave out nodes / members, the library's output may not)
  /\ case.kind = "doc" => ShapeOK("OSM", Parsed(JsonDoc(case.ver, case.hdr, Map(case.items, FillObj))), WholeOSM(case.hdr, case.items))
  /\ (case.kind = "rt" /\ case.root \in DOMAIN JsonType) =>
        ShapeOK(case.root, Parsed(JsonOf(case.root, Fill(case.root, case.v))), Fill(case.root, case.v))
\* Strip only removes way-node annotations and is idempotent; equality up to tags ignores tag order and nothing else
StripLaws ==
  case.kind = "rt" =>
    LET F == Fill(case.root, case.v)  S == Strip(case.root, F) IN
    /\ Strip(case.root, S) = S
    /\ case.root = "Way" => [i \in 1 .. Len(F.Nodes) |-> F.Nodes[i].ID] = [i \in 1 .. Len(S.Nodes) |-> S.Nodes[i].ID]
    /\ case.root \in {"Node", "Changeset", "Note", "User", "Bounds"} => S = F
TagOrderFree ==
  (case.kind = "rt" /\ case.root \in {"Node", "Way", "Relation", "Changeset"}) =>
    LET F == Fill(case.root, case.v)  R == [F EXCEPT !.Tags = Reverse(@)] IN
    /\ EqUpToTags(case.root, F, R)
    /\ Len(F.Tags) >= 2 => F # R
    /\ F.ID # "i0" => ~EqUpToTags(case.root, F, [F EXCEPT !.ID = "i0"])
=============================================================================
