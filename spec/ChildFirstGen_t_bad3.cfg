\* 3 ids, <= 1 member, every request list <= 3, every single failing id
CONSTANTS
  N = 3
  MaxMem = 1
  MaxReq = 3
  Family = "flat"
  FlagFamily = "plain"
  WithBad = TRUE
  CanonicalReqs = FALSE
  VersionSets <- MCVersions
  ReqLists <- MCReqs
  BadSets <- MCBad
  FlagSets <- MCFlags
  Slice = 0
  Slices = 1
  Sample = 0
INIT Init
NEXT GNext
CHECK_DEADLOCK FALSE
