------------------------------ MODULE PbfGen ------------------------------
(* Case generation for the pipeline checks (C02 C06 C07 C09).                        *)
(*  1. Behaviours of the Model (without stops) exported as schedules: the sequence   *)
(*     of process names r | w<i> | s | c, printed at the natural end of the scan     *)
(*     together with what the Model delivered.  The harness forces the real          *)
(*     goroutines through the same schedule (S -> C).  Used with `tlc -simulate`.    *)
(*  2. The space of configurations x API scripts for recorded random-walk runs       *)
(*     (C -> S), written as an ndjson file.                                          *)
EXTENDS PbfPipeline, Json, IOUtils, SequencesExt
VARIABLES sched, cutAt
gvars == << vars, sched, cutAt >>

D(n) == [k |-> "data", n |-> n]
BAD == [k |-> "bad", n |-> 0]
TYP == [k |-> "type", n |-> 0]
Cfg(n, b, e, h) == [n |-> n, cap |-> 10 \div n, blocks |-> b, endkind |-> e, hdr |-> h,
                    stopOnCancel |-> TRUE, sepErr |-> TRUE, eofCtx |-> TRUE,
                    allowCancel |-> FALSE, allowClose |-> FALSE, allowHeader |-> FALSE, maxErr |-> 0]
BlockSeqs == { <<D(2), D(0), D(1)>>, <<D(1), D(1), D(1), D(2)>>, <<D(0), D(2)>>, <<D(1), D(2), D(0), D(1), D(1)>>,
               <<D(1), BAD, D(1)>>, <<D(2), D(1), TYP, D(1)>>, <<D(1), D(0), D(0), D(2), D(1), D(1)>>,
               \* long enough to fill a per-worker queue (capacity 10 \div n) while its worker is not scheduled
               <<D(1), D(1), D(0), D(1), D(2), D(1), D(1), D(1)>>,
               <<D(1), D(1), D(1), D(1), D(1), D(1), D(1), D(1), D(1), D(1), D(1), D(1), D(1)>> }
CONSTANT Tier     \* "quick" | "thorough"
Ns == IF Tier = "quick" THEN {1, 2, 3, 6, 11} ELSE {1, 2, 3, 4, 5, 6, 10, 11, 16, 32}
GenConfigs == { Cfg(n, b, e, h) : n \in Ns, b \in BlockSeqs, e \in {"eof", "trunc"}, h \in {"ok", "none"} }

GenInit == Init /\ sched = << >> /\ cutAt = 0
Live == sErr = Nil
GenNext ==
  /\ Live
  /\ \/ RNext /\ sched' = Append(sched, "r")
     \/ \E w \in Workers : WNext(w) /\ sched' = Append(sched, "w" \o ToString(w))
     \/ SNext /\ sched' = Append(sched, "s")
     \/ (C_Call \/ C_Got) /\ sched' = Append(sched, "c")
  /\ cutAt' = IF cutAt = 0 /\ cancelled' THEN Len(sched') ELSE cutAt

Emit == Live \/ PrintT(<<"CASE", ToJson([kind |-> "forced",
                                         cfg |-> [n |-> cfg.n, blocks |-> cfg.blocks, endkind |-> cfg.endkind, hdr |-> cfg.hdr],
                                         sched |-> (IF cutAt = 0 THEN sched ELSE SubSeq(sched, 1, cutAt)),
                                         expect |-> [delivered |-> delivered, err |-> ErrCls(sErr)]])>>)

(* ---- configurations x scripts for recorded walks ---- *)
WalkCfg(n, b, e, h) == [n |-> n, blocks |-> b, endkind |-> e, hdr |-> h]
WalkConfigs == { WalkCfg(n, b, e, h) : n \in Ns, b \in BlockSeqs, e \in {"eof", "trunc"}, h \in {"ok", "none"} }
               \cup { WalkCfg(n, <<D(1), D(1)>>, "eof", h) : n \in {1, 2}, h \in {"trunc", "feature", "empty"} }
\* real-concurrency (jitter) runs: long files, so that a slow decoder's queue (capacity 10 \div n) fills while others have room
LongSeqs == { [i \in 1 .. 30 |-> D(1)], [i \in 1 .. 24 |-> D(IF i % 5 = 0 THEN 0 ELSE 1 + (i % 2))] }
JitterConfigs == { WalkCfg(n, b, "eof", "ok") : n \in {2, 3, 4, 5, 6, 11}, b \in LongSeqs }
RECURSIVE Rep(_, _)
Rep(x, k) == IF k = 0 THEN << >> ELSE <<x>> \o Rep(x, k - 1)
Tails == { << >>, <<"scan">>, <<"err">>, <<"scan", "err">>, <<"err", "scan", "err">>, <<"close", "err">>, <<"scan", "close", "scan">>,
           <<"err", "close", "err">>, <<"scan", "scan", "err">> }
\* C07 call histories: Header? . Scan^k . (Close | cancel) . (Scan | Err | Close)^<=3 ; "scanall" = to the end of input and beyond
StopScripts == { h \o pre \o <<stop>> \o t : h \in {<< >>, <<"header">>}, pre \in {Rep("scan", k) : k \in 0 .. 8} \cup {<<"scanall">>, <<"scanall", "err">>},
                                              stop \in {"close", "cancel"}, t \in Tails }
\* C02 / C06 / C09: scan to the end (an external cancel may be injected by the driver for C07)
PlainScripts == { <<"scanall", "err">>, <<"header", "scanall", "err">>, <<"scanall", "err", "scan", "err">>,
                  \* Header() is idempotent and may be asked at any time: twice, between Scans, after the end
                  <<"header", "header", "scanall", "err">>, <<"scan", "header", "scanall", "err">>,
                  <<"scan", "scan", "scan", "header", "scan", "header", "scanall", "err">>, <<"scanall", "header", "err">> }
=============================================================================
