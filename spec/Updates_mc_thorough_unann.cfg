\* design level, thorough, ways with one node that is not annotated (GeomJ is silent there; Exact etc. are not)
CONSTANTS
  MaxN = 2
  MaxL = 3
  MaxT = 3
  Kinds = {"way"}
  UnannChoices = {1, 2}
  LocKinds = {"n"}
  BreakAtLate = FALSE
SPECIFICATION Spec
INVARIANTS Exact1 Exact2 Pending1 Pending2 IndexErr1 IndexErr2 Compose GeomAt1 GeomAt2 FoldsAgree UpToSplit KFExact
CHECK_DEADLOCK FALSE
