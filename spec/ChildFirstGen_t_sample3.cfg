\* seeded random subset (TLC -seed) of the 3-id graphs with versions / non-relation members / <= 2 members
CONSTANTS
  N = 3
  MaxMem = 2
  MaxReq = 2
  Family = "mixed"
  FlagFamily = "plain"
  WithBad = FALSE
  CanonicalReqs = FALSE
  VersionSets <- MCVersions
  ReqLists <- MCReqs
  BadSets <- MCBad
  FlagSets <- MCFlags
  Slice = 0
  Slices = 1
  Sample = 4000
INIT Init
NEXT GNext
CHECK_DEADLOCK FALSE
