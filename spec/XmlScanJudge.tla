---------------------------- MODULE XmlScanJudge ----------------------------
(* The Judges of XmlScan evaluated on what the real scanner did: every line *)
(* of IOEnv.REC is one run [case |-> [toks, ops], ev |-> events]; RecHist   *)
(* rebuilds the call records from the events alone.                         *)
EXTENDS XmlScan, IOUtils, Json
Lines == ndJsonDeserialize(IOEnv.REC)
Fails(ln) ==
  LET ts == ln.case.toks  h == RecHist(ts, ln.ev) IN
  (IF StreamOK(ts, h) THEN {} ELSE {"stream-order"}) \cup (IF CompleteOK(ts, h) THEN {} ELSE {"stream-complete"})
  \cup (IF LaterScansFalseOK(h) THEN {} ELSE {"later-scans-false"}) \cup (IF ErrPrecedenceOK(h) THEN {} ELSE {"err-precedence"})
  \cup (IF FalseHasReason(h) THEN {} ELSE {"false-without-reason"})
  \cup (IF ReadAheadOK(ln.ev) THEN {} ELSE {"read-ahead"})
ASSUME \A i \in 1 .. Len(Lines) :
          Fails(Lines[i]) = {} \/ PrintT(<<"BAD", ToJson([i |-> i, why |-> Fails(Lines[i]), kf |-> {}])>>)
ASSUME PrintT(<<"JUDGED", Len(Lines)>>)
JInit == InitWith(<< >>)
JNext == UNCHANGED vars
=============================================================================
