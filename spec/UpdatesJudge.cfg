CONSTANTS
  MaxN = 1
  MaxL = 0
  MaxT = 1
  Kinds = {"way"}
  UnannChoices = {0}
  LocKinds = {"n"}
  BreakAtLate = FALSE
INIT JInit
NEXT JNext
CHECK_DEADLOCK FALSE
