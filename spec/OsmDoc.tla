------------------------------- MODULE OsmDoc -------------------------------
(* C03 / C04 / C05 - the OSM XML and osmjson formats as schema tables, and   *)
(* everything that is derived from them:                                     *)
(*                                                                           *)
(*   Schema          one table per Go struct of github.com/paulmach/osm:     *)
(*                   Go field name, XML name, JSON key, how the field is     *)
(*                   represented (attribute / child element / text element / *)
(*                   inlined children), cardinality, type.  The XML and JSON *)
(*                   names are written from the formats (OSM API v0.6 XML,   *)
(*                   osmChange, Overpass augmented diffs, notes, user        *)
(*                   details, planet changeset dumps; Overpass / API osmjson)*)
(*                   - NOT copied from the struct tags.  The Go harness      *)
(*                   knows Go field names only (reflection).                 *)
(*   Values          generic records over symbols: every scalar is a string  *)
(*                   symbol ("s0" = empty string, "s3", "=node" = the literal*)
(*                   text node, "i0" = 0, "i4", "#-1" = the literal integer, *)
(*                   "f2", "b0"/"b1", "t0" = zero time, "t3"); an optional   *)
(*                   (pointer) field is a sequence of length 0 or 1; a list  *)
(*                   is a sequence; a struct is a record keyed by Go field   *)
(*                   names.  A *partial* value has only some of the fields.  *)
(*   ElemTree/DocTree the generic XML element tree an independent writer     *)
(*                   produces for a (partial) value / an abstract document.  *)
(*   Decode          the meaning of an element tree under the schema         *)
(*                   (absent => zero value, unknown names ignored, repeated  *)
(*                   elements accumulate in document order).                 *)
(*   Fill            a partial value with every absent field at its zero.    *)
(*   NamesOK         every element / attribute name of a tree is the         *)
(*                   schema's name for that position.                        *)
(*   JsonTree, JShapeOK, Strip, EqUpToTags   the osmjson side (C05).         *)
(*                                                                           *)
(* Trees (uniform records so that TLC never compares unlike things):         *)
(*   XML  : [n |-> name, a |-> << <<attr, leaf>>, ... >>, c |-> <<trees>>,   *)
(*           t |-> << >> or <<leaf>>]      (t = text content)                *)
(*   JSON : [j |-> "obj", kv |-> << <<key, tree>>, ... >>]   ("map" = an      *)
(*          object all of whose members are data, e.g. tags; parsed texts    *)
(*          only have "obj")                                                 *)
(*          [j |-> "arr", e |-> <<trees>>]                                   *)
(*          [j |-> "str" | "num" | "bool", v |-> leaf]   [j |-> "null"]      *)
(* XML leaves of note dates are written "D:" \o leaf (the notes date layout  *)
(* `2006-01-02 15:04:05 UTC` instead of RFC 3339).                           *)
EXTENDS Integers, Sequences, FiniteSets, TLC, SequencesExt

(* ------------------------------------------------------------------------ *)
(* Schema                                                                    *)
(* ------------------------------------------------------------------------ *)
\* mode : "attr"   XML attribute
\*        "elem"   child element(s) holding a struct          (card one|opt|many)
\*        "text"   child element(s) whose text is the scalar  (card one|many)
\*        "inline" the struct's own children appear directly inside the parent (card opt)
\*        "none"   not represented in XML
\* wrap : name of a wrapper element around the children ("" = none)
\* jmode: "std" (scalar -> literal, struct -> object, list -> array), "tags" (object key -> value),
\*        "ids" (array of the ID fields), "none" (not represented in JSON)
\* xo / jo : the library documents the field as omitted when empty (XML / JSON); informative only
Row(go, xml, json, mode, card, type) ==
  [go |-> go, xml |-> xml, json |-> json, mode |-> mode, card |-> card, type |-> type,
   wrap |-> "", jmode |-> IF json = "-" THEN "none" ELSE "std"]
A(go, xml, json, type)  == Row(go, xml, json, "attr", "one", type)
AP(go, xml, json, type) == Row(go, xml, json, "attr", "opt", type)
E1(go, xml, json, type) == Row(go, xml, json, "elem", "one", type)
EO(go, xml, json, type) == Row(go, xml, json, "elem", "opt", type)
EM(go, xml, json, type) == Row(go, xml, json, "elem", "many", type)
T1(go, xml, json, type) == Row(go, xml, json, "text", "one", type)
Wrap(r, w)  == [r EXCEPT !.wrap = w]
JMode(r, m) == [r EXCEPT !.jmode = m]

ScalarTypes == {"str", "lit", "int", "int8", "float", "bool", "time", "date"}

\* --- metadata common to node / way / relation (OSM API v0.6: id user uid visible version changeset timestamp)
Meta == << A("ID", "id", "id", "int"), A("User", "user", "user", "str"), A("UserID", "uid", "uid", "int"),
           A("Visible", "visible", "visible", "bool"), A("Version", "version", "version", "int"),
           A("ChangesetID", "changeset", "changeset", "int"), A("Timestamp", "timestamp", "timestamp", "time") >>
TagsRow == JMode(EM("Tags", "tag", "tags", "Tag"), "tags")
\* annotation fields of this library (no outside format; names as documented by the library)
CommittedRow == AP("Committed", "committed", "committed", "time")
UpdatesRow   == EM("Updates", "update", "updates", "Update")
EBoundsRow   == EO("Bounds", "bounds", "bounds", "Bounds")
\* <osm version generator copyright attribution license>
HeaderRows == << A("Version", "version", "version", "str"), A("Generator", "generator", "generator", "str"),
                 A("Copyright", "copyright", "copyright", "str"), A("Attribution", "attribution", "attribution", "str"),
                 A("License", "license", "license", "str") >>
CountRows == << A("Count", "count", "count", "int") >>

Schema ==
  [ Tag    |-> << A("Key", "k", "-", "str"), A("Value", "v", "-", "str") >>,
    \* <bounds minlat minlon maxlat maxlon/>; Overpass `out bb`: "bounds":{"minlat","minlon","maxlat","maxlon"}
    Bounds |-> << A("MinLat", "minlat", "minlat", "float"), A("MaxLat", "maxlat", "maxlat", "float"),
                  A("MinLon", "minlon", "minlon", "float"), A("MaxLon", "maxlon", "maxlon", "float") >>,
    Node   |-> << Meta[1], A("Lat", "lat", "lat", "float"), A("Lon", "lon", "lon", "float") >>
               \o SubSeq(Meta, 2, 7) \o << TagsRow, CommittedRow >>,
    \* <nd ref/>; the other attributes are this library's way-node annotations
    WayNode |-> << A("ID", "ref", "-", "int"), A("Version", "version", "-", "int"),
                   A("ChangesetID", "changeset", "-", "int"), A("Lat", "lat", "-", "float"), A("Lon", "lon", "-", "float") >>,
    Way    |-> Meta \o << JMode(EM("Nodes", "nd", "nodes", "WayNode"), "ids"), TagsRow, CommittedRow, UpdatesRow, EBoundsRow >>,
    Update |-> << A("Index", "index", "index", "int"), A("Version", "version", "version", "int"),
                  A("Timestamp", "timestamp", "timestamp", "time"), A("ChangesetID", "changeset", "changeset", "int"),
                  A("Lat", "lat", "lat", "float"), A("Lon", "lon", "lon", "float"), A("Reverse", "reverse", "reverse", "bool") >>,
    \* <member type ref role/>; the rest are annotations
    Member |-> << A("Type", "type", "type", "lit"), A("Ref", "ref", "ref", "int"), A("Role", "role", "role", "str"),
                  A("Version", "version", "version", "int"), A("ChangesetID", "changeset", "changeset", "int"),
                  A("Lat", "lat", "lat", "float"), A("Lon", "lon", "lon", "float"),
                  A("Orientation", "orientation", "orientation", "int8"),
                  JMode(EM("Nodes", "nd", "nodes", "WayNode"), "ids") >>,
    Relation |-> Meta \o << TagsRow, EM("Members", "member", "members", "Member"), CommittedRow, UpdatesRow, EBoundsRow >>,
    \* changeset: planet changeset dump / API v0.6 (id user uid created_at closed_at open num_changes min_lat ... comments_count,
    \* <tag/>, <discussion><comment date uid user><text>..).  The API also calls the count changes_count; the dump format's
    \* num_changes is the name this library is written for (see notes/C03.md).
    Changeset |-> << A("ID", "id", "id", "int"), A("User", "user", "user", "str"), A("UserID", "uid", "uid", "int"),
                     A("CreatedAt", "created_at", "created_at", "time"), A("ClosedAt", "closed_at", "closed_at", "time"),
                     A("Open", "open", "open", "bool"), A("ChangesCount", "num_changes", "num_changes", "int"),
                     A("MinLat", "min_lat", "min_lat", "float"), A("MaxLat", "max_lat", "max_lat", "float"),
                     A("MinLon", "min_lon", "min_lon", "float"), A("MaxLon", "max_lon", "max_lon", "float"),
                     A("CommentsCount", "comments_count", "comments_count", "int"), TagsRow,
                     EO("Discussion", "discussion", "discussion", "ChangesetDiscussion"),
                     Row("Change", "-", "change", "none", "opt", "Change") >>,
    ChangesetDiscussion |-> << EM("Comments", "comment", "comments", "ChangesetComment") >>,
    ChangesetComment |-> << A("User", "user", "user", "str"), A("UserID", "uid", "uid", "int"),
                            A("Timestamp", "date", "date", "time"), T1("Text", "text", "text", "str") >>,
    \* notes API: <note lon lat><id/><url/><comment_url/><close_url/><reopen_url/><date_created/><status/><date_closed/>
    \*            <comments><comment><date/><uid/><user/><user_url/><action/><text/><html/></comment></comments></note>
    Note |-> << T1("ID", "id", "id", "int"), A("Lat", "lat", "lat", "float"), A("Lon", "lon", "lon", "float"),
                T1("URL", "url", "url", "str"), T1("CommentURL", "comment_url", "comment_url", "str"),
                T1("CloseURL", "close_url", "close_url", "str"), T1("ReopenURL", "reopen_url", "reopen_url", "str"),
                T1("DateCreated", "date_created", "date_created", "date"), T1("DateClosed", "date_closed", "date_closed", "date"),
                T1("Status", "status", "status", "lit"),
                Wrap(EM("Comments", "comment", "comments", "NoteComment"), "comments") >>,
    NoteComment |-> << T1("Date", "date", "date", "date"), T1("UserID", "uid", "uid", "int"), T1("User", "user", "user", "str"),
                       T1("UserURL", "user_url", "user_url", "str"), T1("Action", "action", "action", "lit"),
                       T1("Text", "text", "text", "str"), T1("HTML", "html", "html", "str") >>,
    \* user details API: <user id display_name account_created><description/><img href/><changesets count/><traces count/>
    \*   <home lat lon zoom/><languages><lang/></languages><blocks><received count active/></blocks>
    \*   <messages><received count unread/><sent count/></messages></user>
    User |-> << A("ID", "id", "id", "int"), A("Name", "display_name", "name", "str"),
                T1("Description", "description", "description", "str"),
                E1("Img", "img", "img", "UserImg"), E1("Changesets", "changesets", "changesets", "UserCount"),
                E1("Traces", "traces", "traces", "UserCount"), E1("Home", "home", "home", "UserHome"),
                Wrap(Row("Languages", "lang", "languages", "text", "many", "str"), "languages"),
                E1("Blocks", "blocks", "blocks", "UserBlocks"), E1("Messages", "messages", "messages", "UserMessages"),
                A("CreatedAt", "account_created", "created_at", "time") >>,
    UserImg |-> << A("Href", "href", "href", "str") >>,
    UserCount |-> CountRows,
    UserHome |-> << A("Lat", "lat", "lat", "float"), A("Lon", "lon", "lon", "float"), A("Zoom", "zoom", "zoom", "int") >>,
    UserBlocks |-> << E1("Received", "received", "received", "UserBlocksReceived") >>,
    UserBlocksReceived |-> CountRows \o << A("Active", "active", "active", "int") >>,
    UserMessages |-> << E1("Received", "received", "received", "UserMessagesReceived"), E1("Sent", "sent", "sent", "UserCount") >>,
    UserMessagesReceived |-> CountRows \o << A("Unread", "unread", "unread", "int") >>,
    \* containers
    OSM |-> HeaderRows \o << EBoundsRow, EM("Nodes", "node", "-", "Node"), EM("Ways", "way", "-", "Way"),
                             EM("Relations", "relation", "-", "Relation"), EM("Changesets", "changeset", "-", "Changeset"),
                             EM("Notes", "note", "-", "Note"), EM("Users", "user", "-", "User") >>,
    \* <osmChange version generator><create/><modify/><delete/>
    Change |-> HeaderRows \o << EO("Create", "create", "create", "OSM"), EO("Modify", "modify", "modify", "OSM"),
                                EO("Delete", "delete", "delete", "OSM") >>,
    \* Overpass augmented diff: <osm><action type="create"> element </action>
    \*                               <action type="modify|delete"><old> element </old><new> element </new></action>
    Diff |-> << EM("Actions", "action", "-", "Action"), EM("Changesets", "changeset", "-", "Changeset") >>,
    Action |-> << A("Type", "type", "-", "lit"), Row("OSM", "", "-", "inline", "opt", "OSM"),
                  EO("Old", "old", "-", "OSM"), EO("New", "new", "-", "OSM") >> ]

TypeNames == DOMAIN Schema
Rows(T) == Schema[T]
RowSet(T) == Range(Rows(T))
GoFields(T) == {r.go : r \in RowSet(T)}
RowOf(T, g) == CHOOSE r \in RowSet(T) : r.go = g
IsScalar(r) == r.type \in ScalarTypes

\* document element names
RootName == [OSM |-> "osm", Change |-> "osmChange", Diff |-> "osm", Node |-> "node", Way |-> "way", Relation |-> "relation",
             Changeset |-> "changeset", Note |-> "note", User |-> "user", Bounds |-> "bounds"]
\* the seven object kinds of a stream, in the order OSM.Objects() is documented to list them is irrelevant here
ObjectKinds == {"Bounds", "Node", "Way", "Relation", "Changeset", "Note", "User"}
\* osmjson "type" of an element
JsonType == [Node |-> "=node", Way |-> "=way", Relation |-> "=relation", Changeset |-> "=changeset", Note |-> "=note", User |-> "=user"]

\* an attribute / element name that no table uses (for the "unknown attributes and elements" clause)
AllXmlNames == UNION {{r.xml : r \in RowSet(T)} \cup {r.wrap : r \in RowSet(T)} : T \in TypeNames} \cup Range(RootName)
AllJsonKeys == UNION {{r.json : r \in RowSet(T)} : T \in TypeNames} \cup {"type", "elements"}
UnknownAttr == "zzattr"
UnknownElem == "zzelem"
UnknownKey  == "zzkey"
ASSUME UnknownAttr \notin AllXmlNames /\ UnknownElem \notin AllXmlNames /\ UnknownKey \notin AllJsonKeys
\* the scanner lower-cases element names: no table may contain two names that differ only by case (none do: all are lower
\* case except osmChange, which is a root)

(* ------------------------------------------------------------------------ *)
(* Values                                                                    *)
(* ------------------------------------------------------------------------ *)
TimeSyms == {"t0", "t1", "t2", "t3", "t4", "t5"}
ZeroLeaf(type) == CASE type \in {"str", "lit"} -> "s0" [] type \in {"int", "int8"} -> "i0" [] type = "float" -> "f0"
                    [] type = "bool" -> "b0" [] type \in {"time", "date"} -> "t0"

Map(s, Op(_)) == [i \in 1 .. Len(s) |-> Op(s[i])]
Cat(ss) == FlattenSeq(ss)
Present(pv, g) == g \in DOMAIN pv

RECURSIVE Fill(_, _)
FillField(r, x) ==
  IF IsScalar(r) THEN x
  ELSE IF r.card = "one" THEN Fill(r.type, x)
  ELSE [i \in 1 .. Len(x) |-> Fill(r.type, x[i])]
ZeroField(r) ==
  IF r.card # "one" THEN << >>
  ELSE IF IsScalar(r) THEN ZeroLeaf(r.type)
  ELSE Fill(r.type, << >>)          \* << >> = the record without fields
Fill(T, pv) == [g \in GoFields(T) |-> IF Present(pv, g) THEN FillField(RowOf(T, g), pv[g]) ELSE ZeroField(RowOf(T, g))]

(* ------------------------------------------------------------------------ *)
(* XML trees                                                                 *)
(* ------------------------------------------------------------------------ *)
XLeaf(r, leaf) == IF r.type = "date" THEN "D:" \o leaf ELSE leaf
UnXLeaf(r, l) == IF r.type = "date" THEN (IF \E x \in TimeSyms : "D:" \o x = l THEN CHOOSE x \in TimeSyms : "D:" \o x = l ELSE "?") ELSE l
El(n, a, c) == [n |-> n, a |-> a, c |-> c, t |-> << >>]
TextEl(n, leaf) == [n |-> n, a |-> << >>, c |-> << >>, t |-> <<leaf>>]
AsSeq(r, x) == IF r.card = "one" THEN <<x>> ELSE x
Wrapped(r, kids) == IF r.wrap = "" \/ kids = << >> THEN kids ELSE << El(r.wrap, << >>, kids) >>

RECURSIVE Children(_, _)
ElemTree(name, T, pv) ==
  LET ar == SelectSeq(Rows(T), LAMBDA r : r.mode = "attr" /\ Present(pv, r.go) /\ (r.card = "one" \/ pv[r.go] # << >>))
  IN El(name, [i \in 1 .. Len(ar) |-> <<ar[i].xml, XLeaf(ar[i], IF ar[i].card = "one" THEN pv[ar[i].go] ELSE pv[ar[i].go][1])>>],
        Children(T, pv))
ChildrenOf(r, x) ==
  CASE r.mode = "elem"   -> Wrapped(r, LET s == AsSeq(r, x) IN [i \in 1 .. Len(s) |-> ElemTree(r.xml, r.type, s[i])])
    [] r.mode = "text"   -> Wrapped(r, LET s == AsSeq(r, x) IN [i \in 1 .. Len(s) |-> TextEl(r.xml, XLeaf(r, s[i]))])
    [] r.mode = "inline" -> IF x = << >> THEN << >> ELSE Children(r.type, x[1])
    [] OTHER -> << >>
Children(T, pv) ==
  LET cr == SelectSeq(Rows(T), LAMBDA r : r.mode \in {"elem", "text", "inline"} /\ Present(pv, r.go))
  IN Cat([i \in 1 .. Len(cr) |-> ChildrenOf(cr[i], pv[cr[i].go])])

\* the canonical tree of a (partial) value of a root type
XmlTree(T, pv) == ElemTree(RootName[T], T, pv)

(* ---- meaning of a tree under the schema ---- *)
AttrVal(tree, name) ==        \* value of the first attribute with that name, << >> if absent
  LET s == SelectSeq(tree.a, LAMBDA p : p[1] = name) IN IF s = << >> THEN << >> ELSE <<s[1][2]>>
Kids(tree, name) == SelectSeq(tree.c, LAMBDA k : k.n = name)
RECURSIVE Decode(_, _)
RECURSIVE DecodeKids(_, _)
\* the children list `kids` interpreted as the child rows of type T (used for elements and for inlined structs)
DecodeRow(r, kids) ==
  LET under == IF r.wrap = "" THEN kids ELSE Cat(Map(SelectSeq(kids, LAMBDA k : k.n = r.wrap), LAMBDA w : w.c))
      mine  == SelectSeq(under, LAMBDA k : k.n = r.xml)
      val(k) == IF r.mode = "text" THEN (IF k.t = << >> THEN ZeroLeaf(r.type) ELSE UnXLeaf(r, k.t[1])) ELSE Decode(r.type, k)
      \* a repeated single-valued element: a text element is overwritten (last wins); a struct element is decoded
      \* again into the same struct, i.e. later attributes win and children accumulate in document order
      merged == IF r.mode = "text" THEN mine[Len(mine)]
                ELSE El(r.xml, Cat([i \in 1 .. Len(mine) |-> mine[Len(mine) + 1 - i].a]), Cat([i \in 1 .. Len(mine) |-> mine[i].c]))
  IN IF r.card = "many" THEN [i \in 1 .. Len(mine) |-> val(mine[i])]
     ELSE IF mine = << >> THEN ZeroField(r)
     ELSE IF r.card = "opt" THEN << val(merged) >> ELSE val(merged)
DecodeKids(T, tree) ==
  [g \in {r.go : r \in {q \in RowSet(T) : q.mode # "attr"}} |->
     LET r == RowOf(T, g) IN
     CASE r.mode \in {"elem", "text"} -> DecodeRow(r, tree.c)
       [] r.mode = "inline" ->
            \* present iff one of the inlined type's child elements occurs
            (IF \E q \in RowSet(r.type) : q.mode \in {"elem", "text"} /\ Kids(tree, q.xml) # << >>
             THEN << Decode(r.type, El(tree.n, << >>, tree.c)) >> ELSE << >>)
       [] OTHER -> ZeroField(r)]
Decode(T, tree) ==
  [g \in GoFields(T) |->
     LET r == RowOf(T, g) IN
     IF r.mode = "attr"
     THEN (LET v == AttrVal(tree, r.xml) IN
           IF r.card = "one" THEN (IF v = << >> THEN ZeroLeaf(r.type) ELSE UnXLeaf(r, v[1])) ELSE v)
     ELSE DecodeKids(T, tree)[g]]

(* ---- names ---- *)
RECURSIVE ChildRows(_)
ChildRows(T) == {r \in RowSet(T) : r.mode \in {"elem", "text"}} \cup
                UNION {ChildRows(r.type) : r \in {q \in RowSet(T) : q.mode = "inline"}}
AttrNames(T) == {r.xml : r \in {q \in RowSet(T) : q.mode = "attr"}}
RECURSIVE NamesOKElem(_, _)
NamesOKAs(r, k) ==       \* child element k, already known to carry row r's element name
  IF r.mode = "text" THEN k.a = << >> /\ k.c = << >> ELSE NamesOKElem(r.type, k)
NamesOKElem(T, tree) ==
  /\ \A i \in 1 .. Len(tree.a) : tree.a[i][1] \in AttrNames(T)
  /\ \A i \in 1 .. Len(tree.c) :
       LET k == tree.c[i] IN
       \E r \in ChildRows(T) :
          IF r.wrap = "" THEN k.n = r.xml /\ NamesOKAs(r, k)
          ELSE k.n = r.wrap /\ k.a = << >> /\ \A j \in 1 .. Len(k.c) : k.c[j].n = r.xml /\ NamesOKAs(r, k.c[j])
NamesOK(T, tree) == tree.n = RootName[T] /\ NamesOKElem(T, tree)
\* the names in `tree` that are not the schema's (diagnostics and known-finding predicates)
RECURSIVE ElementNames(_)
ElementNames(tree) == {tree.n} \cup UNION {ElementNames(tree.c[i]) : i \in 1 .. Len(tree.c)}

(* ------------------------------------------------------------------------ *)
(* Abstract documents (C03) and Go-shaped container values (C04)             *)
(* ------------------------------------------------------------------------ *)
\* object  : [T |-> kind, f |-> partial value]
\* osm doc : [T |-> "OSM", hdr |-> partial header, items |-> Seq(object)]
\* change  : [T |-> "Change", hdr |-> .., blocks |-> Seq([a |-> "Create"|"Modify"|"Delete", items |-> Seq(object)])]
\* diff    : [T |-> "Diff", actions |-> Seq([type |-> leaf, bare |-> Seq(object), old |-> <<>>|<<Seq(object)>>, new |-> same]),
\*            changesets |-> Seq(object)]
ItemRow(T, kind) == CHOOSE r \in RowSet(T) : r.mode = "elem" /\ r.type = kind
ItemTree(o) == ElemTree(ItemRow("OSM", o.T).xml, o.T, o.f)
HdrAttrs(T, hdr) == ElemTree("", T, hdr).a
BlockTree(name, items) == El(name, << >>, Map(items, ItemTree))
ActionTree(a) ==
  El(ItemRow("Diff", "Action").xml, << <<RowOf("Action", "Type").xml, a.type>> >>,
     Map(a.bare, ItemTree)
     \o (IF a.old = << >> THEN << >> ELSE << BlockTree(RowOf("Action", "Old").xml, a.old[1]) >>)
     \o (IF a.new = << >> THEN << >> ELSE << BlockTree(RowOf("Action", "New").xml, a.new[1]) >>))
DocTree(d) ==
  CASE d.T = "OSM"    -> El(RootName["OSM"], HdrAttrs("OSM", d.hdr), Map(d.items, ItemTree))
    [] d.T = "Change" -> El(RootName["Change"], HdrAttrs("Change", d.hdr),
                            [i \in 1 .. Len(d.blocks) |-> BlockTree(RowOf("Change", d.blocks[i].a).xml, d.blocks[i].items)])
    [] d.T = "Diff"   -> El(RootName["Diff"], << >>,
                            Map(d.actions, ActionTree)
                            \o [i \in 1 .. Len(d.changesets) |-> ElemTree(ItemRow("Diff", "Changeset").xml, "Changeset", d.changesets[i].f)])

OfKind(items, kind) == SelectSeq(items, LAMBDA o : o.T = kind)
FillObj(o) == [T |-> o.T, f |-> Fill(o.T, o.f)]
\* whole-document decode of an <osm>-like element with header `hdr` and object children `items`
WholeOSM(hdr, items) ==
  [g \in GoFields("OSM") |->
     LET r == RowOf("OSM", g) IN
     IF r.mode = "attr" THEN (IF Present(hdr, g) THEN hdr[g] ELSE ZeroLeaf(r.type))
     ELSE LET s == OfKind(items, r.type) IN
          IF r.card = "many" THEN [i \in 1 .. Len(s) |-> Fill(r.type, s[i].f)]
          ELSE IF s = << >> THEN << >> ELSE << Fill(r.type, s[Len(s)].f) >>]
BlockItems(d, a) == Cat([i \in 1 .. Len(d.blocks) |-> IF d.blocks[i].a = a THEN d.blocks[i].items ELSE << >>])
HasBlock(d, a) == \E i \in 1 .. Len(d.blocks) : d.blocks[i].a = a
WholeAction(a) ==
  [Type |-> a.type,
   OSM  |-> IF a.bare = << >> THEN << >> ELSE << WholeOSM(<< >>, a.bare) >>,
   Old  |-> IF a.old = << >> THEN << >> ELSE << WholeOSM(<< >>, a.old[1]) >>,
   New  |-> IF a.new = << >> THEN << >> ELSE << WholeOSM(<< >>, a.new[1]) >>]
ExpectedWhole(d) ==
  CASE d.T = "OSM" -> WholeOSM(d.hdr, d.items)
    [] d.T = "Change" ->
         [g \in GoFields("Change") |->
            LET r == RowOf("Change", g) IN
            IF r.mode = "attr" THEN (IF Present(d.hdr, g) THEN d.hdr[g] ELSE ZeroLeaf(r.type))
            ELSE IF HasBlock(d, g) THEN << WholeOSM(<< >>, BlockItems(d, g)) >> ELSE << >>]
    [] d.T = "Diff" -> [Actions |-> Map(d.actions, WholeAction),
                        Changesets |-> [i \in 1 .. Len(d.changesets) |-> Fill("Changeset", d.changesets[i].f)]]
\* document-order sequence of the objects of the seven kinds
ActionItems(a) == a.bare \o (IF a.old = << >> THEN << >> ELSE a.old[1]) \o (IF a.new = << >> THEN << >> ELSE a.new[1])
DocItems(d) ==
  CASE d.T = "OSM" -> d.items
    [] d.T = "Change" -> Cat([i \in 1 .. Len(d.blocks) |-> d.blocks[i].items])
    [] d.T = "Diff" -> Cat(Map(d.actions, ActionItems)) \o d.changesets
ExpectedStream(d) == Map(DocItems(d), FillObj)

\* objects held by a *filled* Go-shaped value of a root type, per kind, in traversal order
OSMKind(o, kind) == o[ItemRow("OSM", kind).go]      \* Bounds: a 0/1 sequence
OptKind(x, kind) == IF x = << >> THEN << >> ELSE OSMKind(x[1], kind)
ValueKind(T, v, kind) ==
  CASE T = "OSM" -> OSMKind(v, kind)
    [] T = "Change" -> OptKind(v.Create, kind) \o OptKind(v.Modify, kind) \o OptKind(v.Delete, kind)
    [] T = "Diff" -> Cat([i \in 1 .. Len(v.Actions) |->
                            OptKind(v.Actions[i].OSM, kind) \o OptKind(v.Actions[i].Old, kind) \o OptKind(v.Actions[i].New, kind)])
                     \o (IF kind = "Changeset" THEN v.Changesets ELSE << >>)
    [] OTHER -> IF T = kind THEN <<v>> ELSE << >>
StreamKind(stream, kind) == LET s == OfKind(stream, kind) IN [i \in 1 .. Len(s) |-> s[i].f]

(* ------------------------------------------------------------------------ *)
(* osmjson (C05)                                                             *)
(* ------------------------------------------------------------------------ *)
JObj(kv) == [j |-> "obj", kv |-> kv]
JArr(e) == [j |-> "arr", e |-> e]
JLeafKind(type) == CASE type \in {"str", "lit", "time", "date"} -> "str" [] type \in {"int", "int8", "float"} -> "num" [] type = "bool" -> "bool"
JLit(type, leaf) == [j |-> JLeafKind(type), v |-> leaf]
K(name) == "=" \o name                 \* JSON keys are leaves too: a schema key is a literal, a tag key a symbol
JGet(t, name) == LET s == SelectSeq(t.kv, LAMBDA p : p[1] = K(name)) IN IF s = << >> THEN << >> ELSE <<s[1][2]>>
JHas(t, key) == JGet(t, key) # << >>

RECURSIVE JsonOf(_, _)
RECURSIVE JsonOSM(_)
JsonField(r, x) ==
  CASE r.jmode = "tags" -> [j |-> "map", kv |-> ([i \in 1 .. Len(x) |-> <<Fill("Tag", x[i]).Key, JLit("str", Fill("Tag", x[i]).Value)>>])]     \* "map": every member is data (no unknown keys can be added)
    [] r.jmode = "ids"  -> JArr([i \in 1 .. Len(x) |-> JLit("int", IF Present(x[i], "ID") THEN x[i].ID ELSE "i0")])
    [] IsScalar(r) -> (IF r.card = "one" THEN JLit(r.type, x) ELSE IF r.card = "opt" THEN JLit(r.type, x[1]) ELSE JArr([i \in 1 .. Len(x) |-> JLit(r.type, x[i])]))
    [] r.card = "one"  -> JsonOf(r.type, x)
    [] r.card = "opt"  -> JsonOf(r.type, x[1])
    [] OTHER -> JArr([i \in 1 .. Len(x) |-> JsonOf(r.type, x[i])])
\* the JSON object an independent writer produces for a partial value: exactly the present fields (an absent optional => no key)
\* an OSM value nested in another JSON value (Changeset.Change.Create ...): header keys + elements, kinds in table order
JsonOSM(pv) ==
  LET hr == SelectSeq(Rows("OSM"), LAMBDA r : r.mode = "attr" /\ Present(pv, r.go))
      er == SelectSeq(Rows("OSM"), LAMBDA r : r.mode = "elem" /\ r.card = "many" /\ Present(pv, r.go))
  IN JObj([i \in 1 .. Len(hr) |-> <<K(hr[i].json), JLit("str", pv[hr[i].go])>>]
          \o << <<K("elements"), JArr(Cat([i \in 1 .. Len(er) |-> [j \in 1 .. Len(pv[er[i].go]) |-> JsonOf(er[i].type, pv[er[i].go][j])]]))>> >>)
JsonOf(T, pv) ==
  IF T = "OSM" THEN JsonOSM(pv) ELSE
  LET jr == SelectSeq(Rows(T), LAMBDA r : r.jmode # "none" /\ Present(pv, r.go) /\ (r.card # "opt" \/ pv[r.go] # << >>))
  IN JObj((IF T \in DOMAIN JsonType THEN << <<K("type"), [j |-> "str", v |-> JsonType[T]]>> >> ELSE << >>)
          \o [i \in 1 .. Len(jr) |-> <<K(jr[i].json), JsonField(jr[i], pv[jr[i].go])>>])
\* an osmjson document: header keys + elements in the given order.  ver = << >> (no version key) or <<tree>> (number or string)
JsonDoc(ver, hdr, items) ==
  JObj((IF ver = << >> THEN << >> ELSE << <<K("version"), ver[1]>> >>)
       \o LET hr == SelectSeq(Rows("OSM"), LAMBDA r : r.mode = "attr" /\ r.go # "Version" /\ Present(hdr, r.go))
          IN [i \in 1 .. Len(hr) |-> <<K(hr[i].json), JLit("str", hdr[hr[i].go])>>]
       \o << <<K("elements"), JArr([i \in 1 .. Len(items) |-> JsonOf(items[i].T, items[i].f)])>> >>)

\* --- what osmjson cannot carry: per-way-node annotations (everything of a WayNode but its id)
RECURSIVE Strip(_, _)
Strip(T, v) ==
  [g \in DOMAIN v |->
     LET r == RowOf(T, g) IN
     IF r.jmode = "ids" THEN [i \in 1 .. Len(v[g]) |-> Fill("WayNode", [ID |-> v[g][i].ID])]
     ELSE IF IsScalar(r) THEN v[g]
     ELSE IF r.card = "one" THEN Strip(r.type, v[g])
     ELSE [i \in 1 .. Len(v[g]) |-> Strip(r.type, v[g][i])]]
\* --- equality up to tag order: tag lists become sets
RECURSIVE TagSets(_, _)
TagSets(T, v) ==
  [g \in DOMAIN v |->
     LET r == RowOf(T, g) IN
     IF r.jmode = "tags" THEN Range(v[g])
     ELSE IF IsScalar(r) THEN v[g]
     ELSE IF r.card = "one" THEN TagSets(r.type, v[g])
     ELSE [i \in 1 .. Len(v[g]) |-> TagSets(r.type, v[g][i])]]
EqUpToTags(T, a, b) == TagSets(T, a) = TagSets(T, b)

\* --- the shape the property lists, on a parsed JSON text `t` produced for the filled OSM value `v`:
\* an elements array of objects each carrying its type; tags a JSON object; way nodes an array of ids; members a non-null array
ElemShapeOK(e) ==
  /\ e.j = "obj"
  /\ JHas(e, "type") /\ JGet(e, "type")[1].j = "str" /\ JGet(e, "type")[1].v \in Range(JsonType)
  /\ JHas(e, "tags") => (LET g == JGet(e, "tags")[1] IN g.j = "obj" /\ \A i \in 1 .. Len(g.kv) : g.kv[i][2].j = "str")
  /\ JGet(e, "type")[1].v = JsonType["Way"] =>
        (JHas(e, "nodes") /\ LET g == JGet(e, "nodes")[1] IN g.j = "arr" /\ \A i \in 1 .. Len(g.e) : g.e[i].j = "num")
  /\ JGet(e, "type")[1].v = JsonType["Relation"] => (JHas(e, "members") /\ JGet(e, "members")[1].j = "arr")
JShapeOK(t) ==
  /\ t.j = "obj" /\ JHas(t, "elements") /\ JGet(t, "elements")[1].j = "arr"
  /\ \A i \in 1 .. Len(JGet(t, "elements")[1].e) : ElemShapeOK(JGet(t, "elements")[1].e[i])
\* and it is the shape *of v*: one element per object, same type, same tag set, same node ids, same member count
JElemOf(e, T, f) ==
  /\ JGet(e, "type")[1].v = JsonType[T]
  /\ "Tags" \in DOMAIN f =>
        (LET g == IF JHas(e, "tags") THEN JGet(e, "tags")[1].kv ELSE << >>
         IN {<<g[i][1], g[i][2].v>> : i \in 1 .. Len(g)} = {<<f.Tags[i].Key, f.Tags[i].Value>> : i \in 1 .. Len(f.Tags)})
  /\ T = "Way" => (LET g == JGet(e, "nodes")[1].e IN [i \in 1 .. Len(g) |-> g[i].v] = [i \in 1 .. Len(f.Nodes) |-> f.Nodes[i].ID])
  /\ T = "Relation" => Len(JGet(e, "members")[1].e) = Len(f.Members)
ElemsOf(t) == JGet(t, "elements")[1].e
TypedAs(es, T) == SelectSeq(es, LAMBDA e : e.j = "obj" /\ JHas(e, "type") /\ JGet(e, "type")[1].v = JsonType[T])
\* shape of the JSON text of a filled OSM value o
OSMShapeOK(t, o) ==
  /\ JShapeOK(t)
  /\ \A T \in DOMAIN JsonType :
       LET es == TypedAs(ElemsOf(t), T)
           vs == OSMKind(o, T)
       IN Len(es) = Len(vs) /\ \A i \in 1 .. Len(es) : JElemOf(es[i], T, vs[i])
  /\ Len(ElemsOf(t)) = Len(OSMKind(o, "Node")) + Len(OSMKind(o, "Way")) + Len(OSMKind(o, "Relation"))
                       + Len(OSMKind(o, "Changeset")) + Len(OSMKind(o, "Note")) + Len(OSMKind(o, "User"))
ShapeOK(T, t, F) ==
  CASE T = "OSM" -> OSMShapeOK(t, F)
    [] T = "Change" -> /\ t.j = "obj"
                       /\ \A a \in {"Create", "Modify", "Delete"} :
                            F[a] # << >> => (JHas(t, RowOf("Change", a).json) /\ OSMShapeOK(JGet(t, RowOf("Change", a).json)[1], F[a][1]))
    [] T \in DOMAIN JsonType -> ElemShapeOK(t) /\ JElemOf(t, T, F)
    [] OTHER -> TRUE
=============================================================================
