--------------------------- MODULE ChildFirstTrace ---------------------------
(* C -> S for C14: call/return histories recorded from the real                *)
(* annotate.ChildFirstOrdering (harness/cmd/c14 -trace) are validated against   *)
(* the Model of ChildFirst.tla.                                                 *)
(*                                                                              *)
(* Only API calls and returns are logged (there are no hooks in the library):   *)
(*   cfg {hist, req, bad}      start of a recorded run                          *)
(*   n.call / n.ret {ok, id}   Next                                             *)
(*   e.call / e.ret {class}    Err                                              *)
(*   c.call / c.ret            Close                                            *)
(*   x.call / x.ret            cancel() of the caller's context (own goroutine) *)
(*   obs {gone}                after the consumer saw the end / closed and the  *)
(*                             canceller returned: is the goroutine gone?       *)
(*   end {gone, completed}     after the final Close                            *)
(*   hang {at}                 a call did not return within the deadline        *)
(* A logged call is the Model's call action, a logged return is the Model's     *)
(* return action with the logged result; everything in between (all producer    *)
(* steps, the rendezvous, the reads inside Next / Err, the cancellation itself) *)
(* is an unlogged internal step that TLC chooses: the history is accepted iff   *)
(* some interleaving of the Model's actions explains it.  All Judge invariants  *)
(* are checked in every state on the way.                                       *)
EXTENDS ChildFirst, Json, IOUtils, TLCExt

TraceLog == ndJsonDeserialize(IOEnv.TRACE)

VARIABLES l,      \* next line of the log
          leak,   \* an observation said the goroutine was still there
          hung    \* a call did not return
tvars == << vars, l, leak, hung >>

Ev == TraceLog[l]
IsEvent(e) == l <= Len(TraceLog) /\ Ev.e = e /\ l' = l + 1
SeqToSet(s) == {s[i] : i \in 1 .. Len(s)}

TraceInit == Init /\ l = 1 /\ leak = FALSE /\ hung = FALSE

TraceReset ==
  /\ IsEvent("cfg")
  /\ gpc' = "run" /\ hist' = Ev.hist /\ req' = Ev.req /\ bad' = SeqToSet(Ev.bad)
  /\ expect' = RunSt(Ev.hist, SeqToSet(Ev.bad), Ev.req)
  /\ flags' = [close |-> 99, cancel |-> TRUE, err |-> 99, senddone |-> TRUE]
  /\ xpc' = "off"
  /\ ppc' = "top" /\ ri' = 1 /\ stack' = << >> /\ visited' = {} /\ perr' = "nil" /\ completed' = 0
  /\ outClosed' = FALSE /\ cancelled' = FALSE
  /\ cpc' = "idle" /\ res' = "none" /\ cur' = 0 /\ eres' = "none" /\ emitted' = << >>
  /\ lastNext' = "none" /\ lastErr' = "none" /\ closes' = 0 /\ errs' = 0 /\ extra' = 0 /\ stopBefore' = FALSE
  /\ leak' = FALSE /\ hung' = FALSE

Internal == PNext \/ Rendezvous \/ X_Cancel \/ C_Pre \/ C_RecvClosed \/ C_RecvDone \/ C_CloseCancel \/ C_ErrRead1 \/ C_ErrRead2

Logged ==
  \/ IsEvent("n.call") /\ C_NextCall
  \/ IsEvent("n.ret")  /\ C_NextRet /\ res = Ev.ok /\ (Ev.ok = "true" => cur = Ev.id)
  \/ IsEvent("e.call") /\ C_ErrCall
  \/ IsEvent("e.ret")  /\ C_ErrRet /\ eres = Ev.class
  \/ IsEvent("c.call") /\ C_CloseCall
  \/ IsEvent("c.ret")  /\ C_CloseRet
  \/ IsEvent("x.call") /\ X_Call
  \/ IsEvent("x.ret")  /\ xpc = "done" /\ UNCHANGED vars

\* observations: a goroutine that is gone has run its deferred calls (ppc = "done"); one that is still
\* there at these points (the iteration was seen to end, was closed or cancelled) is a leak - Judge NoLeak
Observed ==
  \/ IsEvent("obs") /\ (Ev.gone => ppc = "done") /\ leak' = (leak \/ ~Ev.gone) /\ UNCHANGED << vars, hung >>
  \/ IsEvent("end") /\ (Ev.gone => (ppc = "done" /\ (perr = "canceled" \/ completed = Ev.completed)))
                    /\ leak' = (leak \/ ~Ev.gone) /\ UNCHANGED << vars, hung >>
  \/ IsEvent("hang") /\ hung' = TRUE /\ UNCHANGED << vars, leak >>

TraceNext ==
  \/ TraceReset
  \/ Logged /\ UNCHANGED << leak, hung >>
  \/ Observed
  \/ gpc = "run" /\ Internal /\ UNCHANGED << l, leak, hung >>

TraceSpec == TraceInit /\ [][TraceNext]_tvars

NoLeak == ~leak     \* "Close or context cancellation ... ends ... its goroutine"
NoHang == ~hung     \* "... without deadlock"

\* acceptance: every line was consumed by some behaviour
HighWater == TLCSet(1, IF TLCGet(1) < l THEN l ELSE TLCGet(1))
TraceAccepted == /\ PrintT(<<"HIGHWATER", TLCGet(1), Len(TraceLog)>>)
                 /\ TLCGet(1) = Len(TraceLog) + 1
ASSUME TLCSet(1, 0)
=============================================================================
