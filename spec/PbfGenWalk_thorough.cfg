CONSTANT Tier = "thorough"
CONSTANT Configs = {}
INIT JInitG
NEXT JNextG
CHECK_DEADLOCK FALSE
