\* every graph on 4 ids with <= 1 relation member per relation x every request list of length <= 2
CONSTANTS
  N = 4
  MaxMem = 1
  MaxReq = 2
  Family = "flat"
  FlagFamily = "plain"
  WithBad = FALSE
  CanonicalReqs = FALSE
  VersionSets <- MCVersions
  ReqLists <- MCReqs
  BadSets <- MCBad
  FlagSets <- MCFlags
  Slice = 0
  Slices = 1
  Sample = 0
INIT Init
NEXT GNext
CHECK_DEADLOCK FALSE
