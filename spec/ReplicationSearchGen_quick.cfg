\* same families as ReplicationSearch_mc_quick.cfg: every generated case has been model-checked
CONSTANTS
  MaxSeq = 8
  Offsets = {998, 99997, 999997, 2007989}
  OffN = 4
  LongOffsets = {0}
  LongSizes = {40, 300}
  LongRuns <- RunsQuick
  FullQueries = 13
  PauseSizes = {300}
  DevSets <- OnlyFixed
  Seed = 1
  AllKinds = FALSE
  OnlyKinds = {"minute", "hour", "day", "changesets"}
INIT GInit
NEXT GNext
CHECK_DEADLOCK FALSE
