\* sub-families of ReplicationSearch_mc_thorough.cfg (dense range 10 of 12): every generated case has been model-checked
CONSTANTS
  MaxSeq = 10
  Offsets = {7, 998, 99997, 999997, 2007989, 6099990}
  OffN = 6
  LongOffsets = {0, 1, 999997}
  LongSizes = {40, 300, 1000}
  LongRuns <- RunsThorough
  FullQueries = 13
  PauseSizes = {300, 1000, 2000}
  DevSets <- OnlyFixed
  Seed = 1
  AllKinds = TRUE
  OnlyKinds = {"minute", "hour", "day", "changesets"}
INIT GInit
NEXT GNext
CHECK_DEADLOCK FALSE
