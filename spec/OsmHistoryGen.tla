--------------------------- MODULE OsmHistoryGen ---------------------------
(* Case generation: TLC runs the history machine breadth-first and prints     *)
(* every reachable history that has a parent version (one CASE line each),    *)
(* and once the option records the histories are to be annotated under.       *)
(* SampleMod > 1 prints each history with probability 1/SampleMod.            *)
EXTENDS OsmHistory, AnnotateSets, Json

CONSTANTS GenOpts, SampleMod

ASSUME PrintT(<<"OPTS", ToJson(GenOpts)>>)

Selected == SampleMod = 1 \/ RandomElement(1 .. SampleMod) = 1
GenInv == (h.par # <<>> /\ Selected) => PrintT(<<"CASE", ToJson(h)>>)
=============================================================================
