CONSTANT Configs = {}
INIT JInit
NEXT JNext
CHECK_DEADLOCK FALSE
