------------------------ MODULE AnnotateChangeJudge ------------------------
(* Judge for C13.  Every recorded line is [case |-> c, got |-> observation]. *)
(*   BAD : the observation violates the property (JudgeOK)                  *)
(*   DIV : the property holds but the observation differs from what the     *)
(*         Model computes (Expected) - a divergence, not a violation        *)
EXTENDS AnnotateChange, IOUtils
Lines == ndJsonDeserialize(IOEnv.REC)

\* known findings: none on the pinned tree
KF(c, g) == {}

DivWhy(c, g) ==
  LET e == Expected(c) IN
  IF e.err # g.err \/ e.ek # g.ek \/ e.eid # g.eid THEN <<"DIVERGENCE", "model result", e.err, e.ek, e.eid, "got", g.err, g.ek, g.eid>>
  ELSE IF e.nodiff # g.nodiff THEN <<"DIVERGENCE", "diff returned together with an error">>
  ELSE <<"DIVERGENCE", "actions differ from the model's at",
         {j \in 1 .. Len(e.actions) : j > Len(g.actions) \/ e.actions[j] # g.actions[j]}>>

ASSUME \A i \in 1 .. Len(Lines) :
   LET c == Lines[i].case  g == Lines[i].got IN
   IF ~JudgeOK(c, g) THEN PrintT(<<"BAD", ToJson([i |-> i, why |-> Why(c, g), kf |-> KF(c, g)])>>)
   ELSE IF g # Expected(c) THEN PrintT(<<"BAD", ToJson([i |-> i, why |-> DivWhy(c, g), kf |-> {}])>>)
   ELSE TRUE
ASSUME PrintT(<<"JUDGED", Len(Lines)>>)
JInit == phase = "judge" /\ inp = 0 /\ pos = 0 /\ acts = 0 /\ res = 0
JNext == UNCHANGED vars
=============================================================================
