\* design level, location symbols: ways with <= 2 nodes (also one not annotated), relations with <= 2 members,
\* every stored list of <= 2 updates, every location symbol out of ordinary / origin (0,0) / only lat 0 on every
\* child and every update, every t1 <= t2
CONSTANTS
  MaxN = 2
  MaxL = 2
  MaxT = 2
  Kinds = {"way", "relation"}
  UnannChoices = {0, 1}
  LocKinds = {"n", "o", "la"}
  BreakAtLate = FALSE
SPECIFICATION Spec
INVARIANTS Exact1 Exact2 Pending1 Pending2 IndexErr1 IndexErr2 Compose GeomAt1 GeomAt2 FoldsAgree KFExact
CHECK_DEADLOCK FALSE
