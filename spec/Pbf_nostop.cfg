CONSTANT Configs <- CfgsNoStop
INIT Init
NEXT Next
VIEW View
INVARIANTS TypeOK OrderInv CompleteInv OffsetInv ErrPrecedenceInv
PROPERTIES DeliverStep OffsetStep
CHECK_DEADLOCK FALSE
