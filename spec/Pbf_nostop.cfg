CONSTANT Configs <- CfgsNoStop
INIT Init
NEXT Next
VIEW View
INVARIANTS TypeOK OrderInv CompleteInv OffsetInv ErrPrecedenceInv
CHECK_DEADLOCK FALSE
