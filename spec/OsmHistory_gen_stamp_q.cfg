CONSTANTS
  NK = 1
  MaxV <- V3
  MaxP = 2
  MaxT = 4
  MaxDt = 2
  CsSet = {1, 2}
  ParentCsFree = FALSE
  RefLists <- RefsSingle
  SameTimeParents = FALSE
  RefsMustExist = TRUE
  GenOpts <- OptsStamp012
  SampleMod = 1
INIT HInit
NEXT HNext
INVARIANTS HistoryOK GenInv
CHECK_DEADLOCK FALSE
