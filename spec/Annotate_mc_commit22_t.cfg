CONSTANTS
  NK = 2
  MaxV <- V22
  MaxP = 2
  MaxT = 4
  MaxDt = 1
  CsSet = {1}
  ParentCsFree = TRUE
  RefLists <- RefsSmall
  SameTimeParents = TRUE
  RefsMustExist = TRUE
  OptSet <- OptsCommit
  PinnedSort = FALSE
INIT Init
NEXT Next
INVARIANTS TypeOK JudgesHold SortedInv Deterministic PartialInv
CHECK_DEADLOCK FALSE
