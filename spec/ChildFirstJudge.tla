--------------------------- MODULE ChildFirstJudge ---------------------------
(* Judge for C14 on records of harness/cmd/c14:                               *)
(*   [case |-> [hist, req, bad, plans], got |-> <<plan result, ...>>]         *)
(* A failing record prints BAD with why = <<"JUDGE", plan index, reasons>>    *)
(* when the property as stated fails, or <<"DIV", plan index, reasons>> when   *)
(* only the Model (ChildFirst!RunSt, the walk as a function) disagrees.        *)
EXTENDS ChildFirst, IOUtils, Json

Lines == ndJsonDeserialize(IOEnv.REC)

IsStop(r) == r.stop \in {"close", "cancel"}
\* stop = "trace": the observable projection of a recorded concurrent run (props/c14.py project()): the emitted ids,
\* whether the goroutine was gone once the end had been seen / Close or cancel had returned, and after the final Close
EndSeen(r) == IsStop(r) \/ r.stop = "trace"

\* --- the property, on one run r of case c (adj = Adj(c.hist), acyc = AcyclicA(adj) are evaluated once per record;
\*     J_ChildrenFirstD is J_ChildrenFirst in the form that stays cheap on deep graphs - ChildFirstLemmas.tla)
JudgeReasons(c, r, adj, acyc) ==
  LET h == c.hist IN
  IF r.out = "skipped" THEN {}
  ELSE IF r.out = "hang" THEN {"Deadlock"}            \* a Next / Close / cancel call did not return
  ELSE IF r.out = "runaway" THEN {"Terminates"}       \* the iteration went on far beyond the number of relations
  ELSE
    (IF J_EmittedOnce(r.ids) THEN {} ELSE {"EmittedOnce"})
    \cup (IF J_OnlyWithHistory(h, r.ids) THEN {} ELSE {"OnlyWithHistory"})
    \cup (IF J_ChildrenFirstD(h, adj, acyc, r.ids) THEN {} ELSE {"ChildrenFirst"})
    \* an undisturbed iteration that did not end in a datasource failure emits every requested relation with history
    \cup (IF r.stop = "none" /\ r.err # "dserr" /\ ~J_AllRequestedEmitted(h, c.req, r.ids) THEN {"AllRequestedEmitted"} ELSE {})
    \* Close / cancel end the iteration: the next Next is false
    \cup (IF IsStop(r) /\ r.after # "false" THEN {"StopEndsIteration"} ELSE {})
    \* ... and the goroutine: gone after Close returned / after cancel alone; every Close returned
    \cup (IF EndSeen(r) /\ ~r.gone THEN {"StopEndsGoroutine"} ELSE {})
    \cup (IF ~r.cret THEN {"CloseReturns"} ELSE {})
    \cup (IF ~r.gend THEN {"CloseEndsGoroutine"} ELSE {})

\* --- agreement with the Model beyond the property (DIVERGENCE, never a violation)
Prefix(s, n) == SubSeq(s, 1, IF n < Len(s) THEN n ELSE Len(s))
ModelReasons(c, r, st) ==
  IF r.out # "ok" THEN {}
  ELSE IF r.stop = "trace" THEN {}
  ELSE IF r.stop = "none" THEN
    (IF r.ids = st.out THEN {} ELSE {"ids"})
    \cup (IF r.err = (IF st.err THEN "dserr" ELSE "nil") THEN {} ELSE {"err"})
    \cup (IF r.after = "false" /\ r.endf THEN {} ELSE {"after"})
    \cup (IF r.gone THEN {} ELSE {"gone"})
    \cup (IF r.comp = CompletedOf(st) THEN {} ELSE {"completed"})
  ELSE
    (IF r.ids = Prefix(st.out, r.k) THEN {} ELSE {"ids"})
    \cup (IF r.endf = (r.k > Len(st.out)) THEN {} ELSE {"endfalse"})
    \cup (IF r.err = "canceled" \/ (r.err = "dserr" /\ st.err) THEN {} ELSE {"err"})

SeqToSet(s) == {s[i] : i \in 1 .. Len(s)}
Verdict(ln) ==
  LET c  == ln.case
      st == RunSt(c.hist, SeqToSet(c.bad), c.req)
      n  == Len(ln.got)
      adj  == Adj(c.hist)
      acyc == AcyclicA(adj)
      J  == {j \in 1 .. n : JudgeReasons(c, ln.got[j], adj, acyc) # {}}
      D  == {j \in 1 .. n : ModelReasons(c, ln.got[j], st) # {}}
      jm == CHOOSE j \in J : \A k \in J : j <= k
      dm == CHOOSE j \in D : \A k \in D : j <= k
  IN IF Len(ln.got) # Len(c.plans) THEN <<"DIV", 0, {"plans"}>>
     ELSE IF J # {} THEN <<"JUDGE", jm, JudgeReasons(c, ln.got[jm], adj, acyc)>>
     ELSE IF D # {} THEN <<"DIV", dm, ModelReasons(c, ln.got[dm], st)>>
     ELSE <<"OK", 0, {}>>

\* no defect is known on the pinned tree; kf stays empty
ASSUME \A i \in 1 .. Len(Lines) :
          LET v == Verdict(Lines[i]) IN
          v[1] = "OK" \/ PrintT(<<"BAD", ToJson([i |-> i, why |-> v, kf |-> {}])>>)
ASSUME PrintT(<<"JUDGED", Len(Lines)>>)
JNext == UNCHANGED vars
=============================================================================
