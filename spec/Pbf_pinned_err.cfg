CONSTANT Configs <- CfgsPinnedErr
INIT Init
NEXT Next
VIEW View
INVARIANTS ErrPrecedenceInv
CHECK_DEADLOCK FALSE
