------------------------- MODULE PolygonRulesGen -------------------------
EXTENDS PolygonRules, IOUtils
ASSUME ndJsonSerialize(IOEnv.OUT, SetToSeq(Cases))
=============================================================================
