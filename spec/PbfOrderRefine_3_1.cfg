CONSTANTS
  RN = 3
  RCap = 1
  RBlocks = 5
  Configs <- RConfigs
INIT Init
NEXT Next
VIEW RView
INVARIANTS TypeOK OrderInv CoreIndInv
PROPERTIES RefinesCore
CHECK_DEADLOCK FALSE
