----------------------------- MODULE OsmCoreGen -----------------------------
(* X01 call sequences for the real code.  The generating machine is the Model *)
(* of OsmCore itself; what is written out (one JSON line per sequence, file   *)
(* IOEnv.OUT) is the sequence of calls only - plus the parameter domains of   *)
(* the queries - never the Model's state or its query results.                *)
(*   Mode = "all"  : breadth-first search, every call sequence of length      *)
(*                   SeqLen over the (tiny) constants of the cfg file         *)
(*   Mode = "walk" : tlc -simulate, one random sequence per behaviour; the    *)
(*                   initial state picks one of Plans (mix of calls, length)  *)
EXTENDS OsmCore, IOUtils, Json, CSV

CONSTANTS Mode, SeqLen
VARIABLES ops, plan
gvars == <<vars, ops, plan>>

\* cumulative weights (of 100) of: new append, same pointer again, sort, docds, chgds, tagadd, tagsort, refadd
Profiles == [ mixed      |-> <<38, 48, 62, 70, 78, 87, 91, 100>>,
              containers |-> <<50, 62, 84, 100, 100, 100, 100, 100>>,
              change     |-> <<50, 66, 76, 82, 100, 100, 100, 100>>,
              tags       |-> <<0, 0, 0, 0, 0, 75, 100, 100>>,
              refs       |-> <<0, 0, 0, 0, 0, 0, 0, 100>> ]
\* the walks: call mix and length; PlanBag says how often each is taken (an index into it is the initial choice)
Plans == << [p |-> "mixed", len |-> 8], [p |-> "mixed", len |-> 12], [p |-> "containers", len |-> 10],
            [p |-> "change", len |-> 10], [p |-> "tags", len |-> 8], [p |-> "refs", len |-> 6] >>
PlanBag == <<1, 1, 1, 1, 1, 1, 1, 1, 1, 1, 1, 1, 1, 1, 1,  2, 2, 2, 2,  3, 3, 3, 3, 3, 3, 3, 3, 3,  4, 4, 4, 4, 4, 4, 4, 4, 4,
             5, 5, 5, 5, 5,  6, 6, 6, 6>>
ThePlan == Plans[PlanBag[plan]]
W == Profiles[ThePlan.p]
TargetLen == IF Mode = "all" THEN SeqLen ELSE ThePlan.len

NewOp(t, k, i, v, b) == [op |-> "append", to |-> t, s |-> Len(heap) + 1, k |-> k, id |-> (IF k = "bounds" THEN 0 ELSE i),
                         v |-> (IF IsElem(k) THEN v ELSE 0), vis |-> (IF IsElem(k) THEN b ELSE FALSE)]
ReOp(t, s) == [op |-> "append", to |-> t, s |-> s, k |-> heap[s].k, id |-> heap[s].id, v |-> heap[s].v, vis |-> heap[s].vis]

\* elements are appended more often than the other kinds
KindBag == SelectSeq(<<"node", "node", "node", "way", "way", "way", "relation", "relation", "changeset", "note", "user", "bounds">>,
                     LAMBDA k : k \in Kinds)
TargetBag == SelectSeq(<<"doc", "doc", "doc", "create", "modify", "delete">>, LAMBDA t : t \in Targets)
\* one random call; every random choice is bound once by a singleton quantifier.  Half of the new elements are another
\* version of the feature appended last (histories with several versions, appended in any order), half of the sorts sort
\* the kind appended last; most appends go where the previous one went and most sorts sort a slice of two or more elements
SortCands == {ck \in Targets \X (ElemKindSet \cap Kinds) : ~Cont(ck[1]).nil /\ Len(Cont(ck[1])[ck[2]]) >= 2}
Walk ==
  \E c \in {RandomElement(1 .. 100)} : \E t \in {TargetBag[RandomElement(1 .. Len(TargetBag))]} : \E k0 \in {KindBag[RandomElement(1 .. Len(KindBag))]} :
  \E i0 \in {RandomElement(Ids)} : \E v \in {RandomElement(Vers)} : \E b \in {RandomElement(VisVals)} :
  \E s \in {RandomElement(1 .. Len(heap) + 1)} : \E ek0 \in {RandomElement(ElemKindSet \cap Kinds)} :
  \E again \in {RandomElement(BOOLEAN)} : \E same \in {RandomElement(1 .. 10)} :
  \E sc \in {IF SortCands = {} THEN <<"none", "none">> ELSE RandomElement(SortCands)} :
  \E tk \in {RandomElement(TagKeys)} : \E tv \in {RandomElement(TagVals)} :
  \E rk \in {RandomElement(RefKinds)} : \E rv \in {RandomElement(RefVers)} :
  \E la \in {RandomElement(Coords)} : \E lo \in {RandomElement(Coords)} :
    LET lastElem == heap # << >> /\ IsElem(heap[Len(heap)].k) /\ heap[Len(heap)].k \in Kinds
        k  == IF again /\ lastElem THEN heap[Len(heap)].k ELSE k0
        i  == IF again /\ lastElem THEN heap[Len(heap)].id ELSE i0
        ek == IF again /\ lastElem THEN heap[Len(heap)].k ELSE ek0
        tt == IF same <= 6 /\ last.op = "append" THEN last.to ELSE t
        new == NewOp(tt, k, i, v, b)
        o == IF c <= W[1] THEN new
             ELSE IF c <= W[2] THEN (IF s <= Len(heap) THEN ReOp(tt, s) ELSE new)
             ELSE IF c <= W[3] THEN (IF same <= 8 /\ sc[1] # "none" THEN [op |-> "sort", to |-> sc[1], k |-> sc[2]]
                                     ELSE IF Cont(t).nil THEN new ELSE [op |-> "sort", to |-> t, k |-> ek])
             ELSE IF c <= W[4] THEN [op |-> "docds"]
             ELSE IF c <= W[5] THEN [op |-> "chgds"]
             ELSE IF c <= W[6] THEN [op |-> "tagadd", key |-> tk, val |-> tv]
             ELSE IF c <= W[7] THEN [op |-> "tagsort"]
             ELSE [op |-> "refadd", k |-> rk, id |-> i0, v |-> rv, lat |-> la, lon |-> lo]
    IN Do(o) /\ ops' = Append(ops, o)

GInit == Init /\ ops = << >> /\ plan \in (IF Mode = "all" THEN {0} ELSE 1 .. Len(PlanBag))
GNext == /\ Len(ops) < TargetLen
         /\ (IF Mode = "all" THEN Next /\ ops' = Append(ops, last') ELSE Walk)
         /\ UNCHANGED plan
GSpec == GInit /\ [][GNext]_gvars

Family == IF Mode = "all" THEN "all" ELSE ThePlan.p
CaseRec == [ops |-> ops, fam |-> Family, qkeys |-> AllTagKeys, qids |-> SortedQIds, grid |-> GridVals]
Emit == Len(ops) = TargetLen => CSVWrite("%1$s", <<ToJson(CaseRec)>>, IOEnv.OUT)
=============================================================================
