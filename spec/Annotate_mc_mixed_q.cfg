CONSTANTS
  NK = 1
  MaxV <- V3
  MaxP = 2
  MaxT = 3
  MaxDt = 2
  CsSet = {1, 2}
  ParentCsFree = FALSE
  RefLists <- RefsSingle
  SameTimeParents = FALSE
  RefsMustExist = TRUE
  OptSet <- OptsMixed1
  PinnedSort = FALSE
INIT Init
NEXT Next
INVARIANTS TypeOK JudgesHold SortedInv Deterministic PartialInv
CHECK_DEADLOCK FALSE
