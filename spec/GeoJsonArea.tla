---------------------------- MODULE GeoJsonArea ----------------------------
(* C17 - the area rules repeated in GeoJson.tla are those of PolygonRules.tla (C18):  *)
(* same table, and the same verdict on every way shape and tag list of the input      *)
(* space.  Run by the check next to everything else (PolygonRules is only read).      *)
EXTENDS GeoJsonSpace
PR == INSTANCE PolygonRules WITH FullPairs <- FALSE, case <- 0
ASSUME AreaTable = PR!Table
ASSUME \A tags \in WayTagMenu \cup NodeTagMenu \cup RelExtraMenu \cup {<< <<"type", "route">>, <<"area", "yes">> >>} :
          /\ \A n \in 0 .. 6 : \A cl \in BOOLEAN : WayIsArea(n, cl, tags) = PR!WayIsArea(n, cl, tags)
          /\ \A key \in DOMAIN AreaTable \cup {"area", "name", "type", "source"} : TagVal(tags, key) = PR!ValueOf(tags, key)
ASSUME \A k \in DOMAIN AreaTable : \A v \in AreaTable[k].vals \cup {"yes", "no", "", "zzz"} : AreaPasses(k, v) = PR!Passes(k, v)
ASSUME PrintT(<<"AREA-RULES-IDENTICAL", Cardinality(DOMAIN AreaTable)>>)
VARIABLE a
AInit == a = 0
ANext == UNCHANGED a
=============================================================================
