\* random draws only; run with different -seed values
CONSTANTS
  HMax = 0
  SingleKinds = {}
  BothVis = FALSE
  PairVers = {}
  NRandom = 12500
  BuildMax = 0
  BuildIds = {}
  WithFamilies = FALSE
  StaticInit = TRUE
INIT GInit
NEXT GNext
CHECK_DEADLOCK FALSE
