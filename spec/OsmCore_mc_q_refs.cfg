\* Members / WayNodes: annotated and bare references, coordinates on both sides of zero
CONSTANTS
  Ids = {1, 2}
  Vers = {1}
  Kinds = {}
  Targets = {}
  VisVals = {}
  Families = {"refadd"}
  MaxOps = 2
  TagKeys = {}
  TagVals = {}
  RefKinds = {"node", "way", "relation"}
  RefVers = {0, 1}
  Coords <- CoordsAll
SPECIFICATION Spec
INVARIANTS JudgeQueriesHold RefsOK
PROPERTIES JudgeStepsHold Frame
CHECK_DEADLOCK FALSE
