------------------------ MODULE ReplicationSearchGen ------------------------
(* Case generation for C19: one record per (directory, kind) with the files  *)
(* of the test server rendered in the planet layout (paths, bodies) and all   *)
(* query times; the harness runs every query against the served directory.   *)
EXTENDS MC_ReplicationSearch, IOUtils, Json, SequencesExt
CONSTANTS Seed,          \* varies which kind / rendering profile a directory gets
          AllKinds,      \* TRUE: every directory with all (fitting) kinds of OnlyKinds; FALSE: one kind per directory
          OnlyKinds      \* with AllKinds: restricts the kinds (lets the driver split the generation over processes)

KindSeq == <<"minute", "hour", "day", "changesets">>
Hash(d) == d.cur + 3 * d.first + 5 * Cardinality(d.present) + Seed
\* TLC integers are 32 bit: a kind is used only where its timestamps stay below 2038 (these limits are beyond
\* today's sequence numbers on the planet server: day ~ 4 500, hour ~ 110 000, minute and changesets ~ 6 500 000)
MaxCur(kind) == CASE kind = "day" -> 8000 [] kind = "hour" -> 200000 [] OTHER -> 10000000
Fitting(d)   == SelectSeq(KindSeq, LAMBDA k : d.cur <= MaxCur(k))
KindsFor(d)  == IF AllKinds THEN {k \in OnlyKinds : d.cur <= MaxCur(k)}
                ELSE {Fitting(d)[(Hash(d) % Len(Fitting(d))) + 1]}
Render(d, kind) == LET h == Hash(d) + Len(kind) IN
  [kind |-> kind, skew |-> (h \div 2) % 2, style |-> (h \div 4) % 2,
   prefix |-> IF (h \div 8) % 3 = 0 THEN "/mirror/planet" ELSE ""]

\* query times: all of them for small directories, SelectedQueries for long ones (FullQueries is small here)
QueriesFor(d) == QueriesOf(d, FullQueries)

QueryRec(r, q) == [q |-> q, sec |-> Sec(r.kind, r.skew, q), nsec |-> Nsec(r.kind, q)]
GenRec(d, kind) == LET r == Render(d, kind)   c == CaseOf(d, 0, NoDevs) IN
  [kind |-> r.kind, skew |-> r.skew, style |-> r.style, prefix |-> r.prefix,
   present |-> SetToSeq(d.present), first |-> d.first, cur |-> d.cur,
   bound |-> c.bound, cap |-> Cap(c),
   current |-> CurrentFile(r, c),
   files |-> [i \in 1 .. Cardinality(d.present) |-> FileOf(r, SetToSeq(d.present)[i])],
   queries |-> SetToSeq({QueryRec(r, q) : q \in QueriesFor(d)})]
GenRecs == UNION {{GenRec(d, kind) : kind \in KindsFor(d)} : d \in MCDirs}
ASSUME ndJsonSerialize(IOEnv.OUT, SetToSeq(GenRecs))
GInit == cs = 0 /\ st = 0
GNext == UNCHANGED vars
=============================================================================
